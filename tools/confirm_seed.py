#!/usr/bin/env python3
"""confirm_seed.py <prop> <k> [extra props to run]  — confirm a sub-agent's seeded change from /tmp/seedout/<prop>/<k>/ in the
scratch worktree /tmp/wt/scratch (a worktree of /repo HEAD): (a) touched packages build and their unedited tests pass with the
change, (b) demo fails with the change, (c) demo passes without it; then run the quick checks of /verif against /repo with the
patch applied (and undo). Stores everything under /verif/seeded/<prop>-<k>/ with meta.json."""
import subprocess, sys, os, json, shutil, re
prop, k = sys.argv[1], sys.argv[2]
props = [prop] + [a for a in sys.argv[3:] if not a.startswith('--')]
rnd = ''
for a in sys.argv:
    m = re.match(r'--(r\d+)$', a)
    if m: rnd = m.group(1) + '-'
src = '/tmp/seedout/%s%s/%s' % (rnd, prop, k)
wt = '/tmp/wt/scratch'
env = dict(os.environ, GOFLAGS='-mod=mod', GOPROXY='off', GOSUMDB='off', GOTOOLCHAIN='local'); env.pop('GOWORK', None)
env['GZV_EVIDENCE_DIR'] = '/tmp/gzv-evidence-scratch'
def run(cmd, cwd=wt, timeout=1500):
    r = subprocess.run(cmd, cwd=cwd, env=env, capture_output=True, text=True, shell=isinstance(cmd, str), timeout=timeout)
    return r.returncode, (r.stdout + r.stderr)
def clean():
    run('git checkout -q -- . && git clean -fdq')
if not os.path.isdir(wt):
    rc, out = run(['git', 'worktree', 'add', '-q', '--detach', wt, 'HEAD'], cwd='/repo'); print(out)
run(['git', 'checkout', '-q', '--detach', subprocess.check_output(['git', 'rev-parse', 'HEAD'], cwd='/repo', text=True).strip()])
clean()
patch = os.path.join(src, 'patch.diff')
rc, out = run(['git', 'apply', '--check', patch])
if rc != 0:
    print('PATCH DOES NOT APPLY to current /repo HEAD:', out); sys.exit(2)
files = [l[6:].strip() for l in open(patch) if l.startswith('+++ b/')]
pkgs = sorted({'./' + os.path.dirname(f) + '/' for f in files if f.endswith('.go')} | {'./' + os.path.dirname(f) + '/' for f in files if f.endswith('.lua')})
goctl = any(f.startswith('tools/goctl/') for f in files)
demos = []
for root, _, fs in os.walk(os.path.join(src, 'demo')):
    for f in fs:
        demos.append(os.path.relpath(os.path.join(root, f), os.path.join(src, 'demo')))
demo_pkgs = sorted({'./' + os.path.dirname(d) + '/' for d in demos})
GOCTL_MOD = '/tmp/wt/scratch.alt.mod'
if goctl:
    open(GOCTL_MOD, 'w').write(open('/verif/standins/goctl.alt.mod').read().replace('=> /repo', '=> ' + wt))
    shutil.copy('/verif/standins/goctl.alt.sum', '/tmp/wt/scratch.alt.sum')
def modcwd(p):
    return (wt + '/tools/goctl', './' + p[len('./tools/goctl/'):]) if p.startswith('./tools/goctl/') else (wt, p)
def modflag(p):
    return ['-modfile=' + GOCTL_MOD] if p.startswith('./tools/goctl/') else []
res = {}
# (a) with change: build + existing tests
run(['git', 'apply', patch])
rc, out = run(('go build -modfile=%s ./pkg/parser/api/... 2>&1 | tail -5' % GOCTL_MOD) if goctl else 'go build ./... 2>&1 | tail -5', cwd=wt + ('/tools/goctl' if goctl else ''))
res['build_with_change'] = 'ok' if 'error' not in out and rc == 0 and not out.strip() else out[-300:]
test_pkgs = sorted(set(pkgs) | set(demo_pkgs))
ok = True; tout = ''
for p in test_pkgs:
    cwd, pp = modcwd(p)
    for attempt in range(3):  # fixed-port tests (devserver :6060) collide with other test runs on this machine: retry
        rc, out = run(['go', 'test'] + modflag(p) + ['-count=1', '-timeout', '20m', pp], cwd=cwd)
        if rc == 0: break
    tout += out[-400:]
    if rc != 0: ok = False
res['existing_tests_with_change'] = 'PASS' if ok else 'FAIL: ' + tout[-600:]
# (b) demo with change
for d in demos:
    os.makedirs(os.path.dirname(os.path.join(wt, d)), exist_ok=True)
    shutil.copy(os.path.join(src, 'demo', d), os.path.join(wt, d))
def rundemo():
    ok = True; o = ''
    for p in demo_pkgs:
        cwd, pp = modcwd(p)
        names = []
        for d in demos:
            if './' + os.path.dirname(d) + '/' == p and d.endswith('_test.go'):
                names += re.findall(r'^func (Test\w+)\(', open(os.path.join(src, 'demo', d)).read(), re.M)
        if not names:
            rc, out = run(['go', 'run'] + modflag(p) + [pp], cwd=cwd)
        else:
            rc, out = run(['go', 'test'] + modflag(p) + ['-count=1', '-timeout', '10m', '-run', '^(' + '|'.join(names) + ')$', pp], cwd=cwd)
        o += out[-500:]
        if rc != 0: ok = False
    return ok, o
okb, outb = rundemo()
res['demo_with_change'] = 'FAIL (as required)' if not okb else 'PASS (demo does not detect the change!)'
res['demo_with_change_output'] = outb[-500:]
# (c) demo without change
run(['git', 'apply', '-R', patch])
okc, outc = rundemo()
res['demo_without_change'] = 'PASS (as required)' if okc else 'FAIL: ' + outc[-500:]
clean()
confirmed = ok and (not okb) and okc and res['build_with_change'] == 'ok'
res['confirmed'] = confirmed
# run my checks against /repo with the patch
checks = {}
if subprocess.run(['git', 'diff', '--quiet'], cwd='/repo').returncode != 0:
    print('/repo dirty'); sys.exit(2)
subprocess.run(['git', 'apply', patch], cwd='/repo', check=True)
try:
    for p in props:
        r = subprocess.run(['bin/gzverify', '-prop', p, '-tier', 'quick'], cwd='/verif', env=env, capture_output=True, text=True)
        lines = [l for l in r.stdout.splitlines() if not l.startswith('    ') and ('violated' in l or 'undecided' in l)]
        checks[p] = {'exit': r.returncode, 'reports': [l[:500] for l in lines[:4]]}
finally:
    subprocess.run('git checkout -q -- . && git clean -fdq', cwd='/repo', shell=True)
res['checks'] = checks
caught = any(v['exit'] == 1 for v in checks.values())
res['caught'] = caught
notes = open(os.path.join(src, 'notes.md')).read() if os.path.exists(os.path.join(src, 'notes.md')) else ''
print(json.dumps({k: v for k, v in res.items() if k != 'demo_with_change_output'}, indent=1)[:2500])
if confirmed:
    dst = '/verif/seeded/%s%s-%s' % (rnd, prop, k)
    if os.path.isdir(dst): shutil.rmtree(dst)
    os.makedirs(dst)
    shutil.copy(patch, dst + '/patch.diff')
    shutil.copytree(os.path.join(src, 'demo'), dst + '/demo')
    if notes: open(dst + '/notes.md', 'w').write(notes)
    meta = {'property': prop, 'source': 'independent sub-agent given only the property text and a scratch worktree',
            'files_changed': files, 'demo_files': demos,
            'needs_to_manifest': '(see notes.md)', 'ran': {'with_change: go build ./... ; go test ' + ' '.join(test_pkgs): res['existing_tests_with_change'],
            'demo with change': res['demo_with_change'], 'demo without change': res['demo_without_change']},
            'checks_against_patched_repo': checks, 'caught_by_checks': caught, 'first_contact': {'caught': caught, 'reports': [l for v in checks.values() for l in v['reports']][:2], 'verif_head': subprocess.check_output(['git', 'rev-parse', '--short', 'HEAD'], cwd='/verif', text=True).strip()}, 'repo_head': subprocess.check_output(['git', 'rev-parse', '--short', 'HEAD'], cwd='/repo', text=True).strip()}
    json.dump(meta, open(dst + '/meta.json', 'w'), indent=1)
    print('stored', dst, 'caught=%s' % caught)
else:
    print('NOT CONFIRMED')
