#!/usr/bin/env python3
"""sweep.py — development tool (measures the checker, decides nothing).

Phase gen : first-order syntactic mutants of the files the properties are anchored in (bin/gzmutate + a few Lua text mutants).
Phase chk : every mutant applied IN MEMORY to the checker (bin/gzverify -sweep), in parallel chunks.
Phase test: every mutant the checker did not report is applied on disk in a scratch worktree under /tmp/wt/sw-<n> and the
            unedited tests of its package (and of its main dependents) are run; a mutant that compiles and passes is a
            candidate for triage: either behaviour-preserving / outside the property, or a gap of the rule set.
Usage: sweep.py gen|chk|test|report [--files f1,f2] [--work /tmp/sweep]
"""
import json, os, re, subprocess, sys, glob, collections, concurrent.futures as cf, shutil, time

WORK = '/tmp/sweep'
for i, a in enumerate(sys.argv):
    if a == '--work': WORK = sys.argv[i + 1]
os.makedirs(WORK, exist_ok=True)
env = dict(os.environ, GOFLAGS='-mod=mod', GOPROXY='off', GOSUMDB='off', GOTOOLCHAIN='local')
env.pop('GOWORK', None)
env['GZV_EVIDENCE_DIR'] = '/tmp/gzv-evidence-scratch'
BASE = '/tmp/wt/sweep-base'  # pristine worktree of /repo HEAD: /repo itself is patched and restored by other tools while a sweep runs
env['GZV_REPO'] = BASE
SKIP = {'core/stores/redis/redis.go', 'core/stores/kv/store.go', 'tools/goctl/pkg/parser/api/token/token.go', 'core/lang/lang.go',
        'core/collection/set.go', 'core/discov/publisher.go', 'core/stat/usage.go', 'core/timex/ticker.go', 'core/codec/rsa.go'}
DEPS = {
    'core/collection': ['core/breaker', 'core/load', 'core/stores/cache'],
    'core/syncx': ['core/stores/cache', 'core/collection', 'core/threading', 'core/stores/sqlc'],
    'core/mapping': ['core/conf', 'rest/httpx', 'rest/internal/encoding'],
    'core/breaker': ['rest/handler', 'zrpc/internal/clientinterceptors', 'zrpc/internal/serverinterceptors'],
    'core/search': ['rest/router'],
    'core/hash': ['core/stores/cache'],
    'core/mathx': ['core/breaker', 'core/stores/cache'],
    'internal/encoding': ['core/conf', 'core/mapping'],
    'core/jsonx': ['core/mapping', 'core/conf'],
    'core/executors': ['core/stat', 'core/stores/sqlx'],
    'core/stores/cache': ['core/stores/sqlc', 'core/stores/monc'],
    'core/stores/sqlx': ['core/stores/sqlc'],
    'rest/handler': ['rest'],
    'rest/router': ['rest'],
    'rest/token': ['rest/handler'],
    'rest/internal/security': ['rest/handler'],
    'core/codec': ['rest/handler', 'rest/internal/security'],
    'core/discov/internal': ['core/discov'],
    'core/discov': ['zrpc/resolver/internal'],
    'core/load': ['rest/handler', 'zrpc/internal/serverinterceptors'],
    'core/fx': ['core/stores/sqlc'],
    'core/stringx': ['core/stores/redis'],
    'core/threading': ['core/executors'],
}

def filemap():
    m = collections.defaultdict(set)
    for l in open('/verif/properties.jsonl'):
        p = json.loads(l)
        for f in p['anchors']['files']: m[f].add(p['id'])
    for d in glob.glob('/verif/seeded/*/meta.json'):
        j = json.load(open(d))
        for f in j.get('files_changed', []): m[f].add(j['property'])
    return {f: sorted(v) for f, v in m.items() if f not in SKIP and os.path.isfile(BASE + '/' + f)}

def lua_mutants(rel, props):
    src = open(BASE + '/' + rel).read()
    out = []
    n = 0
    def add(s, e, new, kind):
        nonlocal n
        n += 1
        out.append(dict(id='%s#%d' % (rel, n), file=rel, start=s, end=e, new=new, kind=kind, func=os.path.basename(rel),
                        line=src.count('\n', 0, s) + 1, old=src[s:e], props=props))
    for m in re.finditer(r'==|~=|>=|<=|<|>', src):
        op = m.group(0)
        for new in {'==': ['~='], '~=': ['=='], '>=': ['>', '<'], '<=': ['<', '>'], '<': ['<=', '>='], '>': ['>=', '<=']}[op]:
            add(m.start(), m.end(), new, 'lua-rel')
    for m in re.finditer(r'(?<![\w\[])\d+(?![\w\]])', src):
        v = int(m.group(0))
        add(m.start(), m.end(), str(v + 1), 'lua-const')
        if v > 0: add(m.start(), m.end(), str(v - 1), 'lua-const')
    for m in re.finditer(r'\[(\d)\]', src):
        v = int(m.group(1))
        add(m.start(1), m.end(1), str(v + 1), 'lua-index')
        if v > 1: add(m.start(1), m.end(1), str(v - 1), 'lua-index')
    for m in re.finditer(r'^[ \t]*redis\.call\([^\n]*\)\s*$', src, re.M):
        add(m.start(), m.end(), '', 'lua-del-call')
    for m in re.finditer(r'math\.(min|max|ceil|floor)', src):
        new = {'min': 'max', 'max': 'min', 'ceil': 'floor', 'floor': 'ceil'}[m.group(1)]
        add(m.start(1), m.end(1), new, 'lua-fn')
    for m in re.finditer(r'"(NX|PX|EX|SETEX|SET|GET|DEL|INCRBY|EXPIRE|OK)"', src):
        alt = {'NX': 'XX', 'PX': 'EX', 'EX': 'PX', 'SETEX': 'SET', 'GET': 'GETDEL', 'DEL': 'UNLINK', 'INCRBY': 'DECRBY', 'EXPIRE': 'PEXPIRE', 'OK': 'ok', 'SET': 'SETNX'}[m.group(1)]
        add(m.start(1), m.end(1), alt, 'lua-word')
    for m in re.finditer(r' [-+*/] ', src):
        op = m.group(0).strip()
        add(m.start() + 1, m.end() - 1, {'+': '-', '-': '+', '*': '/', '/': '*'}[op], 'lua-arith')
    return out

def gen():
    fm = filemap()
    only = None
    for i, a in enumerate(sys.argv):
        if a == '--files': only = set(sys.argv[i + 1].split(','))
    files = sorted(f for f in fm if only is None or f in only)
    gofiles = [f for f in files if f.endswith('.go')]
    r = subprocess.run(['/verif/bin/gzmutate', '-repo', BASE] + gofiles, capture_output=True, text=True, check=True)
    ms = json.loads(r.stdout)
    for m in ms: m['props'] = fm[m['file']]
    for f in files:
        if f.endswith('.lua'): ms += lua_mutants(f, fm[f])
    json.dump(ms, open(WORK + '/mutants.json', 'w'), indent=1)
    print(len(ms), 'mutants in', len(files), 'files')

def chk():
    ms = json.load(open(WORK + '/mutants.json'))
    n = len(ms); chunk = 40
    jobs = [(i, min(i + chunk, n)) for i in range(0, n, chunk)]
    def run(j):
        a, b = j
        out = '%s/chk-%06d.json' % (WORK, a)
        if os.path.exists(out): return out
        r = subprocess.run(['/verif/bin/gzverify', '-sweep', WORK + '/mutants.json', '-sweep-out', out + '.tmp', '-from', str(a), '-to', str(b)],
                           cwd='/verif', env=dict(env, GOMAXPROCS='4'), capture_output=True, text=True)
        if r.returncode != 0 or not os.path.exists(out + '.tmp'):
            print('chunk', a, 'failed:', r.stdout[-300:], r.stderr[-300:]); return None
        os.rename(out + '.tmp', out)
        return out
    t0 = time.time()
    with cf.ThreadPoolExecutor(8) as ex:
        for k, o in enumerate(ex.map(run, jobs)):
            if k % 10 == 0: print('chk chunk', k, '/', len(jobs), int(time.time() - t0), 's', flush=True)
    res = []
    for a, b in jobs:
        res += json.load(open('%s/chk-%06d.json' % (WORK, a)))
    byid = {m['id']: m for m in ms}
    for r in res:
        byid[r['id']].update(killed=r.get('killed', False), killed_by=r.get('killed_by', ''), type_err=r.get('type_err', False))
    json.dump(ms, open(WORK + '/mutants.chk.json', 'w'), indent=1)
    k = sum(1 for m in ms if m.get('killed')); te = sum(1 for m in ms if m.get('type_err'))
    print('checker: %d mutants, %d reported (%d of them type errors), %d silent' % (len(ms), k, te, len(ms) - k))

def test():
    ms = json.load(open(WORK + '/mutants.chk.json'))
    todo = [m for m in ms if not m.get('killed')]
    NW = 14
    head = subprocess.check_output(['git', 'rev-parse', 'HEAD'], cwd='/repo', text=True).strip()
    for w in range(NW):
        wt = '/tmp/wt/sw-%d' % w
        if not os.path.isdir(wt):
            subprocess.run(['git', '-C', '/repo', 'worktree', 'add', '-q', '--detach', wt, head], check=True)
        subprocess.run('git checkout -q --detach %s && git checkout -q -- . && git clean -fdq' % head, cwd=wt, shell=True)
        open(wt + '.alt.mod', 'w').write(open('/verif/standins/goctl.alt.mod').read().replace('=> /repo', '=> ' + wt))
        shutil.copy('/verif/standins/goctl.alt.sum', wt + '.alt.sum')
    done = {}
    resf = WORK + '/test-results.jsonl'
    if os.path.exists(resf):
        for l in open(resf):
            j = json.loads(l); done[j['id']] = j
    todo = [m for m in todo if m['id'] not in done]
    print('to test:', len(todo), flush=True)
    import queue, threading
    q = queue.Queue()
    for m in todo: q.put(m)
    lock = threading.Lock()
    fout = open(resf, 'a')
    def worker(w):
        wt = '/tmp/wt/sw-%d' % w
        while True:
            try: m = q.get_nowait()
            except queue.Empty: return
            path = os.path.join(wt, m['file'])
            src = open(path, 'rb').read()
            try:
                open(path, 'wb').write(src[:m['start']] + m['new'].encode() + src[m['end']:])
                d = os.path.dirname(m['file'])
                if d.startswith('tools/goctl/'):
                    cwd = wt + '/tools/goctl'; pk = ['./pkg/parser/api/...']; mf = ['-modfile=' + wt + '.alt.mod']
                else:
                    cwd = wt; pk = ['./' + d + '/'] + ['./' + x + '/' for x in DEPS.get(d, [])]; mf = []
                t0 = time.time()
                try:
                    r = subprocess.run(['go', 'test'] + mf + ['-vet=off', '-count=1', '-timeout', '150s', '-skip', 'TestRedisMetric|TestSqlxMetric'] + pk, cwd=cwd, env=env, capture_output=True, text=True, timeout=400)
                    out = r.stdout + r.stderr
                    if r.returncode == 0: st = 'pass'
                    elif '[build failed]' in out or 'setup failed' in out: st = 'build'
                    else: st = 'fail'
                except subprocess.TimeoutExpired:
                    st = 'timeout'; out = ''
                res = dict(id=m['id'], status=st, secs=round(time.time() - t0, 1), tail=('' if st == 'pass' else out[-300:]))
            finally:
                open(path, 'wb').write(src)
            with lock:
                fout.write(json.dumps(res) + '\n'); fout.flush()
    ths = [threading.Thread(target=worker, args=(w,)) for w in range(NW)]
    for t in ths: t.start()
    while any(t.is_alive() for t in ths):
        time.sleep(60); print('remaining', q.qsize(), flush=True)
    for t in ths: t.join()

def report():
    ms = json.load(open(WORK + '/mutants.chk.json'))
    tr = {}
    if os.path.exists(WORK + '/test-results.jsonl'):
        for l in open(WORK + '/test-results.jsonl'):
            j = json.loads(l); tr[j['id']] = j
    tot = len(ms); killed = [m for m in ms if m.get('killed')]
    silent = [m for m in ms if not m.get('killed')]
    st = collections.Counter(tr.get(m['id'], {}).get('status', 'untested') for m in silent)
    print('mutants %d; checker reports %d; silent %d: %s' % (tot, len(killed), len(silent), dict(st)))
    surv = [m for m in silent if tr.get(m['id'], {}).get('status') == 'pass']
    byf = collections.defaultdict(list)
    for m in surv: byf[(m['file'], m['func'])].append(m)
    with open(WORK + '/survivors.txt', 'w') as f:
        for (fl, fn), l in sorted(byf.items()):
            f.write('## %s %s  (%d)\n' % (fl, fn, len(l)))
            for m in l:
                f.write('  %s L%d %s: `%s` -> `%s`\n' % (m['id'], m['line'], m['kind'], m['old'].replace('\n', ' ')[:70], m['new'].replace('\n', ' ')[:70]))
    print('survivors of both (compile, tests pass, checker silent):', len(surv), '->', WORK + '/survivors.txt')
    # per file summary
    perfile = collections.defaultdict(lambda: [0, 0, 0])
    for m in ms:
        pf = perfile[m['file']]; pf[0] += 1
        if m.get('killed'): pf[1] += 1
        elif tr.get(m['id'], {}).get('status') == 'pass': pf[2] += 1
    for f, (a, b, c) in sorted(perfile.items()):
        print('%-60s mutants %4d  checker %4d  survive-both %4d' % (f, a, b, c))

{'gen': gen, 'chk': chk, 'test': test, 'report': report}[sys.argv[1]]()
