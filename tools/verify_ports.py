#!/usr/bin/env python3
"""verify_ports.py — a ported seed must still be a seed: in a scratch worktree at /repo HEAD the demo fails with the ported patch and
passes without it, and the touched packages build. A port that fails this is undone (patch.orig.diff restored)."""
import subprocess, os, glob, json, shutil, re, sys
env = dict(os.environ, GOFLAGS='-mod=mod', GOPROXY='off', GOSUMDB='off', GOTOOLCHAIN='local'); env.pop('GOWORK', None)
wt = '/tmp/wt/scratch'
head = subprocess.check_output(['git', 'rev-parse', 'HEAD'], cwd='/repo', text=True).strip()
if not os.path.isdir(wt):
    subprocess.run(['git', 'worktree', 'add', '-q', '--detach', wt, head], cwd='/repo', check=True)
def run(cmd, cwd=wt, timeout=900):
    r = subprocess.run(cmd, cwd=cwd, env=env, capture_output=True, text=True, shell=isinstance(cmd, str), timeout=timeout)
    return r.returncode, r.stdout + r.stderr
run(['git', 'checkout', '-q', '--detach', head]); run('git checkout -q -- . && git clean -fdq')
only = sys.argv[1:]
for d in sorted(glob.glob('/verif/seeded/*/')):
    sid = os.path.basename(d.rstrip('/'))
    if not os.path.exists(d + 'patch.orig.diff') or (only and sid not in only):
        continue
    m = json.load(open(d + 'meta.json'))
    if m.get('port_verified') == head[:7]:
        continue
    demos = []
    for root, _, fs in os.walk(d + 'demo'):
        for f in fs:
            demos.append(os.path.relpath(os.path.join(root, f), d + 'demo'))
    goctl = any(x.startswith('tools/goctl/') for x in demos)
    if goctl:
        print(sid, 'goctl seed: not verified here'); continue
    def rundemo():
        ok = True; out = ''
        for pkg in sorted({'./' + os.path.dirname(x) + '/' for x in demos}):
            names = []
            for x in demos:
                if './' + os.path.dirname(x) + '/' == pkg and x.endswith('_test.go'):
                    names += re.findall(r'^func (Test\w+)\(', open(d + 'demo/' + x).read(), re.M)
            rc, o = run(['go', 'test', '-count=1', '-timeout', '5m', '-run', '^(' + '|'.join(names) + ')$', pkg])
            out += o[-300:]
            if rc != 0: ok = False
        return ok, out
    for x in demos:
        os.makedirs(os.path.dirname(os.path.join(wt, x)), exist_ok=True)
        shutil.copy(d + 'demo/' + x, os.path.join(wt, x))
    okc, _ = rundemo()                                  # without the change: must pass
    rc, _ = run(['git', 'apply', d + 'patch.diff'])
    okb, outb = (True, 'patch does not apply') if rc != 0 else rundemo()   # with the change: must fail
    run('git checkout -q -- . && git clean -fdq')
    good = okc and not okb and rc == 0
    if good:
        m['port_verified'] = head[:7]
        json.dump(m, open(d + 'meta.json', 'w'), indent=1)
        print(sid, 'port verified (demo passes without, fails with)')
    else:
        shutil.copy(d + 'patch.orig.diff', d + 'patch.diff'); os.remove(d + 'patch.orig.diff')
        m.pop('ported', None); m['superseded'] = 'the change no longer applies to /repo HEAD %s in a form that still breaks the property (a later fix: commit rewrote the lines it touches)' % head[:7]
        json.dump(m, open(d + 'meta.json', 'w'), indent=1)
        print(sid, 'PORT UNDONE: demo without change passes=%s, with change fails=%s' % (okc, not okb))
