#!/usr/bin/env python3
"""Rewrites the seeded-change table of DESIGN.md (between the markers) from seeded/*/meta.json."""
import json, glob, os, re
V = os.path.dirname(os.path.dirname(os.path.abspath(__file__)))
rows = []
stats = {}
for d in sorted(glob.glob(V + '/seeded/*/')):
    sid = os.path.basename(d.rstrip('/'))
    m = json.load(open(d + 'meta.json'))
    rule = ''
    for p, v in m.get('checks_against_patched_repo', {}).items():
        for l in v['reports']:
            mm = re.search(r'(C\d\d\.R\w+) (violated|undecided) \[([^\]]*)\]', l)
            if mm and not rule:
                rule = mm.group(1) + ' `' + mm.group(3) + '`'
    files = ', '.join(os.path.basename(f) for f in m['files_changed'])
    st = 'caught' if m.get('caught_by_checks') else ('superseded by a fix' if m.get('applies_to_repo_head') is False else '**missed**')
    if st == 'caught' and m.get('applies_to_repo_head') is False:
        st = 'caught (no longer applies: superseded by a later fix)'
    mr = re.match(r'r(\d+)-', sid)
    rnd = 'round ' + mr.group(1) if mr else 'round 1'
    s = stats.setdefault(rnd, [0, 0])
    if st != 'superseded by a fix':
        s[1] += 1
        s[0] += st.startswith('caught')
    rows.append('| %s | %s | %s | %s |' % (sid, files, st, rule))
table = '| id | file(s) changed | result | first report |\n|---|---|---|---|\n' + '\n'.join(rows) + '\n'
summary = '; '.join('%s: %d of %d caught' % (k, v[0], v[1]) for k, v in sorted(stats.items()))
p = V + '/DESIGN.md'
s = open(p).read()
a, b = '<!-- seed-table:begin -->', '<!-- seed-table:end -->'
new = a + '\n\nCurrent state (`tools/recheck_seeds.py`, then `tools/seed_table.py`): ' + summary + '.\n\n' + table + '\n' + b
if a in s:
    s = s[:s.index(a)] + new + s[s.index(b) + len(b):]
else:
    raise SystemExit('markers missing')
open(p, 'w').write(s)
print(summary)
