#!/bin/bash
# tp.sh <seed-id> [props...] — build the checker, apply seeded/<id>/patch.diff to /repo, run the quick checks (scratch evidence), undo.
export GOFLAGS=-mod=mod GOPROXY=off GOSUMDB=off GOTOOLCHAIN=local GZV_EVIDENCE_DIR=/tmp/gzv-evidence-scratch; unset GOWORK
cd /verif/checker && go build -o ../bin/gzverify ./cmd/gzverify || exit 2
cd /verif
id=$1; shift
props="$@"; [ -z "$props" ] && props=$(jq -r .property seeded/$id/meta.json)
echo "--- unchanged tree"
for p in $props; do bin/gzverify -prop $p -tier quick 2>&1 | grep -v '^    ' | tail -${LINES_MAX:-6}; done
echo "--- with $id"
tools/trypatch.sh /verif/seeded/$id/patch.diff $props
