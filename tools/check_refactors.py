#!/usr/bin/env python3
"""check_refactors.py <dir> — apply each behaviour-preserving patch <dir>/<k>/patch.diff to /repo, run ALL quick checks,
undo; any check that fires is a false alarm of the machinery."""
import subprocess, sys, os, glob, json
env = dict(os.environ, GOFLAGS='-mod=mod', GOPROXY='off', GOSUMDB='off', GOTOOLCHAIN='local'); env.pop('GOWORK', None)
REPO = os.environ.get('GZV_REPO', '/repo')  # a scratch worktree can stand in for /repo (development only)
env['GZV_REPO'] = REPO
env['GZV_EVIDENCE_DIR'] = os.environ.get('GZV_EVIDENCE_DIR', '/tmp/gzv-evidence-scratch')
base = os.path.abspath(sys.argv[1])
props = ['C%02d' % i for i in range(1, 21)]
if subprocess.run(['git', 'diff', '--quiet'], cwd=REPO).returncode != 0:
    print('/repo dirty'); sys.exit(2)
total = alarms = 0
def _key(p):
    n = os.path.basename(os.path.dirname(p))
    m = __import__('re').match(r'(.*?)(\d+)$', n)
    return (m.group(1), int(m.group(2))) if m else (n, 0)
for d in sorted(glob.glob(base + '/*/patch.diff'), key=_key):
    k = os.path.basename(os.path.dirname(d))
    if subprocess.run(['git', 'apply', '--check', d], cwd=REPO, capture_output=True).returncode != 0:
        print(k, 'does not apply'); continue
    subprocess.run(['git', 'apply', d], cwd=REPO, check=True)
    fired = []
    try:
        procs = [(p, subprocess.Popen([os.environ.get('GZV_BIN', 'bin/gzverify'), '-prop', p, '-tier', 'quick'], cwd='/verif', env=env, stdout=subprocess.PIPE, stderr=subprocess.STDOUT, text=True)) for p in props]
        for p, pr in procs:
            out, _ = pr.communicate()
            if pr.returncode != 0:
                lines = [l for l in out.splitlines() if not l.startswith('    ') and (' violated [' in l or ' undecided [' in l)]
                fired.append((p, lines[:3]))
    finally:
        subprocess.run('git checkout -q -- . && git clean -fdq', cwd=REPO, shell=True)
    total += 1
    files = [l[6:].strip() for l in open(d) if l.startswith('+++ b/')]
    if fired:
        alarms += 1
        print('%s FALSE ALARM %s' % (k, files))
        for p, lines in fired:
            for l in lines:
                print('     ', p, l[:330])
    else:
        print('%s silent %s' % (k, files))
print('%d patches, %d raised an alarm' % (total, alarms))
