#!/bin/bash
# allchecks.sh <seed-id> — apply seeded/<id>/patch.diff to /repo, run all 20 quick checks in parallel (scratch evidence), undo; print which fire.
export GOFLAGS=-mod=mod GOPROXY=off GOSUMDB=off GOTOOLCHAIN=local GZV_EVIDENCE_DIR=/tmp/gzv-evidence-scratch; unset GOWORK
id=$1
cd /repo || exit 2
git diff --quiet || { echo "/repo dirty"; exit 2; }
git apply /verif/seeded/$id/patch.diff || exit 2
cd /verif
for i in $(seq -w 1 20); do ( out=$(bin/gzverify -prop C$i -tier quick 2>&1); rc=$?; [ $rc -ne 0 ] && echo "$id: C$i fires: $(echo "$out" | grep -m1 ' violated \[\| undecided \[' | cut -c1-260)" ) & done; wait
git -C /repo checkout -q -- . && git -C /repo clean -fdq
