#!/usr/bin/env python3
"""mut.py <props,comma> <repo-rel-file> <old> <new> [count]  — apply a one-snippet mutant to /repo, check it still builds,
run the quick checks, print the verdict lines, restore the file. Exit 0 if some check fired (mutant killed)."""
import subprocess, sys, os
props, f, old, new = sys.argv[1:5]
path = os.path.join('/repo', f)
src = open(path).read()
n = src.count(old)
want = int(sys.argv[5]) if len(sys.argv) > 5 else 1
if n != want:
    print("snippet occurs %d times (want %d)" % (n, want)); sys.exit(2)
env = dict(os.environ, GOFLAGS='-mod=mod', GOPROXY='off', GOSUMDB='off', GOTOOLCHAIN='local')
env.pop('GOWORK', None)
env['GZV_EVIDENCE_DIR'] = '/tmp/gzv-evidence-scratch'
killed = False
try:
    open(path, 'w').write(src.replace(old, new))
    d = os.path.dirname(f)
    cwd = '/repo'
    if f.startswith('tools/goctl/'):
        cwd = '/repo/tools/goctl'; d = os.path.dirname(f[len('tools/goctl/'):])
    mf = ['-modfile=/verif/standins/goctl.alt.mod'] if f.startswith('tools/goctl/') else []
    b = subprocess.run(['go', 'build'] + mf + ['./' + d + '/'], cwd=cwd, env=env, capture_output=True, text=True)
    if b.returncode != 0:
        print("MUTANT DOES NOT COMPILE:", b.stderr[:400]); sys.exit(2)
    for p in props.split(','):
        r = subprocess.run(['bin/gzverify', '-prop', p, '-tier', 'quick'], cwd='/verif', env=env, capture_output=True, text=True)
        lines = [l for l in r.stdout.splitlines() if not l.startswith('    ')]
        for l in lines[:int(os.environ.get('MAXL', '6'))]:
            print(l[:420])
        print("== %s exit=%d" % (p, r.returncode))
        if r.returncode == 1:
            killed = True
finally:
    open(path, 'w').write(src)
print("KILLED" if killed else "SURVIVED")
sys.exit(0 if killed else 1)
