#!/usr/bin/env python3
"""port_seeds.py — seeds whose patch no longer applies to /repo HEAD because a later fix: commit changed nearby lines are
re-diffed against the current tree when the hunks still apply with reduced context (patch --fuzz=3): the change itself stays the
same. The delivered file is kept as patch.orig.diff; meta.json records the port. Seeds that cannot be ported are listed."""
import subprocess, os, glob, json, sys
REPO = '/repo'
if subprocess.run(['git', 'diff', '--quiet'], cwd=REPO).returncode != 0:
    print('/repo dirty'); sys.exit(2)
for d in sorted(glob.glob('/verif/seeded/*/')):
    sid = os.path.basename(d.rstrip('/'))
    p = d + 'patch.diff'
    if subprocess.run(['git', 'apply', '--check', p], cwd=REPO, capture_output=True).returncode == 0:
        continue
    r = subprocess.run(['patch', '-p1', '--fuzz=3', '--no-backup-if-mismatch', '-s', '-i', p], cwd=REPO, capture_output=True, text=True)
    ok = r.returncode == 0
    if ok:
        diff = subprocess.check_output(['git', 'diff'], cwd=REPO, text=True)
        new = subprocess.check_output(['git', 'ls-files', '--others', '--exclude-standard'], cwd=REPO, text=True).split()
        ok = bool(diff.strip()) and not new
    subprocess.run('git checkout -q -- . && git clean -fdq', cwd=REPO, shell=True)
    if not ok:
        print(sid, 'CANNOT BE PORTED:', (r.stdout + r.stderr).strip().splitlines()[:2])
        continue
    if not os.path.exists(d + 'patch.orig.diff'):
        os.rename(p, d + 'patch.orig.diff')
    open(p, 'w').write(diff)
    m = json.load(open(d + 'meta.json'))
    m['ported'] = 're-diffed against /repo HEAD %s after a later fix: commit changed nearby lines (hunks applied with reduced context; the change itself is unchanged; patch.orig.diff is the delivered file)' % subprocess.check_output(['git', 'rev-parse', '--short', 'HEAD'], cwd=REPO, text=True).strip()
    json.dump(m, open(d + 'meta.json', 'w'), indent=1)
    print(sid, 'ported')
