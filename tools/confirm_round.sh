#!/bin/bash
# confirm_round.sh <round-prefix e.g. r3> <props...> — confirm every delivered seed of the given properties not stored yet
export GOFLAGS=-mod=mod GOPROXY=off GOSUMDB=off GOTOOLCHAIN=local; unset GOWORK
rnd=$1; shift
cd /verif
for p in "$@"; do
  for k in 1 2 3; do
    src=/tmp/seedout/$rnd-$p/$k
    [ -f $src/patch.diff ] && [ -d $src/demo ] || { echo "=== $p $k: not delivered"; continue; }
    [ -d /verif/seeded/$rnd-$p-$k ] && continue
    echo "=== $p $k"
    python3 tools/confirm_seed.py $p $k --$rnd 2>&1 | grep -E '"build_with|"existing_tests|"demo_with_change"|"demo_without|"caught"|stored|NOT CONFIRMED|PATCH DOES|violated|undecided' | cut -c1-300
  done
done
