#!/usr/bin/env python3
"""recheck_seeds.py [ids...] — re-run the quick checks of /verif against /repo with each stored seeded change applied
(git apply, run, git checkout), update meta.json (checks_against_patched_repo, caught_by_checks) and print a table."""
import subprocess, sys, os, json, glob
env = dict(os.environ, GOFLAGS='-mod=mod', GOPROXY='off', GOSUMDB='off', GOTOOLCHAIN='local'); env.pop('GOWORK', None)
REPO = os.environ.get('GZV_REPO', '/repo')  # a scratch worktree can stand in for /repo (development only)
env['GZV_REPO'] = REPO
env['GZV_EVIDENCE_DIR'] = os.environ.get('GZV_EVIDENCE_DIR', '/tmp/gzv-evidence-scratch')
if subprocess.run(['git', 'diff', '--quiet'], cwd=REPO).returncode != 0:
    print('/repo dirty'); sys.exit(2)
dirs = sorted(glob.glob('/verif/seeded/*/'))
if len(sys.argv) > 1:
    dirs = [d for d in dirs if os.path.basename(d.rstrip('/')) in sys.argv[1:]]
rows = []
for d in dirs:
    sid = os.path.basename(d.rstrip('/'))
    meta = json.load(open(d + 'meta.json'))
    prop = meta['property']
    props = sorted(set([prop] + list(meta.get('checks_against_patched_repo', {}).keys())))
    r = subprocess.run(['git', 'apply', '--check', d + 'patch.diff'], cwd=REPO, capture_output=True, text=True)
    if r.returncode != 0:
        meta['applies_to_repo_head'] = False
        json.dump(meta, open(d + 'meta.json', 'w'), indent=1)
        rows.append((sid, 'does not apply to current /repo HEAD (superseded by a fix)', ''))
        continue
    meta['applies_to_repo_head'] = True
    subprocess.run(['git', 'apply', d + 'patch.diff'], cwd=REPO, check=True)
    checks = {}
    try:
        for p in props:
            rr = subprocess.run([os.environ.get('GZV_BIN', 'bin/gzverify'), '-prop', p, '-tier', 'quick'], cwd='/verif', env=env, capture_output=True, text=True)
            lines = [l for l in rr.stdout.splitlines() if not l.startswith('    ') and (' violated [' in l or ' undecided [' in l)]
            checks[p] = {'exit': rr.returncode, 'reports': [l[:600] for l in lines[:4]]}
    finally:
        subprocess.run('git checkout -q -- . && git clean -fdq', cwd=REPO, shell=True)
    caught = any(v['exit'] == 1 for v in checks.values())
    meta['checks_against_patched_repo'] = checks
    meta['caught_by_checks'] = caught
    meta['repo_head'] = subprocess.check_output(['git', 'rev-parse', '--short', 'HEAD'], cwd=REPO, text=True).strip()
    json.dump(meta, open(d + 'meta.json', 'w'), indent=1)
    rule = ''
    for v in checks.values():
        for l in v['reports']:
            import re
            m = re.search(r'(C\d\d\.R\w+) (violated|undecided) \[([^\]]*)\]', l)
            if m and not rule:
                rule = m.group(1) + ' ' + m.group(3)
    rows.append((sid, 'CAUGHT' if caught else 'missed', rule))
# restore evidence produced on the unpatched tree is the caller's job
w = max(len(r[0]) for r in rows)
for r in rows:
    print(r[0].ljust(w), r[1].ljust(8), r[2][:150])
print('caught %d / %d applicable' % (sum(1 for r in rows if r[1] == 'CAUGHT'), sum(1 for r in rows if r[1] in ('CAUGHT', 'missed'))))
