#!/bin/bash
# usage: trypatch.sh <patch.diff> <prop> [more props]  — apply a patch to /repo, run quick checks, undo.
set -u
patch=$1; shift
cd /repo || exit 2
if ! git diff --quiet; then echo "/repo is dirty"; exit 2; fi
git apply "$patch" || { echo "patch does not apply"; exit 2; }
rc=0
for p in "$@"; do
  out=$(cd /verif && bin/gzverify -prop $p -tier quick 2>&1); r=$?
  echo "$out" | grep -v '^    ' | head -${LINES_MAX:-12}
  echo "== $p exit=$r"
  [ $r -ne 0 ] && rc=1
done
git -C /repo checkout -q -- . && git -C /repo clean -fdq
exit $rc
