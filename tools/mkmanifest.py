#!/usr/bin/env python3
"""Regenerates /verif/MANIFEST.json from the claims table below (kept here so the manifest stays valid and consistent)."""
import json, os
V = os.path.dirname(os.path.dirname(os.path.abspath(__file__)))
props = [json.loads(l) for l in open(os.path.join(V, 'properties.jsonl'))]

# id -> (level, technique, level text, level note (not decided / trusted), design ref)
claims = {
 'C14': ('proof', 'path-sensitive typestate over go/ssa (all CFG paths incl. panic exits, defers and recover modelled)',
   'Exhaustive enumeration of every entry-to-exit path of sqlx.transactOnConn (begin ok/fail x body nil/error/panic x commit ok/fail x rollback ok/fail) and of its wrappers: begin failure runs nothing; otherwise body once and exactly one of Commit|Rollback; Commit iff the body returned nil without panicking; nil is returned only when Commit returned nil; commit/rollback errors reach the caller; wrappers forward once and return the result unchanged. The whole property is a control-flow property of this function, so a finite path proof is the right level.',
   'Trusted: go/types, go/ssa, the px engine defer/panic/recover model, database/sql Begin/Commit/Rollback semantics. Not decided: what the driver does; runtime panics inside go-zero straight-line code.',
   'DESIGN.md 3.C14'),
}
claims.update({
 'C01': ('other', 'path-sensitive typestate over go/ssa (exact accounting on all entry points and exits incl. panic), decision tables, gate-shape facts',
   'Structural necessary conditions decided on every CFG path: reject => markDrop x1, request x0, fallback x1 iff present; admit => request x1, exactly one success/failure mark on every exit incl. panic (panic = failure, re-raised), error returned unchanged; ErrServiceUnavailable only past drop-ratio gate, forced-pass test and random test; throttled admissions refresh lastPass, rejections never do; 10 entry points, 8 package helpers, wrappers and in-tree users forward/resolve exactly once; constants of the statement by value.',
   'Not decided: the numeric admission law over 10 s histories (its window structure is under C16), the probabilistic clause, interleavings. Trusted: go/types, go/ssa, px engine model; panics originate at user callbacks.',
   'DESIGN.md 3.C01'),
 'C02': ('other', 'path-sensitive typestate over go/ssa + who-may-touch over SSA references + constant relations',
   'On every path: ErrServiceOverloaded only when shouldDrop() was true (then nothing counted in flight); shouldDrop <=> highThru and (systemOverloaded or stillHot); highThru = two strict comparisons against maxFlight()*overloadFactor() with factor >= 0.1; +1 in flight per admission, -1 exactly once per promise resolution; flying written only by addFlying; overloadTime set only by systemOverloaded; stillHot only inside the 1 s cool-off; disabled => nop shedder; REST/zRPC users resolve the promise exactly once on every exit incl. panic.',
   'Not decided: capacity estimate as a function of history, CPU traces, interleavings.',
   'DESIGN.md 3.C02'),
 'C05': ('other', 'semaphore inventories (who-may-touch + operation shapes) and acquire/release pairing on all paths incl. panic exits; lock-guard on paths',
   'Limit permit channel = make(chan, n) touched only by blocking send / non-blocking send / non-blocking receive; TimeoutLimit grants only after a successful TryBorrow; Pool fields only under its lock, created++ only below limit, created-- one-to-one with destroy, handed-out node unlinked first; TaskRunner / mr / fx workers take slot and wait-group before the goroutine starts and release each exactly once on every exit incl. panic; rescue.Recover runs cleanups before recover(); MaxConnsHandler returns the permit iff it borrowed one. The cap then follows from buffered-channel semantics.',
   'Not decided: fairness, timing, Cond wake-up races. Trusted: Go channel semantics.',
   'DESIGN.md 3.C05'),
 'C07': ('other', 'lock-guard + event-ordering rules on all paths incl. panic exits; who-may-touch',
   'Call maps only under their mutex, no user function under the group lock, no self-deadlock; completion deletes the key and releases the waiters exactly once on every exit incl. panic; creator registers before unlocking, waiters unlock before waiting; fn exactly once per makeCall with results stored only in the call object; Do/DoEx return that object\'s val/err after completion and report fresh exactly for the creator; ResourceManager creates only inside the single flight after a miss and stores only on success.',
   'Not decided: the interval-overlap statement over real interleavings, liveness.',
   'DESIGN.md 3.C07'),
})
claims.update({
 'C04': ('other', 'value-flow of contexts/durations, select/goroutine shape on paths (goroutines analysed in place), lock-and-flag discipline, who-may-write the real ResponseWriter',
   'Each timeout wrapper derives the work context through exactly one context.WithTimeout(caller ctx, configured duration) and hands that to the work; the work runs only in the goroutine, the caller selects on ctx.Done() and on that branch neither waits for completion nor takes a mutex held across the work; REST: the work gets a buffering writer, every method reaching the real writer holds the mutex and has seen timedOut false, timeout branch sets timedOut under the mutex and writes 499 iff canceled else 503, completion copies headers/status/body under the mutex; zRPC timeout branch never returns the handler response; exemptions are exactly websocket upgrade and event-stream.',
   'Not decided: real-time behaviour (returns AT the deadline), chunk/expiry races beyond the lock discipline. Known finding F1b (Flush before the deadline streams partial output by design).',
   'DESIGN.md 3.C04'),
 'C06': ('other', 'who-may-call on the redis handle, TTL value-flow + algebraic normal form of the jitter, path table of doTake, sibling agreement of invalidate-after-write (sqlc, monc)',
   'Cache node talks to Redis only through Get/Del/Setex/SetnxEx; every TTL is ceil(seconds) of the requested or +-5% jittered configured expiry (formula by normal form; non-positive configured expiries replaced); in doTake the query runs only inside the barrier keyed by the cache key and only after a genuine miss; not-found caches the placeholder, other DB errors are returned and nothing cached, success caches the row; all Take* of both Cache implementations funnel into doTake; Exec invalidates after a successful write only; every keyed monc mutator deletes its keys after the DB call; failed deletes are retried detached from the request context.',
   'Not decided: read-your-writes over histories, at-most-one-query under schedules (C07 rules carry the ordering facts), actual TTL values.',
   'DESIGN.md 3.C06'),
 'C18': ('other', 'gate dominance on all paths of the middlewares, key-function value flow, forbidden-API reference scan, signature-input coverage by value flow',
   'Protected handler runs only on paths where ParseToken returned no error, all others write 401; key function returns the configured secret bytes without inspecting the token; no none-alg / unverified parse anywhere in the module; registered claims filtered; behind strict content security the handler runs only after ParseContentSecurity ok and VerifySignature == CodeSignaturePass; HMAC input covers timestamp, method, path, query, body digest, keyed by the decrypted secret, compared after the tolerance test; cryption handler decrypts before and encrypts after the handler.',
   'Not decided: cryptographic strength, payload round trips. Known findings F5a (unsigned PATCH/HEAD/OPTIONS bypass the strict gate), F5b (X-Request-Uri replaces the signed path) and F24b (a ciphertext that is not a whole number of blocks decrypts to NUL bytes).',
   'DESIGN.md 3.C18'),
})
claims.update({
 'C08': ('other', 'value-flow completeness of the re-resolved option set, validate-before-store on all inlined paths, exhaustive decision tables (range test, bracket parsers, optional-dependency resolution) evaluated over the path engine; interprocedural SSA value flow from the package memo maps to reflect stores; kind-established dominance lint across call sites',
   'toOptionsWithContext carries every declared option except the resolved Optional flag; on every path from the two field entry points to a primitive store a range validation against the field\'s own options and an options-membership check succeeded first on the stored value; absent non-optional non-default scalars yield the is-not-set error, null only for optional fields; validateNumberRange == inside-the-interval for all 36 ordering x bracket rows; bracket parsers and the optional=dep / optional=!dep resolution equal their tables (32 rows).',
   'Not decided: no-panic (reflection), exact value fidelity, completeness (valid input accepted) beyond the tables; slice/map elements carry no per-element options.',
   'DESIGN.md 3.C08'),
})
claims.update({
 'C12': ('other', 'goroutine confinement over the package call graph, per-element typestate of the scan/drain loops on all paths, closed forms and quotient/remainder pairing by algebraic normal form',
   'Wheel state is mutated only from the run goroutine (API only sends, rejects delay<=0 / nil key); per scanned entry: removed => unlinked never fired, circle>0 => only decremented, diff>0 => relocated to (tickedPos+diff)%n with position entry updated and diff cleared, else fired exactly once, unlinked, key deleted; drain unlinks all, delivers exactly the non-removed, forgets keys; set clamps and places new timers at the closed-form slot with its circle; getPositionAndCircle == the closed forms named in the property; a lazy move stores circle/diff as quotient/remainder by numSlots of one non-negative quantity depending on delay, holding slot and cursor, otherwise re-inserts a fresh entry at the computed slot.',
   'Not decided: the tick arithmetic in general (that the lazily moved quantity is exactly steps minus the ticks until the holding slot is scanned again), timing. Two genuine defects found by these rules were repaired (07dfa65, 4267200).',
   'DESIGN.md 3.C12'),
})
claims.update({
 'C13': ('other', 'inverse-map and lock/dirty/notify rules on all paths, per-event path table of the watch loop, per-key decision table of the snapshot diff and dispatch-order rule, resolver publication flow',
   'Container key->value and value->keys maps stay inverse (a key is re-pointed only after its previous image was dropped or is known absent/equal); every mutation holds the lock and marks the view dirty; Values() rebuilds from the value map; OnAdd/OnDelete apply the event then notify once; each PUT/DELETE watch event updates the watcher map under the lock and is forwarded with its own key/value, outside the lock; the reload diff classifies every key exactly, stores the new snapshot, and a changed key\'s removal cannot erase its new value; resolver publishes subset(Values(), 32) and is registered as listener; stream errors wrap their cause so a compaction triggers a reload; listeners are called from a private copy; the kube endpoints handler replaces its set by exactly the new object\'s addresses and notifies iff it changed.',
   'Not decided: convergence over arbitrary event histories, etcd / Kubernetes informer semantics. Two genuine defects found by these rules were repaired (580f3ce, e1532fa).',
   'DESIGN.md 3.C13'),
})
claims.update({
 'C03': ('other', 'path enumeration of the embedded Lua scripts (gopher-lua AST) with decision tables over the orderings they test, composed with the Go reply mapping; KEYS/ARGV role agreement by value flow; path rules of TakeCtx/reserveN/startMonitor/waitForRedis',
   'Period script: counter +1 exactly once, TTL armed exactly when the counter is 1, answer by comparing with ARGV[1]; composed with TakeCtx: below quota => Allowed, at => HitQuota, above => OverQuota, other code or store error => (Unknown, error); Go passes [quota, period s]. Token script: filled = min(capacity, last + max(0, now-ts)*rate), grant iff filled >= requested, stores filled-requested / filled, both keys always rewritten with TTL; Go passes both keys and [rate, burst, now.Unix(), n] by role; reserveN grants only on reply 1 or via the same-rate local limiter with the caller\'s now/n; redis.Nil and ctx errors deny; redisAlive cleared only when a monitor starts (once, under lock), set only after a successful Ping.',
   'Not decided: the joint bound burst + rate*elapsed across interleavings and outages (needs Redis execution model and time); EVAL atomicity assumed.',
   'DESIGN.md 3.C03'),
 'C19': ('other', 'path enumeration of the lock/release Lua scripts (guards and flags of every SET/DEL), value flow + normal form + arithmetic width of the lease, reply mapping on all Go paths, who-writes the id',
   'Every SET stores ARGV[1] under KEYS[1] with PX ARGV[2]; a SET not guarded by GET==ARGV[1] carries NX; the owner branch refreshes the lease and returns OK; release deletes only under GET==ARGV[1], else 0; Go uses the store only through one EVAL of exactly these scripts with [key]/[id, seconds*1000+500 computed in int]; Acquire true only for OK with nil error; Release true iff reply 1; id written only by the constructor from a 16-char random string whose generator (a shared math/rand.Source) is stepped only under its exclusive lock.',
   'Not decided: mutual exclusion over histories with expiry (Redis time), uniqueness of random ids (probabilistic).',
   'DESIGN.md 3.C19'),
})
claims.update({
 'C09': ('other', 'registration gates + method decision table, never-replace rule of the route tree, cleaning symmetry by value flow, literal/variable routing tables, bind-after-success path rule of the search, dispatch path table of ServeHTTP/methodsAllowed',
   'Handle rejects invalid methods (exactly the 7 standard ones valid) and unrooted paths before touching a tree; the tree stores an item only in an empty slot, never replaces an existing child, descends into the found-or-created child; the same path.Clean result is registered, searched and used for the 405 computation; colon segments go to the variable map, others to the literal map, literal map visited first; match tables; a variable is bound only after the search below succeeded, a leaf matches only with an item; ServeHTTP runs the found handler once with bound variables, else 404 iff no other method matches, else 405 with Allow (other matching methods only) set before the status.',
   'Not decided: correctness of matching/backtracking for all route sets x paths (needs a reference matcher, a dynamic technique).',
   'DESIGN.md 3.C09'),
})
claims.update({
 'C10': ('other', 'panic-capture path rule (panic exits) on every goroutine running a user function, channel-lifecycle ordering rules, once-only cancellation by value flow, guarded-write select shape, path table of the caller select',
   'Every goroutine calling generate/mapper/reducer has a pre-registered deferred recover forwarding the value to the panic channel (written at most once, CAS-guarded); source closed by the generator on every exit; dispatcher: Wait -> close(collector) -> drain(source); done/output closed only inside one sync.Once; reducer goroutine drains the collector and finishes on every exit; the cancel handed to user code is the once-wrapped one, records the error (ErrCancelWithNil for nil), drains, finishes; user writes go through a non-blocking select on ctx/done; each received item starts exactly one worker/mapper call; caller: ctx expiry => cancel + DeadlineExceeded, user panic => drain(output) then re-panic with the received value, completion => recorded cancel error before any value, else value, else ErrReduceNoOutput (nil for void).',
   'Not decided: deadlock- and leak-freedom and exactly-once delivery over all schedules (a model-checking question; these are the protocol\'s local obligations).',
   'DESIGN.md 3.C10'),
})
claims.update({
 'C11': ('other', 'lock-guard, wait-group pairing and hand-off ordering on all paths (background goroutine analysed in place), quit-gate path rule, sibling agreement over every TaskContainer implementation in the module, forwarding agreement of wrapper executors',
   'Container and guarded flag only under pe.lock; every executeTasks preceded by one enterExecution and releasing the wait group once on every exit, Execute only inside RunSafe; a threshold Add removes the whole batch under the same lock hold that counted it in flight, hands it over and waits for confirmation; background loop: inflight-1 -> enterExecution -> confirm -> executeTasks(received batch); quits only after establishing under the lock that nothing is in flight (clearing guarded exactly then), Flush is its outermost defer; Wait = Flush then barrier-guarded waitGroup.Wait; every TaskContainer (5 in the module) returns what it accumulated and resets every AddTask-mutated field to a fresh non-aliasing value; bulk/chunk wrappers forward Add/Flush/Wait to the same-named operation.',
   'Not decided: loss/duplication freedom of the producer/flusher protocol over all interleavings.',
   'DESIGN.md 3.C11'),
})
claims.update({
 'C15': ('other', 'lock-guard of the ring state, writer/reader agreement of the virtual-node hash derivation, per-iteration pairing rules of the add/remove loops, sortedness and emptiness-guard rules of Get',
   'keys/ring/nodes only under h.lock; AddWithReplicas removes the node first, clamps replicas to h.replicas (Remove\'s loop bound), registers the node, appends exactly one key entry and one ring entry per replica for hashFunc(repr(node)+Itoa(i)) unconditionally, sorts keys ascending before unlocking; Remove derives the same hashes, removes at most the one matching key per replica guarded only by the search hit, always filters the node out of ring[hash], forgets the node; Get answers (nil,false) exactly when the ring/key list (the modulus) is empty, else a member of ring[keys[search % len(keys)]]; AddWithWeight = replicas*weight/100.',
   'Not decided: minimal disruption and history independence as quantitative statements (follow from these invariants plus hash-function properties); collision buckets keep insertion order. Known finding F27 (prefix-related node names share virtual nodes).',
   'DESIGN.md 3.C15'),
})
claims.update({
 'C16': ('other', 'two-generation discipline of SafeMap on all paths, LRU coherence rules, Cache API path rules and lock guards, decision table + algebraic normal forms of the rolling window',
   'SafeMap.Set writes one generation only after removing the key from the other; Get/Range/Size consult both; Del removes from the holding generation; migrations copy every entry before the source is replaced; keyLru.add moves a known key to the front / pushes a new one and evicts the back when the list outgrew the limit; removeElement unlinks, forgets, calls onEvict; Cache.Del removes data, LRU entry and timer; SetWithExpire stores, refreshes the LRU position unconditionally and sets/moves the timer by prior presence; Take fetches only inside the single flight after a second miss, caches only success; RollingWindow span table (9 orderings), offset advance (offset+span)%size, lastTime re-aligned to the last interval boundary <= now, Reduce range; all under their locks.',
   'Not decided: equivalence to sequential reference models over operation sequences; expiry timing. Queue growth/wrap arithmetic (R6) and the store/read positions of Ring (R8) are decided structurally.',
   'DESIGN.md 3.C16'),
})
claims.update({
 'C17': ('other', 'single-decode-path rules on all paths, loader-table agreement, UseNumber-before-Decode ordering, numeric type-switch coverage, env-expansion gating, identity of the key normaliser, recursion coverage of the key-lowering walk',
   'YAML/TOML are converted to JSON and decoded by the very same JSON entry point with the caller\'s target and options (conf and mapping variants), conversion errors returned; extension table maps .json/.yaml/.yml/.toml to exactly these loaders; every jsonx decoder enables UseNumber before Decode; the YAML converter turns all 12 Go numeric types into json.Number and recurses through slices and maps; os.ExpandEnv only under the env option and only in core/conf; the canonical-key function given to the unmarshaller is the same toLowerCase that normalised the document keys; the key-lowering walk recurses through maps and every slice element at every depth; no function of the loading pipeline returns bytes aliasing a buffer it hands back to a pool.',
   'Not decided: equality of results across formats and agreement with encoding/json (relations over decoded values), e.g. aliasing of decoded map elements.',
   'DESIGN.md 3.C17'),
})
claims.update({
 'C20': ('other', 'path-sensitive child coverage of every ast Format method, crash reachability over the module call graph (static + CHA) from the formatter entry points, nil-means-failure discipline of the parser constructors',
   'On every path of every ast node\'s Format (31 types) that produces text, each child token/node/list present on that path is handed as a node to the writer or a nested Format (a child never written cannot be in the output; a token printed from bare text loses its comments); no path from format.Source / Parser.Parse / Scanner.NextToken / parser.New reaches log.Fatal*, os.Exit or an unrecovered panic except the recorded finding F6; parse* constructors return a result variable only when it is non-nil on that path (nil means failure to every caller); Format writes child lists from the node\'s own field or a complete local copy; scanString compares every consumed rune with the delimiter and end of input; parse methods that synthesise a token from several scanned tokens capture every consumed token; no parse method indexes a list that is nil on that path (found and fixed F10).',
   'Not decided: idempotence and parse-equivalence as relations over all programs; comment placement. Known finding F6: empty source reaches scanner.MustNewScanner -> log.Fatalln. tools/goctl is loaded with an alternate modfile and stand-ins for two imports missing from the offline module cache.',
   'DESIGN.md 3.C20'),
})
# round-3 additions to the claim texts (rules added after the third round of seeded changes)
extra = {
 'C01': ' In every method guarding its work with a breaker held in a receiver field, all error-returning calls through the receiver\'s collaborators are made inside the guarded closure (R9).',
 'C02': ' An adaptiveShedder is only allocated behind the enabled outcome of enabled.True() (constructor or every caller); the latency added to the window is the elapsed milliseconds rounded up (R10).',
 'C03': ' Scripts reach the store through Script.Run/Eval (EVALSHA falling back to EVAL), never a bare EvalSha (R8).',
 'C04': ' engine.timeout (the server-level deadline) only grows outside the constructor and WriteTimeout is that value times a factor >= 1 (R6).',
 'C05': ' The dispatcher of a bounded worker pool never runs the user function itself outside a slot.',
 'C06': ' The retry chain of failed invalidations is closed: the first delay and every delay nextDelay hands out is again a key of its table (except the last), delays grow, timers are armed with the recorded delay (R8); every cache constructor forwards its option list (R9).',
 'C07': ' A ResourceManager owns a flight group created for it (R7); no closure handed to SingleFlight.Do/DoEx in the module returns a pointer-like parameter of its enclosing function - the shared value is made inside the flight (R8).',
 'C08': ' The request-side wrappers (httpx.ParseForm/ParseHeaders/ParseJsonBody/ParsePath, encoding.ParseHeaders) return on every path the verdict of the validating unmarshaller or the error of an earlier step; httpx.Parse accepts only after body and (for non-list targets) path, form and headers were parsed (R5b).',
 'C09': ' A middleware in front of the router leaves r.URL untouched on every path that passes the request on (R7).',
 'C10': ' WithWorkers sets the worker count on every path to the requested value when >= minWorkers, else minWorkers (R7).',
 'C11': ' Hand-off and confirmation channels are rendezvous channels (found and fixed F13); wrappers outside the package flush the executor directly, exactly once (R7b); the ticker a quitting flusher stops was created by that flusher (R8).',
 'C13': ' The kube OnUpdate drops an update of a well-typed pair only when the resource versions are equal (no ordering of opaque versions).',
 'C14': ' A body that ends its goroutine (runtime.Goexit) is rolled back (found and fixed F12; the path engine models the Goexit exit).',
 'C16': ' Queue constructor/Empty/size bookkeeping (found and fixed F11); Set.add/Remove/Contains touch data[i] on every path (R7).',
 'C17': ' FormatFloat precision -1 with the operand\'s bit size (R7); option functions customise per-call structs only (R8); fillMap sets the target before returning nil (R9).',
 'C18': ' The buffering writer does not retain the slice handed to Write; the decrypter set of a route group is a map made by that call (R8).',
 'C19': ' Every command the lock sends is a run of one of the two scripts (R5), dispatched with EVAL fallback (R6).',
 'C20': ' "Written" is decided by def-use flow into the line-aware Writer along executed calls (inspections and dropped call results do not count), including the children of list elements rendered piecewise; no function of ast concatenates two rendered nodes (R1c); every element read of the scanner\'s buffer is dominated by index < length (R7).',
}
for k, v in extra.items():
    lvl, tech, text, note, ref = claims[k]
    claims[k] = (lvl, tech, text + v, note, ref)
# round-4 additions
extra4 = {
 'C01': ' history() computes the window summary from the rolling window on every call (no remembered snapshot); the REST middleware accepts exactly when the status recorder\'s code is < 500, the recorder forwards and records every code (a path keeping the previous code must have compared status codes), and nothing else writes the recorded code (R10).',
 'C06': ' Every encode/decode of a cached row in core/stores/{cache,sqlc,monc} goes through core/jsonx (R10).',
 'C08': ' Memo tables: the key of every package-level memo map of core/mapping determines all inputs of the memoised computation, by data flow and by the branch conditions selecting between alternative results (R9; found and fixed F15, F16); the options-membership test is applied to the supplied value as it came, not to a transformed copy; the request-side adapters hand values from the request\'s collections to the unmarshaller unchanged (R10).',
 'C09': ' A method is listed in Allow only after Tree.Search - the dispatcher\'s matcher - matched its tree.',
 'C12': ' The batch of due timers handed to the firing goroutine is built from nil/make by that tick and not kept in a field (R9).',
 'C13': ' Every event applied to the watcher\'s map reaches the listener loop (no event is declared a no-op by the registry); a joining listener is attached to the shared watch before the current values are read and replayed, the first listener before the initial load (R9).',
 'C14': ' A panicking body makes Transact return a non-nil error (a re-raised panic is a violation of "reported as an error").',
 'C15': ' In-tree users pass a weight that derives from the node\'s own configuration only (no value accumulated over the other nodes, R6).',
 'C16': ' Every function deleting from Cache.data removes the key from the recency list on the same path, unless it is the list\'s own eviction callback (R9).',
 'C17': ' Decoder-output model: every dynamic type the YAML library in use can store into an any, the nil of a YAML null included, has an explicit case in the converter (R10; found and fixed F14); fillSlice writes element i of the source to element i of the target and stores the converted slice whole (R11); conf.toLowerCase returns strings.ToLower(s), or s itself only when a 256-value table per examined byte shows every byte ASCII and not upper case (R12).',
 'C18': ' On every path of engine.bindRoute that registers a route, jwt.enabled was seen false or handler.Authorize was built and appended before - for the built-in and a user-supplied chain alike - and the signature verifier is applied once (R9); with a positive Content-Length decryptBody reads the body through no limit other than one derived from the configured limit or the length (R10).',
 'C19': ' Acquire/Release run their ...Ctx sibling themselves, once, on their own receiver and return its results unchanged; RedisLock methods use no package-level state besides the two scripts (R7).',
}
for k, v in extra4.items():
    lvl, tech, text, note, ref = claims[k]
    claims[k] = (lvl, tech, text + v, note, ref)
# round-5 additions
extra5 = {
 'C01': ' Acceptability predicates compare errors with sentinels only through errors.Is/As (R11); a handler that panicked is rejected by the REST middleware (found and fixed F17).',
 'C02': ' The state fields of a shedder are made for that shedder, never a package-level variable (R11).',
 'C05': ' Pool.Put never changes the resource count and only Get writes it; the unbounded stream walk is reached only through the explicit option; the slot of a creation that panicked is given back (found and fixed F31).',
 'C06': ' The requested expiry is written only after it was found positive, else the configured one (found and fixed F25); keyer and primaryQuery get the index entry\'s primary key unchanged (R6b); cache constructors forward the barrier they were given.',
 'C07': ' A flight whose function does not return leaves a non-nil error for its joiners (found and fixed F18); the cache node\'s use of the flight is checked under C07 as well (R9).',
 'C08': ' The range table includes the unordered (NaN) rows (found and fixed F22); both range validators accept only through the verified comparator (R4b); no method call on reflect.TypeOf of a possibly-null document element (R6b); no decode straight into the typed target (R11; known finding F32).',
 'C09': ' Path-variable maps are made by the search that returns them, never pooled or shared (R8).',
 'C10': ' The mapper semaphore is sized from the configured worker count (R9); the panic hand-off channel has capacity >= 1 so a late panic cannot hang the call (R10; found and fixed F26).',
 'C11': ' No mutex taken around a container\'s user callback stays held when the callback panics (R9).',
 'C12': ' The run-now branch of moveTask keeps the key index consistent; the drain\'s slot loop has no early exit.',
 'C13': ' Events are applied one by one from the watch response itself; a snapshot comes from one read (R10); no wait for the watch goroutines while holding a lock they take (R11; found and fixed F20, the reload deadlock).',
 'C14': ' Every type with Commit and Rollback in the package gets them promoted from *sql.Tx (R6): the interface call the path proof is about leads to database/sql.',
 'C15': ' The default hash is a pure function of its input (R7); virtual-node names are injective in (node, replica) (R8; known finding F27).',
 'C16': ' offset and lastTime of the rolling window advance together (found and fixed F21, two clock readings).',
 'C17': ' Every entry of a document map is stored (R13); map-typed configuration fields keep entry names apart from the element\'s field names (R14).',
 'C18': ' Body bytes reach the client only from the deferred flush; an empty ciphertext is an error (found and fixed F24a; partial blocks: known finding F24b); the router dispatches by the request\'s own method only (R11).',
 'C19': ' The lease arithmetic is 64-bit on every platform (found and fixed F23); no RedisLock method defers work to a goroutine or timer (R8).',
 'C04': ' The buffering writer never latches an informational status (R3g; found and fixed F28).',
 'C20': ' Printf-family calls executed by the formatter have constant format strings (R8; found and fixed F19); scanner errors are recorded before the parser gives up (R9); format.Source hands the caller\'s writer to AST.Format once and writes nothing else (R10); IsZeroString accepts exactly the two empty literals (R11); children that Format dereferences unconditionally are set by every parse method returning the node (R12; found and fixed F29); a block comment ends only at */ (R13, unrolled state machine; found and fixed F30).',
}
for k, v in extra5.items():
    lvl, tech, text, note, ref = claims[k]
    claims[k] = (lvl, tech, text + v, note, ref)
# round-6 additions
extra6 = {
 'C04': ' No interface- or function-typed argument of a handler-facing method of the buffering writer is called, or handed to a call, while the writer mutex is held (R3h).',
 'C06': ' The row scanner reports not-found only after rows.Err() was found nil (R11); value and TTL travel in one SET/SETNX command (R12); a deferred invalidation owns the key slices it captures (R13; found and fixed F33).',
 'C07': ' collection.Cache.Take runs the loader only inside barrier.Do keyed by the caller\'s key (R10).',
 'C08': ' A recursiveValuer (ancestor lookup) is built only under inherit and for dotted keys (R12); the HTTP adapters leave the request\'s collections untouched (R10); package-level containers never flow into a target (R13; found and fixed F34); no reflect.ValueOf(x).Type() on the failing side of a validity test (found and fixed F35); the duration path is chosen by type, not kind (R14; found and fixed F36).',
 'C09': ' Nothing between the tree\'s result and the handler rewrites the bound variables (R5); no function of the module installs a not-allowed handler by default (R12).',
 'C11': ' sync.Pool objects on the way through Execute are emptied when taken or on every way back (R11); pe.lock is never held across the Wait barrier (R1 lock order).',
 'C12': ' The task runner Drain uses releases its slot on every exit incl. panic (R10).',
 'C13': ' Every return of cluster.load applied the snapshot through handleChanges, also the empty one (R12).',
 'C17': ' String data is stored untouched by convertTypeFromString (R15 kind tables).',
 'C19': ' AcquireCtx never reaches a deleting script (R3); nobody reseeds the id generator, whose source is seeded from UnixNano (R9).',
 'C20': ' Source positions decide layout only in Writer.write (R14); the classes of sources NewScanner rejects are frozen (R15); a comment is rejected only against what the grammar expects at that point (R16).',
}
for k, v in extra6.items():
    lvl, tech, text, note, ref = claims[k]
    claims[k] = (lvl, tech, text + v, note, ref)
# round-7 additions
extra7 = {
 'C04': ' The client-side TimeoutInterceptor (which also applies per-call WithCallTimeout) is installed whenever the Timeout middleware switch is on, for every value of the default timeout (R1f).',
 'C06': ' The flight rules of C07 (SingleFlight: registration, completion order, result identity) run under C06 as well (R14).',
 'C08': ' No value kept in (or reachable from) a package-level memo map of core/mapping reaches reflect Set/SetMapIndex/Append: interprocedural value flow with flat/deep shapes (R15; found and fixed F40); the dotted-key walk is no ancestor search (R12; found and fixed F42); reflect.Type.Key is called only on a value whose kind was established as Map, across call sites (R16; found and fixed F43).',
 'C11': ' A batch leaves the container only when registered with the wait group or registered before pe.lock is released (R12; known finding F38: a threshold batch in transit is invisible to Wait); a quit that may be decided on a path needs the in-flight reading and the clearing of guarded in one lock hold on that path (R4).',
 'C13': ' OnDelete leaves a delete event unapplied only after testing for the informer\'s DeletedFinalStateUnknown tombstone (R13; found and fixed F37); no field of the Subscriber under construction is read before the last option ran (R14).',
 'C16': ' The cache re-arms a timer only through an operation that cannot fire at once: SetTimer, or MoveTimer with an expiry compared against a bound (R3; found and fixed F39).',
 'C12': ' The cache\'s timer re-arming rule (C16.R3) runs under C12 as R7.',
 'C20': ' Layout by position is decided among the statements that are written: the raw statement list is only ranged over (R17; found and fixed F41).',
}
for k, v in extra7.items():
    lvl, tech, text, note, ref = claims[k]
    claims[k] = (lvl, tech, text + v, note, ref)
# round-8 additions
extra8 = {
 'C01': ' Every user of Allow+Promise in the module resolves the promise exactly once on every exit incl. the panic exits of the calls in between (R12).',
 'C02': ' The create-once rules of syncx.ResourceManager (C07), on which ShedderGroup is built, run under C02 (R12).',
 'C03': ' The breaker entry-point rules (C01) run under C03: what the limiter takes for an outage is the redis breaker\'s answer (R9).',
 'C06': ' A query function handed to a sqlc.CachedConn method is invoked only inside a literal handed to the cache (R15); the timing-wheel rules (C12) of the invalidation retries run under C06 (R16).',
 'C07': ' A literal handed to SingleFlight.Do/DoEx makes no call while holding a mutex (R12); the callers of the cache\'s flight keep the query inside it (R11).',
 'C09': ' The adapters\' pass-through rule (C08.R10: ParsePath hands the bound variables on unchanged) runs under C09 (R13).',
 'C10': ' A user panic waiting when the output case wins the final select is re-raised (R11; found and fixed F45).',
 'C12': ' No closure started from a loop of core/collection captures the loop variable (R11).',
 'C16': ' The timing-wheel (C12) and single-flight (C07) rules run under C16: the cache\'s expiry and Take rest on them (R10, R11).',
 'C20': ' A child that formats to nothing takes no line (R18; found and fixed F44).',
}
for k, v in extra8.items():
    lvl, tech, text, note, ref = claims[k]
    claims[k] = (lvl, tech, text + v, note, ref)
# round-8 additions (second part)
extra8b = {
 'C01': ' The breaker middleware is in the chain of every route whose switch is on (R13).',
 'C02': ' The shedding middleware is in the chain of every route whose switch is on (R13); ServiceConf.SetUp precedes everything that can build a shedder in every server constructor (R14; found and fixed F46).',
 'C03': ' Every Allow... entry point reaches reserveN exactly once with its own n and context and returns its answer (R10).',
 'C04': ' Nobody derives a context with context.WithoutCancel (R7); the timeout middleware is in the chain of every route whose switch is on (R8).',
 'C05': ' The max-connections limiter is in the chain of every route whose switch is on, whatever the route\'s features (R8).',
 'C06': ' The many-rows reader returns the scanner\'s Err() once the row loop ended (R11).',
 'C08': ' Nobody writes the ContentLength of a request it was handed (R17); YAML is never decoded in strict mode (R18).',
 'C11': ' A container field Execute writes is emptied by a deferred call (R13).',
 'C13': ' The disconnection is a sticky flag set on TransientFailure/Shutdown, tested and cleared on the Ready path that notifies (R15); the subscription key is the target path trimmed of slashes at both ends (R16).',
 'C14': ' The row readers report a stream that broke (C06.R11 runs under C14 as R7).',
 'C15': ' Ring identity: whatever in-tree code adds to a ConsistentHash is a fmt.Stringer in the form it is added, and the fields its String() returns are written only where the object is built (R9).',
 'C17': ' The configuration center hands the document to the format loader byte for byte (R16); YAML is never decoded in strict mode (R17).',
 'C19': ' SetExpire stores its argument into the lease field on every path (R10).',
 'C20': ' A constant index into a handed list in the parser package is dominated by a length test, the analyzer included (R2b; found and fixed F47); the closing token of a block node never shares the opening token\'s line with a comment (R19; found and fixed F48).',
}
for k, v in extra8b.items():
    lvl, tech, text, note, ref = claims[k]
    claims[k] = (lvl, tech, text + v, note, ref)
# round-9 additions
extra9 = {
 'C01': ' Acceptability predicates classify the outcome only: none consults a context (R14).',
 'C04': ' context.Cause is never reported in place of the context\'s error (R7).',
 'C07': ' A function that runs a literal through SingleFlight.Do/DoEx writes the registry map only inside that literal (R13).',
 'C08': ' The decoder-output model (C17.R10: a YAML null stays null) runs under C08 (R19); the adapters\' pass-through rule follows variadic packs.',
 'C10': ' Finish/FinishVoid hand a non-empty list to the package\'s own pipeline exactly once with len(fns) workers and call nothing that recovers on its own (R12).',
 'C15': ' A weight computed by a helper over the whole node list is an accumulation too (R6).',
 'C20': ' No function of the ast and format packages replaces a pattern containing a line break in rendered text (R20; known finding F49: Writer.write edits the inside of multi-line tokens).',
}
for k, v in extra9.items():
    lvl, tech, text, note, ref = claims[k]
    claims[k] = (lvl, tech, text + v, note, ref)
not_built_reason = 'static rules designed (DESIGN.md section 3) but not built yet in this revision'

checks, na = [], []
for p in props:
    i = p['id']
    if i in claims:
        lvl, tech, text, note, ref = claims[i]
        checks.append({
            'property_id': i,
            'quick_cmd': 'bin/gzverify -prop %s -tier quick' % i,
            'thorough_cmd': 'bin/gzverify -prop %s -tier thorough' % i,
            'evidence_file': '/verif/evidence/%s.json' % i,
            'replay_cmd_template': 'bin/gzverify -prop %s -tier quick -v  # replay file {path} names rule, construct and witness path' % i,
            'engine': 'gzverify',
            'level_claimed': {'category': lvl, 'text': text, 'design_ref': ref},
            'level_note': note,
            'technique': tech,
        })
    else:
        na.append({'property_id': i, 'reason': not_built_reason})
m = {
 'version': 1,
 'setup_cmd': 'cd /verif/checker && GOFLAGS=-mod=mod GOPROXY=off GOSUMDB=off GOTOOLCHAIN=local GOWORK=off go build -o ../bin/gzverify ./cmd/gzverify && cd /verif && bin/gzverify -warm',
 'hooks': {'guard': 'verif', 'enable': 'none - the checks read source only; no hooks exist in /repo', 'baseline_off_cmd': 'cd /repo && GOFLAGS=-mod=mod go test -vet=off -count=1 -timeout 25m ./...', 'source_commits': [], 'add_only': True},
 'engines': [{'name': 'gzverify', 'path': 'checker/', 'serves_properties': sorted(claims), 'kind_free_text': 'static analysis: go/packages + go/types + go/ssa path-effect engine (px), lock-guard, who-may-touch, value-flow, decision tables, algebraic normal forms, Lua AST (gopher-lua/parse); nothing of go-zero is executed'}],
 'checks': checks,
 'notes': 'Every claim is a structural necessary condition decided on all paths of the current source (static analysis only: type-checked syntax, SSA paths, call graph, Lua AST), never the run-time behaviour itself. quick = host configuration; thorough = 4 build configurations + in-memory self-test of the checker (informational). Clauses for which static analysis is NOT applicable (not claimed, no other technique substituted): ' + ' | '.join('%s: %s' % (i, claims[i][3]) for i in sorted(claims)),
 'not_applicable': na,
}
json.dump(m, open(os.path.join(V, 'MANIFEST.json'), 'w'), indent=1)
print('claimed', sorted(claims), 'n/a', len(na))
