#!/usr/bin/env python3
"""Regenerates /verif/MANIFEST.json from the claims table below (kept here so the manifest stays valid and consistent)."""
import json, os
V = os.path.dirname(os.path.dirname(os.path.abspath(__file__)))
props = [json.loads(l) for l in open(os.path.join(V, 'properties.jsonl'))]

# id -> (level, technique, level text, level note (not decided / trusted), design ref)
claims = {
 'C14': ('proof', 'path-sensitive typestate over go/ssa (all CFG paths incl. panic exits, defers and recover modelled)',
   'Exhaustive enumeration of every entry-to-exit path of sqlx.transactOnConn (begin ok/fail x body nil/error/panic x commit ok/fail x rollback ok/fail) and of its wrappers: begin failure runs nothing; otherwise body once and exactly one of Commit|Rollback; Commit iff the body returned nil without panicking; nil is returned only when Commit returned nil; commit/rollback errors reach the caller; wrappers forward once and return the result unchanged. The whole property is a control-flow property of this function, so a finite path proof is the right level.',
   'Trusted: go/types, go/ssa, the px engine defer/panic/recover model, database/sql Begin/Commit/Rollback semantics. Not decided: what the driver does; runtime panics inside go-zero straight-line code.',
   'DESIGN.md 3.C14'),
}
not_built_reason = 'static rules designed (DESIGN.md section 3) but not built yet in this revision'

checks, na = [], []
for p in props:
    i = p['id']
    if i in claims:
        lvl, tech, text, note, ref = claims[i]
        checks.append({
            'property_id': i,
            'quick_cmd': 'bin/gzverify -prop %s -tier quick' % i,
            'thorough_cmd': 'bin/gzverify -prop %s -tier thorough' % i,
            'evidence_file': '/verif/evidence/%s.json' % i,
            'replay_cmd_template': 'bin/gzverify -prop %s -tier quick -v  # replay file {path} names rule, construct and witness path' % i,
            'engine': 'gzverify',
            'level_claimed': {'category': lvl, 'text': text, 'design_ref': ref},
            'level_note': note,
            'technique': tech,
        })
    else:
        na.append({'property_id': i, 'reason': not_built_reason})
m = {
 'version': 1,
 'setup_cmd': 'cd /verif/checker && GOFLAGS=-mod=mod GOPROXY=off GOSUMDB=off GOTOOLCHAIN=local GOWORK=off go build -o ../bin/gzverify ./cmd/gzverify && cd /verif && bin/gzverify -warm',
 'hooks': {'guard': 'verif', 'enable': 'none - the checks read source only; no hooks exist in /repo', 'baseline_off_cmd': 'cd /repo && GOFLAGS=-mod=mod go test -vet=off -count=1 -timeout 25m ./...', 'source_commits': [], 'add_only': True},
 'engines': [{'name': 'gzverify', 'path': 'checker/', 'serves_properties': sorted(claims), 'kind_free_text': 'static analysis: go/packages + go/types + go/ssa path-effect engine (px), lock-guard, who-may-touch, value-flow, decision tables, algebraic normal forms, Lua AST (gopher-lua/parse); nothing of go-zero is executed'}],
 'checks': checks,
 'notes': 'Every claim is a structural necessary condition decided on all paths of the current source, never the run-time behaviour itself; the clauses that are not decided are listed per property in level_note and DESIGN.md section 3/4.',
 'not_applicable': na,
}
json.dump(m, open(os.path.join(V, 'MANIFEST.json'), 'w'), indent=1)
print('claimed', sorted(claims), 'n/a', len(na))
