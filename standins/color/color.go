// Package color is a minimal stand-in for github.com/gookit/color (not in the offline module cache).
// It only exists so that tools/goctl type-checks; it is never analysed.
package color

import "fmt"

type Color uint8

const (
	Bold Color = iota + 1
	BgRed
	LightCyan
	LightGreen
	LightYellow
	LightRed
	Red
	Green
	Yellow
	Cyan
)

func (c Color) Sprintf(format string, a ...any) string { return fmt.Sprintf(format, a...) }
func (c Color) Sprint(a ...any) string                 { return fmt.Sprint(a...) }
func (c Color) Render(a ...any) string                 { return fmt.Sprint(a...) }
func (c Color) Println(a ...any)                       { fmt.Println(a...) }
func (c Color) Printf(format string, a ...any)         { fmt.Printf(format, a...) }

type Style []Color

func New(colors ...Color) Style                         { return Style(colors) }
func (s Style) Render(a ...any) string                  { return fmt.Sprint(a...) }
func (s Style) Sprintf(format string, a ...any) string  { return fmt.Sprintf(format, a...) }
func (s Style) Println(a ...any)                        { fmt.Println(a...) }
func (s Style) Printf(format string, a ...any)          { fmt.Printf(format, a...) }
