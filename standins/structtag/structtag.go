// Package structtag is a minimal stand-in for github.com/fatih/structtag (not in the offline module cache).
// It only exists so that tools/goctl type-checks; it is never analysed.
package structtag

import (
	"errors"
	"reflect"
	"strings"
)

type Tag struct {
	Key     string
	Name    string
	Options []string
}

type Tags struct{ tags []*Tag }

func Parse(tag string) (*Tags, error) {
	t := &Tags{}
	st := reflect.StructTag(strings.Trim(tag, "`"))
	for _, k := range []string{"json", "form", "path", "header", "yaml"} {
		if v, ok := st.Lookup(k); ok {
			parts := strings.Split(v, ",")
			t.tags = append(t.tags, &Tag{Key: k, Name: parts[0], Options: parts[1:]})
		}
	}
	return t, nil
}

func (t *Tags) Tags() []*Tag { return t.tags }
func (t *Tags) Keys() []string {
	var ks []string
	for _, x := range t.tags {
		ks = append(ks, x.Key)
	}
	return ks
}
func (t *Tags) Get(key string) (*Tag, error) {
	for _, x := range t.tags {
		if x.Key == key {
			return x, nil
		}
	}
	return nil, errors.New("tag does not exist")
}
func (t *Tag) Value() string        { return strings.Join(append([]string{t.Name}, t.Options...), ",") }
func (t *Tag) String() string       { return t.Key + `:"` + t.Value() + `"` }
func (t *Tag) HasOption(o string) bool {
	for _, x := range t.Options {
		if x == o {
			return true
		}
	}
	return false
}
