package rules

import (
	"fmt"
	"go/constant"
	"go/token"
	"math/big"
	"sort"
	"strings"

	"gzverify/px"
)

// Algebraic normal form (E13): an arithmetic sym tree over +, -, * (and / or %
// by a leaf kept as opaque nodes) is expanded to a polynomial with rational
// coefficients over named leaves. Two derivations agree iff their normal forms
// are equal. Conversions are transparent.

type Poly map[string]*big.Rat // monomial ("a*b*b", "" for the constant term) → coefficient

// leafNamer maps a leaf sym to a stable name ("" = not a recognised leaf → opaque description).
type leafNamer func(s *px.Sym) string

func polyConst(r *big.Rat) Poly { return Poly{"": r} }

func (p Poly) clean() Poly {
	for k, v := range p {
		if v.Sign() == 0 {
			delete(p, k)
		}
	}
	return p
}

func polyAdd(a, b Poly, sign int64) Poly {
	out := Poly{}
	for k, v := range a {
		out[k] = new(big.Rat).Set(v)
	}
	for k, v := range b {
		t := new(big.Rat).Mul(v, big.NewRat(sign, 1))
		if o, ok := out[k]; ok {
			out[k] = new(big.Rat).Add(o, t)
		} else {
			out[k] = t
		}
	}
	return out.clean()
}

func monoMul(a, b string) string {
	var fs []string
	if a != "" {
		fs = append(fs, strings.Split(a, "*")...)
	}
	if b != "" {
		fs = append(fs, strings.Split(b, "*")...)
	}
	sort.Strings(fs)
	return strings.Join(fs, "*")
}

func polyMul(a, b Poly) Poly {
	out := Poly{}
	for ka, va := range a {
		for kb, vb := range b {
			k := monoMul(ka, kb)
			t := new(big.Rat).Mul(va, vb)
			if o, ok := out[k]; ok {
				out[k] = new(big.Rat).Add(o, t)
			} else {
				out[k] = t
			}
		}
	}
	return out.clean()
}

func (p Poly) String() string {
	var ks []string
	for k := range p {
		ks = append(ks, k)
	}
	sort.Strings(ks)
	var parts []string
	for _, k := range ks {
		c := p[k].RatString()
		if k == "" {
			parts = append(parts, c)
		} else {
			parts = append(parts, c+"·"+k)
		}
	}
	if len(parts) == 0 {
		return "0"
	}
	return strings.Join(parts, " + ")
}

func polyEq(a, b Poly) bool { return a.String() == b.String() }

// anf expands s. Named constants / literals become rational constants.
func anf(p *px.Path, s *px.Sym, name leafNamer) Poly {
	return anfRec(p, s, name, 0)
}

func anfRec(p *px.Path, s *px.Sym, name leafNamer, d int) Poly {
	s = s.Strip(true)
	if s == nil || d > 20 {
		return Poly{"?": big.NewRat(1, 1)}
	}
	if n := name(s); n != "" {
		return Poly{n: big.NewRat(1, 1)}
	}
	if s.Kind == px.KConst {
		if a := p.Abs(s); a.K == px.ConstV {
			if r, ok := ratOf(a.C); ok {
				return polyConst(r)
			}
		}
	}
	if s.Kind == px.KBinOp {
		x, y := anfRec(p, s.X, name, d+1), anfRec(p, s.Y, name, d+1)
		switch s.Op {
		case token.ADD:
			return polyAdd(x, y, 1)
		case token.SUB:
			return polyAdd(x, y, -1)
		case token.MUL:
			return polyMul(x, y)
		case token.QUO, token.REM:
			// division by a non-zero constant is exact over the rationals only for floats;
			// keep every quotient/remainder opaque with normalised operands
			op := "/"
			if s.Op == token.REM {
				op = "%"
			}
			return Poly{fmt.Sprintf("(%s)%s(%s)", x, op, y): big.NewRat(1, 1)}
		}
	}
	if s.Kind == px.KUnOp && s.Op == token.SUB {
		return polyMul(polyConst(big.NewRat(-1, 1)), anfRec(p, s.X, name, d+1))
	}
	return Poly{"<" + s.Describe() + ">": big.NewRat(1, 1)}
}

func ratOf(c constant.Value) (*big.Rat, bool) {
	switch c.Kind() {
	case constant.Int:
		if i, ok := constant.Int64Val(c); ok {
			return big.NewRat(i, 1), true
		}
	case constant.Float:
		// typed float constants are rounded: snap to a short decimal
		f, _ := constant.Float64Val(c)
		r := new(big.Rat)
		if _, ok := r.SetString(fmt.Sprintf("%.12g", f)); ok {
			return r, true
		}
	}
	return nil, false
}

// polyOf builds a polynomial from a literal description: "1 + dev - 2*dev*rand".
func polyOf(terms map[string]string) Poly {
	out := Poly{}
	for k, v := range terms {
		r := new(big.Rat)
		r.SetString(v)
		fs := strings.Split(k, "*")
		if k == "" {
			fs = nil
		}
		sort.Strings(fs)
		out[strings.Join(fs, "*")] = r
	}
	return out.clean()
}

func ratOne() *big.Rat { return big.NewRat(1, 1) }
