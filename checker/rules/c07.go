package rules

import (
	"fmt"
	"go/constant"
	"go/token"
	"go/types"
	"strings"

	"golang.org/x/tools/go/ssa"

	"gzverify/px"
)

// C07 — SingleFlight / LockedCalls / ResourceManager.
func init() { register("C07", "other", c07) }

func c07(c *Ctx) {
	c.R.RuleText = "lock-guard and ordering rules on every path (incl. panic exits) of createCall/makeCall/Do/DoEx, lockedGroup.Do/makeCall and ResourceManager.GetResource"
	c.R.Explain = "Structural necessary conditions of C07: the call maps are touched only under their mutex and no user function runs under it; in both makeCall functions the deferred completion deletes the key (under the lock) before wg.Done() and is registered before fn runs, so it also runs on panic; the creator registers the call (Add(1), map store) before unlocking and waiters unlock before waiting; fn runs exactly once per makeCall and its results are stored only in the call object; Do/DoEx return the call's own val/err and report fresh exactly for the creator; ResourceManager creates only inside the single-flight closure after a miss and stores only on success. NOT decided: the interval-overlap statement over real interleavings, liveness."
	c.R.Assume = append(c.R.Assume, "sync.Mutex/WaitGroup semantics", "panics originate in the user function fn")
	pkg := "core/syncx"
	// the registries are found by role (the map-typed field), not by spelling
	fgMap := c.fieldByRole(pkg, "flightGroup", "calls", isMapType)
	lgMap := c.fieldByRole(pkg, "lockedGroup", "m", isMapType)
	// R1 lock guards
	lockGuardFn(c, "C07.R1", pkg+".(*flightGroup).createCall", c.fn("C07.R1", pkg, "(*flightGroup).createCall"), "lock", []string{fgMap}, false, true, nil, true)
	lockGuardFn(c, "C07.R1", pkg+".(*flightGroup).makeCall", c.fn("C07.R1", pkg, "(*flightGroup).makeCall"), "lock", []string{fgMap}, false, true, nil, true)
	lockGuardFn(c, "C07.R1", pkg+".(*lockedGroup).Do", c.fn("C07.R1", pkg, "(*lockedGroup).Do"), "mu", []string{lgMap}, false, true, []string{"makeCall"}, true)
	lockGuardFn(c, "C07.R1", pkg+".(*ResourceManager).Close", c.fn("C07.R1", pkg, "(*ResourceManager).Close"), "lock", []string{"resources"}, false, true, nil, false)
	lockGuardFn(c, "C07.R1", pkg+".(*ResourceManager).Inject", c.fn("C07.R1", pkg, "(*ResourceManager).Inject"), "lock", []string{"resources"}, false, true, nil, false)
	if f := c.fn("C07.R1", pkg, "(*ResourceManager).GetResource"); f != nil {
		cl := c.closure("C07.R1", f, "single-flight closure", func(a *ssa.Function) bool { return true })
		lockGuardFn(c, "C07.R1", pkg+".(*ResourceManager).GetResource$flight", cl, "lock", []string{"resources"}, false, true, nil, true)
	}
	c.R.Min("C07.R1", 6, "createCall, makeCall, lockedGroup.Do(+makeCall), Close, Inject, GetResource closure")

	// R2 + R4 makeCall (both groups)
	for _, g := range []struct{ typ, mapField, rule string }{{"flightGroup", fgMap, "C07.R2"}, {"lockedGroup", lgMap, "C07.R2"}} {
		f := c.fn(g.rule, pkg, "(*"+g.typ+").makeCall")
		if f == nil {
			continue
		}
		fnP := paramOfType(f, "func() (any, error)")
		keyP := paramOfType(f, "string")
		if fnP == nil || keyP == nil {
			c.R.Undecided(g.rule, pkg+".(*"+g.typ+").makeCall", "anchor resolves", "fn/key parameters not found")
			continue
		}
		ps := c.paths(g.rule, f, px.Config{MayPanic: userPanics, MayGoexit: func(ci *px.CallInfo) bool { return ci.IsDyn() && ci.FnSym != nil && isParam(ci.FnSym, fnP) }})
		isFn := px.DynWhere(func(s *px.Sym) bool { return isParam(s, fnP) })
		del := func(e *px.Event) bool {
			return e.Kind == px.EvCall && e.Call.Builtin == "delete" && px.IsFieldLoad(e.Call.Args[0], g.mapField, nil)
		}
		done := calleeIs("sync.(*WaitGroup).Done")
		c.forall(g.rule, pkg+".(*"+g.typ+").makeCall", "fn runs exactly once; on every exit incl. panic the key is deleted from the map exactly once and wg.Done() is called exactly once, both after fn", f, ps, func(p *px.Path) (bool, string) {
			fs := p.All(isFn)
			if len(fs) != 1 {
				return false, fmt.Sprintf("fn called %d times", len(fs))
			}
			ds, dn := p.All(del), p.All(done)
			if len(ds) != 1 || len(dn) != 1 {
				return false, fmt.Sprintf("on exit %q: delete ×%d, Done ×%d (a panicking flight would leave a dead entry / blocked waiters)", p.Exit, len(ds), len(dn))
			}
			if !isParam(ds[0].Call.Args[1], keyP) {
				return false, "another key is deleted"
			}
			// the relative order of the two is deliberately not pinned: a caller that joins between Done and
			// delete still overlaps the leading call (which has not returned yet), so the property holds either way
			if ds[0].Seq < fs[0].Seq || dn[0].Seq < fs[0].Seq {
				return false, "completion runs before fn"
			}
			if fs[0].PanicsHere && p.Exit != px.ExitPanic {
				return false, "fn's panic is swallowed"
			}
			// the joiners read the call object after Done: when fn never returned (it panicked or ended its goroutine) the
			// object must carry a non-nil error by then — otherwise they receive (nil, nil), a success no execution produced
			if g.typ == "flightGroup" && (fs[0].PanicsHere || fs[0].GoexitHere) {
				ok := false
				for _, e := range p.All(px.KindIs(px.EvStore)) {
					if e.Seq >= dn[0].Seq || !px.FieldAddrIs(e.Addr, "err", nil) {
						continue
					}
					v := e.Val.Strip(false)
					// a non-nil error: established non-nil, a package-level sentinel, or a freshly made error
					if p.Abs(v).K == px.NonNil || (v.Kind == px.KLoad && v.X != nil && v.X.Kind == px.KGlobal) ||
						(v.Kind == px.KCall && v.Call != nil && nameIn(shortName(v.Call), []string{"errors.New", "fmt.Errorf"})) {
						ok = true
					}
				}
				if !ok {
					return false, "fn did not return (panic / runtime.Goexit) and the waiters are released without an error in the call object: every caller that joined this flight receives (nil, nil) — a value and error that no execution produced (collection.Cache.Take reports a successful nil hit, ResourceManager.GetResource panics on the type assertion)"
				}
			}
			return true, ""
		})
	}
	c.R.Min("C07.R2", 2, "flightGroup.makeCall, lockedGroup.makeCall")

	// R3 createCall
	if f := c.fn("C07.R3", pkg, "(*flightGroup).createCall"); f != nil {
		ps := c.paths("C07.R3", f, px.Config{})
		unlock := lockOn("lock", "Unlock")
		c.forall("C07.R3", pkg+".(*flightGroup).createCall", "creator: wg.Add(1) and calls[key]=c precede Unlock, returns (c,false) without waiting; waiter: Unlock precedes wg.Wait, returns the found call and true", f, ps, func(p *px.Path) (bool, string) {
			lk := p.First(px.KindIs(px.EvLookup))
			if lk == nil || !px.IsFieldLoad(lk.Addr, fgMap, nil) || !isParam(lk.Key, f.Params[1]) {
				return false, "calls[key] not consulted"
			}
			okSym := findExtract(p, lk.Res, 1)
			u := p.First(unlock)
			if u == nil || p.Count(unlock) != 1 {
				return false, "not exactly one Unlock"
			}
			wait := p.All(calleeIs("sync.(*WaitGroup).Wait"))
			switch p.Abs(okSym).K {
			case px.True:
				if len(wait) != 1 || wait[0].Seq < u.Seq {
					return false, "waiter does not wait after unlocking"
				}
				if p.Abs(p.Results[1]).K != px.True || p.Results[0].Strip(false) != findExtract(p, lk.Res, 0) {
					return false, "waiter does not return (found call, true)"
				}
				if p.Has(px.KindIs(px.EvMapUpdate)) {
					return false, "waiter modifies the map"
				}
			case px.False:
				if len(wait) != 0 {
					return false, "creator waits"
				}
				add := p.First(calleeIs("sync.(*WaitGroup).Add"))
				mu := p.First(px.KindIs(px.EvMapUpdate))
				if add == nil || mu == nil || add.Seq > u.Seq || mu.Seq > u.Seq {
					return false, "the call is not registered (Add(1) + map store) before the lock is released"
				}
				if a := p.Abs(add.Call.Args[1]); a.K != px.ConstV || !constant.Compare(a.C, token.EQL, constant.MakeInt64(1)) {
					return false, "Add is not Add(1)"
				}
				if !px.IsFieldLoad(mu.Addr, fgMap, nil) || !isParam(mu.Key, f.Params[1]) || mu.Val.Strip(false) != p.Results[0].Strip(false) {
					return false, "the registered call is not calls[key] = returned call"
				}
				if p.Abs(p.Results[1]).K != px.False {
					return false, "creator does not report done=false"
				}
			default:
				return false, "lookup result not tested"
			}
			return true, ""
		})
	}
	if f := c.fn("C07.R3", pkg, "(*lockedGroup).Do"); f != nil {
		mk := c.P.Func(pkg, "(*lockedGroup).makeCall")
		ps := c.paths("C07.R3", f, px.Config{MaxVisits: 2})
		unlock := lockOn("mu", "Unlock")
		c.forall("C07.R3", pkg+".(*lockedGroup).Do", "key busy ⇒ Unlock then Wait then retry; key free ⇒ makeCall(key, caller's own fn) with the lock still held and its results returned", f, ps, func(p *px.Path) (bool, string) {
			for _, lk := range p.All(px.KindIs(px.EvLookup)) {
				okSym := findExtract(p, lk.Res, 1)
				if okSym == nil {
					continue
				}
				if p.Abs(okSym).K == px.True {
					// next events: Unlock, Wait
					var u, w *px.Event
					for i := lk.Seq; i < len(p.Events); i++ {
						e := &p.Events[i]
						if u == nil && unlock(e) {
							u = e
						}
						if w == nil && calleeIs("sync.(*WaitGroup).Wait")(e) {
							w = e
						}
						if px.CallsFn(mk)(e) && (w == nil || e.Seq < w.Seq) {
							return false, "runs the function although the key is busy"
						}
						if e.Kind == px.EvLookup && e.Seq > lk.Seq {
							break
						}
					}
					if (u == nil || w == nil || w.Seq < u.Seq) && p.Exit != px.ExitCut {
						return false, "busy key: does not unlock and then wait"
					}
				}
			}
			if p.Exit == px.ExitReturn {
				m := p.All(px.CallsFn(mk))
				if len(m) != 1 {
					return false, "makeCall not called exactly once on a returning path"
				}
				if !isParam(m[0].Call.Args[1], f.Params[1]) || !isParam(m[0].Call.Args[2], f.Params[2]) {
					return false, "makeCall does not get the caller's own key and fn"
				}
				for i, r := range p.Results {
					if r.Strip(false) != findExtract(p, m[0].Res, i) {
						return false, "makeCall's results are not returned unchanged"
					}
				}
			}
			return true, ""
		})
	}
	if f := c.fn("C07.R3", pkg, "(*lockedGroup).makeCall"); f != nil {
		ps := c.paths("C07.R3", f, px.Config{MayPanic: userPanics})
		unlock := lockOn("mu", "Unlock")
		c.forall("C07.R3", pkg+".(*lockedGroup).makeCall", "the key is registered (Add(1) + m[key]=&wg) before the first Unlock, fn runs after it, and fn's results are returned", f, ps, func(p *px.Path) (bool, string) {
			u := p.First(unlock)
			add := p.First(calleeIs("sync.(*WaitGroup).Add"))
			mu := p.First(px.KindIs(px.EvMapUpdate))
			fn := p.First(px.DynWhere(func(s *px.Sym) bool { return isParam(s, f.Params[2]) }))
			if u == nil || add == nil || mu == nil || fn == nil {
				return false, "registration/unlock/fn missing"
			}
			if add.Seq > u.Seq || mu.Seq > u.Seq {
				return false, "the key is registered after the lock is released"
			}
			if fn.Seq < u.Seq {
				return false, "fn runs before the group lock is released (all keys wait for each other)"
			}
			if !px.IsFieldLoad(mu.Addr, lgMap, nil) || !isParam(mu.Key, f.Params[1]) || mu.Val.Strip(false) != add.Call.Args[0].Strip(false) {
				return false, "m[key] is not the wait group that was incremented"
			}
			if p.Exit == px.ExitReturn {
				for i, r := range p.Results {
					if r.Strip(false) != findExtract(p, fn.Res, i) {
						return false, "fn's results are not returned unchanged"
					}
				}
			}
			return true, ""
		})
	}
	c.R.Min("C07.R3", 3, "createCall, lockedGroup.Do, lockedGroup.makeCall")

	// R4 exactly-once & freshness
	if f := c.fn("C07.R4", pkg, "(*flightGroup).makeCall"); f != nil {
		ps := c.paths("C07.R4", f, px.Config{MayPanic: userPanics})
		fnP := paramOfType(f, "func() (any, error)")
		c.forall("C07.R4", pkg+".(*flightGroup).makeCall#results", "fn's value and error are stored into the call object handed in (c.val, c.err) and nowhere else", f, ps, func(p *px.Path) (bool, string) {
			fn := p.First(px.DynWhere(func(s *px.Sym) bool { return isParam(s, fnP) }))
			if fn == nil {
				return false, "fn not called"
			}
			if fn.PanicsHere {
				return true, ""
			}
			got := map[string]bool{}
			for _, e := range p.All(px.KindIs(px.EvStore)) {
				if b, fname, ok := e.Addr.FieldAddrOf(); ok && (fname == "val" || fname == "err") {
					if !isParam(b, f.Params[1]) {
						return false, "result stored into another call object"
					}
					if e.Seq < fn.Seq {
						continue // what the object holds while fn runs (e.g. an "aborted" marker that a returning fn overwrites)
					}
					idx := 0
					if fname == "err" {
						idx = 1
					}
					if e.Val.Strip(false) != findExtract(p, fn.Res, idx) {
						return false, "c." + fname + " does not receive fn's result #" + fmt.Sprint(idx)
					}
					got[fname] = true
				}
			}
			if !got["val"] || !got["err"] {
				return false, "fn's results are not stored in the call"
			}
			return true, ""
		})
	}
	for _, m := range []string{"Do", "DoEx"} {
		f := c.fn("C07.R4", pkg, "(*flightGroup)."+m)
		if f == nil {
			continue
		}
		cc := c.P.Func(pkg, "(*flightGroup).createCall")
		mk := c.P.Func(pkg, "(*flightGroup).makeCall")
		ps := c.paths("C07.R4", f, px.Config{})
		c.forall("C07.R4", pkg+".(*flightGroup)."+m, "joined an in-flight call ⇒ fn is not run, fresh=false; created it ⇒ makeCall(c,key,fn) ×1, fresh=true; the returned value and error are read from that call object after it completed", f, ps, func(p *px.Path) (bool, string) {
			cr := p.All(px.CallsFn(cc))
			if len(cr) != 1 || !isParam(cr[0].Call.Args[1], f.Params[1]) {
				return false, "createCall(key) not called exactly once"
			}
			call := findExtract(p, cr[0].Res, 0)
			done := findExtract(p, cr[0].Res, 1)
			if call == nil || done == nil {
				return false, "createCall results unused"
			}
			mks := p.All(px.CallsFn(mk))
			var lastSeq int
			switch p.Abs(done).K {
			case px.True:
				if len(mks) != 0 {
					return false, "a joining caller runs fn again"
				}
				lastSeq = cr[0].Seq
			case px.False:
				if len(mks) != 1 {
					return false, fmt.Sprintf("makeCall ×%d for the creator", len(mks))
				}
				a := mks[0].Call.Args
				if a[1].Strip(false) != call || !isParam(a[2], f.Params[1]) || !isParam(a[3], f.Params[2]) {
					return false, "makeCall does not get (created call, key, caller's fn)"
				}
				lastSeq = mks[0].Seq
			default:
				return false, "done not tested"
			}
			want := []string{"val", "err"}
			if m == "DoEx" {
				want = []string{"val", "", "err"}
				wantFresh := px.False
				if p.Abs(done).K == px.False {
					wantFresh = px.True
				}
				if p.Abs(p.Results[1]).K != wantFresh {
					return false, "fresh is reported wrongly"
				}
			}
			for i, w := range want {
				if w == "" {
					continue
				}
				r := p.Results[i].Strip(false)
				if !px.IsFieldLoad(r, w, func(b *px.Sym) bool { return b == call }) {
					return false, "result " + w + " is not read from the call object"
				}
				// read after completion
				for _, e := range p.All(px.KindIs(px.EvLoad)) {
					if e.Val == r && e.Seq < lastSeq {
						return false, "c." + w + " is read before the call completed"
					}
				}
			}
			return true, ""
		})
	}
	c.R.Min("C07.R4", 3, "makeCall results, Do, DoEx")

	// R5 who may touch call.val / call.err and the calls map
	var bad []string
	sites := 0
	for _, fn := range c.P.AllFuncs(pkg) {
		for _, b := range fn.Blocks {
			for _, ins := range b.Instrs {
				st, ok := ins.(*ssa.Store)
				if !ok {
					continue
				}
				if fa, ok := st.Addr.(*ssa.FieldAddr); ok && isNamedStruct(fa.X.Type(), "call") && (fieldNameOf(fa) == "val" || fieldNameOf(fa) == "err") {
					sites++
					root := fn
					for root.Parent() != nil {
						root = root.Parent()
					}
					if root.Name() != "makeCall" {
						bad = append(bad, fn.String()+" at "+c.P.Pos(st.Pos()))
					}
				}
			}
		}
	}
	o := c.R.Check(len(bad) == 0 && sites >= 2, "C07.R5", pkg+".call.val/err", "a call's result is written only by makeCall (no result is retained or patched elsewhere)", "-", fmt.Sprint(bad), nil, 0)
	o.Sites = sites

	// R6 ResourceManager.GetResource
	if f := c.fn("C07.R6", pkg, "(*ResourceManager).GetResource"); f != nil {
		cl := c.closure("C07.R6", f, "single-flight closure", func(a *ssa.Function) bool { return true })
		ps := c.paths("C07.R6", f, px.Config{})
		c.forall("C07.R6", pkg+".(*ResourceManager).GetResource", "creation happens only inside singleFlight.Do(key, …); its error is returned with a nil resource", f, ps, func(p *px.Path) (bool, string) {
			if p.Has(px.DynWhere(func(s *px.Sym) bool { return s.Kind == px.KParam })) {
				return false, "create() is called outside the single-flight closure"
			}
			do := p.All(func(e *px.Event) bool {
				return e.Kind == px.EvCall && e.Call.Method != nil && e.Call.Method.Name() == "Do" && px.IsFieldLoad(e.Call.Recv, "singleFlight", nil)
			})
			if len(do) != 1 || !isParam(do[0].Call.Args[0], f.Params[1]) {
				return false, "singleFlight.Do(key, …) not called exactly once with the caller's key"
			}
			if a := do[0].Call.Args[1].Strip(false); a.Kind != px.KClosure || a.Fn != cl {
				return false, "the function handed to the single flight is not the creating closure"
			}
			es := findExtract(p, do[0].Res, 1)
			if es != nil && p.Abs(es).K == px.NonNil && p.Exit == px.ExitReturn {
				if !px.IsNilConst(p.Results[0]) || p.Results[1].Strip(false) != es {
					return false, "creation error not returned as (nil, err)"
				}
			}
			return true, ""
		})
		if cl != nil {
			cps := c.paths("C07.R6", cl, px.Config{MayPanic: userPanics})
			create := px.DynWhere(func(s *px.Sym) bool {
				return s.Kind == px.KFreeVar || (s.Kind == px.KLoad && s.X != nil && s.X.Kind == px.KFreeVar)
			})
			c.forall("C07.R6", pkg+".(*ResourceManager).GetResource$flight", "hit ⇒ the stored resource, create×0; miss ⇒ create×1; error ⇒ (nil, err) and nothing stored; success ⇒ resources[key] = created resource ×1 and it is returned", cl, cps, func(p *px.Path) (bool, string) {
				lk := p.First(px.KindIs(px.EvLookup))
				if lk == nil {
					return false, "resources[key] not consulted"
				}
				okSym := findExtract(p, lk.Res, 1)
				cr := p.All(create)
				ups := p.All(px.KindIs(px.EvMapUpdate))
				switch p.Abs(okSym).K {
				case px.True:
					if len(cr) != 0 || len(ups) != 0 {
						return false, "an existing resource is created again"
					}
					if p.Results[0].Strip(false) != findExtract(p, lk.Res, 0).Strip(false) {
						return false, "hit does not return the stored resource"
					}
				case px.False:
					if len(cr) != 1 {
						return false, fmt.Sprintf("create ×%d on a miss", len(cr))
					}
					if cr[0].PanicsHere {
						if len(ups) != 0 {
							return false, "stored although create panicked"
						}
						return true, ""
					}
					es := findExtract(p, cr[0].Res, 1)
					switch p.Abs(es).K {
					case px.NonNil:
						if len(ups) != 0 {
							return false, "a failed creation is stored"
						}
						if !px.IsNilConst(p.Results[0]) || p.Results[1].Strip(false) != es {
							return false, "creation error not returned"
						}
					case px.Nil:
						if len(ups) != 1 || ups[0].Val.Strip(false) != findExtract(p, cr[0].Res, 0).Strip(false) {
							return false, "the created resource is not stored exactly once"
						}
						if p.Results[0].Strip(false) != findExtract(p, cr[0].Res, 0).Strip(false) {
							return false, "the created resource is not what is returned"
						}
					default:
						return false, "creation error not tested"
					}
				default:
					return false, "lookup not tested"
				}
				return true, ""
			})
		}
	}
	c.R.Min("C07.R6", 2, "GetResource, its closure")
	c07privateGroup(c)
	c07sharedValue(c)
	// R9 (round 5): the flight's main in-tree user. Every cache is given one shared flight group and hands it on to the
	// nodes it builds; a reader that joined a flight returns that flight's error (not something derived from its own context).
	c06sharedBarrierAs(c, "C07.R9")
	c06barrierUse(c, "C07.R9")
	c07memCache(c)
	c07flightClosuresDontSerialise(c)
	c07registeredInsideFlight(c)
	// R11 (round 8): the callers of the cache's flight keep the query inside it (C06.R15)
	runShared(c, "C06.R15", "C07.R11", c06queriesInsideTake)
}

// c07privateGroup (C07.R7): every ResourceManager owns its flight group. The flight key is only the
// resource key, so two managers sharing one group join each other's creations: a caller of manager
// B is handed A's resource, B stores nothing, and the next caller of B creates a second instance
// (seed r3-C07-2). The field must be set from a NewSingleFlight() call made for this manager.
func c07privateGroup(c *Ctx) {
	rule := "C07.R7"
	var bad []string
	stores := 0
	for _, pk := range c.P.Pkgs {
		rel := strings.TrimPrefix(pk.PkgPath, mod)
		for _, fn := range c.P.AllFuncs(rel) {
			for _, b := range fn.Blocks {
				for _, ins := range b.Instrs {
					st, ok := ins.(*ssa.Store)
					if !ok {
						continue
					}
					fa, ok := st.Addr.(*ssa.FieldAddr)
					if !ok {
						continue
					}
					pt, ok := fa.X.Type().Underlying().(*types.Pointer)
					if !ok || typeString(pt.Elem()) != "core/syncx.ResourceManager" {
						continue
					}
					ft := pt.Elem().Underlying().(*types.Struct).Field(fa.Field).Type()
					if typeString(ft) != "core/syncx.SingleFlight" {
						continue
					}
					stores++
					fresh := false
					for _, d := range reachingDefs(st.Val, fn, 0) {
						if call, ok := d.(*ssa.Call); ok && call.Parent() == fn {
							if sc := call.Call.StaticCallee(); sc != nil && sc.Name() == "NewSingleFlight" {
								fresh = true
								continue
							}
						}
						fresh = false
						bad = append(bad, fmt.Sprintf("%s: %s gives the manager a flight group that is not created for it (%s): managers sharing a group join each other's creations for equal keys", c.P.Pos(st.Pos()), fn.Name(), describeDef(c, d)))
						break
					}
					_ = fresh
				}
			}
		}
	}
	sortStrings(bad)
	o := c.R.Check(len(bad) == 0 && stores >= 1, rule, "core/syncx.ResourceManager.singleFlight#private", "a ResourceManager's flight group is a NewSingleFlight() made for that manager", "-", strings.Join(bad, "; "), bad, stores)
	o.Sites = stores
}

// c07sharedValue (C07.R8): what a flight shares is produced inside the flight. A closure handed to
// SingleFlight.Do/DoEx that returns (an interface wrapping) a pointer-like variable of the enclosing
// caller shares an alias of the leader's own variable: the other callers read it after the flight
// has ended — i.e. after the leading call may have returned and moved on — so they receive whatever
// the leader has made of it meanwhile, not the result of the overlapping execution (seed r3-C07-3).
func c07sharedValue(c *Ctx) {
	rule := "C07.R8"
	var bad []string
	sites := 0
	pointerLike := func(t types.Type) bool {
		switch t.Underlying().(type) {
		case *types.Pointer, *types.Map, *types.Slice, *types.Chan, *types.Interface:
			return true
		}
		return false
	}
	for _, pk := range c.P.Pkgs {
		rel := strings.TrimPrefix(pk.PkgPath, mod)
		for _, fn := range c.P.AllFuncs(rel) {
			for _, b := range fn.Blocks {
				for _, ins := range b.Instrs {
					call, ok := ins.(ssa.CallInstruction)
					if !ok {
						continue
					}
					cc := call.Common()
					if !cc.IsInvoke() || typeString(cc.Value.Type()) != "core/syncx.SingleFlight" {
						continue
					}
					for _, a := range cc.Args {
						mc, ok := a.(*ssa.MakeClosure)
						if !ok {
							continue
						}
						cl := mc.Fn.(*ssa.Function)
						sites++
						for _, cb := range cl.Blocks {
							for _, ci := range cb.Instrs {
								ret, ok := ci.(*ssa.Return)
								if !ok || len(ret.Results) == 0 {
									continue
								}
								for _, d := range reachingDefs(ret.Results[0], cl, 0) {
									// a value that lives outside the closure: parameter of an enclosing function, or
									// the content of a captured variable that the closure did not assign itself
									if prm, ok := d.(*ssa.Parameter); ok && prm.Parent() != cl && pointerLike(prm.Type()) {
										bad = append(bad, fmt.Sprintf("%s: the flight started in %s shares its caller's own variable %s: the callers that join receive an alias of the leader's variable, read after the flight ended", c.P.Pos(ret.Pos()), fn.Name(), prm.Name()))
									}
								}
							}
						}
					}
				}
			}
		}
	}
	sortStrings(bad)
	bad = uniqStrings(bad)
	o := c.R.Check(len(bad) == 0 && sites >= 4, rule, "SingleFlight users#shared-value", "no closure handed to SingleFlight.Do/DoEx returns a pointer-like parameter of its enclosing function (the shared value is made inside the flight)", "-", strings.Join(bad, "; "), bad, sites)
	o.Sites = sites
}

// c07memCache (C07.R10, round 6): the in-memory cache's Take is the flight's other in-tree user with a caller-supplied
// loader. On every path of Take the loader is never invoked by Take itself: a path either returns the hit found by the
// first lookup, or calls c.barrier.Do exactly once, keyed by the caller's key, with the closure that (alone) runs the
// loader at most once. A "plain miss" shortcut that calls fetch() directly — for some configuration of the cache —
// lets every overlapping Take of one key run the loader at the same time.
func c07memCache(c *Ctx) {
	rule := "C07.R10"
	const cpkg = "core/collection"
	f := c.fn(rule, cpkg, "(*Cache).Take")
	if f == nil {
		return
	}
	cl := c.closure(rule, f, "barrier closure", func(a *ssa.Function) bool { return a.Parent() == f })
	if cl == nil {
		return
	}
	keyP := paramOfType(f, "string")
	fetchP := paramOfType(f, "func() (any, error)")
	if keyP == nil || fetchP == nil {
		c.R.Undecided(rule, cpkg+".(*Cache).Take", "Take(key, fetch) has a key and a loader", "parameters not recognised")
		return
	}
	doGet := c.P.Func(cpkg, "(*Cache).doGet")
	ps := c.paths(rule, f, px.Config{})
	c.forall(rule, cpkg+".(*Cache).Take", "the loader runs only inside the closure handed to c.barrier.Do(key, …): a path returns the first lookup's hit or goes through the barrier exactly once", f, ps, func(p *px.Path) (bool, string) {
		if p.Has(func(e *px.Event) bool { return e.Kind == px.EvCall && e.Call.IsDyn() && e.Call.FnSym.Kind == px.KParam }) {
			return false, "the loader is invoked outside the barrier: overlapping Takes of one key all load"
		}
		do := p.All(func(e *px.Event) bool {
			return e.Kind == px.EvCall && e.Call.Method != nil && (e.Call.Method.Name() == "Do" || e.Call.Method.Name() == "DoEx") && px.IsFieldLoad(e.Call.Recv, "barrier", nil)
		})
		if len(do) == 0 {
			// only the hit of the first lookup may skip the barrier
			gs := p.All(px.CallsFn(doGet))
			if len(gs) == 1 {
				if ok := findExtract(p, gs[0].Res, 1); ok != nil && p.Abs(ok).K == px.True {
					return true, ""
				}
			}
			return false, "a path that did not find the key returns without going through the barrier"
		}
		if len(do) != 1 {
			return false, "the barrier is entered more than once"
		}
		if !isParam(do[0].Call.Args[0], keyP) {
			return false, "the barrier is not keyed by the caller's key"
		}
		if a := do[0].Call.Args[1].Strip(false); a.Kind != px.KClosure || a.Fn != cl {
			return false, "the barrier does not run the loading closure"
		}
		return true, ""
	})
	cps := c.paths(rule, cl, px.Config{})
	c.forall(rule, cpkg+".(*Cache).Take$flight", "inside the flight the loader runs at most once, and not at all when the second lookup finds the key", cl, cps, func(p *px.Path) (bool, string) {
		n := p.Count(px.DynWhere(func(s *px.Sym) bool {
			s = s.Strip(false)
			return (s.Kind == px.KFreeVar && s.V.Name() == fetchP.Name()) || (s.Kind == px.KLoad && s.X != nil && s.X.Kind == px.KFreeVar && s.X.V.Name() == fetchP.Name())
		}))
		if n > 1 {
			return false, fmt.Sprintf("the loader runs ×%d in one flight", n)
		}
		gs := p.All(px.CallsFn(doGet))
		if len(gs) == 1 {
			if ok := findExtract(p, gs[0].Res, 1); ok != nil && p.Abs(ok).K == px.True && n != 0 {
				return false, "the loader runs although the key was found"
			}
		}
		return true, ""
	})
	c.R.Min(rule, 2, "Cache.Take, its flight closure")
}

// c07flightClosuresDontSerialise (C07.R12, round 8): "calls on different keys never wait for each other". The work of
// a flight — creating the resource, dialling, querying — runs in the function literal handed to SingleFlight.Do/DoEx;
// a mutex taken inside that literal is shared by the flights of ALL keys (it belongs to the enclosing object). While it
// is held the literal performs no call at all (map reads and writes only, as every in-tree literal does): a lock kept
// across the creation turns the per-key flights into one queue — a slow creation for one key stalls every other key.
func c07flightClosuresDontSerialise(c *Ctx) {
	rule := "C07.R12"
	var bad []string
	sites, locking := 0, 0
	isLock := func(cc *ssa.CallCommon, names ...string) bool {
		cal := cc.StaticCallee()
		if cal == nil || cal.Pkg == nil || cal.Pkg.Pkg.Path() != "sync" {
			return false
		}
		return nameIn(cal.Name(), names)
	}
	for _, pk := range c.P.Pkgs {
		rel := strings.TrimPrefix(pk.PkgPath, mod)
		for _, fn := range c.P.AllFuncs(rel) {
			for _, b := range fn.Blocks {
				for _, ins := range b.Instrs {
					call, ok := ins.(ssa.CallInstruction)
					if !ok {
						continue
					}
					cc := call.Common()
					if !cc.IsInvoke() || typeString(cc.Value.Type()) != "core/syncx.SingleFlight" {
						continue
					}
					for _, a := range cc.Args {
						mc, ok := a.(*ssa.MakeClosure)
						if !ok {
							continue
						}
						cl := mc.Fn.(*ssa.Function)
						sites++
						usesLock := false
						visited := map[*ssa.Function]bool{}
						var scan func(cl *ssa.Function, depth int)
						scan = func(cl *ssa.Function, depth int) {
							if visited[cl] || cl.Blocks == nil {
								return
							}
							visited[cl] = true
							// forward may-held dataflow over the function's blocks (a deferred Unlock holds to the end)
							in := map[*ssa.BasicBlock]int{}
							deferredUnlock := false
							for _, cb := range cl.Blocks {
								for _, ci := range cb.Instrs {
									if d, ok := ci.(*ssa.Defer); ok && isLock(&d.Call, "Unlock", "RUnlock") {
										deferredUnlock = true
									}
								}
							}
							changed := true
							for iter := 0; changed && iter < 20; iter++ {
								changed = false
								for _, cb := range cl.Blocks {
									h := in[cb]
									for _, ci := range cb.Instrs {
										cci, ok := ci.(ssa.CallInstruction)
										if !ok {
											continue
										}
										if _, isDefer := ci.(*ssa.Defer); isDefer {
											continue
										}
										switch {
										case isLock(cci.Common(), "Lock", "RLock"):
											h = 1
										case isLock(cci.Common(), "Unlock", "RUnlock"):
											h = 0
										}
									}
									for _, s := range cb.Succs {
										if h > in[s] {
											in[s] = h
											changed = true
										}
									}
								}
							}
							for _, cb := range cl.Blocks {
								h := in[cb]
								for _, ci := range cb.Instrs {
									cci, ok := ci.(ssa.CallInstruction)
									if !ok {
										continue
									}
									if _, isDefer := ci.(*ssa.Defer); isDefer {
										continue
									}
									switch {
									case isLock(cci.Common(), "Lock", "RLock"):
										h = 1
										usesLock = true
										continue
									case isLock(cci.Common(), "Unlock", "RUnlock"):
										h = 0
										continue
									}
									if _, isBuiltin := cci.Common().Value.(*ssa.Builtin); isBuiltin {
										continue
									}
									if h == 0 {
										// a helper introduced after the pinned tree (the literal's body extracted, say) is part of the literal
										if cal := cci.Common().StaticCallee(); cal != nil && cal.Pkg == cl.Pkg && depth < 2 && !baselineFuncs[cal.String()] {
											scan(cal, depth+1)
										}
										continue
									}
									what := "a call"
									if cal := cci.Common().StaticCallee(); cal != nil {
										what = funcDisplay(cal)
									} else if cci.Common().IsInvoke() {
										what = cci.Common().Method.FullName()
									}
									how := ""
									if deferredUnlock {
										how = " (the unlock is deferred to the end of the function)"
									}
									bad = append(bad, fmt.Sprintf("%s: the flight literal in %s calls %s while holding a mutex%s (in %s): the flights of all keys queue behind it", c.P.Pos(cci.Pos()), funcDisplay(fn), what, how, funcDisplay(cl)))
								}
							}
						}
						scan(cl, 0)
						if usesLock {
							locking++
						}
					}
				}
			}
		}
	}
	sortStrings(bad)
	bad = uniqStrings(bad)
	o := c.R.Check(len(bad) == 0 && sites >= 4 && locking >= 2, rule, "SingleFlight users#no-lock-across-work", "a function literal handed to SingleFlight.Do/DoEx performs no call while it holds a mutex (the mutex is shared by the flights of all keys; only map reads and writes happen under it)", "-", strings.Join(bad, "; "), bad, sites)
	o.Sites = sites
}

// c07registeredInsideFlight (C07.R13, round 9): "creates each keyed resource at most once and hands the same instance to
// everyone" — the resource a flight made is registered by the flight. A function that runs a literal through
// SingleFlight.Do/DoEx writes the receiver's registry map only inside that literal: a store moved behind the flight
// (`if fresh { p.clients[key] = client }`) leaves a window, after the flight's entry is gone and before the store, in
// which the next caller finds neither a flight nor a registered resource and builds a second one.
func c07registeredInsideFlight(c *Ctx) {
	rule := "C07.R13"
	var bad []string
	sites, inside := 0, 0
	isRecvMapUpdate := func(fn *ssa.Function, mu *ssa.MapUpdate) bool {
		ld, ok := mu.Map.(*ssa.UnOp)
		if !ok {
			return false
		}
		fa, ok := ld.X.(*ssa.FieldAddr)
		if !ok {
			return false
		}
		root := fn
		for root.Parent() != nil {
			root = root.Parent()
		}
		if len(root.Params) == 0 || root.Signature.Recv() == nil {
			return false
		}
		switch b := fa.X.(type) {
		case *ssa.Parameter:
			return b == root.Params[0]
		case *ssa.FreeVar, *ssa.UnOp:
			return true // the captured receiver
		}
		return false
	}
	for _, pk := range c.P.Pkgs {
		rel := strings.TrimPrefix(pk.PkgPath, mod)
		for _, fn := range c.P.AllFuncs(rel) {
			flight := false
			var lits []*ssa.Function
			for _, b := range fn.Blocks {
				for _, ins := range b.Instrs {
					call, ok := ins.(ssa.CallInstruction)
					if !ok {
						continue
					}
					cc := call.Common()
					if !cc.IsInvoke() || typeString(cc.Value.Type()) != "core/syncx.SingleFlight" {
						continue
					}
					for _, a := range cc.Args {
						if mc, ok := a.(*ssa.MakeClosure); ok {
							flight = true
							lits = append(lits, mc.Fn.(*ssa.Function))
						}
					}
				}
			}
			if !flight {
				continue
			}
			sites++
			for _, b := range fn.Blocks {
				for _, ins := range b.Instrs {
					if mu, ok := ins.(*ssa.MapUpdate); ok && isRecvMapUpdate(fn, mu) {
						bad = append(bad, fmt.Sprintf("%s: %s writes the registry map outside the literal it hands to the flight", c.P.Pos(mu.Pos()), funcDisplay(fn)))
					}
				}
			}
			var countInside func(l *ssa.Function, d int)
			countInside = func(l *ssa.Function, d int) {
				for _, b := range l.Blocks {
					for _, ins := range b.Instrs {
						switch x := ins.(type) {
						case *ssa.MapUpdate:
							if isRecvMapUpdate(l, x) || d > 0 {
								inside++
							}
						case ssa.CallInstruction:
							// a helper introduced after the pinned tree (the literal's body extracted) is part of the literal
							if cal := x.Common().StaticCallee(); cal != nil && cal.Pkg == l.Pkg && d < 2 && cal.Blocks != nil && !baselineFuncs[cal.String()] {
								countInside(cal, d+1)
							}
						}
					}
				}
			}
			for _, l := range lits {
				countInside(l, 0)
			}
		}
	}
	sortStrings(bad)
	o := c.R.Check(len(bad) == 0 && sites >= 4 && inside >= 2, rule, "SingleFlight users#registered-inside", "a function that runs a literal through SingleFlight.Do/DoEx writes the receiver's registry map only inside that literal (the resource a flight made is registered before the flight's entry disappears)", "-", fmt.Sprintf("%d flight users, %d registry stores inside literals; %s", sites, inside, strings.Join(bad, "; ")), bad, sites)
	o.Sites = sites
}
