package rules

import (
	"fmt"
	"go/token"
	"go/types"
	"sort"
	"strings"

	"golang.org/x/tools/go/ssa"

	"gzverify/px"
)

// C10 — MapReduce.
func init() { register("C10", "other", c10) }

const mrPkg = "core/mr"

func c10(c *Ctx) {
	c.R.RuleText = "panic-capture rule on every goroutine that runs a user function (paths with panic exits), channel-lifecycle ordering rules, once-only cancellation by value flow, guarded-write select shape, path table of the caller's select"
	c.R.Explain = "Structural necessary conditions of C10 (the protocol's local obligations): every goroutine that calls generate / mapper / reducer registers beforehand a deferred recover that forwards the panic value to the panic channel (written at most once), and still releases what it holds; the source channel is closed by the generator goroutine on every exit; the mapper dispatcher waits for its workers, then closes the collector, then drains the source; done and output are closed only inside one sync.Once; the reducer goroutine drains the collector and finishes on every exit; the cancel function handed to user code is the once-wrapped one, records the error (ErrCancelWithNil for nil), drains the source and finishes; writes by user code go through a select that sends only when neither the context nor done is finished; each item received from the source is handed to exactly one mapper call; the caller returns the context error on expiry (after cancelling), re-raises a user panic with its own value after draining the output, and on completion reports a recorded cancel error before any value, else the value, else ErrReduceNoOutput (nil for the void variant). NOT decided: deadlock- and leak-freedom and exactly-once delivery over all schedules."
	c.R.Assume = append(c.R.Assume, "panics originate in the user functions", "sync.Once / channel semantics")
	c10capture(c)
	c10lifecycle(c)
	c10writer(c)
	c10caller(c)
	c10panicFirst(c)
	c10finish(c)
	c10entries(c)
	workersClamp(c, "C10.R7", "core/mr")
	// R9: at most the configured number of mappers run at once — the semaphore is sized from the configured count
	semaphoreCapacity(c, "C10.R9", "core/mr", "executeMappers", "workers")
	c10panicHandoff(c)
	c10panicChanPairing(c)
}

// userDyn: dynamic calls of the user-supplied functions (parameters, captured parameters, struct fields holding them).
func mrUserPanics(ci *px.CallInfo) bool {
	if !ci.IsDyn() {
		return false
	}
	s := ci.FnSym.Strip(false)
	switch s.Kind {
	case px.KParam:
		return true
	case px.KLoad:
		if s.X == nil {
			return false
		}
		if s.X.Kind == px.KFreeVar {
			n := s.X.V.Name()
			return n == "generate" || n == "mapper" || n == "reducer" || n == "fn"
		}
		if s.X.Kind == px.KAlloc {
			n := allocName(s.X)
			return n == "generate" || n == "mapper" || n == "reducer" || n == "fn"
		}
		if s.X.Kind == px.KFieldAddr {
			return s.X.FieldVar() != nil && s.X.FieldVar().Name() == "mapper"
		}
	case px.KField:
		return s.FieldVar() != nil && s.FieldVar().Name() == "mapper"
	}
	return false
}

func c10capture(c *Ctx) {
	rule := "C10.R1"
	write := calleeIs(mrPkg + ".(*onceChan).write")
	n := 0
	for _, fn := range c.P.AllFuncs(mrPkg) {
		for _, b := range fn.Blocks {
			for _, ins := range b.Instrs {
				g, ok := ins.(*ssa.Go)
				if !ok {
					continue
				}
				mc, ok := g.Call.Value.(*ssa.MakeClosure)
				if !ok {
					continue
				}
				cl := mc.Fn.(*ssa.Function)
				ps := c.paths(rule, cl, px.Config{MayPanic: mrUserPanics, MaxVisits: 2})
				user := 0
				for _, p := range ps {
					user += p.Count(func(e *px.Event) bool { return e.Kind == px.EvCall && mrUserPanics(e.Call) })
				}
				if user == 0 {
					continue
				}
				n++
				name := mrPkg + "." + cl.Name()
				c.forall(rule, name, "a goroutine that runs a user function has, registered before the call, a deferred recover() whose value is forwarded to the panic channel; the panic does not escape the goroutine", cl, ps, func(p *px.Path) (bool, string) {
					o := p.PanicOrigin()
					if o == nil {
						if p.Has(write) {
							return false, "the panic channel is written although nothing panicked"
						}
						return true, ""
					}
					if p.Exit == px.ExitPanic {
						return false, "a panic of the user function escapes the goroutine (the process dies instead of the caller seeing the panic)"
					}
					ws := p.All(write)
					rec := p.First(px.KindIs(px.EvRecover))
					if rec == nil || len(ws) != 1 {
						return false, fmt.Sprintf("user panic: recover seen=%v, panic channel written ×%d", rec != nil, len(ws))
					}
					if ws[0].Call.Args[1].Strip(false) != rec.Res {
						return false, "the value forwarded to the panic channel is not the recovered one"
					}
					return true, ""
				})
			}
		}
	}
	if f := c.fn(rule, mrPkg, "(*onceChan).write"); f != nil {
		ps := c.paths(rule, f, px.Config{})
		c.forall(rule, mrPkg+".(*onceChan).write", "the panic channel is sent to only after winning the 0→1 compare-and-swap (at most one send ever)", f, ps, func(p *px.Path) (bool, string) {
			cas := p.First(calleeIs("sync/atomic.CompareAndSwapInt32"))
			for _, s := range p.All(px.KindIs(px.EvSend)) {
				if cas == nil || cas.Seq > s.Seq || p.Abs(cas.Res).K != px.True {
					return false, "send without having won the compare-and-swap"
				}
				if !isParam(s.Val, f.Params[1]) {
					return false, "another value is sent"
				}
			}
			if cas != nil {
				o, _ := constInt(p, cas.Call.Args[1])
				nw, _ := constInt(p, cas.Call.Args[2])
				if o != 0 || nw != 1 {
					return false, "the guard is not CompareAndSwap(0, 1)"
				}
			}
			return true, ""
		})
	}
	c.R.Extra["C10.R1_goroutines_with_user_calls"] = n
	c.R.Min(rule, 4, "generator, mapper worker and reducer goroutines (+ ForEach variants), onceChan.write")
}

func c10lifecycle(c *Ctx) {
	rule := "C10.R2"
	if f := c.fn(rule, mrPkg, "buildSource"); f != nil {
		cl := c.closure(rule, f, "generator goroutine", func(a *ssa.Function) bool { return a.Parent() == f })
		if cl != nil {
			ps := c.paths(rule, cl, px.Config{MayPanic: mrUserPanics})
			c.forall(rule, mrPkg+".buildSource$generator", "the source channel is closed exactly once on every exit of the generator goroutine, after generate returned or panicked", cl, ps, func(p *px.Path) (bool, string) {
				cs := p.All(px.KindIs(px.EvClose))
				if len(cs) != 1 {
					return false, fmt.Sprintf("close(source) ×%d on exit %s (mappers would wait forever / double close)", len(cs), p.Exit)
				}
				g := p.First(func(e *px.Event) bool { return e.Kind == px.EvCall && mrUserPanics(e.Call) })
				if g == nil || g.Seq > cs[0].Seq {
					return false, "source closed before generate ran"
				}
				if g.Call.Args[0].Strip(false) != cs[0].Addr.Strip(false) {
					return false, "generate writes to a channel other than the one that is closed"
				}
				return true, ""
			})
		}
	}
	if f := c.fn(rule, mrPkg, "executeMappers"); f != nil {
		ps := c.paths(rule, f, px.Config{MaxVisits: 2})
		wait := calleeIs("sync.(*WaitGroup).Wait")
		dr := calleeIs(mrPkg + ".drain")
		c.forall(rule, mrPkg+".executeMappers", "on every exit: wait for the workers, then close the collector, then drain the source — in that order, each once", f, ps, func(p *px.Path) (bool, string) {
			if p.Exit == px.ExitCut {
				return true, ""
			}
			w, cl, d := p.All(wait), p.All(px.KindIs(px.EvClose)), p.All(dr)
			if len(w) != 1 || len(cl) != 1 || len(d) != 1 {
				return false, fmt.Sprintf("Wait ×%d, close ×%d, drain ×%d", len(w), len(cl), len(d))
			}
			if !(w[0].Seq < cl[0].Seq && cl[0].Seq < d[0].Seq) {
				return false, "order is not Wait → close(collector) → drain(source): closing before the workers finished makes a late Write panic; not draining leaves the generator blocked"
			}
			if !fieldLoadDeep(cl[0].Addr, "collector", nil) || !fieldLoadDeep(d[0].Call.Args[0], "source", nil) {
				return false, "closes/drains the wrong channel"
			}
			return true, ""
		})
		// R4: item → exactly one mapper call
		var worker *ssa.Function
		for _, a := range f.AnonFuncs {
			if callsInBody(a, func(cc *ssa.CallCommon) bool { return !cc.IsInvoke() && cc.StaticCallee() == nil }) {
				if _, isB := firstDynValue(a).(*ssa.Builtin); !isB {
					worker = a
				}
			}
		}
		if worker == nil {
			c.R.Undecided("C10.R4", mrPkg+".executeMappers$worker", "anchor resolves", "worker closure not found")
		} else {
			wps := c.paths("C10.R4", worker, px.Config{})
			c.forall("C10.R4", mrPkg+".executeMappers$worker", "the worker calls the mapper exactly once with the item it was started for and the guarded writer", worker, wps, func(p *px.Path) (bool, string) {
				ms := p.All(func(e *px.Event) bool { return e.Kind == px.EvCall && mrUserPanics(e.Call) })
				if len(ms) != 1 {
					return false, fmt.Sprintf("mapper called ×%d", len(ms))
				}
				a := ms[0].Call.Args[0].Strip(false)
				if !(a.Kind == px.KLoad && a.X.Kind == px.KFreeVar && a.X.V.Name() == "item") && !(a.Kind == px.KFreeVar) {
					return false, "the mapper is not given the received item"
				}
				return true, ""
			})
			ips := c.paths("C10.R4", f, px.Config{MaxVisits: 2})
			c.forall("C10.R4", mrPkg+".executeMappers#dispatch", "each item received from the source starts exactly one worker; a closed source returns the slot and stops", f, ips, func(p *px.Path) (bool, string) {
				var pendingItem, closed bool
				for i := range p.Events {
					e := &p.Events[i]
					if closed && !e.InDefer && (e.Kind == px.EvSelect || e.Kind == px.EvGo) {
						return false, "the dispatcher keeps looping after the source was closed (it spins until cancelled instead of finishing)"
					}
					switch {
					case e.Kind == px.EvRecv && fieldLoadDeep(e.Addr, "source", nil):
						if pendingItem {
							return false, "an item is received while the previous one was not handed to a worker (item lost)"
						}
						pendingItem = true
					case e.Kind == px.EvBranch && pendingItem:
						cnd := e.Cond.Strip(false)
						if cnd.Kind == px.KExtract && cnd.Index == 1 && cnd.X.Kind == px.KRecv && !e.Taken {
							pendingItem = false // closed
							closed = true
						}
					case e.Kind == px.EvGo:
						if !pendingItem {
							return false, "a worker starts without a freshly received item (an item is mapped twice)"
						}
						pendingItem = false
					}
				}
				if pendingItem && p.Exit == px.ExitReturn {
					return false, "returns with a received item that no worker got"
				}
				return true, ""
			})
		}
	}
	if f := c.fn(rule, mrPkg, "mapReduceWithPanicChan"); f != nil {
		// finish closure
		var finish, cancelBody, reducerGo, mapperWrap *ssa.Function
		for _, a := range f.AnonFuncs {
			switch {
			case callsInBody(a, func(cc *ssa.CallCommon) bool { return calleeName(cc) == "(*sync.Once).Do" }):
				finish = a
			case callsInBody(a, func(cc *ssa.CallCommon) bool { return calleeName(cc) == "(*"+mod+"core/errorx.AtomicError).Set" }):
				cancelBody = a
			}
		}
		for _, a := range f.AnonFuncs {
			if a == finish || a == cancelBody {
				continue
			}
			if callsInBody(a, func(cc *ssa.CallCommon) bool { return !cc.IsInvoke() && cc.StaticCallee() == nil && len(cc.Args) == 3 }) {
				if len(a.Params) == 0 {
					reducerGo = a
				} else {
					mapperWrap = a
				}
			}
		}
		if finish == nil || cancelBody == nil || reducerGo == nil || mapperWrap == nil {
			c.R.Undecided(rule, mrPkg+".mapReduceWithPanicChan", "anchor resolves", fmt.Sprintf("closures not identified: finish=%v cancel=%v reducer=%v mapper=%v", finish != nil, cancelBody != nil, reducerGo != nil, mapperWrap != nil))
		} else {
			// closes only inside closeOnce.Do
			closes := 0
			var bad []string
			for _, fn := range c.P.AllFuncs(mrPkg) {
				root := fn
				for root.Parent() != nil {
					root = root.Parent()
				}
				if root != f {
					continue
				}
				for _, b := range fn.Blocks {
					for _, ins := range b.Instrs {
						if call, ok := ins.(*ssa.Call); ok {
							if bi, ok := call.Call.Value.(*ssa.Builtin); ok && bi.Name() == "close" {
								closes++
								if fn.Parent() != finish {
									bad = append(bad, fn.Name())
								}
							}
						}
					}
				}
			}
			c.R.Check(len(bad) == 0 && closes == 2, rule, mrPkg+".mapReduceWithPanicChan#closes", "done and output are closed only inside the function given to closeOnce.Do (exactly two close sites)", posOf(c, f), fmt.Sprintf("close sites=%d, outside the once: %v", closes, bad), nil, closes)
			// cancel body
			cps := c.paths(rule, cancelBody, px.Config{})
			c.forall(rule, mrPkg+".mapReduceWithPanicChan$cancel", "cancel records the error (ErrCancelWithNil when nil), then drains the source, then finishes", cancelBody, cps, func(p *px.Path) (bool, string) {
				sets := p.All(calleeIs("core/errorx.(*AtomicError).Set"))
				d := p.All(calleeIs(mrPkg + ".drain"))
				fin := p.All(func(e *px.Event) bool { return e.Kind == px.EvCall && (e.Call.IsDyn() || e.Call.Static == finish) })
				if len(sets) != 1 || len(d) != 1 || len(fin) != 1 {
					return false, fmt.Sprintf("Set ×%d, drain ×%d, finish ×%d", len(sets), len(d), len(fin))
				}
				if !(sets[0].Seq < d[0].Seq && d[0].Seq < fin[0].Seq) {
					return false, "order is not record → drain(source) → finish"
				}
				errP := cancelBody.Params[0]
				arg := sets[0].Call.Args[1]
				switch p.Abs(p.ParamSym(errP)).K {
				case px.NonNil:
					if !isParam(arg, errP) {
						return false, "a non-nil cancel error is not the one recorded"
					}
				case px.Nil:
					if !px.IsGlobalLoad(arg, mod+mrPkg, "ErrCancelWithNil") {
						return false, "cancel(nil) does not record ErrCancelWithNil"
					}
				default:
					return false, "the error is recorded without testing it for nil"
				}
				return true, ""
			})
			// the cancel handed out is once(cancelBody)
			ps := c.paths(rule, f, px.Config{InlineGo: true, MayPanic: mrUserPanics})
			onceCall := calleeIs(mrPkg + ".once")
			c.forall(rule, mrPkg+".mapReduceWithPanicChan#cancel-once", "the cancel function given to the reducer, to the mappers and used on context expiry is the once-wrapped one (a second cancel is a no-op)", f, ps, func(p *px.Path) (bool, string) {
				oc := p.All(onceCall)
				if len(oc) != 1 {
					return false, "cancel is not built by once(…) — a second cancel re-records the error (atomic.Value panics on a differently typed error) and drains/finishes again"
				}
				if a := oc[0].Call.Args[0].Strip(false); a.Kind != px.KClosure || a.Fn != cancelBody {
					return false, "once() wraps something other than the cancel body"
				}
				for _, e := range p.All(func(e *px.Event) bool { return e.Kind == px.EvCall && mrUserPanics(e.Call) && len(e.Call.Args) == 3 }) {
					if e.Call.Args[2].Strip(false) != oc[0].Res {
						return false, "user code receives a cancel function that is not the once-wrapped one"
					}
				}
				return true, ""
			})
			mps := c.paths(rule, mapperWrap, px.Config{})
			c.forall(rule, mrPkg+".mapReduceWithPanicChan$mapper", "the mapper adapter forwards item and writer unchanged and passes the once-wrapped cancel", mapperWrap, mps, func(p *px.Path) (bool, string) {
				m := p.All(func(e *px.Event) bool { return e.Kind == px.EvCall && e.Call.IsDyn() })
				if len(m) != 1 || len(m[0].Call.Args) != 3 || !isParam(m[0].Call.Args[0], mapperWrap.Params[0]) || !isParam(m[0].Call.Args[1], mapperWrap.Params[1]) {
					return false, "mapper not called once with (item, writer, cancel)"
				}
				cs := m[0].Call.Args[2].Strip(false)
				if !(cs.Kind == px.KLoad && cs.X.Kind == px.KFreeVar && cs.X.V.Name() == "cancel") {
					return false, "third argument is not the shared cancel"
				}
				return true, ""
			})
			// reducer goroutine
			rps := c.paths(rule, reducerGo, px.Config{MayPanic: mrUserPanics})
			c.forall(rule, mrPkg+".mapReduceWithPanicChan$reducer", "on every exit of the reducer goroutine (incl. a reducer panic) the collector is drained and then the pipeline is finished", reducerGo, rps, func(p *px.Path) (bool, string) {
				d := p.All(calleeIs(mrPkg + ".drain"))
				fin := p.All(func(e *px.Event) bool {
					return e.Kind == px.EvCall && e.Call.IsDyn() && !mrUserPanics(e.Call)
				})
				if len(d) != 1 || len(fin) != 1 || d[0].Seq > fin[0].Seq {
					return false, fmt.Sprintf("drain(collector) ×%d, finish ×%d on exit %s", len(d), len(fin), p.Exit)
				}
				return true, ""
			})
		}
	}
	if f := c.fn(rule, mrPkg, "once"); f != nil {
		ok := false
		if len(f.AnonFuncs) == 1 {
			inner := f.AnonFuncs[0]
			if callsInBody(inner, func(cc *ssa.CallCommon) bool { return calleeName(cc) == "(*sync.Once).Do" }) && !callsInBody(inner, func(cc *ssa.CallCommon) bool { return !cc.IsInvoke() && cc.StaticCallee() == nil }) {
				ok = true
			}
		}
		c.R.Check(ok, rule, mrPkg+".once", "once(fn) returns a function that runs fn only through sync.Once.Do", posOf(c, f), "shape not recognised", nil, 1)
	}
	c.R.Min(rule, 8, "generator close, executeMappers defer, closes, cancel body, cancel-once, mapper adapter, reducer goroutine, once")
	c.R.Min("C10.R4", 2, "worker, dispatch")
}

func firstDynValue(f *ssa.Function) ssa.Value {
	for _, b := range f.Blocks {
		for _, ins := range b.Instrs {
			if call, ok := ins.(*ssa.Call); ok && !call.Call.IsInvoke() && call.Call.StaticCallee() == nil {
				return call.Call.Value
			}
		}
	}
	return nil
}

func c10writer(c *Ctx) {
	rule := "C10.R3"
	f := c.fn(rule, mrPkg, "(guardedWriter).Write")
	if f == nil {
		return
	}
	ps := c.paths(rule, f, px.Config{})
	c.forall(rule, mrPkg+".(guardedWriter).Write", "the value is sent only in the default branch of a select that also watches ctx.Done() and done (a finished pipeline never blocks or panics a writer)", f, ps, func(p *px.Path) (bool, string) {
		sel := p.All(px.KindIs(px.EvSelect))
		if len(sel) != 1 || sel[0].Blocking || sel[0].SelN != 2 {
			return false, "not a non-blocking select over exactly ctx.Done() and done"
		}
		sends := p.All(px.KindIs(px.EvSend))
		if sel[0].SelIndex == -1 {
			if len(sends) != 1 || !isParam(sends[0].Val, f.Params[1]) {
				return false, "the default branch does not send the value once"
			}
		} else if len(sends) != 0 {
			return false, "a value is sent although the context or the pipeline is finished"
		}
		return true, ""
	})
	// the two watched channels
	var sel *ssa.Select
	for _, b := range f.Blocks {
		for _, ins := range b.Instrs {
			if s, ok := ins.(*ssa.Select); ok {
				sel = s
			}
		}
	}
	okDone, okCtx := false, false
	if sel != nil {
		for _, st := range sel.States {
			if st.Dir != types.RecvOnly {
				continue
			}
			if viaFieldValue(st.Chan, "done") {
				okDone = true
			}
			if call, ok := st.Chan.(*ssa.Call); ok && call.Call.IsInvoke() && call.Call.Method.Name() == "Done" {
				okCtx = true
			}
		}
	}
	c.R.Check(okDone && okCtx, rule, mrPkg+".(guardedWriter).Write#channels", "the select watches gw.ctx.Done() and gw.done", posOf(c, f), fmt.Sprintf("done=%v ctx=%v", okDone, okCtx), nil, 2)
	c.R.Min(rule, 2, "Write paths, watched channels")
}

func viaFieldValue(v ssa.Value, field string) bool {
	for d := 0; d < 5 && v != nil; d++ {
		switch x := v.(type) {
		case *ssa.UnOp:
			v = x.X
		case *ssa.FieldAddr:
			return fieldNameOf(x) == field
		case *ssa.Field:
			st, ok := x.X.Type().Underlying().(*types.Struct)
			return ok && st.Field(x.Field).Name() == field
		case *ssa.ChangeType:
			v = x.X
		default:
			return false
		}
	}
	return false
}

func c10caller(c *Ctx) {
	rule := "C10.R5"
	f := c.fn(rule, mrPkg, "mapReduceWithPanicChan")
	if f == nil {
		return
	}
	ps := c.paths(rule, f, px.Config{})
	seen := map[string]int{}
	held := c.forall(rule, mrPkg+".mapReduceWithPanicChan#select", "context expiry ⇒ the pipeline is cancelled with, and the call returns, a context error; user panic ⇒ the output is drained and the received panic value is re-raised; completion ⇒ a recorded cancel error wins over any value, else the value, else ErrReduceNoOutput", f, ps, func(p *px.Path) (bool, string) {
		sel := p.First(px.KindIs(px.EvSelect))
		if sel == nil {
			return true, ""
		}
		// find the main select: the one with 3 states
		for _, s := range p.All(px.KindIs(px.EvSelect)) {
			if s.SelN == 3 {
				sel = s
			}
		}
		if sel.SelN != 3 {
			return false, "the caller's select does not wait on context, panic channel and output"
		}
		after := func(pr px.Pred) []*px.Event {
			var out []*px.Event
			for i := sel.Seq + 1; i < len(p.Events); i++ {
				if e := &p.Events[i]; !e.InDefer && pr(e) {
					out = append(out, e)
				}
			}
			return out
		}
		ch := sel.Addr.Strip(false)
		switch {
		case ch.Kind == px.KCall && ch.Call.Method != nil && ch.Call.Method.Name() == "Done":
			seen["ctx"]++
			// a context error: context.DeadlineExceeded / context.Canceled or the context's own Err()
			isCtxErr := func(s *px.Sym) bool {
				if px.IsGlobalLoad(s, "context", "DeadlineExceeded") || px.IsGlobalLoad(s, "context", "Canceled") {
					return true
				}
				x := s.Strip(false)
				return x.Kind == px.KCall && x.Call.Method != nil && x.Call.Method.Name() == "Err"
			}
			cs := after(func(e *px.Event) bool { return e.Kind == px.EvCall && e.Call.IsDyn() })
			if len(cs) != 1 || !isCtxErr(cs[0].Call.Args[0]) {
				return false, "context expiry does not cancel the pipeline with a context error"
			}
			if p.Exit == px.ExitReturn && !isCtxErr(p.Results[1]) {
				return false, "context expiry does not return a context error"
			}
		case fieldLoadDeep(ch, "channel", nil):
			seen["panic"]++
			d := after(calleeIs(mrPkg + ".drain"))
			pn := after(px.KindIs(px.EvPanic))
			if len(pn) != 1 {
				return false, "a user panic is not re-raised"
			}
			if len(d) != 1 || d[0].Seq > pn[0].Seq {
				return false, "the output is not drained before the user's panic is re-raised: the deferred single-result check then receives the reducer's legitimate result and replaces the user's panic value with its own"
			}
			if pn[0].Val.Strip(false) != sel.Res {
				return false, "the re-raised value is not the one received from the panic channel"
			}
		default:
			seen["output"]++
			// (round 7, R11) the poll of the panic channel that follows the output case: where it yields, the path ends by
			// re-raising that value after draining the output, and nothing else is asked of it
			polled := false
			for _, s2 := range after(px.KindIs(px.EvSelect)) {
				if !s2.Blocking && s2.SelIndex >= 0 && s2.Addr != nil && fieldLoadDeep(s2.Addr.Strip(false), "channel", nil) {
					pn := after(px.KindIs(px.EvPanic))
					d := after(calleeIs(mrPkg + ".drain"))
					if len(pn) != 1 || pn[0].Val.Strip(false) != s2.Res {
						return false, "a panic value found by the poll after the output case is not re-raised"
					}
					if len(d) != 1 || d[0].Seq > pn[0].Seq {
						return false, "the output is not drained before the polled panic is re-raised"
					}
					polled = true
				}
			}
			if polled {
				return true, ""
			}
			ld := after(calleeIs("core/errorx.(*AtomicError).Load"))
			if len(ld) != 1 {
				return false, "the recorded cancel error is not consulted on completion"
			}
			// no branch on the received ok before the error test
			for i := sel.Seq + 1; i < ld[0].Seq; i++ {
				if p.Events[i].Kind == px.EvBranch && !p.Events[i].Forced {
					return false, "the received value is examined before the recorded cancel error: a cancelled run can return (value, nil)"
				}
			}
			if p.Exit != px.ExitReturn {
				return true, ""
			}
			okS := findExtract(p, sel.Res, 0)
			_ = okS
			errRes := p.Results[1]
			if p.Abs(ld[0].Res).K == px.NonNil {
				if errRes.Strip(false) != ld[0].Res {
					return false, "a recorded cancel error is not what is returned"
				}
				if !isZeroSym(p.Results[0]) {
					return false, "a value is returned together with a cancel error"
				}
				return true, ""
			}
			if px.IsNilConst(errRes) || isZeroSym(errRes) {
				// value path: must be the received value under ok
				if !dependsOn(p, p.Results[0], sel.Res) {
					return false, "success without returning the reducer's value"
				}
			} else if !px.IsGlobalLoad(errRes, mod+mrPkg, "ErrReduceNoOutput") {
				return false, "a closed output without value is not reported as ErrReduceNoOutput"
			}
		}
		return true, ""
	})
	if held && (seen["ctx"] == 0 || seen["panic"] == 0 || seen["output"] == 0) {
		c.R.Undecided(rule, mrPkg+".mapReduceWithPanicChan#cases", "all three select cases are recognised", fmt.Sprint(seen))
	}
	if g := c.fn(rule, mrPkg, "MapReduceVoid"); g != nil {
		gps := c.paths(rule, g, px.Config{})
		c.forall(rule, mrPkg+".MapReduceVoid", "ErrReduceNoOutput is the normal outcome of a void reducer and is mapped to nil; every other error is returned", g, gps, func(p *px.Path) (bool, string) {
			if p.Exit != px.ExitReturn {
				return true, ""
			}
			is := p.First(calleeIs("errors.Is"))
			if is == nil || !px.IsGlobalLoad(is.Call.Args[1], mod+mrPkg, "ErrReduceNoOutput") {
				return false, "ErrReduceNoOutput not tested"
			}
			if p.Abs(is.Res).K == px.True {
				if !px.IsNilConst(p.Results[0]) {
					return false, "no-output is reported as an error for a void reducer"
				}
			} else if p.Results[0].Strip(false) != is.Call.Args[0].Strip(false) {
				return false, "another error is not returned unchanged"
			}
			return true, ""
		})
	}
	c.R.Min(rule, 2, "caller select, MapReduceVoid")
}

func isZeroSym(s *px.Sym) bool {
	s = s.Strip(false)
	if s == nil {
		return false
	}
	if s.Kind == px.KZero {
		return true
	}
	if s.Kind == px.KConst {
		if cv, ok := s.V.(*ssa.Const); ok && cv.Value == nil {
			return true
		}
	}
	return false
}

// c10entries: entry-point agreement (options forwarded) and ForEach's wait loop.
func c10entries(c *Ctx) {
	rule := "C10.R6"
	sp := c.P.SSAPkg(mrPkg)
	if sp == nil {
		return
	}
	n := 0
	for _, mem := range sortedMembers(sp) {
		f, ok := mem.(*ssa.Function)
		if !ok || f.Blocks == nil || !token.IsExported(f.Name()) {
			continue
		}
		var optsP *ssa.Parameter
		for _, prm := range f.Params {
			if typeString(prm.Type()) == "[]"+mrPkg+".Option" {
				optsP = prm
			}
		}
		if optsP == nil {
			continue
		}
		n++
		ps := c.paths(rule, f, px.Config{MaxVisits: 2})
		c.forall(rule, mrPkg+"."+f.Name()+"#opts", "the caller's options (workers, context) are forwarded to the implementation — every entry point honours WithWorkers / WithContext alike", f, ps, func(p *px.Path) (bool, string) {
			if p.Exit != px.ExitReturn {
				return true, ""
			}
			for _, e := range p.All(px.KindIs(px.EvCall)) {
				for _, a := range e.Call.Args {
					if isParamOrCell(a, optsP) {
						return true, ""
					}
				}
			}
			return false, "the options parameter is never passed on: WithWorkers / WithContext are silently ignored by this entry point"
		})
	}
	if n < 4 {
		c.R.Undecided(rule, mrPkg+"#entries", "entry points with options are found", fmt.Sprintf("%d", n))
	}
	if f := c.fn(rule, mrPkg, "ForEach"); f != nil {
		ps := c.paths(rule, f, px.Config{MaxVisits: 2})
		c.forall(rule, mrPkg+".ForEach", "ForEach waits only on the panic channel and the collector: it returns when the collector is closed (all mappers done) and re-raises a mapper/generator panic with its value — it does not return early on anything else", f, ps, func(p *px.Path) (bool, string) {
			for _, s := range p.All(px.KindIs(px.EvSelect)) {
				if s.InGo {
					continue
				}
				if s.SelN != 2 || !s.Blocking {
					return false, fmt.Sprintf("the wait loop selects over %d cases (blocking=%v): an extra case lets ForEach return while mappers are still running — a later mapper panic is then swallowed and the pipeline goroutines leak", s.SelN, s.Blocking)
				}
			}
			if p.Exit == px.ExitReturn {
				// returning requires a receive from the collector that reported closed
				ok := false
				for _, b := range p.All(px.KindIs(px.EvBranch)) {
					cnd := b.Cond.Strip(false)
					if (cnd.Kind == px.KExtract || cnd.Kind == px.KRecv) && !b.Taken {
						ok = true
					}
				}
				if !ok {
					return false, "returns without the collector having been closed"
				}
			}
			if p.Exit == px.ExitPanic {
				pn := p.First(px.KindIs(px.EvPanic))
				if pn == nil || pn.Val.Strip(false).Kind != px.KRecv {
					return false, "the re-raised value is not the one received from the panic channel"
				}
			}
			return true, ""
		})
	}
}

// c10panicChanPairing (C10.R8): the channel a generator goroutine reports its panic on is the one the
// caller's select listens on. buildSource(generate, pc) starts the generator with pc; the pipeline
// that consumes that source must be mapReduceWithPanicChan(source, pc, …) with the very same pc —
// handing the source to an entry point that makes its own panic channel (MapReduceChan) leaves the
// generator's panic unread: the source is never closed and the call neither returns nor re-panics
// (seed r4-C10-3).
func c10panicChanPairing(c *Ctx) {
	rule := "C10.R8"
	bs := c.P.Func(mrPkg, "buildSource")
	impl := c.P.Func(mrPkg, "mapReduceWithPanicChan")
	if bs == nil || impl == nil {
		c.R.Undecided(rule, mrPkg+".buildSource", "anchor resolves", "buildSource / mapReduceWithPanicChan not found")
		return
	}
	isInst := func(f, of *ssa.Function) bool {
		return f != nil && (f == of || f.Origin() == of)
	}
	var bad []string
	sites := 0
	for _, fn := range c.P.AllFuncs(mrPkg) {
		for _, b := range fn.Blocks {
			for _, ins := range b.Instrs {
				call, ok := ins.(*ssa.Call)
				if !ok || !isInst(call.Call.StaticCallee(), bs) || len(call.Call.Args) < 2 {
					continue
				}
				sites++
				pc := call.Call.Args[1]
				paired := false
				// the source (possibly converted to a receive-only channel) as first argument
				srcs := []ssa.Value{call}
				for _, r := range *call.Referrers() {
					if ct, ok := r.(*ssa.ChangeType); ok {
						srcs = append(srcs, ct)
					}
				}
				for _, src := range srcs {
					for _, r := range *src.Referrers() {
						use, ok := r.(ssa.CallInstruction)
						if !ok {
							continue
						}
						cc := use.Common()
						if isInst(cc.StaticCallee(), impl) && len(cc.Args) >= 2 && cc.Args[0] == src && cc.Args[1] == pc {
							paired = true
						}
					}
				}
				// or the function listens on that channel itself (ForEach has its own select)
				for _, b2 := range fn.Blocks {
					for _, i2 := range b2.Instrs {
						var chans []ssa.Value
						switch x := i2.(type) {
						case *ssa.Select:
							for _, st := range x.States {
								if st.Dir == types.RecvOnly {
									chans = append(chans, st.Chan)
								}
							}
						case *ssa.UnOp:
							if x.Op == token.ARROW {
								chans = append(chans, x.X)
							}
						}
						for _, ch := range chans {
							if u, ok := ch.(*ssa.UnOp); ok {
								if fa, ok := u.X.(*ssa.FieldAddr); ok && fa.X == pc {
									paired = true
								}
							}
						}
					}
				}
				if !paired {
					bad = append(bad, fmt.Sprintf("%s: %s starts the generator with a panic channel that is not the one handed, together with the generated source, to mapReduceWithPanicChan (nor does the function listen on it itself): a generator panic is reported where nobody listens and the call hangs", c.P.Pos(call.Pos()), fn.Name()))
				}
			}
		}
	}
	sortStrings(bad)
	o := c.R.Check(len(bad) == 0 && sites >= 1, rule, mrPkg+".buildSource#panic-channel", "every generated source is consumed by mapReduceWithPanicChan together with the panic channel its generator was started with", "-", strings.Join(bad, "; "), bad, sites)
	o.Sites = sites
}

// c10panicHandoff (R10, round 5): "the call returns — without deadlocking — … and once the user functions have returned
// no goroutine started by the call remains alive". A goroutine that recovered a user panic hands the value over with
// onceChan.write: one send at most (guarded by the CAS). That send must not be able to block: the caller may already
// have left its select (deadline passed, output received, cancelled), and what the panicking goroutine does *after*
// the send is what everybody else waits for (close(source) behind the generator's write, finish() behind the
// reducer's). Every channel stored into onceChan.channel is therefore created with capacity ≥ 1.
func c10panicHandoff(c *Ctx) {
	rule := "C10.R10"
	var bad []string
	sites := 0
	for _, f := range c.P.AllFuncs(mrPkg) {
		for _, b := range f.Blocks {
			for _, ins := range b.Instrs {
				st, ok := ins.(*ssa.Store)
				if !ok {
					continue
				}
				fa, ok := st.Addr.(*ssa.FieldAddr)
				if !ok || fieldNameOf(fa) != "channel" || !strings.HasSuffix(typeString(fa.X.Type()), mrPkg+".onceChan") {
					continue
				}
				sites++
				mc, ok := st.Val.(*ssa.MakeChan)
				if !ok {
					bad = append(bad, c.P.Pos(st.Pos())+": the panic channel is not made here (capacity unknown)")
					continue
				}
				k, ok := mc.Size.(*ssa.Const)
				if !ok || k.Value == nil || k.Int64() < 1 {
					bad = append(bad, fmt.Sprintf("%s: %s creates the panic hand-off channel without a buffer: a goroutine that panics after the caller left its select (deadline, output received) blocks in the send for ever — and the generator closes the source, the reducer finishes the output, only after that send", c.P.Pos(st.Pos()), funcDisplay(f)))
				}
			}
		}
	}
	sort.Strings(bad)
	c.R.Check(len(bad) == 0 && sites >= 3, rule, mrPkg+".onceChan.channel#capacity", "the channel a recovered panic is handed over on has capacity >= 1 (the single send can never block the goroutine whose remaining deferred work — close(source), finish() — others wait for)", "-", fmt.Sprintf("%d creation sites; %s", sites, strings.Join(bad, "; ")), bad, sites)
}

// c10panicFirst (R11, round 7): a select picks at random among the cases that are ready. When the caller reaches its
// final select late — the pipeline has already run to its end — a user panic waiting in the panic channel and the
// closed (or written) output are ready together, and in half of those runs the output case wins: the call returns
// ErrReduceNoOutput (or a value) with the user's panic silently dropped. On every path that took the output case and
// returns normally, the panic channel was therefore polled (a non-blocking receive) after the output was received;
// and where that poll yields a value, it is re-raised.
func c10panicFirst(c *Ctx) {
	rule := "C10.R11"
	f := c.fn(rule, mrPkg, "mapReduceWithPanicChan")
	if f == nil {
		return
	}
	hasPanicChan := func(e *px.Event) bool {
		sel, ok := e.Instr.(*ssa.Select)
		if !ok {
			return false
		}
		for _, st := range sel.States {
			if u, ok := st.Chan.(*ssa.UnOp); ok {
				if fa, ok := u.X.(*ssa.FieldAddr); ok {
					if pt, ok := fa.X.Type().Underlying().(*types.Pointer); ok {
						if stt, ok := pt.Elem().Underlying().(*types.Struct); ok && stt.Field(fa.Field).Name() == "channel" {
							return true
						}
					}
				}
			}
		}
		return false
	}
	ps := c.paths(rule, f, px.Config{})
	outputs := 0
	c.forall(rule, mrPkg+".mapReduceWithPanicChan#panic-first", "a path that took the output case of the final select returns only after a non-blocking poll of the panic channel found it empty; a value found there is re-raised (select picks at random among ready cases: a late caller would otherwise drop the user's panic)", f, ps, func(p *px.Path) (bool, string) {
		var main *px.Event
		for _, s := range p.All(px.KindIs(px.EvSelect)) {
			if s.SelN == 3 && main == nil {
				main = s
			}
		}
		if main == nil || main.SelIndex < 0 {
			return true, ""
		}
		ch := main.Addr.Strip(false)
		if (ch.Kind == px.KCall && ch.Call.Method != nil && ch.Call.Method.Name() == "Done") || fieldLoadDeep(ch, "channel", nil) {
			return true, "" // context expiry (a context error is an allowed answer) / the panic case itself
		}
		outputs++
		var poll *px.Event
		for i := main.Seq + 1; i < len(p.Events); i++ {
			e := &p.Events[i]
			if e.Kind == px.EvSelect && !e.InDefer && !e.Blocking && hasPanicChan(e) {
				poll = e
				break
			}
		}
		if p.Exit == px.ExitReturn {
			if poll == nil {
				return false, "the output case returns without polling the panic channel: when both were ready the user's panic is dropped and the call returns normally"
			}
			if poll.SelIndex >= 0 {
				return false, "a value was received from the panic channel and the call still returns normally"
			}
		}
		return true, ""
	})
	if outputs == 0 {
		c.R.Undecided(rule, mrPkg+".mapReduceWithPanicChan#output-case", "the output case of the final select is recognised", "no path took it")
	}
}

// c10finish (R12, round 9): Finish and FinishVoid are the pipeline too. On every path that has functions to run they
// hand them to the package's own pipeline (MapReduceVoid / ForEach) exactly once — the code whose panic capture,
// cancellation and termination R1–R11 decide — with one worker per function (WithWorkers(len(fns)): functions that wait
// for one another must all be running), and they call nothing that recovers on its own (core/threading, core/rescue):
// a helper that runs the functions under RunSafe logs a user panic instead of re-raising it; a cap on the workers lets
// the first functions wait for ever for one that never starts.
func c10finish(c *Ctx) {
	rule := "C10.R12"
	n := 0
	for _, name := range []string{"Finish", "FinishVoid"} {
		f := c.fn(rule, mrPkg, name)
		if f == nil {
			continue
		}
		n++
		ps := c.paths(rule, f, px.Config{})
		fnsP := f.Params[0]
		c.forall(rule, mrPkg+"."+name, "a non-empty function list is run by the package's own pipeline exactly once, with len(fns) workers, and nothing on the way recovers panics on its own", f, ps, func(p *px.Path) (bool, string) {
			if p.Exit != px.ExitReturn {
				return true, ""
			}
			pipeline, workers := 0, 0
			for i := range p.Events {
				e := &p.Events[i]
				if e.Kind != px.EvCall || e.Call.Static == nil {
					continue
				}
				callee := e.Call.Static
				if o := callee.Origin(); o != nil {
					callee = o // the generic function behind an instantiation
				}
				if callee.Pkg == nil {
					continue
				}
				pkgPath := strings.TrimPrefix(callee.Pkg.Pkg.Path(), mod)
				switch {
				case pkgPath == "core/threading" || pkgPath == "core/rescue":
					return false, "calls " + funcDisplay(callee) + ": the functions run under a recover of their own, a user panic is swallowed instead of re-raised"
				case pkgPath == mrPkg && (strings.HasPrefix(callee.Name(), "MapReduce") || strings.HasPrefix(callee.Name(), "ForEach")):
					pipeline++
				case pkgPath == mrPkg && callee.Name() == "WithWorkers":
					a := e.Call.Args[0].Strip(true)
					if a != nil && a.Kind == px.KCall && a.Call != nil && a.Call.Builtin == "len" && len(a.Call.Args) == 1 && isParam(a.Call.Args[0], fnsP) {
						workers++
					} else {
						return false, "the worker count is not len(fns): with fewer workers than functions, functions that wait for a later one never finish"
					}
				}
			}
			empty := false
			for _, b := range p.All(px.KindIs(px.EvBranch)) {
				if b.Taken && b.Cond != nil {
					cn := b.Cond.Strip(true)
					if cn.Kind == px.KBinOp && cn.Op == token.EQL {
						if k, ok := constInt(p, cn.Y); ok && k == 0 {
							empty = true
						}
					}
				}
			}
			if empty && pipeline == 0 {
				return true, ""
			}
			if pipeline != 1 || workers != 1 {
				return false, fmt.Sprintf("pipeline entered ×%d with WithWorkers(len(fns)) ×%d", pipeline, workers)
			}
			return true, ""
		})
	}
	c.R.Min(rule, 2, "Finish, FinishVoid")
}
