package rules

import (
	"fmt"
	"go/constant"
	"go/token"
	"go/types"
	"math"
	"sort"
	"strings"

	"golang.org/x/tools/go/ssa"

	"gzverify/px"
)

// C06 — cache-aside store.
func init() { register("C06", "other", c06) }

const cachePkg = "core/stores/cache"

func c06(c *Ctx) {
	c.R.RuleText = "who-may-call on the cache node's redis handle, value-flow of every TTL, path table of the doTake closure, load suppression through the barrier, write-then-invalidate siblings (sqlc, monc), normal form of the jitter formula"
	c.R.Explain = "Structural necessary conditions of C06: the cache node talks to Redis only through Get/Del/Setex/SetnxEx, every TTL is int(math.Ceil(d.Seconds())) with d the requested expiry or the ±5% jittered configured expiry (jitter = (1+dev−2·dev·rand)·base, dev clamped to [0,1], non-positive configured expiries replaced by positive defaults); in doTake the database query runs only inside the single-flight barrier keyed by the cache key, only after a genuine miss (not a placeholder, not another cache error), a not-found result caches the placeholder, any other database error is returned and nothing is cached, a row is cached on success; all Take* methods of both Cache implementations funnel into doTake; Exec invalidates after a successful write, never after a failed one; every keyed monc mutator deletes its keys after the database call; a failed Redis delete is retried by a task not bound to the request context. NOT decided: read-your-writes over histories, at-most-one-query under schedules (C07 rules), actual TTL values."
	c.R.Assume = append(c.R.Assume, "Redis SETEX/SET NX EX semantics", "SingleFlight as established under C07")
	c06ttl(c)
	c06doTake(c)
	c06funnels(c)
	c06get(c)
	c06invalidate(c)
	c06index(c)
	c06indexKey(c)
	c06sharedBarrier(c)
	c06takeWithExpire(c)
	c06barrierPanic(c)
	c06retryChain(c)
	c06optionsForwarded(c)
	c06codec(c)
	c06notFoundIsNotAnError(c)
	c06atomicTTL(c)
	c06retryOwnsKeys(c)
	c06queriesInsideTake(c)
	// R14 (round 7): "concurrent reads of one key share one query, all of them receiving that query's result" is
	// SingleFlight's doing — the flight rules of C07 are part of this property's check as well (a call object
	// recycled while a late joiner still reads it hands a reader another key's row)
	runShared(c, "C07.", "C06.R14·C07.", c07)
	// R16 (round 8): a failed invalidation is retried by the cleaner's timing wheel — its rules (C12) are part of this check
	runShared(c, "C12.", "C06.R16·C12.", c12)
}

// isCeilSeconds: s is int(math.Ceil(X.Seconds())); returns X.
func isCeilSeconds(s *px.Sym) *px.Sym {
	s = s.Strip(true)
	if !isCallTo(s, "math.Ceil") || len(s.Call.Args) != 1 {
		return nil
	}
	sec := s.Call.Args[0].Strip(true)
	if !isCallTo(sec, "time.(Duration).Seconds") || len(sec.Call.Args) != 1 {
		return nil
	}
	return sec.Call.Args[0].Strip(false)
}

func c06ttl(c *Ctx) {
	rule := "C06.R1"
	// who may call what on cacheNode.rds
	allowed := map[string]bool{"GetCtx": true, "DelCtx": true, "Del": true, "SetexCtx": true, "SetnxExCtx": true}
	got := map[string]int{}
	var bad []string
	for _, fn := range c.P.AllFuncs(cachePkg) {
		for _, b := range fn.Blocks {
			for _, ins := range b.Instrs {
				call, ok := ins.(ssa.CallInstruction)
				if !ok {
					continue
				}
				cc := call.Common()
				sc := cc.StaticCallee()
				if sc == nil || sc.Signature.Recv() == nil || len(cc.Args) == 0 {
					continue
				}
				if !viaField(cc.Args[0], "rds") {
					continue
				}
				got[sc.Name()]++
				if !allowed[sc.Name()] {
					bad = append(bad, fmt.Sprintf("%s calls rds.%s at %s", fn.Name(), sc.Name(), c.P.Pos(ins.Pos())))
				}
			}
		}
	}
	o := c.R.Check(len(bad) == 0 && got["SetexCtx"] >= 1 && got["SetnxExCtx"] >= 1, rule, cachePkg+".cacheNode.rds", "the cache node uses Redis only through GetCtx/DelCtx/Del/SetexCtx/SetnxExCtx — every write carries a TTL, no persistent SET", "-", strings.Join(bad, "; "), nil, 0)
	for _, n := range got {
		o.Sites += n
	}

	around := func(s *px.Sym, field string) bool {
		s = s.Strip(false)
		return s != nil && s.Kind == px.KCall && s.Call != nil && s.Call.Static != nil && s.Call.Static.Name() == "aroundDuration" &&
			len(s.Call.Args) == 2 && px.IsFieldLoad(s.Call.Args[1], field, nil)
	}
	if f := c.fn(rule, cachePkg, "(cacheNode).SetWithExpireCtx"); f != nil {
		ps := c.paths(rule, f, px.Config{})
		exP := paramOfType(f, "time.Duration")
		c.forall(rule, cachePkg+".(cacheNode).SetWithExpireCtx", "the TTL written is int(math.Ceil(d.Seconds())) where d is the requested expiry on a path that found it positive, or the jittered configured expiry (never a non-positive TTL: the store turns that into a persistent key)", f, ps, func(p *px.Path) (bool, string) {
			for _, e := range p.All(calleeIs("core/stores/redis.(*Redis).SetexCtx")) {
				d := isCeilSeconds(e.Call.Args[len(e.Call.Args)-1])
				if d == nil {
					return false, "TTL is not ceil(d.Seconds()): " + e.Call.Args[len(e.Call.Args)-1].Describe()
				}
				if around(d, "expiry") {
					continue // the configured expiry, made positive by newOptions
				}
				if !isParam(d, exP) {
					return false, "TTL derives neither from the requested nor from the configured expiry: " + d.Describe()
				}
				positive := false
				for _, b := range p.All(px.KindIs(px.EvBranch)) {
					if b.Seq > e.Seq {
						break
					}
					cnd := b.Cond.Strip(true)
					if cnd.Kind != px.KBinOp || !isParam(cnd.X, exP) {
						continue
					}
					if z, ok := constInt(p, cnd.Y); ok && z == 0 {
						if (cnd.Op == token.GTR && b.Taken) || (cnd.Op == token.LEQ && !b.Taken) {
							positive = true
						}
					}
				}
				if !positive {
					return false, "the requested expiry reaches SetexCtx without having been found positive: SetWithExpire(key, v, 0) (or a negative duration) becomes SET without EX — a persistent key, which the statement excludes (\"every entry written carries a finite TTL … never a persistent key\")"
				}
			}
			return true, ""
		})
	}
	if f := c.fn(rule, cachePkg, "(cacheNode).setCacheWithNotFound"); f != nil {
		ps := c.paths(rule, f, px.Config{})
		c.forall(rule, cachePkg+".(cacheNode).setCacheWithNotFound", "the not-found placeholder is written with SET NX EX and TTL = ceil(jittered notFoundExpiry seconds)", f, ps, func(p *px.Path) (bool, string) {
			es := p.All(calleeIs("core/stores/redis.(*Redis).SetnxExCtx"))
			if len(es) != 1 {
				return false, "SetnxExCtx not called exactly once"
			}
			a := es[0].Call.Args
			d := isCeilSeconds(a[len(a)-1])
			if d == nil || !around(d, "notFoundExpiry") {
				return false, "TTL is not ceil(aroundDuration(notFoundExpiry).Seconds()): " + a[len(a)-1].Describe()
			}
			if v := p.Abs(a[len(a)-2]); v.K != px.ConstV || !numOrStrEq(v.C, constVal(c, cachePkg, "notFoundPlaceholder")) {
				return false, "the value written is not the not-found placeholder"
			}
			return true, ""
		})
	}
	if f := c.fn(rule, cachePkg, "(cacheNode).SetCtx"); f != nil {
		ps := c.paths(rule, f, px.Config{})
		c.forall(rule, cachePkg+".(cacheNode).SetCtx", "Set uses the jittered configured expiry", f, ps, func(p *px.Path) (bool, string) {
			es := p.All(calleeIs(cachePkg + ".(cacheNode).SetWithExpireCtx"))
			if len(es) != 1 || !around(es[0].Call.Args[len(es[0].Call.Args)-1], "expiry") {
				return false, "SetWithExpireCtx(…, aroundDuration(c.expiry)) not called once"
			}
			return true, ""
		})
	}
	if f := c.fn(rule, cachePkg, "(cacheNode).aroundDuration"); f != nil {
		ps := c.paths(rule, f, px.Config{})
		c.forall(rule, cachePkg+".(cacheNode).aroundDuration", "jitter comes from the node's Unstable applied to the given duration", f, ps, func(p *px.Path) (bool, string) {
			r := p.Results[0].Strip(false)
			if !isCallTo(r, "core/mathx.(Unstable).AroundDuration") || !isParam(r.Call.Args[1], f.Params[1]) || !px.IsFieldLoad(r.Call.Args[0], "unstableExpiry", nil) {
				return false, "not c.unstableExpiry.AroundDuration(duration)"
			}
			return true, ""
		})
	}
	// jitter formula
	if f := c.fn(rule, "core/mathx", "(Unstable).AroundDuration"); f != nil {
		ps := c.paths(rule, f, px.Config{})
		want := polyOf(map[string]string{"base": "1", "base*dev": "1", "base*dev*rand": "-2"})
		c.forall(rule, "core/mathx.(Unstable).AroundDuration", "normal form (1 + dev − 2·dev·rand)·base with rand = r.Float64() ∈ [0,1): within ±dev of base", f, ps, func(p *px.Path) (bool, string) {
			got := anf(p, p.Results[0], func(s *px.Sym) string {
				switch {
				case isParam(s, f.Params[1]):
					return "base"
				case px.IsFieldLoad(s, "deviation", nil):
					return "dev"
				case isCallTo(s, "math/rand.(*Rand).Float64"):
					return "rand"
				}
				return ""
			})
			if !polyEq(got, want) {
				// (round 8) the saturated answer: the largest duration, on a path that found the product too large for one
				if av := p.Abs(p.Results[0]); av.K == px.ConstV && av.C != nil && constant.Compare(constant.ToInt(av.C), token.EQL, constant.MakeInt64(math.MaxInt64)) {
					return true, ""
				}
				return false, "normal form is " + got.String() + ", want " + want.String()
			}
			return true, ""
		})
	}
	if f := c.fn(rule, "core/mathx", "NewUnstable"); f != nil {
		ps := c.paths(rule, f, px.Config{})
		c.forall(rule, "core/mathx.NewUnstable", "the deviation is clamped to [0,1]", f, ps, func(p *px.Path) (bool, string) {
			var st *px.Event
			for _, e := range p.All(px.KindIs(px.EvStore)) {
				if px.FieldAddrIs(e.Addr, "deviation", nil) {
					st = e
				}
			}
			if st == nil {
				return false, "deviation not stored"
			}
			if a := p.Abs(st.Val); a.K == px.ConstV && isConstSym(st.Val) {
				if constant.Sign(a.C) < 0 || constant.Compare(a.C, token.GTR, constant.MakeInt64(1)) {
					return false, "clamp constant outside [0,1]"
				}
				return true, ""
			}
			if !isParam(st.Val, f.Params[0]) {
				return false, "deviation stored from " + st.Val.Describe()
			}
			lo, hi := false, false
			for _, e := range p.All(px.KindIs(px.EvBranch)) {
				if e.Cond.Kind != px.KBinOp || !isParam(e.Cond.X, f.Params[0]) {
					continue
				}
				a := p.Abs(e.Cond.Y)
				if a.K != px.ConstV {
					continue
				}
				if constant.Sign(a.C) == 0 && e.Cond.Op == token.LSS && !e.Taken {
					lo = true
				}
				if numEq(a.C, constant.MakeInt64(1)) && e.Cond.Op == token.GTR && !e.Taken {
					hi = true
				}
			}
			if !lo || !hi {
				return false, "the raw deviation is stored without both range tests"
			}
			return true, ""
		})
	}
	dev := constVal(c, cachePkg, "expiryDeviation")
	c.R.Check(dev != nil && numEq(dev, constant.MakeFromLiteral("0.05", token.FLOAT, 0)), rule, cachePkg+".expiryDeviation", "jitter is the ±5% of the statement", "-", fmt.Sprint(dev), nil, 1)
	if f := c.fn(rule, cachePkg, "NewNode"); f != nil {
		ps := c.paths(rule, f, px.Config{MaxVisits: 1})
		c.forall(rule, cachePkg+".NewNode", "the node's Unstable is NewUnstable(expiryDeviation); expiries come from newOptions", f, ps, func(p *px.Path) (bool, string) {
			for _, e := range p.All(px.KindIs(px.EvStore)) {
				if px.FieldAddrIs(e.Addr, "unstableExpiry", nil) {
					v := e.Val.Strip(false)
					if !isCallTo(v, "core/mathx.NewUnstable") || !numEq(p.Abs(v.Call.Args[0]).C, dev) {
						return false, "unstableExpiry is not NewUnstable(expiryDeviation)"
					}
					return true, ""
				}
			}
			return false, "unstableExpiry not initialised"
		})
	}
	if f := c.fn(rule, cachePkg, "newOptions"); f != nil {
		ps := c.paths(rule, f, px.Config{MaxVisits: 2})
		for _, fld := range []string{"Expiry", "NotFoundExpiry"} {
			fld := fld
			c.forall(rule, cachePkg+".newOptions#"+fld, "a non-positive configured "+fld+" is replaced by a positive default", f, ps, func(p *px.Path) (bool, string) {
				if p.Exit != px.ExitReturn {
					return true, ""
				}
				tested := false
				for i := range p.Events {
					e := &p.Events[i]
					if e.Kind != px.EvBranch || e.Cond.Kind != px.KBinOp {
						continue
					}
					x := e.Cond.X.Strip(false)
					isF := px.IsFieldLoad(x, fld, nil) || (x.Kind == px.KZero)
					if !isF {
						// the cell may hold a value an option stored
						if x.Kind == px.KLoad || x.Kind == px.KOther {
							isF = false
						}
					}
					if a := p.Abs(e.Cond.Y); a.K != px.ConstV || constant.Sign(a.C) != 0 {
						continue
					}
					nonPos := (e.Cond.Op == token.LEQ && e.Taken) || (e.Cond.Op == token.GTR && !e.Taken)
					pos := (e.Cond.Op == token.LEQ && !e.Taken) || (e.Cond.Op == token.GTR && e.Taken)
					// which field? find by the store that follows on the non-positive side
					if nonPos {
						for _, s := range p.Events[i+1:] {
							if s.Kind == px.EvBranch {
								break
							}
							if s.Kind == px.EvStore && px.FieldAddrIs(s.Addr, fld, nil) {
								a := p.Abs(s.Val)
								if a.K != px.ConstV || constant.Sign(a.C) <= 0 {
									return false, "default for " + fld + " is not a positive constant"
								}
								tested = true
							}
						}
					}
					if pos {
						// attribute to the field read by the comparison
						if ld := lastLoadBefore(p, i, fld); ld {
							tested = true
						}
					}
				}
				if !tested {
					return false, fld + " is returned without the ≤ 0 test"
				}
				return true, ""
			})
		}
	}
	c.R.Min(rule, 11, "rds inventory, SetWithExpireCtx, setCacheWithNotFound, SetCtx, aroundDuration, AroundDuration, NewUnstable, expiryDeviation, NewNode, newOptions×2")
}

// lastLoadBefore: the branch at index i compares a value loaded from field fld.
func lastLoadBefore(p *px.Path, i int, fld string) bool {
	e := &p.Events[i]
	x := e.Cond.X.Strip(false)
	for j := i - 1; j >= 0; j-- {
		l := &p.Events[j]
		if l.Kind == px.EvLoad && l.Val == x {
			return px.FieldAddrIs(l.Addr, fld, nil)
		}
	}
	return px.IsFieldLoad(x, fld, nil)
}

func viaField(v ssa.Value, field string) bool {
	for d := 0; d < 4 && v != nil; d++ {
		switch x := v.(type) {
		case *ssa.UnOp:
			v = x.X
		case *ssa.FieldAddr:
			return fieldNameOf(x) == field
		case *ssa.Field:
			st, ok := x.X.Type().Underlying().(*types.Struct)
			return ok && st.Field(x.Field).Name() == field
		default:
			return false
		}
	}
	return false
}

func c06doTake(c *Ctx) {
	rule := "C06.R2"
	f := c.fn(rule, cachePkg, "(cacheNode).doTake")
	if f == nil {
		return
	}
	cl := c.closure(rule, f, "barrier closure", func(a *ssa.Function) bool { return a.Parent() == f })
	if cl == nil {
		return
	}
	fv := func(name string) func(s *px.Sym) bool {
		return func(s *px.Sym) bool {
			s = s.Strip(false)
			return (s.Kind == px.KFreeVar && s.V.Name() == name) || (s.Kind == px.KLoad && s.X != nil && s.X.Kind == px.KFreeVar && s.X.V.Name() == name)
		}
	}
	// names of doTake's function-typed parameters (captured by the closure under the same names)
	var queryName, cacheValName string
	for _, p := range f.Params {
		if sig, ok := p.Type().Underlying().(*types.Signature); ok && sig.Params().Len() == 1 {
			if queryName == "" {
				queryName = p.Name()
			} else {
				cacheValName = p.Name()
			}
		}
	}
	query := px.DynWhere(fv(queryName))
	cacheVal := px.DynWhere(fv(cacheValName))
	get := calleeIs(cachePkg + ".(cacheNode).doGetCache")
	setNF := calleeIs(cachePkg + ".(cacheNode).setCacheWithNotFound")
	isIs := func(p *px.Path, errSym *px.Sym, target string) px.AbsK {
		for _, e := range p.All(calleeIs("errors.Is")) {
			if e.Call.Args[0].Strip(false) != errSym.Strip(false) {
				continue
			}
			t := e.Call.Args[1]
			ok := false
			switch target {
			case "placeholder":
				ok = px.IsGlobalLoad(t, mod+cachePkg, "errPlaceholder")
			case "notfound":
				ok = px.IsFieldLoad(t, "errNotFound", nil)
			}
			if ok {
				return p.Abs(e.Res).K
			}
		}
		return px.Unknown
	}
	retErr := func(p *px.Path) *px.Sym {
		if len(p.Results) == 2 {
			return p.Results[1].Strip(false)
		}
		return nil
	}
	ps := c.paths(rule, cl, px.Config{MayPanic: userPanics})
	c.forall(rule, cachePkg+".(cacheNode).doTake$load", "hit ⇒ query×0; placeholder ⇒ not-found, query×0; other cache error ⇒ returned unchanged, query×0; miss ⇒ query×1: not-found ⇒ placeholder cached once, row not cached; other error ⇒ returned unchanged and NOTHING cached; success ⇒ row cached once", cl, ps, func(p *px.Path) (bool, string) {
		g := p.First(get)
		if g == nil || p.Count(get) != 1 {
			return false, "cache not consulted exactly once"
		}
		nq, ncv, nnf := p.Count(query), p.Count(cacheVal), p.Count(setNF)
		switch p.Abs(g.Res).K {
		case px.Nil:
			if nq+ncv+nnf != 0 {
				return false, "a cache hit still queries the database or rewrites the cache"
			}
			return true, ""
		case px.Unknown:
			return false, "cache read error not tested"
		}
		ph := isIs(p, g.Res, "placeholder")
		nf := isIs(p, g.Res, "notfound")
		if ph == px.True {
			if nq+ncv+nnf != 0 {
				return false, "a cached not-found marker still reaches the database"
			}
			if r := retErr(p); r == nil || !px.IsFieldLoad(r, "errNotFound", nil) {
				return false, "a cached not-found marker is not reported as the configured not-found error"
			}
			return true, ""
		}
		if nf != px.True {
			// some other cache failure (or untested)
			if nq+ncv+nnf != 0 {
				return false, "a failing cache store (not a miss) still lets the query through to the database"
			}
			if r := retErr(p); p.Exit == px.ExitReturn && r != g.Res.Strip(false) {
				return false, "cache store error is not returned unchanged"
			}
			return true, ""
		}
		if ph != px.False {
			return false, "placeholder case not excluded before querying"
		}
		if nq != 1 {
			return false, fmt.Sprintf("query ×%d on a miss", nq)
		}
		q := p.First(query)
		if q.PanicsHere {
			if ncv+nnf != 0 {
				return false, "something is cached although the query panicked"
			}
			return true, ""
		}
		qnf := isIs(p, q.Res, "notfound")
		switch {
		case qnf == px.True:
			if nnf != 1 || ncv != 0 {
				return false, fmt.Sprintf("database not-found: placeholder ×%d, row cached ×%d", nnf, ncv)
			}
			if r := retErr(p); p.Exit == px.ExitReturn && (r == nil || !px.IsFieldLoad(r, "errNotFound", nil)) {
				return false, "database not-found is not reported as the configured not-found error"
			}
		case p.Abs(q.Res).K == px.NonNil:
			if ncv != 0 || nnf != 0 {
				return false, "a database error is cached"
			}
			if r := retErr(p); p.Exit == px.ExitReturn && r != q.Res.Strip(false) {
				return false, "the database error is not returned unchanged"
			}
		case p.Abs(q.Res).K == px.Nil:
			if ncv != 1 || nnf != 0 {
				return false, fmt.Sprintf("successful query: row cached ×%d, placeholder ×%d", ncv, nnf)
			}
			if cv := p.First(cacheVal); cv.Seq < q.Seq {
				return false, "row cached before the query"
			}
		default:
			return false, "query error not tested"
		}
		return true, ""
	})

	c06barrierUse(c, "C06.R3")
}

// c06barrierUse: how the cache-aside node uses the single flight (also run under C07: the node is the flight's main
// in-tree user, and "every caller receives the value and error of its own or an overlapping execution" is decided here).
func c06barrierUse(c *Ctx, r3 string) {
	f := c.fn(r3, cachePkg, "(cacheNode).doTake")
	if f == nil {
		return
	}
	cl := c.closure(r3, f, "barrier closure", func(a *ssa.Function) bool { return a.Parent() == f })
	if cl == nil {
		return
	}
	ps2 := c.paths(r3, f, px.Config{})
	keyP := paramOfType(f, "string")
	c.forall(r3, cachePkg+".(cacheNode).doTake", "the query runs only inside the closure handed to c.barrier.DoEx(key, …) keyed by the cache key", f, ps2, func(p *px.Path) (bool, string) {
		if p.Has(func(e *px.Event) bool { return e.Kind == px.EvCall && e.Call.IsDyn() && e.Call.FnSym.Kind == px.KParam }) {
			return false, "query/cacheVal invoked outside the barrier"
		}
		do := p.All(func(e *px.Event) bool {
			return e.Kind == px.EvCall && e.Call.Method != nil && e.Call.Method.Name() == "DoEx" && px.IsFieldLoad(e.Call.Recv, "barrier", nil)
		})
		if len(do) != 1 {
			return false, "barrier.DoEx not called exactly once"
		}
		if !isParam(do[0].Call.Args[0], keyP) {
			return false, "the barrier is not keyed by the cache key"
		}
		if a := do[0].Call.Args[1].Strip(false); a.Kind != px.KClosure || a.Fn != cl {
			return false, "the barrier does not run the loading closure"
		}
		es := findExtract(p, do[0].Res, 2)
		if es != nil && p.Abs(es).K == px.NonNil && p.Results[0].Strip(false) != es {
			return false, "the shared error is not returned"
		}
		return true, ""
	})
}

func c06funnels(c *Ctx) {
	rule := "C06.R3"
	// node: Take* → doTake with own key
	doTake := c.P.Func(cachePkg, "(cacheNode).doTake")
	for _, m := range []string{"TakeCtx", "TakeWithExpireCtx"} {
		f := c.fn(rule, cachePkg, "(cacheNode)."+m)
		if f == nil || doTake == nil {
			continue
		}
		keyP := paramOfType(f, "string")
		var qP *ssa.Parameter
		for _, p := range f.Params {
			if _, ok := p.Type().Underlying().(*types.Signature); ok {
				qP = p
			}
		}
		ps := c.paths(rule, f, px.Config{})
		c.forall(rule, cachePkg+".(cacheNode)."+m, "funnels into doTake once with its own key, its own query (directly or through a closure calling it once) and a cacheVal that writes with a TTL", f, ps, func(p *px.Path) (bool, string) {
			es := p.All(px.CallsFn(doTake))
			if len(es) != 1 {
				return false, "doTake not called exactly once"
			}
			a := es[0].Call.Args
			if !isParam(a[3], keyP) {
				return false, "doTake not keyed by the caller's key"
			}
			q := a[4].Strip(false)
			if !isParam(q, qP) && !(q.Kind == px.KClosure && closureCallsOnce(c, q.Fn, qP.Name())) {
				return false, "the caller's query is not what doTake runs"
			}
			cv := a[5].Strip(false)
			if cv.Kind != px.KClosure || !closureCallsStatic(c, cv.Fn, []string{"SetCtx", "SetWithExpireCtx"}) {
				return false, "cacheVal does not store through SetCtx/SetWithExpireCtx"
			}
			if p.Results[0].Strip(false) != es[0].Res {
				return false, "doTake's error not returned"
			}
			return true, ""
		})
	}
	for _, m := range []string{"Take", "TakeWithExpire"} {
		f := c.fn(rule, cachePkg, "(cacheNode)."+m)
		if f == nil {
			continue
		}
		ps := c.paths(rule, f, px.Config{})
		c.forall(rule, cachePkg+".(cacheNode)."+m, "forwards to its Ctx sibling with all arguments", f, ps, func(p *px.Path) (bool, string) {
			es := p.All(calleeIs(cachePkg + ".(cacheNode)." + m + "Ctx"))
			if len(es) != 1 || p.Results[0].Strip(false) != es[0].Res {
				return false, "does not forward once"
			}
			for i, pr := range f.Params[1:] {
				if !isParam(es[0].Call.Args[i+2], pr) {
					return false, "argument " + pr.Name() + " not forwarded"
				}
			}
			return true, ""
		})
	}
	// cluster: every Cache method with a key dispatches by that key and forwards all arguments to the same method
	pk := c.P.Pkg(cachePkg)
	if pk == nil {
		return
	}
	tn, _ := pk.Types.Scope().Lookup("cacheCluster").(*types.TypeName)
	if tn == nil {
		c.R.Undecided(rule+"c", cachePkg+".cacheCluster", "anchor resolves", "type missing")
		return
	}
	named := tn.Type().(*types.Named)
	for i := 0; i < named.NumMethods(); i++ {
		m := named.Method(i)
		f := c.P.FuncOf(m)
		if f == nil || f.Blocks == nil || !m.Exported() {
			continue
		}
		keyP := paramOfType(f, "string")
		if keyP == nil || strings.HasPrefix(m.Name(), "Del") {
			continue
		}
		c.R.Funcs[cachePkg+".(cacheCluster)."+m.Name()] = true
		ps := c.paths(rule+"c", f, px.Config{Inline: func(ci *px.CallInfo, d int) bool {
			return ci.Static != nil && strings.Contains(ci.Static.String(), "cacheCluster")
		}})
		c.forall(rule+"c", cachePkg+".(cacheCluster)."+m.Name(), "the cluster picks the node by dispatcher.Get(key) and forwards to the node's method of the same family with key and all other arguments unchanged; no node ⇒ errNotFound", f, ps, func(p *px.Path) (bool, string) {
			d := p.All(calleeIs("core/hash.(*ConsistentHash).Get"))
			if len(d) != 1 || !isParam(d[0].Call.Args[1], keyP) {
				return false, "dispatcher.Get(key) not called once with the caller's key"
			}
			ok := findExtract(p, d[0].Res, 1)
			var fw []*px.Event
			for _, e := range p.All(px.KindIs(px.EvCall)) {
				if e.Call.Method != nil && e.Call.Method.Pkg() != nil && e.Call.Method.Pkg().Path() == mod+cachePkg && e.Call.Recv.Strip(false).Kind == px.KTypeAssert {
					fw = append(fw, e)
				}
			}
			if p.Abs(ok).K != px.True {
				if len(fw) != 0 {
					return false, "forwards although no node was found"
				}
				return true, ""
			}
			if len(fw) != 1 {
				return false, fmt.Sprintf("forwards %d times", len(fw))
			}
			if fw[0].Call.Recv.Strip(false).X.Strip(false) != findExtract(p, d[0].Res, 0) {
				return false, "forwards to something other than the dispatched node"
			}
			want := strings.TrimSuffix(m.Name(), "Ctx")
			if strings.TrimSuffix(fw[0].Call.Method.Name(), "Ctx") != want {
				return false, "forwards to " + fw[0].Call.Method.Name()
			}
			// every own parameter (except a missing ctx) is forwarded
			for _, pr := range f.Params[1:] {
				found := false
				for _, a := range fw[0].Call.Args {
					if isParam(a, pr) {
						found = true
					}
				}
				if !found {
					return false, "argument " + pr.Name() + " is not forwarded"
				}
			}
			if p.Results[len(p.Results)-1].Strip(false) != fw[0].Res && fw[0].Res != nil {
				return false, "the node's result is not returned"
			}
			return true, ""
		})
	}
	c.R.Min(rule+"c", 10, "cacheCluster keyed methods (Get/Set/SetWithExpire/Take/TakeWithExpire ± Ctx)")
	c.R.Min(rule, 5, "doTake barrier, TakeCtx, TakeWithExpireCtx, Take, TakeWithExpire")
}

// closureCallsOnce: cl calls the captured variable `name` exactly once on every path.
func closureCallsOnce(c *Ctx, cl *ssa.Function, name string) bool {
	ps, _, err := px.Run(px.Config{Prog: c.P.SSA}, cl)
	if err != nil || len(ps) == 0 {
		return false
	}
	for _, p := range ps {
		n := p.Count(px.DynWhere(func(s *px.Sym) bool {
			s = s.Strip(false)
			return (s.Kind == px.KFreeVar && s.V.Name() == name) || (s.Kind == px.KLoad && s.X != nil && s.X.Kind == px.KFreeVar && s.X.V.Name() == name)
		}))
		if n != 1 {
			return false
		}
	}
	return true
}

func closureCallsStatic(c *Ctx, cl *ssa.Function, names []string) bool {
	ps, _, err := px.Run(px.Config{Prog: c.P.SSA}, cl)
	if err != nil || len(ps) == 0 {
		return false
	}
	for _, p := range ps {
		n := p.Count(func(e *px.Event) bool {
			return e.Kind == px.EvCall && e.Call.Static != nil && nameIn(e.Call.Static.Name(), names)
		})
		if n != 1 {
			return false
		}
	}
	return true
}

func c06get(c *Ctx) {
	rule := "C06.R4"
	if f := c.fn(rule, cachePkg, "(cacheNode).doGetCache"); f != nil {
		ps := c.paths(rule, f, px.Config{})
		get := calleeIs("core/stores/redis.(*Redis).GetCtx")
		ph := constVal(c, cachePkg, "notFoundPlaceholder")
		c.forall(rule, cachePkg+".(cacheNode).doGetCache", "store error ⇒ returned; empty ⇒ configured not-found; placeholder ⇒ errPlaceholder; otherwise decode", f, ps, func(p *px.Path) (bool, string) {
			g := p.First(get)
			if g == nil {
				return false, "redis not read"
			}
			es := findExtract(p, g.Res, 1)
			data := findExtract(p, g.Res, 0)
			r := p.Results[0].Strip(false)
			if p.Abs(es).K == px.NonNil {
				if r != es {
					return false, "store error not returned unchanged"
				}
				return true, ""
			}
			if p.Abs(es).K != px.Nil {
				return false, "store error not tested"
			}
			for _, e := range p.All(px.KindIs(px.EvBranch)) {
				cnd := e.Cond
				if cnd.Kind != px.KBinOp {
					continue
				}
				// len(data) == 0
				if x := cnd.X.Strip(false); x.Kind == px.KCall && x.Call != nil && x.Call.Builtin == "len" && len(x.Call.Args) == 1 && x.Call.Args[0].Strip(false) == data {
					if cnd.Op == token.EQL && e.Taken && !px.IsFieldLoad(r, "errNotFound", nil) {
						return false, "empty value is not reported as not-found"
					}
				}
				if cnd.X.Strip(false) == data && cnd.Op == token.EQL && isConstSym(cnd.Y) && numOrStrEq(p.Abs(cnd.Y).C, ph) && e.Taken {
					if !px.IsGlobalLoad(r, mod+cachePkg, "errPlaceholder") {
						return false, "placeholder is not reported as errPlaceholder"
					}
				}
			}
			return true, ""
		})
	}
	if f := c.fn(rule, cachePkg, "(cacheNode).processCache"); f != nil {
		ps := c.paths(rule, f, px.Config{})
		c.forall(rule, cachePkg+".(cacheNode).processCache", "an undecodable entry is deleted and reported as not-found (so it is reloaded)", f, ps, func(p *px.Path) (bool, string) {
			um := p.First(calleeIs("core/jsonx.Unmarshal"))
			if um == nil {
				return false, "no decode"
			}
			if p.Abs(um.Res).K == px.Nil {
				if !px.IsNilConst(p.Results[0]) {
					return false, "successful decode returns an error"
				}
				return true, ""
			}
			if p.Count(calleeIs("core/stores/redis.(*Redis).DelCtx")) != 1 {
				return false, "undecodable entry is not deleted"
			}
			if !px.IsFieldLoad(p.Results[0], "errNotFound", nil) {
				return false, "undecodable entry is not reported as not-found"
			}
			return true, ""
		})
	}
	if f := c.fn(rule, cachePkg, "(cacheNode).GetCtx"); f != nil {
		ps := c.paths(rule, f, px.Config{})
		c.forall(rule, cachePkg+".(cacheNode).GetCtx", "a cached not-found marker reads as the configured not-found error", f, ps, func(p *px.Path) (bool, string) {
			g := p.First(calleeIs(cachePkg + ".(cacheNode).doGetCache"))
			if g == nil {
				return false, "doGetCache not called"
			}
			for _, e := range p.All(calleeIs("errors.Is")) {
				if px.IsGlobalLoad(e.Call.Args[1], mod+cachePkg, "errPlaceholder") && p.Abs(e.Res).K == px.True {
					if !px.IsFieldLoad(p.Results[0], "errNotFound", nil) {
						return false, "placeholder not mapped to errNotFound"
					}
					return true, ""
				}
			}
			if p.Results[0].Strip(false) != g.Res {
				return false, "other results not returned unchanged"
			}
			return true, ""
		})
	}
	c.R.Min(rule, 3, "doGetCache, processCache, GetCtx")
}

func c06invalidate(c *Ctx) {
	rule := "C06.R5"
	if f := c.fn(rule, "core/stores/sqlc", "(CachedConn).ExecCtx"); f != nil {
		ps := c.paths(rule, f, px.Config{MayPanic: userPanics})
		var execP, keysP *ssa.Parameter
		for _, p := range f.Params {
			if _, ok := p.Type().Underlying().(*types.Signature); ok {
				execP = p
			}
			if _, ok := p.Type().Underlying().(*types.Slice); ok {
				keysP = p
			}
		}
		del := calleeIs("core/stores/sqlc.(CachedConn).DelCacheCtx")
		c.forall(rule, "core/stores/sqlc.(CachedConn).ExecCtx", "the write runs first; on its error nothing is invalidated and the error is returned; on success the caller's keys are invalidated exactly once and that error is reported", f, ps, func(p *px.Path) (bool, string) {
			ex := p.All(px.DynWhere(func(s *px.Sym) bool { return isParam(s, execP) }))
			if len(ex) != 1 {
				return false, "exec not called exactly once"
			}
			if ex[0].PanicsHere {
				if p.Count(del) != 0 {
					return false, "invalidates although the write panicked"
				}
				return true, ""
			}
			es := findExtract(p, ex[0].Res, 1)
			switch p.Abs(es).K {
			case px.NonNil:
				if p.Count(del) != 0 {
					return false, "a failed write still invalidates"
				}
				if p.Results[1].Strip(false) != es {
					return false, "write error not returned"
				}
			case px.Nil:
				ds := p.All(del)
				if len(ds) != 1 || ds[0].Seq < ex[0].Seq {
					return false, "keys are not invalidated exactly once after the write"
				}
				if !isParam(ds[0].Call.Args[len(ds[0].Call.Args)-1], keysP) {
					return false, "the caller's keys are not what is invalidated"
				}
				if p.Results[1].Strip(false) != ds[0].Res {
					return false, "invalidation error is dropped"
				}
			default:
				return false, "write error not tested"
			}
			return true, ""
		})
	}
	if f := c.fn(rule, "core/stores/sqlc", "(CachedConn).DelCacheCtx"); f != nil {
		ps := c.paths(rule, f, px.Config{})
		c.forall(rule, "core/stores/sqlc.(CachedConn).DelCacheCtx", "forwards the keys to the cache's DelCtx", f, ps, func(p *px.Path) (bool, string) {
			es := p.All(func(e *px.Event) bool {
				return e.Kind == px.EvCall && e.Call.Method != nil && e.Call.Method.Name() == "DelCtx"
			})
			if len(es) != 1 || !isParam(es[0].Call.Args[len(es[0].Call.Args)-1], f.Params[len(f.Params)-1]) || p.Results[0].Strip(false) != es[0].Res {
				return false, "keys not forwarded to cache.DelCtx"
			}
			return true, ""
		})
	}
	// monc keyed mutators
	pk := c.P.Pkg("core/stores/monc")
	n := 0
	if pk != nil {
		if tn, _ := pk.Types.Scope().Lookup("Model").(*types.TypeName); tn != nil {
			named := tn.Type().(*types.Named)
			var ms []*types.Func
			for i := 0; i < named.NumMethods(); i++ {
				ms = append(ms, named.Method(i))
			}
			sort.Slice(ms, func(i, j int) bool { return ms[i].Name() < ms[j].Name() })
			for _, m := range ms {
				f := c.P.FuncOf(m)
				if f == nil || f.Blocks == nil || !m.Exported() {
					continue
				}
				var keyP *ssa.Parameter
				for _, p := range f.Params[1:] {
					ts := typeString(p.Type())
					if ts == "string" || ts == "[]string" {
						keyP = p
						break
					}
				}
				isDB := func(e *px.Event) bool {
					if e.Kind != px.EvCall || e.InDefer {
						return false
					}
					o := e.Call.Obj()
					return o != nil && o.Pkg() != nil && o.Pkg().Path() == mod+"core/stores/mon"
				}
				if keyP == nil || !callsInBody(f, func(cc *ssa.CallCommon) bool {
					if cc.IsInvoke() {
						return cc.Method.Pkg() != nil && cc.Method.Pkg().Path() == mod+"core/stores/mon"
					}
					sc := cc.StaticCallee()
					return sc != nil && sc.Pkg != nil && sc.Pkg.Pkg.Path() == mod+"core/stores/mon" && sc.Signature.Recv() != nil
				}) {
					continue
				}
				n++
				c.R.Funcs["core/stores/monc.(*Model)."+m.Name()] = true
				ps := c.paths(rule+"m", f, px.Config{})
				del := calleeIs("core/stores/monc.(*Model).DelCache")
				c.forall(rule+"m", "core/stores/monc.(*Model)."+m.Name(), "keyed mutator: database call first; on its error nothing is invalidated; on success DelCache(ctx, caller's key(s)) exactly once", f, ps, func(p *px.Path) (bool, string) {
					db := p.All(isDB)
					if len(db) != 1 {
						return false, fmt.Sprintf("database call ×%d", len(db))
					}
					var es *px.Sym
					if tup, ok := db[0].Res.Typ.(*types.Tuple); ok {
						es = findExtract(p, db[0].Res, tup.Len()-1)
					} else {
						es = db[0].Res
					}
					ds := p.All(del)
					if es != nil && p.Abs(es).K == px.NonNil {
						if len(ds) != 0 {
							return false, "failed write still invalidates"
						}
						return true, ""
					}
					if es == nil || p.Abs(es).K != px.Nil {
						return false, "database error not tested before invalidating"
					}
					if len(ds) != 1 || ds[0].Seq < db[0].Seq {
						return false, "cache not invalidated exactly once after the write"
					}
					last := ds[0].Call.Args[len(ds[0].Call.Args)-1]
					okKey := isParam(last, keyP)
					for _, el := range p.SliceElems(last) {
						if isParam(el, keyP) {
							okKey = true
						}
					}
					if !okKey {
						return false, "DelCache does not get the caller's key(s)"
					}
					return true, ""
				})
			}
		}
	}
	c.R.Min(rule+"m", 9, "keyed monc mutators")
	// cacheNode.DelCtx: failed delete → async retry with the failing keys
	if f := c.fn(rule, cachePkg, "(cacheNode).DelCtx"); f != nil {
		ps := c.paths(rule, f, px.Config{MaxVisits: 2})
		del := calleeIs("core/stores/redis.(*Redis).DelCtx")
		retry := calleeIs(cachePkg + ".(cacheNode).asyncRetryDelCache")
		c.forall(rule, cachePkg+".(cacheNode).DelCtx", "every failed Redis delete schedules one asynchronous retry for the keys that failed; successful deletes schedule none", f, ps, func(p *px.Path) (bool, string) {
			if p.Exit == px.ExitCut {
				return true, ""
			}
			ds, rs := p.All(del), p.All(retry)
			fails := 0
			for _, d := range ds {
				es := findExtract(p, d.Res, 1)
				if es == nil {
					return false, "delete error ignored"
				}
				switch p.Abs(es).K {
				case px.NonNil:
					fails++
					// the next retry must carry the same keys
					var nxt *px.Event
					for _, r := range rs {
						if r.Seq > d.Seq && (nxt == nil || r.Seq < nxt.Seq) {
							nxt = r
						}
					}
					if nxt == nil {
						return false, "a failed delete is not retried"
					}
					dk, rk := d.Call.Args[len(d.Call.Args)-1], nxt.Call.Args[len(nxt.Call.Args)-1]
					if !sameKeys(p, dk, rk) {
						return false, "the retry does not carry the keys whose delete failed"
					}
				case px.Nil:
				default:
					return false, "delete error not tested"
				}
			}
			if len(rs) != fails {
				return false, fmt.Sprintf("%d failed deletes but %d retries", fails, len(rs))
			}
			return true, ""
		})
	}
	if f := c.fn(rule, cachePkg, "(cacheNode).asyncRetryDelCache"); f != nil {
		ps := c.paths(rule, f, px.Config{})
		var task *ssa.Function
		c.forall(rule, cachePkg+".(cacheNode).asyncRetryDelCache", "registers one clean task for exactly its keys", f, ps, func(p *px.Path) (bool, string) {
			es := p.All(calleeIs(cachePkg + ".AddCleanTask"))
			if len(es) != 1 {
				return false, "AddCleanTask not called once"
			}
			if cl := es[0].Call.Args[0].Strip(false); cl.Kind == px.KClosure {
				task = cl.Fn
			}
			kp := f.Params[len(f.Params)-1]
			ks := es[0].Call.Args[1].Strip(false)
			// its keys, or a private copy of them: append([]string(nil), keys...)
			isCopy := ks.Kind == px.KCall && ks.Call != nil && ks.Call.Builtin == "append" && len(ks.Call.Args) == 2 && px.IsNilConst(ks.Call.Args[0]) && isParam(ks.Call.Args[1], kp)
			if !isParam(ks, kp) && !isCopy {
				return false, "task registered for other keys"
			}
			return true, ""
		})
		if task != nil {
			tps := c.paths(rule, task, px.Config{})
			c.forall(rule, cachePkg+".(cacheNode).asyncRetryDelCache$task", "the retry deletes exactly those keys and is not bound to the request's context (it must outlive the request)", task, tps, func(p *px.Path) (bool, string) {
				var calls []*px.Event
				for _, e := range p.All(px.KindIs(px.EvCall)) {
					if e.Call.Static != nil && (e.Call.Static.Name() == "Del" || e.Call.Static.Name() == "DelCtx") && px.IsFieldLoad(e.Call.Recv, "rds", nil) {
						calls = append(calls, e)
					}
				}
				if len(calls) != 1 {
					return false, "the task does not delete exactly once"
				}
				e := calls[0]
				if e.Call.Static.Name() == "DelCtx" {
					ctx := e.Call.Args[1].Strip(false)
					if !px.ResultOf(ctx, 0, func(ci *px.CallInfo) bool {
						return ci.Obj() != nil && (ci.Obj().FullName() == "context.Background" || ci.Obj().FullName() == "context.TODO")
					}) {
						return false, "the retried delete runs under a captured (request) context: once that is cancelled every retry fails and the stale entry stays"
					}
				}
				return true, ""
			})
		}
	}
	c.R.Min(rule, 4, "ExecCtx, DelCacheCtx, DelCtx, asyncRetryDelCache(+task)")
}

func sameKeys(p *px.Path, a, b *px.Sym) bool {
	a, b = a.Strip(false), b.Strip(false)
	if a == b {
		return true
	}
	ea, eb := p.SliceElems(a), p.SliceElems(b)
	if len(ea) > 0 && len(ea) == len(eb) {
		for i := range ea {
			if ea[i].Strip(false) != eb[i].Strip(false) {
				return false
			}
		}
		return true
	}
	return false
}

func c06index(c *Ctx) {
	rule := "C06.R6"
	f := c.fn(rule, "core/stores/sqlc", "(CachedConn).QueryRowIndexCtx")
	if f == nil {
		return
	}
	gap := constVal(c, "core/stores/sqlc", "cacheSafeGapBetweenIndexAndPrimary")
	c.R.Check(gap != nil && constant.Sign(gap) > 0, rule, "core/stores/sqlc.cacheSafeGapBetweenIndexAndPrimary", "the primary entry outlives the index entry by a positive gap", "-", fmt.Sprint(gap), nil, 1)
	var cl *ssa.Function
	for _, a := range f.AnonFuncs {
		if len(a.Params) == 2 && typeString(a.Params[1].Type()) == "time.Duration" {
			cl = a
		}
	}
	if cl == nil {
		c.R.Undecided(rule, "core/stores/sqlc.(CachedConn).QueryRowIndexCtx$index", "anchor resolves", "index closure not found")
		return
	}
	ps := c.paths(rule, cl, px.Config{})
	c.forall(rule, "core/stores/sqlc.(CachedConn).QueryRowIndexCtx$index", "the primary row is cached with the index entry's expire + the safety gap, only after the index query succeeded", cl, ps, func(p *px.Path) (bool, string) {
		sets := p.All(func(e *px.Event) bool {
			return e.Kind == px.EvCall && e.Call.Method != nil && e.Call.Method.Name() == "SetWithExpireCtx"
		})
		q := p.First(func(e *px.Event) bool { return e.Kind == px.EvCall && e.Call.IsDyn() })
		if q == nil {
			return false, "index query not run"
		}
		if q.PanicsHere {
			return len(sets) == 0, "cached although the index query panicked"
		}
		es := findExtract(p, q.Res, 1)
		if p.Abs(es).K == px.NonNil {
			if len(sets) != 0 {
				return false, "primary row cached although the index query failed"
			}
			return true, ""
		}
		if len(sets) != 1 {
			return false, "primary row not cached exactly once"
		}
		ex := sets[0].Call.Args[len(sets[0].Call.Args)-1]
		got := anf(p, ex, func(s *px.Sym) string {
			if isParam(s, cl.Params[1]) {
				return "expire"
			}
			return ""
		})
		gr, _ := ratOf(gap)
		want := Poly{"expire": ratOne(), "": gr}
		if !polyEq(got, want) {
			return false, "primary TTL is " + got.String() + ", want expire + gap"
		}
		return true, ""
	})
}

// c06indexKey (R6b, round 5): the primary key found in the index entry is used as it was decoded. The argument of
// keyer(…) and of primaryQuery(…) is the primaryKey variable that TakeWithExpireCtx / the index query filled —
// no conversion in between: the primary entry was cached under keyer(<the index query's value>), and a re-typed
// copy (json.Number → int64/float64) renders differently for keys beyond int64 and misses it (seed r5-C06-2).
func c06indexKey(c *Ctx) {
	rule := "C06.R6"
	f := c.fn(rule, "core/stores/sqlc", "(CachedConn).QueryRowIndexCtx")
	if f == nil {
		return
	}
	var keyerP, primP, idxP *ssa.Parameter
	for _, p := range f.Params {
		switch {
		case p.Name() == "keyer" || typeString(p.Type()) == "func(primary any) string" || typeString(p.Type()) == "func(any) string":
			keyerP = p
		case strings.HasSuffix(typeString(p.Type()), "PrimaryQueryCtxFn"):
			primP = p
		case strings.HasSuffix(typeString(p.Type()), "IndexQueryCtxFn"):
			idxP = p
		}
	}
	if keyerP == nil || primP == nil || idxP == nil {
		c.R.Undecided(rule, "core/stores/sqlc.(CachedConn).QueryRowIndexCtx#key", "anchor resolves", "keyer / primaryQuery / indexQuery parameters not found")
		return
	}
	var bad []string
	sites := 0
	walkWithClosures(f, func(g *ssa.Function) {
		for _, b := range g.Blocks {
			for _, ins := range b.Instrs {
				call, ok := ins.(ssa.CallInstruction)
				if !ok || call.Common().IsInvoke() || call.Common().StaticCallee() != nil {
					continue
				}
				var arg ssa.Value
				switch {
				case valueIsParam(call.Common().Value, keyerP, g) && len(call.Common().Args) == 1:
					arg = call.Common().Args[0]
				case valueIsParam(call.Common().Value, primP, g) && len(call.Common().Args) >= 1:
					arg = call.Common().Args[len(call.Common().Args)-1]
				default:
					continue
				}
				sites++
				for _, d := range reachingDefs(arg, g, 0) {
					switch x := d.(type) {
					case *ssa.Extract:
						if cl, ok := x.Tuple.(*ssa.Call); ok && valueIsParam(cl.Call.Value, idxP, cl.Parent()) {
							continue
						}
						bad = append(bad, fmt.Sprintf("%s: the key handed on comes from %s", c.P.Pos(ins.Pos()), x.Tuple.Name()))
					case *ssa.Call:
						bad = append(bad, fmt.Sprintf("%s: the primary key is passed through %s before it is used to build the primary cache key / query: the primary entry was cached under the value the index query returned", c.P.Pos(ins.Pos()), calleeName(x.Common())))
					case *ssa.Alloc, *ssa.Const:
					default:
						if _, isLoad := d.(*ssa.UnOp); isLoad {
							continue
						}
						bad = append(bad, fmt.Sprintf("%s: the key handed on is derived by %T", c.P.Pos(ins.Pos()), d))
					}
				}
			}
		}
	})
	sort.Strings(bad)
	c.R.Check(len(bad) == 0 && sites >= 3, rule, "core/stores/sqlc.(CachedConn).QueryRowIndexCtx#key", "keyer and primaryQuery receive the primary key exactly as the index query / the cached index entry delivered it (no conversion in between)", posOf(c, f), fmt.Sprintf("%d uses; %s", sites, strings.Join(bad, "; ")), bad, sites)
}

// c06sharedBarrier: the single-flight barrier handed to every cache is a package-level one, so that
// readers of one key are collapsed across all connections/models of the process, not per object.
func c06sharedBarrier(c *Ctx) { c06sharedBarrierAs(c, "C06.R3") }

func c06sharedBarrierAs(c *Ctx, rule string) {
	sites := 0
	for _, pk := range c.P.Pkgs {
		rel := strings.TrimPrefix(pk.PkgPath, mod)
		for _, fn := range c.P.AllFuncs(rel) {
			for _, b := range fn.Blocks {
				for _, ins := range b.Instrs {
					call, ok := ins.(ssa.CallInstruction)
					if !ok {
						continue
					}
					n := calleeName(call.Common())
					if n != mod+cachePkg+".New" && n != mod+cachePkg+".NewNode" {
						continue
					}
					if rel == cachePkg {
						// inside the package: a constructor that was given a barrier hands the very same barrier on
						// (cluster mode must not give every node a private flight group: two caches built over the
						// same multi-node configuration with one shared barrier would load a key twice)
						root := fn
						for root.Parent() != nil {
							root = root.Parent()
						}
						var bp *ssa.Parameter
						for _, p := range root.Params {
							if strings.HasSuffix(typeString(p.Type()), "core/syncx.SingleFlight") {
								bp = p
							}
						}
						if bp == nil {
							continue
						}
						sites++
						cons := fmt.Sprintf("%s.%s→%s#forward", rel, fn.Name(), strings.TrimPrefix(n, mod))
						c.R.Check(valueIsParam(call.Common().Args[1], bp, fn), rule, cons, "a cache constructor forwards the barrier it was given to the nodes it builds", c.P.Pos(ins.Pos()), "the node is built with another single flight than the caller's: load suppression is per node object, not across the caches sharing the caller's barrier", nil, 1)
						continue
					}
					sites++
					arg := call.Common().Args[1]
					shared := false
					if u, ok := arg.(*ssa.UnOp); ok {
						if _, isG := u.X.(*ssa.Global); isG {
							shared = true
						}
					}
					cons := fmt.Sprintf("%s.%s→%s", rel, fn.Name(), strings.TrimPrefix(n, mod))
					c.R.Check(shared, rule, cons, "the load-suppression barrier given to a cache is a package-level single flight shared by every connection/model (concurrent reads of one uncached key run at most one query in the process)", c.P.Pos(ins.Pos()),
						"the cache gets its own single flight ("+arg.String()+"): readers of the same key on different connections/models each run their own database query", nil, 1)
				}
			}
		}
	}
	c.R.Extra["C06.R3_cache_constructor_sites"] = sites
	if sites < 4 {
		c.R.Undecided(rule, "cache constructor call sites", "sqlc and monc constructors found", fmt.Sprintf("%d sites", sites))
	}
}

// c06takeWithExpire: the expiry announced to the query is the expiry the value is cached with.
func c06takeWithExpire(c *Ctx) {
	rule := "C06.R6"
	f := c.fn(rule, cachePkg, "(cacheNode).TakeWithExpireCtx")
	if f == nil {
		return
	}
	ps := c.paths(rule, f, px.Config{})
	c.forall(rule, cachePkg+".(cacheNode).TakeWithExpireCtx", "one jittered expiry is drawn from the configured expiry and shared by the query callback and the cache fill", f, ps, func(p *px.Path) (bool, string) {
		ar := p.All(calleeIs(cachePkg + ".(cacheNode).aroundDuration"))
		if len(ar) != 1 || !fieldLoadDeep(ar[0].Call.Args[1], "expiry", nil) {
			return false, "the expiry is not drawn exactly once from the configured expiry"
		}
		return true, ""
	})
	if len(f.AnonFuncs) != 2 {
		c.R.Undecided(rule, cachePkg+".(cacheNode).TakeWithExpireCtx$closures", "anchor resolves", fmt.Sprintf("expected the query and the cache-fill closures, found %d", len(f.AnonFuncs)))
		return
	}
	isExpire := func(s *px.Sym) bool {
		s = s.Strip(false)
		return (s.Kind == px.KLoad && s.X != nil && s.X.Kind == px.KFreeVar && s.X.V.Name() == "expire") || (s.Kind == px.KFreeVar && s.V.Name() == "expire")
	}
	for _, cl := range f.AnonFuncs {
		cps := c.paths(rule, cl, px.Config{})
		c.forall(rule, cachePkg+".(cacheNode).TakeWithExpireCtx$"+cl.Name(), "the query callback is told, and the value is cached with, the very same expiry (an index entry written by the callback must not outlive the row it points to: the two TTLs are derived from one draw)", cl, cps, func(p *px.Path) (bool, string) {
			for _, e := range p.All(px.KindIs(px.EvCall)) {
				if e.Inlined {
					continue
				}
				if e.Call.IsDyn() {
					if len(e.Call.Args) != 2 || !isExpire(e.Call.Args[1]) {
						return false, "the query callback is not given the shared expiry"
					}
					return true, ""
				}
				if o := e.Call.Obj(); o != nil && strings.HasPrefix(o.Name(), "Set") {
					if o.Name() != "SetWithExpireCtx" || !isExpire(e.Call.Args[len(e.Call.Args)-1]) {
						return false, "the value is cached through " + o.Name() + " without the expiry that was announced to the query callback: the row's TTL is an independent draw, so an index entry can outlive the row it points to"
					}
					return true, ""
				}
			}
			return false, "neither the query callback nor a cache fill"
		})
	}
}

// c06barrierPanic: the shared barrier releases its key when the query panics (failure containment).
func c06barrierPanic(c *Ctx) {
	rule := "C06.R7"
	f := c.fn(rule, "core/syncx", "(*flightGroup).makeCall")
	if f == nil {
		return
	}
	fnP := paramOfType(f, "func() (any, error)")
	ps := c.paths(rule, f, px.Config{MayPanic: userPanics})
	c.forall(rule, "core/syncx.(*flightGroup).makeCall", "the barrier forgets the key and releases its waiters on every exit of the load, including a panic (otherwise one panicking query blocks every later reader of that key forever)", f, ps, func(p *px.Path) (bool, string) {
		del := p.Count(func(e *px.Event) bool { return e.Kind == px.EvCall && e.Call.Builtin == "delete" })
		done := p.Count(calleeIs("sync.(*WaitGroup).Done"))
		if del != 1 || done != 1 {
			return false, fmt.Sprintf("on exit %q: delete ×%d, Done ×%d", p.Exit, del, done)
		}
		_ = fnP
		return true, ""
	})
}
