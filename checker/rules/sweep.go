package rules

import (
	"encoding/json"
	"fmt"
	"os"
	"path/filepath"

	"gzverify/load"
	"gzverify/rep"
)

// Sweep (development tool, measures the checker): applies byte-range mutants in memory, one at a
// time, re-runs the quick rules of the listed properties and records which obligation (if any)
// newly fails. Nothing here decides a property.

type SweepMutant struct {
	ID    string   `json:"id"`
	File  string   `json:"file"`
	Start int      `json:"start"`
	End   int      `json:"end"`
	New   string   `json:"new"`
	Props []string `json:"props"`
	// results
	Killed   bool   `json:"killed"`
	KilledBy string `json:"killed_by,omitempty"`
	TypeErr  bool   `json:"type_err,omitempty"`
}

func Sweep(in, out string, from, to int) error {
	b, err := os.ReadFile(in)
	if err != nil {
		return err
	}
	var ms []*SweepMutant
	if err := json.Unmarshal(b, &ms); err != nil {
		return err
	}
	if to <= 0 || to > len(ms) {
		to = len(ms)
	}
	ms = ms[from:to]
	base := map[string]map[string]bool{}
	for i, m := range ms {
		path := filepath.Join(load.RepoDir(), m.File)
		src, err := os.ReadFile(path)
		if err != nil {
			return err
		}
		mut := append(append(append([]byte{}, src[:m.Start]...), m.New...), src[m.End:]...)
		overlay := map[string][]byte{path: mut}
		for _, pid := range m.Props {
			d, ok := props[pid]
			if !ok {
				continue
			}
			if _, ok := base[pid]; !ok {
				r0 := rep.New(pid, "selftest", d.level)
				runOnce(pid, d, r0, "quick", nil, nil, "")
				base[pid] = failingIDs(r0)
			}
			r := rep.New(pid, "selftest", d.level)
			runOnce(pid, d, r, "quick", nil, overlay, "")
			for _, o := range r.Obs {
				if (o.Status == rep.Violated || o.Status == rep.Undecided) && !base[pid][o.ID+"|"+o.Detail] {
					m.Killed = true
					m.KilledBy = o.Rule + " " + o.Construct
					if o.Construct == "type-check" {
						m.TypeErr = true
					}
					break
				}
			}
			if m.Killed {
				break
			}
		}
		if (i+1)%20 == 0 {
			fmt.Fprintf(os.Stderr, "sweep %d/%d\n", i+1, len(ms))
		}
	}
	ob, _ := json.MarshalIndent(ms, "", " ")
	return os.WriteFile(out, ob, 0o644)
}
