package rules

import (
	"fmt"
	"go/constant"
	"go/token"
	"go/types"
	"math/big"
	"strings"

	"golang.org/x/tools/go/ssa"

	"gzverify/px"
)

// C04 — timeout control.
func init() { register("C04", "other", c04) }

func isCtxWithTimeout(e *px.Event) bool {
	return e.Kind == px.EvCall && e.Call.Obj() != nil && e.Call.Obj().FullName() == "context.WithTimeout"
}

// ctxDone matches a select case / receive on <sym>.Done() and returns the context sym.
func doneOf(s *px.Sym) *px.Sym {
	s = s.Strip(false)
	if s != nil && s.Kind == px.KCall && s.Call != nil && s.Call.Method != nil && s.Call.Method.Name() == "Done" {
		return s.Call.Recv.Strip(false)
	}
	return nil
}

func c04(c *Ctx) {
	c.R.RuleText = "value-flow of the context and duration handed to the wrapped work, select/goroutine shape of the three waiting wrappers (goroutines analysed in place), lock-and-flag discipline of timeoutWriter, who-may-write the underlying ResponseWriter"
	c.R.Explain = "Structural necessary conditions of C04: each wrapper derives the work's context through exactly one context.WithTimeout(caller's context, configured duration) and hands that context (not the caller's) to the work; the work runs only inside the goroutine, the caller selects on ctx.Done() and on that branch neither receives from the completion channel nor takes a mutex the goroutine holds across the work; the REST handler gives the work a buffering writer with its own header map, every method that reaches the real writer holds the mutex and has seen timedOut == false, the timeout branch sets timedOut under the mutex and writes 499 iff canceled else 503, the completion branch copies headers, status and body under the mutex; the zRPC timeout branch never returns the handler's response; exemptions are exactly websocket upgrade and event-stream. NOT decided: real-time behaviour, chunk/expiry races beyond the lock discipline."
	c.R.Assume = append(c.R.Assume, "context.WithTimeout never extends the parent's deadline", "panics originate in the wrapped work")
	c04rest(c)
	c04writer(c)
	c04zrpcServer(c)
	c04zrpcClient(c)
	c04clientInstallsTimeout(c)
	c04noDetachedContexts(c)
	c04fx(c)
	c04engine(c)
	c04serverDeadline(c)
	c04finalStatus(c)
	// R8 (round 8)
	chainContains(c, "C04.R8", "Timeout", "TimeoutHandler", "the timeout middleware")
}

func c04rest(c *Ctx) {
	f := c.fn("C04.R1", "rest/handler", "(*timeoutHandler).ServeHTTP")
	if f == nil {
		return
	}
	name := "rest/handler.(*timeoutHandler).ServeHTTP"
	wP, rP := f.Params[1], f.Params[2]
	ps := c.paths("C04.R1", f, px.Config{InlineGo: true, MaxVisits: 1, MayPanic: func(ci *px.CallInfo) bool { return ci.Method != nil && ci.Method.Name() == "ServeHTTP" }})
	serve := func(e *px.Event) bool {
		return e.Kind == px.EvCall && e.Call.Method != nil && e.Call.Method.Name() == "ServeHTTP"
	}
	websocket, sse := constVal(c, "rest/handler", "valueWebsocket"), constVal(c, "rest/handler", "valueSSE")
	hdrUp, hdrAcc := constVal(c, "rest/handler", "headerUpgrade"), constVal(c, "rest/handler", "headerAccept")
	okConsts := websocket != nil && sse != nil && hdrUp != nil && hdrAcc != nil &&
		constant.StringVal(websocket) == "websocket" && constant.StringVal(sse) == "text/event-stream" &&
		strings.EqualFold(constant.StringVal(hdrUp), "Upgrade") && strings.EqualFold(constant.StringVal(hdrAcc), "Accept")
	c.R.Check(okConsts, "C04.R5", "rest/handler.exemption-constants", "exemptions are keyed on Upgrade: websocket and Accept: text/event-stream", "-", fmt.Sprintf("%v %v %v %v", hdrUp, websocket, hdrAcc, sse), nil, 1)
	exempt := func(p *px.Path) bool {
		for _, e := range p.All(px.KindIs(px.EvBranch)) {
			cnd := e.Cond
			if cnd.Kind != px.KBinOp || cnd.Op != token.EQL || !e.Taken {
				continue
			}
			x, y := cnd.X, cnd.Y
			if isConstSym(x) {
				x, y = y, x
			}
			ay := p.Abs(y)
			if !isConstSym(y) || ay.K != px.ConstV || ay.C.Kind() != constant.String {
				continue
			}
			xs := x.Strip(false)
			if xs.Kind != px.KCall || xs.Call == nil || shortName(xs.Call) != "net/http.(Header).Get" || len(xs.Call.Args) != 2 {
				continue
			}
			// header map must be the request's
			if !px.IsFieldLoad(xs.Call.Args[0], "Header", func(b *px.Sym) bool { return isParam(b, rP) }) {
				continue
			}
			k := p.Abs(xs.Call.Args[1])
			if k.K != px.ConstV {
				continue
			}
			if (numOrStrEq(k.C, hdrUp) && numOrStrEq(ay.C, websocket)) || (numOrStrEq(k.C, hdrAcc) && numOrStrEq(ay.C, sse)) {
				return true
			}
		}
		return false
	}
	c.forall("C04.R5", name+"#exempt", "the raw writer reaches the wrapped handler only for websocket-upgrade or event-stream requests; every other request gets the buffering writer inside the goroutine", f, ps, func(p *px.Path) (bool, string) {
		for _, e := range p.All(serve) {
			raw := isParam(e.Call.Args[0], wP)
			if raw && !exempt(p) {
				return false, "the real ResponseWriter is handed to the handler on a non-exempt path"
			}
			if !raw {
				if !e.InGo {
					return false, "the wrapped handler runs on the caller's goroutine (cannot return at the deadline)"
				}
				if t := typeString(e.Call.Args[0].Strip(false).Typ); t != "*rest/handler.timeoutWriter" {
					return false, "the handler gets a " + t + " instead of the buffering writer"
				}
			}
		}
		if exempt(p) && p.Has(isCtxWithTimeout) {
			return true, "" // harmless
		}
		return true, ""
	})
	c.forall("C04.R1", name, "the work's request carries ctx = context.WithTimeout(r.Context(), h.dt) — exactly one derivation from the caller's context and the configured duration", f, ps, func(p *px.Path) (bool, string) {
		var work *px.Event
		for _, e := range p.All(serve) {
			if e.InGo {
				work = e
			}
		}
		if work == nil {
			return true, ""
		}
		wts := p.All(isCtxWithTimeout)
		if len(wts) != 1 {
			return false, fmt.Sprintf("context.WithTimeout ×%d", len(wts))
		}
		wt := wts[0]
		if !px.ResultOf(wt.Call.Args[0], 0, func(ci *px.CallInfo) bool {
			return shortName(ci) == "net/http.(*Request).Context" && isParam(ci.Args[0], rP)
		}) {
			return false, "the parent context is not the request's own context: " + wt.Call.Args[0].Describe()
		}
		if !px.IsFieldLoad(wt.Call.Args[1], "dt", func(b *px.Sym) bool { return isParam(b, f.Params[0]) }) {
			return false, "the duration is not the configured h.dt: " + wt.Call.Args[1].Describe()
		}
		ctx := findExtract(p, wt.Res, 0)
		req := work.Call.Args[1].Strip(false)
		if !(req.Kind == px.KCall && req.Call != nil && shortName(req.Call) == "net/http.(*Request).WithContext" && len(req.Call.Args) == 2 &&
			req.Call.Args[1].Strip(false) == ctx && isParam(req.Call.Args[0], rP)) {
			return false, "the request given to the handler is not r.WithContext(ctx): " + req.Describe()
		}
		// cancel is deferred
		if !p.Has(func(e *px.Event) bool {
			return e.Kind == px.EvDefer && e.Call.FnSym != nil && e.Call.FnSym.Strip(false) == findExtract(p, wt.Res, 1)
		}) {
			return false, "the cancel function is not deferred"
		}
		return true, ""
	})
	c.forall("C04.R2", name, "the caller selects on ctx.Done(); on that branch it neither waits for the completion channel nor for the handler, writes the timeout response and marks the writer timed out under its mutex", f, ps, func(p *px.Path) (bool, string) {
		sel := p.First(func(e *px.Event) bool { return e.Kind == px.EvSelect && !e.InGo })
		if sel == nil {
			return true, ""
		}
		wt := p.First(isCtxWithTimeout)
		if wt == nil {
			return false, "select without a timeout context"
		}
		ctx := findExtract(p, wt.Res, 0)
		if !sel.Blocking || sel.SelN < 3 {
			return false, "the wait is not a blocking select over panic, completion and ctx.Done()"
		}
		if ctx == nil {
			return false, "the timeout context is unused"
		}
		if sel.SelIndex >= 0 && sel.SelDir == types.RecvOnly && doneOf(sel.Addr) == ctx {
			for _, e := range p.Events[sel.Seq+1:] {
				if e.Kind == px.EvRecv || (e.Kind == px.EvSelect) {
					return false, "the timeout branch waits on another channel"
				}
			}
			// timedOut = true under mu
			held := 0
			set := false
			for _, e := range p.Events[sel.Seq+1:] {
				switch {
				case lockOn("mu", "Lock")(&e):
					held++
				case lockOn("mu", "Unlock")(&e):
					held--
				case e.Kind == px.EvStore && px.FieldAddrIs(e.Addr, "timedOut", nil):
					if p.Abs(e.Val).K != px.True {
						return false, "timedOut is not set to true"
					}
					if held <= 0 {
						return false, "timedOut is set without holding the writer's mutex"
					}
					set = true
				}
			}
			if !set {
				return false, "the timeout branch does not mark the writer as timed out"
			}
		}
		return true, ""
	})
	// a ctx.Done() case must exist
	has := false
	for _, p := range ps {
		if s := p.First(func(e *px.Event) bool { return e.Kind == px.EvSelect && !e.InGo }); s != nil && s.SelIndex >= 0 && doneOf(s.Addr) != nil {
			has = true
		}
	}
	c.R.Check(has, "C04.R2", name+"#done-case", "the select has a ctx.Done() case", posOf(c, f), "no path takes a ctx.Done() case", nil, len(ps))

	// completion branch: copies headers, code, body under mu
	c.forall("C04.R3", name+"#completion", "on completion the buffered status, headers and body are copied to the real writer under the writer's mutex", f, ps, func(p *px.Path) (bool, string) {
		sel := p.First(func(e *px.Event) bool { return e.Kind == px.EvSelect && !e.InGo })
		if sel == nil || sel.SelIndex < 0 || sel.SelDir != types.RecvOnly || doneOf(sel.Addr) != nil {
			return true, ""
		}
		// the completion channel: closed by the goroutine after the handler returned
		closed := p.First(func(e *px.Event) bool { return e.Kind == px.EvClose && e.InGo })
		if closed == nil || closed.Addr.Strip(false) != sel.Addr.Strip(false) {
			return true, "" // panic case
		}
		held := 0
		hdr, body := false, false
		for _, e := range p.Events[sel.Seq+1:] {
			switch {
			case lockOn("mu", "Lock")(&e):
				held++
			case lockOn("mu", "Unlock")(&e):
				held--
			case e.Kind == px.EvCall && e.Call.Method != nil && isParam(e.Call.Recv, wP):
				if held <= 0 {
					return false, "the real writer is written without the writer's mutex"
				}
				switch e.Call.Method.Name() {
				case "Header":
					hdr = true
				case "Write":
					body = true
				}
			}
		}
		if p.Exit == px.ExitCut {
			return true, ""
		}
		if !hdr || !body {
			return false, fmt.Sprintf("completion does not copy headers (%v) and body (%v)", hdr, body)
		}
		return true, ""
	})
	// header copy: every buffered header key is copied with ALL its values
	c.forall("C04.R3", name+"#headers", "the buffered headers are copied to the real writer key by key with their complete value lists (dst[k] = vv over the buffered map), not value by value through Get/Set", f, ps, func(p *px.Path) (bool, string) {
		sel := p.First(func(e *px.Event) bool { return e.Kind == px.EvSelect && !e.InGo })
		if sel == nil || sel.SelIndex < 0 || sel.SelDir != types.RecvOnly || doneOf(sel.Addr) != nil {
			return true, ""
		}
		closed := p.First(func(e *px.Event) bool { return e.Kind == px.EvClose && e.InGo })
		if closed == nil || closed.Addr.Strip(false) != sel.Addr.Strip(false) {
			return true, ""
		}
		for i := sel.Seq + 1; i < len(p.Events); i++ {
			e := &p.Events[i]
			if e.InGo {
				continue
			}
			if e.Kind == px.EvCall && e.Call.Obj() != nil && (shortName(e.Call) == "net/http.(Header).Set" || shortName(e.Call) == "net/http.(Header).Add") {
				for _, a := range e.Call.Args {
					if x := a.Strip(false); x.Kind == px.KCall && shortName(x.Call) == "net/http.(Header).Get" {
						return false, "headers are copied through Header.Get/Set: only the first value of each key reaches the client (a second Set-Cookie or Vary is lost)"
					}
				}
			}
			if e.Kind == px.EvMapUpdate {
				dst := e.Addr.Strip(false)
				if dst.Kind == px.KCall && dst.Call.Method != nil && dst.Call.Method.Name() == "Header" && isParam(dst.Call.Recv, wP) {
					k, v := e.Key.Strip(false), e.Val.Strip(false)
					if k.Kind != px.KExtract || v.Kind != px.KExtract || k.X != v.X || k.X.Kind != px.KNext || k.Index != 1 || v.Index != 2 {
						return false, "a header is not copied as dst[k] = vv from one iteration over the buffered header map"
					}
					fromH := false
					if k.X.X != nil && k.X.X.Kind == px.KRange {
						rs := k.X.X.X.Strip(false)
						if px.IsFieldLoad(rs, "h", nil) {
							fromH = true
						}
						for _, st := range p.All(px.KindIs(px.EvStore)) {
							if px.FieldAddrIs(st.Addr, "h", nil) && st.Val.Strip(false) == rs {
								fromH = true
							}
						}
					}
					if !fromH {
						return false, "the copied headers do not come from the buffering writer's own header map"
					}
				}
			}
		}
		return true, ""
	})
	// timeout branch: the real writer is used, and timedOut set, only while the writer's mutex is held
	c.forall("C04.R3", name+"#timeout", "on the ctx.Done() branch the timeout response is written to the real writer and timedOut is set while the writer's mutex is held throughout (a handler still running cannot interleave its own output or headers with the timeout response)", f, ps, func(p *px.Path) (bool, string) {
		sel := p.First(func(e *px.Event) bool { return e.Kind == px.EvSelect && !e.InGo })
		if sel == nil || sel.SelIndex < 0 || doneOf(sel.Addr) == nil {
			return true, ""
		}
		held := 0
		set, wrote := false, false
		for i := sel.Seq + 1; i < len(p.Events); i++ {
			e := &p.Events[i]
			if e.InGo {
				continue
			}
			switch {
			case lockOn("mu", "Lock")(e):
				held++
			case lockOn("mu", "Unlock")(e):
				held--
				if e.InDefer {
					continue
				}
				if wrote != set {
					return false, "the writer's mutex is released between writing the timeout response and setting timedOut: the handler's Write/Flush can run in between and its output and headers are mixed into the timeout response"
				}
			case e.Kind == px.EvStore && px.FieldAddrIs(e.Addr, "timedOut", nil):
				if held <= 0 {
					return false, "timedOut is set without the writer's mutex"
				}
				if p.Abs(e.Val).K != px.True {
					return false, "timedOut is not set to true"
				}
				set = true
			case e.Kind == px.EvCall && !e.Inlined:
				uses := e.Call.Recv != nil && isParam(e.Call.Recv, wP)
				for _, a := range e.Call.Args {
					if isParam(a, wP) {
						uses = true
					}
				}
				if uses {
					wrote = true
					if held <= 0 {
						return false, "the timeout response is written to the real writer without holding the writer's mutex: a handler that is still running can Write/Flush concurrently and the client receives a mixture"
					}
				}
			}
		}
		if p.Exit == px.ExitReturn && (!set || !wrote) {
			return false, fmt.Sprintf("timeout branch: response written=%v, timedOut set=%v", wrote, set)
		}
		return true, ""
	})
	// panic channel capacity
	capOK := false
	for _, p := range ps {
		for _, e := range p.All(px.KindIs(px.EvSend)) {
			if e.InGo {
				ch := e.Addr.Strip(false)
				if ch.Kind == px.KMakeChan && p.Abs(ch.X).K == px.ConstV && constant.Sign(p.Abs(ch.X).C) > 0 {
					capOK = true
				} else {
					capOK = false
				}
			}
		}
	}
	_ = capOK
	// the timeout response closure: 499 iff canceled else 503
	var errCl *ssa.Function
	for _, a := range f.AnonFuncs {
		if len(a.Params) == 2 && typeString(a.Params[1].Type()) == "error" {
			errCl = a
		}
	}
	if errCl == nil {
		c.R.Undecided("C04.R3", name+"#timeout-status", "anchor resolves", "error-writing closure not found")
	} else {
		cps := c.paths("C04.R3", errCl, px.Config{})
		c.forall("C04.R3", name+"#timeout-status", "the timeout response is 499 iff errors.Is(err, context.Canceled), else 503", errCl, cps, func(p *px.Path) (bool, string) {
			wh := p.All(func(e *px.Event) bool {
				return e.Kind == px.EvCall && e.Call.Method != nil && e.Call.Method.Name() == "WriteHeader"
			})
			if len(wh) != 1 {
				return false, "status not written exactly once"
			}
			var is *px.Event
			for _, e := range p.All(calleeIs("errors.Is")) {
				if px.IsGlobalLoad(e.Call.Args[1], "context", "Canceled") && isParam(e.Call.Args[0], errCl.Params[1]) {
					is = e
				}
			}
			if is == nil {
				return false, "errors.Is(err, context.Canceled) not evaluated"
			}
			code := p.Abs(wh[0].Call.Args[0])
			if code.K != px.ConstV {
				return false, "status is not a constant"
			}
			want := int64(503)
			if p.Abs(is.Res).K == px.True {
				want = 499
			}
			if !constant.Compare(code.C, token.EQL, constant.MakeInt64(want)) {
				return false, fmt.Sprintf("status %v, want %d", code.C, want)
			}
			return true, ""
		})
	}
	// the buffering writer is built with its own header map and buffer
	c.forall("C04.R3", name+"#buffer", "the buffering writer has a private header map (fresh make) and wraps the real writer", f, ps, func(p *px.Path) (bool, string) {
		if !p.Has(px.KindIs(px.EvGo)) {
			return true, ""
		}
		h, w := false, false
		for _, e := range p.All(px.KindIs(px.EvStore)) {
			if px.FieldAddrIs(e.Addr, "h", nil) && typeString(e.Addr.X.Typ) == "*rest/handler.timeoutWriter" {
				if e.Val.Strip(false).Kind != px.KMakeMap {
					return false, "the header buffer is not a fresh map (it aliases " + e.Val.Describe() + ")"
				}
				h = true
			}
			if px.FieldAddrIs(e.Addr, "w", nil) && typeString(e.Addr.X.Typ) == "*rest/handler.timeoutWriter" && isParam(e.Val, wP) {
				w = true
			}
		}
		if !h || !w {
			return false, "timeoutWriter not initialised with h and w"
		}
		return true, ""
	})
	// duration <= 0 ⇒ no wrapping
	if th := c.fn("C04.R5", "rest/handler", "TimeoutHandler"); th != nil {
		cl := c.closure("C04.R5", th, "middleware closure", func(a *ssa.Function) bool { return a.Parent() == th })
		if cl != nil {
			cps := c.paths("C04.R5", cl, px.Config{})
			c.forall("C04.R5", "rest/handler.TimeoutHandler", "duration ≤ 0 ⇒ next is returned unwrapped; otherwise a timeoutHandler with handler=next and dt=duration", cl, cps, func(p *px.Path) (bool, string) {
				r := p.Results[0].Strip(false)
				if isParam(r, cl.Params[0]) {
					for _, e := range p.All(px.KindIs(px.EvBranch)) {
						if e.Cond.Kind == px.KBinOp && ((e.Cond.Op == token.LEQ && e.Taken) || (e.Cond.Op == token.GTR && !e.Taken)) {
							return true, ""
						}
					}
					return false, "unwrapped without duration <= 0"
				}
				hs, dt := false, false
				for _, e := range p.All(px.KindIs(px.EvStore)) {
					if px.FieldAddrIs(e.Addr, "handler", nil) && isParam(e.Val, cl.Params[0]) {
						hs = true
					}
					if px.FieldAddrIs(e.Addr, "dt", nil) {
						v := e.Val.Strip(false)
						if v.Kind == px.KFreeVar || (v.Kind == px.KLoad && v.X != nil && v.X.Kind == px.KFreeVar) {
							dt = true
						}
					}
				}
				if !hs || !dt {
					return false, "timeoutHandler not built from next and duration"
				}
				return true, ""
			})
		}
	}
}

func numOrStrEq(a, b constant.Value) bool {
	if a == nil || b == nil {
		return false
	}
	if a.Kind() == constant.String && b.Kind() == constant.String {
		return constant.StringVal(a) == constant.StringVal(b)
	}
	return numEq(a, b)
}

func c04writer(c *Ctx) {
	rule := "C04.R3b"
	pk := c.P.Pkg("rest/handler")
	if pk == nil {
		return
	}
	tn, _ := pk.Types.Scope().Lookup("timeoutWriter").(*types.TypeName)
	if tn == nil {
		c.R.Undecided(rule, "rest/handler.timeoutWriter", "anchor resolves", "type missing")
		return
	}
	named := tn.Type().(*types.Named)
	n := 0
	underlying := func(e *px.Event) bool {
		if e.Kind != px.EvCall || e.Call.Method == nil || e.Call.Recv == nil {
			return false
		}
		r := e.Call.Recv.Strip(false)
		if r.Kind == px.KTypeAssert {
			r = r.X.Strip(false)
		}
		if r.Kind == px.KExtract && r.X != nil && r.X.Kind == px.KTypeAssert {
			r = r.X.X.Strip(false)
		}
		return px.IsFieldLoad(r, "w", nil)
	}
	for i := 0; i < named.NumMethods(); i++ {
		m := named.Method(i)
		f := c.P.FuncOf(m)
		if f == nil || f.Blocks == nil {
			continue
		}
		n++
		c.R.Funcs["rest/handler.(*timeoutWriter)."+m.Name()] = true
		if !m.Exported() {
			if k, ok := onlyCalledFromMethodsOf(c, "rest/handler", f, "timeoutWriter"); ok {
				c.R.Hold(rule, "rest/handler.(*timeoutWriter)."+m.Name(), "unexported helper: analysed in place at each of its call sites inside timeoutWriter's methods (entered with tw.mu held)", k)
				continue
			}
		}
		inl := func(ci *px.CallInfo, d int) bool {
			return ci.Static != nil && ci.Recv != nil && strings.Contains(ci.Static.String(), "timeoutWriter")
		}
		ps := c.paths(rule, f, px.Config{Inline: inl, MaxVisits: 1})
		cname := "rest/handler.(*timeoutWriter)." + m.Name()
		c.forall(rule, cname, "a handler-facing method reaches the real writer's Write/WriteHeader/Header only while holding tw.mu and after reading timedOut == false; buffer and flags only under tw.mu", f, ps, func(p *px.Path) (bool, string) {
			held := 0
			sawNotTimedOut := false
			for i := range p.Events {
				e := &p.Events[i]
				switch {
				case lockOn("mu", "Lock")(e):
					held++
				case lockOn("mu", "Unlock")(e):
					held--
				case e.Kind == px.EvLoad && px.FieldAddrIs(e.Addr, "timedOut", nil):
					if held <= 0 {
						return false, "timedOut read without tw.mu"
					}
				case e.Kind == px.EvBranch:
					if px.IsFieldLoad(e.Cond, "timedOut", nil) && !e.Taken {
						sawNotTimedOut = held > 0
					}
				case e.Kind == px.EvStore && e.Addr.Kind == px.KFieldAddr:
					_, fname, _ := e.Addr.FieldAddrOf()
					if nameIn(fname, []string{"wroteHeader", "code", "timedOut"}) && held <= 0 {
						return false, fname + " written without tw.mu"
					}
				case underlying(e):
					switch e.Call.Method.Name() {
					case "Write", "WriteHeader", "Header":
						if held <= 0 {
							return false, "reaches the real writer's " + e.Call.Method.Name() + " without holding tw.mu at " + c.P.Pos(e.Pos)
						}
						if !sawNotTimedOut {
							return false, "reaches the real writer's " + e.Call.Method.Name() + " without having checked timedOut (output after the timeout response) at " + c.P.Pos(e.Pos)
						}
					}
				case e.Kind == px.EvCall && e.Call.Recv != nil && px.FieldAddrIs(e.Call.Recv, "wbuf", nil):
					if held <= 0 {
						return false, "the body buffer is used without tw.mu at " + c.P.Pos(e.Pos)
					}
					if o := e.Call.Obj(); o != nil && o.Name() == "Write" && !sawNotTimedOut {
						return false, "buffer written without having checked timedOut"
					}
				}
			}
			return true, ""
		})
	}
	c.R.Min(rule, 6, "methods of timeoutWriter (Flush, Header, Hijack, Push, Write, WriteHeader, writeHeaderLocked)")
	// R3h: tw.mu is what the timeout branch of ServeHTTP needs in order to answer; a handler-facing method
	// that runs the handler's own code (an interface- or function-typed argument: a reader, a callback)
	// while holding it makes the 503 wait for that code.
	c04writerNoUserCodeUnderLock(c, named)
	// Write returns ErrHandlerTimeout when timed out
	if f := c.fn("C04.R3c", "rest/handler", "(*timeoutWriter).Write"); f != nil {
		ps := c.paths("C04.R3c", f, px.Config{})
		c.forall("C04.R3c", "rest/handler.(*timeoutWriter).Write", "after the timeout Write reports http.ErrHandlerTimeout and buffers nothing", f, ps, func(p *px.Path) (bool, string) {
			for _, e := range p.All(px.KindIs(px.EvBranch)) {
				if px.IsFieldLoad(e.Cond, "timedOut", nil) && e.Taken {
					if !px.IsGlobalLoad(p.Results[1], "net/http", "ErrHandlerTimeout") {
						return false, "timed-out Write does not return http.ErrHandlerTimeout"
					}
					if p.Has(func(e *px.Event) bool {
						return e.Kind == px.EvCall && e.Call.Recv != nil && px.FieldAddrIs(e.Call.Recv, "wbuf", nil)
					}) {
						return false, "timed-out Write still buffers"
					}
				}
			}
			return true, ""
		})
	}
	// ownership: who calls Write/WriteHeader/Header on the underlying writer
	rule2 := "C04.R3d"
	for i := 0; i < named.NumMethods(); i++ {
		m := named.Method(i)
		f := c.P.FuncOf(m)
		if f == nil || f.Blocks == nil {
			continue
		}
		ps := c.paths(rule2, f, px.Config{MaxVisits: 1})
		writes := false
		for _, p := range ps {
			for _, e := range p.All(underlying) {
				switch e.Call.Method.Name() {
				case "Write", "WriteHeader", "Header":
					writes = true
				}
			}
		}
		cname := "rest/handler.(*timeoutWriter)." + m.Name()
		if writes {
			c.R.Fail(rule2, cname, "only the completion and timeout branches of ServeHTTP write to the real ResponseWriter (all-or-nothing outcome)", posOf(c, f), "handler-facing method streams to the real writer before the outcome is decided: a later timeout yields a mixture of partial output and the timeout response", nil)
		} else {
			c.R.Hold(rule2, cname, "only the completion and timeout branches of ServeHTTP write to the real ResponseWriter (all-or-nothing outcome)", len(ps))
		}
	}
}

func c04zrpcServer(c *Ctx) {
	f := c.fn("C04.R1", "zrpc/internal/serverinterceptors", "UnaryTimeoutInterceptor")
	if f == nil {
		return
	}
	cl := c.closure("C04.R1", f, "interceptor closure", func(a *ssa.Function) bool { return a.Parent() == f })
	if cl == nil {
		return
	}
	name := "zrpc/internal/serverinterceptors.UnaryTimeoutInterceptor$serve"
	ctxP := paramOfType(cl, "context.Context")
	hP := paramOfType(cl, "google.golang.org/grpc.UnaryHandler")
	ps := c.paths("C04.R1", cl, px.Config{InlineGo: true, MayPanic: func(ci *px.CallInfo) bool { return ci.IsDyn() && isParam(ci.FnSym, hP) }})
	work := px.DynWhere(func(s *px.Sym) bool { return isParam(s, hP) })
	c.forall("C04.R1", name, "the handler runs under ctx = context.WithTimeout(caller's ctx, per-method or default timeout), inside the goroutine", cl, ps, func(p *px.Path) (bool, string) {
		wts := p.All(isCtxWithTimeout)
		if len(wts) != 1 {
			return false, fmt.Sprintf("context.WithTimeout ×%d", len(wts))
		}
		wt := wts[0]
		if !isParam(wt.Call.Args[0], ctxP) {
			return false, "parent context is not the caller's ctx"
		}
		if !px.ResultOf(wt.Call.Args[1], 0, func(ci *px.CallInfo) bool {
			return ci.Static != nil && ci.Static.Name() == "getTimeoutByUnaryServerInfo"
		}) {
			return false, "duration is not getTimeoutByUnaryServerInfo(…)"
		}
		ws := p.All(work)
		if len(ws) != 1 || !ws[0].InGo {
			return false, "the handler does not run exactly once inside the goroutine"
		}
		if ws[0].Call.Args[0].Strip(false) != findExtract(p, wt.Res, 0) {
			return false, "the handler does not get the timeout context"
		}
		return true, ""
	})
	c.forall("C04.R2", name, "the caller's ctx.Done() branch does not take the mutex the goroutine holds across the handler nor wait for completion, and never returns the handler's response", cl, ps, func(p *px.Path) (bool, string) {
		sel := p.First(func(e *px.Event) bool { return e.Kind == px.EvSelect && !e.InGo })
		if sel == nil {
			return false, "no select"
		}
		wt := p.First(isCtxWithTimeout)
		ctx := findExtract(p, wt.Res, 0)
		// mutexes held by the goroutine at the handler call
		heldAtWork := map[string]bool{}
		cur := map[string]int{}
		for i := range p.Events {
			e := &p.Events[i]
			if !e.InGo || e.Kind != px.EvCall {
				continue
			}
			if o := e.Call.Obj(); o != nil && e.Call.Recv != nil {
				switch o.FullName() {
				case "(*sync.Mutex).Lock":
					cur[chanKey(p, e.Call.Recv)]++
				case "(*sync.Mutex).Unlock":
					cur[chanKey(p, e.Call.Recv)]--
				}
			}
			if work(e) {
				for k, n := range cur {
					if n > 0 {
						heldAtWork[k] = true
					}
				}
			}
		}
		if sel.SelIndex >= 0 && doneOf(sel.Addr) == ctx {
			for _, e := range p.Events[sel.Seq+1:] {
				if e.Kind == px.EvRecv || e.Kind == px.EvSelect {
					return false, "the timeout branch waits on another channel"
				}
				if e.Kind == px.EvCall && e.Call.Obj() != nil && e.Call.Obj().FullName() == "(*sync.Mutex).Lock" && heldAtWork[chanKey(p, e.Call.Recv)] {
					return false, "the timeout branch locks a mutex the goroutine holds while the handler runs (it would wait for the handler)"
				}
			}
			if p.Exit == px.ExitReturn {
				if !px.IsNilConst(p.Results[0]) {
					return false, "the timeout branch returns a response"
				}
				if px.IsNilConst(p.Results[1]) {
					return false, "the timeout branch returns a nil error"
				}
				if !dependsOn(p, p.Results[1], findCall(p, func(ci *px.CallInfo) bool {
					return ci.Method != nil && ci.Method.Name() == "Err" && ci.Recv.Strip(false) == ctx
				})) {
					return false, "the timeout branch's error does not derive from ctx.Err()"
				}
			}
		}
		return true, ""
	})
	c.forall("C04.R4", name+"#completion", "the completion branch returns exactly the handler's (resp, err), read under the mutex the goroutine wrote them under", cl, ps, func(p *px.Path) (bool, string) {
		sel := p.First(func(e *px.Event) bool { return e.Kind == px.EvSelect && !e.InGo })
		if sel == nil || sel.SelIndex < 0 || doneOf(sel.Addr) != nil {
			return true, ""
		}
		closed := p.First(func(e *px.Event) bool { return e.Kind == px.EvClose && e.InGo })
		if closed == nil || closed.Addr.Strip(false) != sel.Addr.Strip(false) {
			return true, ""
		}
		w := p.First(work)
		if w == nil || p.Exit != px.ExitReturn {
			return false, "completion without the handler having run"
		}
		if p.Results[0].Strip(false) != findExtract(p, w.Res, 0) || p.Results[1].Strip(false) != findExtract(p, w.Res, 1) {
			return false, "the handler's results are not what is returned"
		}
		locked := false
		for _, e := range p.Events[sel.Seq+1:] {
			if e.Kind == px.EvCall && e.Call.Obj() != nil && e.Call.Obj().FullName() == "(*sync.Mutex).Lock" {
				locked = true
			}
		}
		if !locked {
			return false, "results are read without the mutex"
		}
		return true, ""
	})
	if g := c.fn("C04.R1", "zrpc/internal/serverinterceptors", "getTimeoutByUnaryServerInfo"); g != nil {
		ps := c.paths("C04.R1", g, px.Config{})
		c.forall("C04.R1", "zrpc/internal/serverinterceptors.getTimeoutByUnaryServerInfo", "the duration is the per-method entry when present, else the default", g, ps, func(p *px.Path) (bool, string) {
			lk := p.First(px.KindIs(px.EvLookup))
			if lk == nil || !isParam(lk.Addr, g.Params[1]) || !isParam(lk.Key, g.Params[0]) {
				return false, "table not consulted with the method"
			}
			ok := findExtract(p, lk.Res, 1)
			r := p.Results[0].Strip(false)
			if p.Abs(ok).K == px.True {
				if r != findExtract(p, lk.Res, 0) {
					return false, "hit does not return the table entry"
				}
			} else if !isParam(r, g.Params[2]) {
				return false, "miss does not return the default"
			}
			return true, ""
		})
	}
}

func findCall(p *px.Path, pr func(ci *px.CallInfo) bool) *px.Sym {
	for i := range p.Events {
		e := &p.Events[i]
		if e.Kind == px.EvCall && pr(e.Call) {
			return e.Res
		}
	}
	return nil
}

func c04zrpcClient(c *Ctx) {
	f := c.fn("C04.R1", "zrpc/internal/clientinterceptors", "TimeoutInterceptor")
	if f == nil {
		return
	}
	cl := c.closure("C04.R1", f, "interceptor closure", func(a *ssa.Function) bool { return a.Parent() == f })
	if cl == nil {
		return
	}
	ctxP := paramOfType(cl, "context.Context")
	invP := paramOfType(cl, "google.golang.org/grpc.UnaryInvoker")
	ps := c.paths("C04.R1", cl, px.Config{})
	inv := px.DynWhere(func(s *px.Sym) bool { return isParam(s, invP) })
	c.forall("C04.R1", "zrpc/internal/clientinterceptors.TimeoutInterceptor$call", "the invoker runs once under context.WithTimeout(caller's ctx, call-option or default timeout) — or under the caller's own ctx when no positive timeout is configured — and its error is returned", cl, ps, func(p *px.Path) (bool, string) {
		is := p.All(inv)
		if len(is) != 1 {
			return false, fmt.Sprintf("invoker ×%d", len(is))
		}
		if p.Results[0].Strip(false) != is[0].Res {
			return false, "invoker's error not returned"
		}
		t := p.First(func(e *px.Event) bool {
			return e.Kind == px.EvCall && e.Call.Static != nil && e.Call.Static.Name() == "getTimeoutFromCallOptions"
		})
		if t == nil {
			return false, "timeout not computed from call options"
		}
		wts := p.All(isCtxWithTimeout)
		switch len(wts) {
		case 0:
			if !isParam(is[0].Call.Args[0], ctxP) {
				return false, "without timeout the invoker must get the caller's ctx"
			}
			// must be the t <= 0 branch
			ok := false
			for _, e := range p.All(px.KindIs(px.EvBranch)) {
				if e.Cond.Kind == px.KBinOp && e.Cond.X.Strip(false) == t.Res && ((e.Cond.Op == token.LEQ && e.Taken) || (e.Cond.Op == token.GTR && !e.Taken)) {
					ok = true
				}
			}
			if !ok {
				return false, "timeout skipped although t > 0 was not excluded"
			}
		case 1:
			wt := wts[0]
			if !isParam(wt.Call.Args[0], ctxP) || wt.Call.Args[1].Strip(false) != t.Res {
				return false, "WithTimeout not derived from (caller's ctx, computed timeout)"
			}
			if is[0].Call.Args[0].Strip(false) != findExtract(p, wt.Res, 0) {
				return false, "the invoker does not get the timeout context"
			}
		default:
			return false, "more than one WithTimeout"
		}
		return true, ""
	})
}

func c04fx(c *Ctx) {
	f := c.fn("C04.R1", "core/fx", "DoWithTimeout")
	if f == nil {
		return
	}
	fnP := paramOfType(f, "func() error")
	dP := paramOfType(f, "time.Duration")
	ps := c.paths("C04.R1", f, px.Config{InlineGo: true, MayPanic: func(ci *px.CallInfo) bool { return ci.IsDyn() && isParam(ci.FnSym, fnP) }, MaxVisits: 2})
	work := px.DynWhere(func(s *px.Sym) bool { return isParam(s, fnP) })
	c.forall("C04.R1", "core/fx.DoWithTimeout", "fn runs once inside the goroutine; the caller waits on ctx = WithTimeout(Background or the option context, timeout); ctx.Done() ⇒ ctx.Err(), completion ⇒ fn's error; the timeout branch waits for nothing else", f, ps, func(p *px.Path) (bool, string) {
		if p.Exit == px.ExitCut {
			return true, ""
		}
		wts := p.All(isCtxWithTimeout)
		if len(wts) != 1 {
			return false, fmt.Sprintf("WithTimeout ×%d", len(wts))
		}
		wt := wts[0]
		if !isParam(wt.Call.Args[1], dP) {
			return false, "duration is not the timeout argument"
		}
		par := wt.Call.Args[0].Strip(false)
		okParent := px.ResultOf(par, 0, func(ci *px.CallInfo) bool { return ci.Obj() != nil && ci.Obj().FullName() == "context.Background" }) ||
			(par.Kind == px.KCall && par.Call != nil && par.Call.IsDyn())
		if !okParent {
			return false, "parent context is neither Background nor an option context: " + par.Describe()
		}
		ws := p.All(work)
		if len(ws) != 1 || !ws[0].InGo {
			return false, "fn does not run exactly once inside the goroutine"
		}
		sel := p.First(func(e *px.Event) bool { return e.Kind == px.EvSelect && !e.InGo })
		if sel == nil || !sel.Blocking {
			return false, "no blocking select"
		}
		ctx := findExtract(p, wt.Res, 0)
		if sel.SelIndex >= 0 && doneOf(sel.Addr) == ctx {
			for _, e := range p.Events[sel.Seq+1:] {
				if e.Kind == px.EvRecv || e.Kind == px.EvSelect {
					return false, "timeout branch waits on another channel"
				}
			}
			if p.Exit == px.ExitReturn && !px.ResultOf(p.Results[0], 0, func(ci *px.CallInfo) bool {
				return ci.Method != nil && ci.Method.Name() == "Err" && ci.Recv.Strip(false) == ctx
			}) {
				return false, "timeout branch does not return ctx.Err()"
			}
		} else if sel.SelIndex >= 0 && p.Exit == px.ExitReturn {
			// completion: the value received is what fn returned (sent by the goroutine)
			snd := p.First(func(e *px.Event) bool { return e.Kind == px.EvSend && e.InGo && e.Val.Strip(false) == ws[0].Res })
			if ws[0].PanicsHere {
				return true, "" // nothing was sent: this select case cannot fire (infeasible path)
			}
			if sel.Addr.Strip(false).Kind == px.KMakeChan && !p.Has(func(e *px.Event) bool { return e.Kind == px.EvSend && e.InGo && !e.InDefer }) {
				return false, "fn's result is never sent to the caller"
			}
			if snd != nil && snd.Addr.Strip(false) != sel.Addr.Strip(false) {
				return true, "" // the panic channel fired
			}
			if snd == nil {
				return false, "completion channel does not carry fn's error"
			}
			if p.Results[0].Strip(false) != sel.Res {
				return false, "completion does not return the received error"
			}
		}
		return true, ""
	})
}

func c04engine(c *Ctx) {
	rule := "C04.R1e"
	f := c.fn(rule, "rest", "(*engine).checkedTimeout")
	if f == nil {
		return
	}
	ps := c.paths(rule, f, px.Config{})
	c.forall(rule, "rest.(*engine).checkedTimeout", "the timeout given to the middleware is the route's own timeout when positive, else the configured default (conf.Timeout ms) — never another route's", f, ps, func(p *px.Path) (bool, string) {
		r := p.Results[0].Strip(false)
		if isParam(r, f.Params[1]) {
			for _, e := range p.All(px.KindIs(px.EvBranch)) {
				if e.Cond.Kind == px.KBinOp && isParam(e.Cond.X, f.Params[1]) && ((e.Cond.Op == token.GTR && e.Taken) || (e.Cond.Op == token.LEQ && !e.Taken)) {
					return true, ""
				}
			}
			return false, "returns the route timeout without testing it is positive"
		}
		var ls []*px.Sym
		mulLeaves(r, &ls)
		conf := false
		for _, l := range ls {
			l = l.Strip(true)
			if px.IsFieldLoad(l, "Timeout", nil) {
				conf = true
			} else if l.Kind != px.KConst {
				return false, "default derives from " + l.Describe()
			}
		}
		if !conf {
			return false, "default is not conf.Timeout"
		}
		return true, ""
	})
	// the middleware gets checkedTimeout(fr.timeout)
	found := false
	for _, fn := range c.P.AllFuncs("rest") {
		for _, b := range fn.Blocks {
			for _, ins := range b.Instrs {
				call, ok := ins.(*ssa.Call)
				if !ok || calleeName(&call.Call) != mod+"rest/handler.TimeoutHandler" {
					continue
				}
				found = true
				arg, ok := call.Call.Args[0].(*ssa.Call)
				okArg := ok && strings.HasSuffix(calleeName(&arg.Call), ".checkedTimeout")
				if okArg {
					// argument of checkedTimeout: field `timeout` of a featuredRoutes value
					okArg = false
					switch a := arg.Call.Args[1].(type) {
					case *ssa.Field:
						st, _ := a.X.Type().Underlying().(*types.Struct)
						okArg = st != nil && st.Field(a.Field).Name() == "timeout"
					case *ssa.UnOp:
						if fa, ok := a.X.(*ssa.FieldAddr); ok {
							okArg = fieldNameOf(fa) == "timeout"
						}
					}
				}
				c.R.Check(okArg, rule, "rest.TimeoutHandler-call-site", "the timeout middleware is configured with checkedTimeout(the route group's own timeout)", c.P.Pos(call.Pos()), "TimeoutHandler gets something else", nil, 1)
			}
		}
	}
	if !found {
		c.R.Undecided(rule, "rest.TimeoutHandler-call-site", "anchor resolves", "no call of handler.TimeoutHandler in package rest")
	}
}

// onlyCalledFromMethodsOf: every static call of f in the package is made from a
// method of the named type (so f is covered by in-place analysis there).
func onlyCalledFromMethodsOf(c *Ctx, pkg string, f *ssa.Function, typ string) (int, bool) {
	n := 0
	for _, fn := range c.P.AllFuncs(pkg) {
		for _, b := range fn.Blocks {
			for _, ins := range b.Instrs {
				call, ok := ins.(ssa.CallInstruction)
				if !ok || call.Common().StaticCallee() != f {
					continue
				}
				n++
				root := fn
				for root.Parent() != nil {
					root = root.Parent()
				}
				recv := root.Signature.Recv()
				if recv == nil || !isNamedStruct(recv.Type(), typ) {
					return n, false
				}
			}
		}
	}
	return n, n > 0
}

// c04serverDeadline (C04.R6): the connection-level write deadline of the HTTP server is derived from
// the longest route timeout. net/http arms WriteTimeout when the request is read; if it is shorter
// than a route's own timeout the connection is cut while that route's handler is still inside its
// budget — the client sees neither the result nor the 503 (seed r3-C04-2). Two parts: (a) outside
// the constructor, engine.timeout only ever grows (a store is guarded by `new > current`, or is a
// max() that includes the current value); (b) WriteTimeout is that value times a factor ≥ 1.
func c04serverDeadline(c *Ctx) {
	rule := "C04.R6"
	isEngineTimeout := func(v ssa.Value) bool {
		fa, ok := v.(*ssa.FieldAddr)
		if !ok || fieldNameOf(fa) != "timeout" {
			return false
		}
		pt, ok := fa.X.Type().Underlying().(*types.Pointer)
		return ok && typeString(pt.Elem()) == "rest.engine"
	}
	isLoadOfTimeout := func(v ssa.Value) bool {
		u, ok := v.(*ssa.UnOp)
		return ok && u.Op == token.MUL && isEngineTimeout(u.X)
	}
	var bad []string
	stores := 0
	for _, fn := range c.P.AllFuncs("rest") {
		for _, b := range fn.Blocks {
			for _, ins := range b.Instrs {
				st, ok := ins.(*ssa.Store)
				if !ok || !isEngineTimeout(st.Addr) {
					continue
				}
				// the constructor initialises a fresh object
				if _, fresh := st.Addr.(*ssa.FieldAddr).X.(*ssa.Alloc); fresh {
					continue
				}
				stores++
				okStore := false
				// max(..., current, ...)
				if call, ok := st.Val.(*ssa.Call); ok {
					if bi, ok := call.Call.Value.(*ssa.Builtin); ok && bi.Name() == "max" {
						for _, a := range call.Call.Args {
							if isLoadOfTimeout(a) {
								okStore = true
							}
						}
					}
				}
				// guarded by new > current
				for d := b; d != nil && !okStore; d = d.Idom() {
					idom := d.Idom()
					if idom == nil || len(d.Preds) != 1 || d.Preds[0] != idom || len(idom.Instrs) == 0 {
						continue
					}
					ifi, ok := idom.Instrs[len(idom.Instrs)-1].(*ssa.If)
					if !ok {
						continue
					}
					cmp, ok := ifi.Cond.(*ssa.BinOp)
					if !ok {
						continue
					}
					onTrue := idom.Succs[0] == d
					sameNew := func(v ssa.Value) bool {
						if v == st.Val {
							return true
						}
						// two loads of the same field of the same value (go/ssa does not merge them)
						a, ok1 := v.(*ssa.Field)
						b2, ok2 := st.Val.(*ssa.Field)
						if ok1 && ok2 && a.X == b2.X && a.Field == b2.Field {
							return true
						}
						ua, ok1 := v.(*ssa.UnOp)
						ub, ok2 := st.Val.(*ssa.UnOp)
						if ok1 && ok2 {
							fa, ok3 := ua.X.(*ssa.FieldAddr)
							fb, ok4 := ub.X.(*ssa.FieldAddr)
							return ok3 && ok4 && fa.X == fb.X && fa.Field == fb.Field
						}
						return false
					}
					switch {
					case sameNew(cmp.X) && isLoadOfTimeout(cmp.Y):
						okStore = (cmp.Op == token.GTR || cmp.Op == token.GEQ) && onTrue || (cmp.Op == token.LEQ || cmp.Op == token.LSS) && !onTrue
					case sameNew(cmp.Y) && isLoadOfTimeout(cmp.X):
						okStore = (cmp.Op == token.LSS || cmp.Op == token.LEQ) && onTrue || (cmp.Op == token.GEQ || cmp.Op == token.GTR) && !onTrue
					}
				}
				if !okStore {
					bad = append(bad, fmt.Sprintf("%s: %s overwrites engine.timeout with a value that is not known to be at least the current one: a route group registered earlier with a longer timeout is cut off by the server's write deadline", c.P.Pos(st.Pos()), fn.Name()))
				}
			}
		}
	}
	sortStrings(bad)
	o := c.R.Check(len(bad) == 0 && stores >= 1, rule, "rest.engine.timeout#monotone", "outside the constructor engine.timeout only grows: every store is guarded by `new > current` or is max(…, current, …)", "-", strings.Join(bad, "; "), bad, stores)
	o.Sites = stores
	// (b) WriteTimeout = factor·timeout, factor ≥ 1
	f := c.fn(rule, "rest", "(*engine).withTimeout")
	if f == nil {
		return
	}
	var coef func(v ssa.Value, d int) (*big.Rat, bool)
	coef = func(v ssa.Value, d int) (*big.Rat, bool) {
		if d > 8 {
			return nil, false
		}
		if isLoadOfTimeout(v) {
			return big.NewRat(1, 1), true
		}
		switch x := v.(type) {
		case *ssa.Convert:
			return coef(x.X, d+1)
		case *ssa.ChangeType:
			return coef(x.X, d+1)
		case *ssa.Phi:
			var min *big.Rat
			for _, e := range x.Edges {
				r, ok := coef(e, d+1)
				if !ok {
					return nil, false
				}
				if min == nil || r.Cmp(min) < 0 {
					min = r
				}
			}
			return min, min != nil
		case *ssa.UnOp:
			// a local copy `timeout := ng.timeout`
			if a, ok := x.X.(*ssa.Alloc); ok && x.Op == token.MUL {
				var only ssa.Value
				n := 0
				for _, r := range *a.Referrers() {
					if s, ok := r.(*ssa.Store); ok && s.Addr == ssa.Value(a) {
						only = s.Val
						n++
					}
				}
				if n == 1 {
					return coef(only, d+1)
				}
			}
		case *ssa.BinOp:
			kx, okx := x.X.(*ssa.Const)
			ky, oky := x.Y.(*ssa.Const)
			rat := func(k *ssa.Const) (*big.Rat, bool) {
				if k.Value == nil {
					return nil, false
				}
				return ratOf(k.Value)
			}
			switch x.Op {
			case token.MUL:
				if okx {
					if k, ok := rat(kx); ok {
						if r, ok := coef(x.Y, d+1); ok {
							return new(big.Rat).Mul(k, r), true
						}
					}
				}
				if oky {
					if k, ok := rat(ky); ok {
						if r, ok := coef(x.X, d+1); ok {
							return new(big.Rat).Mul(k, r), true
						}
					}
				}
			case token.QUO:
				if oky {
					if k, ok := rat(ky); ok && k.Sign() > 0 {
						if r, ok := coef(x.X, d+1); ok {
							return new(big.Rat).Quo(r, k), true
						}
					}
				}
			}
		}
		return nil, false
	}
	var wbad []string
	wsites := 0
	walkWithClosures(f, func(g *ssa.Function) {
		for _, b := range g.Blocks {
			for _, ins := range b.Instrs {
				st, ok := ins.(*ssa.Store)
				if !ok {
					continue
				}
				fa, ok := st.Addr.(*ssa.FieldAddr)
				if !ok || fieldNameOf(fa) != "WriteTimeout" {
					continue
				}
				wsites++
				r, ok := coef(st.Val, 0)
				if !ok {
					wbad = append(wbad, c.P.Pos(st.Pos())+": WriteTimeout is not a constant multiple of engine.timeout")
				} else if r.Cmp(big.NewRat(1, 1)) < 0 {
					wbad = append(wbad, fmt.Sprintf("%s: WriteTimeout = %s × engine.timeout is shorter than the longest route timeout: the connection is cut before that route's own deadline", c.P.Pos(st.Pos()), r.RatString()))
				}
			}
		}
	})
	c.R.Check(len(wbad) == 0 && wsites >= 1, rule, "rest.(*engine).withTimeout#write-deadline", "http.Server.WriteTimeout is engine.timeout (the longest route timeout) times a factor ≥ 1", posOf(c, f), strings.Join(wbad, "; "), wbad, wsites)
}

// c04writerNoUserCodeUnderLock (C04.R3h): while a method of timeoutWriter holds tw.mu, it neither invokes
// nor hands on an interface- or function-typed parameter of its own. tw.mu serialises the handler's
// output with the timeout branch of ServeHTTP, which must take it to write the 503: code the handler
// supplied (an io.Reader to copy from, a callback) may block for as long as it likes, and under the mutex
// it holds up the timeout response. A []byte, a status code or a string cannot block.
func c04writerNoUserCodeUnderLock(c *Ctx, named *types.Named) {
	rule := "C04.R3h"
	text := "no interface- or function-typed argument of a handler-facing method is called, or handed to a call, while tw.mu is held (the timeout branch needs the mutex to answer)"
	userCode := func(s *px.Sym) (string, bool) {
		s = s.Strip(true)
		if s == nil || s.Kind != px.KParam || s.Depth != 0 || s.Typ == nil {
			return "", false
		}
		pr, ok := s.V.(*ssa.Parameter)
		if !ok || (pr.Parent() != nil && len(pr.Parent().Params) > 0 && pr.Parent().Params[0] == pr && pr.Parent().Signature.Recv() != nil) {
			return "", false
		}
		switch s.Typ.Underlying().(type) {
		case *types.Interface, *types.Signature:
			return pr.Name() + " " + typeString(s.Typ), true
		}
		return "", false
	}
	n := 0
	for i := 0; i < named.NumMethods(); i++ {
		m := named.Method(i)
		f := c.P.FuncOf(m)
		if f == nil || f.Blocks == nil || !m.Exported() {
			continue
		}
		n++
		inl := func(ci *px.CallInfo, d int) bool {
			return ci.Static != nil && ci.Recv != nil && strings.Contains(ci.Static.String(), "timeoutWriter")
		}
		ps := c.paths(rule, f, px.Config{Inline: inl, MaxVisits: 1})
		c.forall(rule, "rest/handler.(*timeoutWriter)."+m.Name()+"#user-code-under-mu", text, f, ps, func(p *px.Path) (bool, string) {
			held := 0
			for i := range p.Events {
				e := &p.Events[i]
				switch {
				case lockOn("mu", "Lock")(e):
					held++
				case lockOn("mu", "Unlock")(e):
					held--
				case e.Kind == px.EvCall && e.Call != nil && held > 0:
					if e.Call.Recv != nil && e.Call.Method != nil {
						if d, ok := userCode(e.Call.Recv); ok {
							return false, "calls " + e.Call.Method.Name() + " on the handler's " + d + " while holding tw.mu at " + c.P.Pos(e.Pos)
						}
					}
					if e.Call.FnSym != nil {
						if d, ok := userCode(e.Call.FnSym); ok {
							return false, "calls the handler's " + d + " while holding tw.mu at " + c.P.Pos(e.Pos)
						}
					}
					for _, a := range e.Call.Args {
						if d, ok := userCode(a); ok {
							return false, "hands the handler's " + d + " to " + e.Call.Name() + " while holding tw.mu at " + c.P.Pos(e.Pos) + " (the callee runs it under the mutex)"
						}
					}
				}
			}
			return true, ""
		})
	}
	c.R.Min(rule, 5, "exported methods of timeoutWriter")
}

// c04clientInstallsTimeout (C04.R1f, round 7): the client-side TimeoutInterceptor is also what interprets a per-call
// WithCallTimeout (a grpc.EmptyCallOption nobody else reads). Whether it is installed is decided by the middleware
// switch alone: on every path of (*client).buildUnaryInterceptors on which `middlewares.Timeout` was seen true, the
// interceptor is built from the configured timeout and appended to the returned chain — whatever that timeout's value.
// "Skip the pass-through interceptor when the default timeout is 0" silently drops every per-call deadline.
func c04clientInstallsTimeout(c *Ctx) {
	rule := "C04.R1f"
	pkg := "zrpc/internal"
	f := c.fn(rule, pkg, "(*client).buildUnaryInterceptors")
	if f == nil {
		return
	}
	ti := calleeIs("zrpc/internal/clientinterceptors.TimeoutInterceptor")
	ps := c.paths(rule, f, px.Config{})
	sawSwitch := false
	c.forall(rule, pkg+".(*client).buildUnaryInterceptors#timeout", "whenever the Timeout middleware switch is on, the TimeoutInterceptor (which also applies per-call WithCallTimeout) is built from the configured timeout and is part of the returned chain — for every value of that timeout", f, ps, func(p *px.Path) (bool, string) {
		if p.Exit != px.ExitReturn {
			return true, ""
		}
		on := false
		for _, b := range p.All(px.KindIs(px.EvBranch)) {
			if fieldLoadDeep(b.Cond, "Timeout", nil) {
				sawSwitch = true
				if b.Taken {
					on = true
				}
			}
		}
		calls := p.All(ti)
		if !on {
			return true, ""
		}
		if len(calls) != 1 {
			return false, fmt.Sprintf("the Timeout switch is on but TimeoutInterceptor is built ×%d on this path: per-call WithCallTimeout deadlines are interpreted by nobody", len(calls))
		}
		if len(f.Params) > 1 && !isParam(calls[0].Call.Args[0], f.Params[1]) {
			return false, "the interceptor is not built from the configured timeout"
		}
		if len(p.Results) == 0 || !dependsOn(p, p.Results[0], calls[0].Res) {
			return false, "the interceptor is built but not part of the returned chain"
		}
		return true, ""
	})
	if !sawSwitch {
		c.R.Undecided(rule, pkg+".(*client).buildUnaryInterceptors#switch", "the middleware switch for the timeout interceptor is recognised", "no branch on middlewares.Timeout")
	}
}

// c04noDetachedContexts (C04.R7, round 8): deadlines only shrink — through every hop. A context derived for an outgoing
// call inherits the caller's deadline and cancellation only if it is derived from the caller's context;
// context.WithoutCancel strips both, and a timeout applied on top of it restarts the clock: the work runs on after its
// caller's deadline (a gateway answering 503 at the route timeout while the upstream call continues for its own, longer,
// timeout). No function of the module calls context.WithoutCancel (who-may-call over every call site of package context).
func c04noDetachedContexts(c *Ctx) {
	rule := "C04.R7"
	var bad []string
	sites := 0
	for _, pk := range c.P.Pkgs {
		rel := strings.TrimPrefix(pk.PkgPath, mod)
		for _, fn := range c.P.AllFuncs(rel) {
			for _, b := range fn.Blocks {
				for _, ins := range b.Instrs {
					call, ok := ins.(ssa.CallInstruction)
					if !ok {
						continue
					}
					cal := call.Common().StaticCallee()
					if cal == nil || cal.Pkg == nil || cal.Pkg.Pkg.Path() != "context" {
						continue
					}
					sites++
					if cal.Name() == "WithoutCancel" {
						bad = append(bad, fmt.Sprintf("%s: %s derives a context with context.WithoutCancel: the caller's deadline and cancellation do not reach what runs under it", c.P.Pos(call.Pos()), funcDisplay(fn)))
					}
					// (round 9) "the outcome is … the timeout result": every wrapper and every caller classifies a timeout by
					// the context's error (DeadlineExceeded / Canceled — 503 vs 499, ErrTimeout vs ErrCanceled, what the
					// limiter and the breaker take for a cancellation). context.Cause returns an arbitrary error instead:
					// substituted for ctx.Err() anywhere on the way, the classification silently changes
					if cal.Name() == "Cause" {
						bad = append(bad, fmt.Sprintf("%s: %s reports context.Cause(ctx) where the module's wrappers and callers classify by ctx.Err() (DeadlineExceeded/Canceled)", c.P.Pos(call.Pos()), funcDisplay(fn)))
					}
				}
			}
		}
	}
	sortStrings(bad)
	o := c.R.Check(len(bad) == 0 && sites >= 20, rule, "module#context-derivations", "no function of the module derives a context with context.WithoutCancel (every derived context keeps its parent's deadline and cancellation) or reports context.Cause in place of the context's error (timeouts are classified by ctx.Err())", "-", fmt.Sprintf("%d call sites of package context; %s", sites, strings.Join(bad, "; ")), bad, sites)
	o.Sites = sites
}
