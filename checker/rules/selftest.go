package rules

import (
	"encoding/json"
	"fmt"
	"os"
	"path/filepath"
	"sort"
	"strconv"
	"strings"
	"sync"

	"gzverify/load"
	"gzverify/rep"
)

// Self-test of the checker (DESIGN §2.7): every catalogued mutant — one-snippet
// replacements recorded in selftest/mutants.json and the confirmed seeded changes under
// seeded/*/patch.diff — is applied IN MEMORY (go/packages overlay; /repo is not touched),
// the property's rules are re-run on the mutated program, and the mutant counts as killed
// when some obligation is violated/undecided that was not already so on the unmutated tree.
// The result is informational (it measures the checker, not go-zero).

type Mutant struct {
	ID       string `json:"id"`
	Property string `json:"property"`
	File     string `json:"file"` // repo-relative
	Old      string `json:"old"`
	New      string `json:"new"`
	Note     string `json:"note,omitempty"`
	patch    string // path of a unified diff (seeded changes)
}

type SelfTestResult struct {
	Benign      int      `json:"benign_refactorings"`     // behaviour-preserving patches applied
	FalseAlarms []string `json:"benign_raising_an_alarm"` // … that made some obligation fail (must be empty)
	Total       int      `json:"total"`
	Killed      int      `json:"killed"`
	Survived    []string `json:"survived"`
	Stale       []string `json:"stale"` // snippet/patch no longer applies to the current tree
	Details     []string `json:"details"`
}

func catalogue(prop string) []Mutant {
	var ms []Mutant
	if b, err := os.ReadFile(filepath.Join(rep.VerifDir(), "selftest", "mutants.json")); err == nil {
		var all []Mutant
		if json.Unmarshal(b, &all) == nil {
			for _, m := range all {
				if prop == "all" || m.Property == prop {
					ms = append(ms, m)
				}
			}
		}
	}
	dirs, _ := filepath.Glob(filepath.Join(rep.VerifDir(), "seeded", "*", "patch.diff"))
	sort.Strings(dirs)
	for _, d := range dirs {
		id := filepath.Base(filepath.Dir(d))
		p := id
		if i := strings.Index(id, "C"); i >= 0 { // "C07-2", "r2-C07-2", "r4-C07-2" …
			p = strings.SplitN(id[i:], "-", 2)[0]
		}
		if prop == "all" || p == prop {
			ms = append(ms, Mutant{ID: "seeded/" + id, Property: p, patch: d})
		}
	}
	return ms
}

// applyUnifiedDiff applies a git-style unified diff to files under dir, in memory.
func applyUnifiedDiff(dir, patchFile string) (map[string][]byte, error) {
	b, err := os.ReadFile(patchFile)
	if err != nil {
		return nil, err
	}
	out := map[string][]byte{}
	lines := strings.Split(string(b), "\n")
	var cur string
	var src []string
	var res []string
	pos := 0
	flush := func() {
		if cur != "" {
			res = append(res, src[pos:]...)
			out[filepath.Join(dir, cur)] = []byte(strings.Join(res, "\n"))
		}
	}
	deleted := map[string]bool{}
	for i := 0; i < len(lines); i++ {
		l := lines[i]
		switch {
		case strings.HasPrefix(l, "--- "):
			// file header; the +++ line follows
		case strings.HasPrefix(l, "+++ "):
			flush()
			name := strings.TrimPrefix(strings.TrimPrefix(l, "+++ "), "b/")
			if name == "/dev/null" {
				// deletion: the --- line names the file
				old := strings.TrimPrefix(strings.TrimPrefix(lines[i-1], "--- "), "a/")
				deleted[old] = true
				cur = ""
				continue
			}
			cur = name
			fb, err := os.ReadFile(filepath.Join(dir, cur))
			if err != nil {
				if strings.HasPrefix(lines[i-1], "--- /dev/null") {
					fb = nil
				} else {
					return nil, err
				}
			}
			src = strings.Split(string(fb), "\n")
			res = nil
			pos = 0
		case strings.HasPrefix(l, "@@ ") && cur != "":
			// @@ -a,b +c,d @@
			f := strings.Fields(l)
			if len(f) < 3 {
				return nil, fmt.Errorf("bad hunk header %q", l)
			}
			a := strings.SplitN(strings.TrimPrefix(f[1], "-"), ",", 2)
			start, _ := strconv.Atoi(a[0])
			if start > 0 {
				start--
			}
			// collect the hunk's old-side lines to locate it (git apply tolerates line offsets)
			var oldSide []string
			for k := i + 1; k < len(lines); k++ {
				h := lines[k]
				if strings.HasPrefix(h, "@@ ") || strings.HasPrefix(h, "diff ") || strings.HasPrefix(h, "--- ") {
					break
				}
				if strings.HasPrefix(h, " ") || strings.HasPrefix(h, "-") {
					oldSide = append(oldSide, h[1:])
				} else if h == "" && k+1 < len(lines) {
					oldSide = append(oldSide, "")
				}
			}
			matchAt := func(at int) bool {
				if at < pos || at+len(oldSide) > len(src)+1 {
					return false
				}
				for k, o := range oldSide {
					if at+k >= len(src) {
						return o == ""
					}
					if src[at+k] != o {
						return false
					}
				}
				return true
			}
			if !matchAt(start) {
				found := -1
				for delta := 1; delta < 400 && found < 0; delta++ {
					if matchAt(start + delta) {
						found = start + delta
					} else if matchAt(start - delta) {
						found = start - delta
					}
				}
				if found < 0 {
					return nil, fmt.Errorf("patch does not apply to %s (hunk at line %d not found)", cur, start+1)
				}
				start = found
			}
			res = append(res, src[pos:start]...)
			pos = start
			for i+1 < len(lines) {
				h := lines[i+1]
				if strings.HasPrefix(h, "@@ ") || strings.HasPrefix(h, "diff ") || strings.HasPrefix(h, "--- ") {
					break
				}
				i++
				switch {
				case strings.HasPrefix(h, "+"):
					res = append(res, h[1:])
				case strings.HasPrefix(h, "-"):
					if pos >= len(src) || src[pos] != h[1:] {
						return nil, fmt.Errorf("patch does not apply to %s at line %d", cur, pos+1)
					}
					pos++
				case strings.HasPrefix(h, " "):
					if pos >= len(src) || src[pos] != h[1:] {
						return nil, fmt.Errorf("patch context does not match %s at line %d", cur, pos+1)
					}
					res = append(res, src[pos])
					pos++
				case h == "" && i+1 >= len(lines):
				case strings.HasPrefix(h, "\\"):
				case h == "":
					if pos < len(src) && src[pos] == "" {
						res = append(res, "")
						pos++
					}
				}
			}
		}
	}
	flush()
	if len(deleted) > 0 {
		return nil, fmt.Errorf("patch deletes files (%v): not representable as an overlay", deleted)
	}
	return out, nil
}

func failingIDs(r *rep.Report) map[string]bool {
	out := map[string]bool{}
	for _, o := range r.Obs {
		if o.Status == rep.Violated || o.Status == rep.Undecided {
			out[o.ID+"|"+o.Detail] = true
		}
	}
	return out
}

// benignPatches lists the behaviour-preserving refactorings kept under refactors/.
func benignPatches() []string {
	ds, _ := filepath.Glob(filepath.Join(rep.VerifDir(), "refactors", "*", "patch.diff"))
	sort.Strings(ds)
	return ds
}

// SelfTest runs the catalogue of one property (or "all").
func SelfTest(prop string, verbose bool) *SelfTestResult {
	res := &SelfTestResult{}
	base := map[string]map[string]bool{}
	// behaviour-preserving refactorings must stay silent (checked for the requested property, or all)
	var checkProps []string
	if prop == "all" {
		checkProps = Props()
	} else {
		checkProps = []string{prop}
	}
	for _, pid := range checkProps {
		d := props[pid]
		r0 := rep.New(pid, "selftest", d.level)
		runOnce(pid, d, r0, "quick", nil, nil, "")
		base[pid] = failingIDs(r0)
	}
	// every variant is an independent load + rule run: a bounded pool of workers (memory: ~200 MB per load)
	const workers = 6
	var mu sync.Mutex
	sem := make(chan struct{}, workers)
	var wg sync.WaitGroup
	for _, pf := range benignPatches() {
		pf := pf
		wg.Add(1)
		sem <- struct{}{}
		go func() {
			defer func() { <-sem; wg.Done() }()
			id := filepath.Base(filepath.Dir(pf))
			overlay, err := applyUnifiedDiff(load.RepoDir(), pf)
			if err != nil {
				mu.Lock()
				res.Stale = append(res.Stale, id+": "+err.Error())
				mu.Unlock()
				return
			}
			var alarms []string
			for _, pid := range checkProps {
				d := props[pid]
				r := rep.New(pid, "selftest", d.level)
				runOnce(pid, d, r, "quick", nil, overlay, "")
				for _, o := range r.Obs {
					if (o.Status == rep.Violated || o.Status == rep.Undecided) && !base[pid][o.ID+"|"+o.Detail] {
						alarms = append(alarms, id+": "+pid+" "+o.Rule+" "+o.Construct)
						break
					}
				}
			}
			mu.Lock()
			res.Benign++
			res.FalseAlarms = append(res.FalseAlarms, alarms...)
			mu.Unlock()
			if verbose {
				fmt.Println(id + ": benign refactoring applied")
			}
		}()
	}
	wg.Wait()
	cat := catalogue(prop)
	for _, m := range cat {
		if d, ok := props[m.Property]; ok {
			if _, ok := base[m.Property]; !ok {
				r0 := rep.New(m.Property, "selftest", d.level)
				runOnce(m.Property, d, r0, "quick", nil, nil, "")
				base[m.Property] = failingIDs(r0)
			}
		}
	}
	details := make([]string, len(cat))
	for i, m := range cat {
		i, m := i, m
		d, ok := props[m.Property]
		if !ok {
			continue
		}
		wg.Add(1)
		sem <- struct{}{}
		go func() {
			defer func() { <-sem; wg.Done() }()
			var overlay map[string][]byte
			var err error
			if m.patch != "" {
				overlay, err = applyUnifiedDiff(load.RepoDir(), m.patch)
			} else {
				path := filepath.Join(load.RepoDir(), m.File)
				var b []byte
				b, err = os.ReadFile(path)
				if err == nil {
					if strings.Count(string(b), m.Old) != 1 {
						err = fmt.Errorf("snippet occurs %d times", strings.Count(string(b), m.Old))
					} else {
						overlay = map[string][]byte{path: []byte(strings.Replace(string(b), m.Old, m.New, 1))}
					}
				}
			}
			if err != nil {
				mu.Lock()
				res.Stale = append(res.Stale, m.ID+": "+err.Error())
				mu.Unlock()
				return
			}
			r := rep.New(m.Property, "selftest", d.level)
			runOnce(m.Property, d, r, "quick", nil, overlay, "")
			killedBy := ""
			for _, o := range r.Obs {
				if (o.Status == rep.Violated || o.Status == rep.Undecided) && !base[m.Property][o.ID+"|"+o.Detail] {
					killedBy = o.Rule + " " + o.Construct
					break
				}
			}
			mu.Lock()
			res.Total++
			if killedBy != "" {
				res.Killed++
				details[i] = m.ID + ": killed by " + killedBy
			} else {
				res.Survived = append(res.Survived, m.ID)
				details[i] = m.ID + ": SURVIVED"
			}
			mu.Unlock()
			if verbose {
				fmt.Println(details[i])
			}
		}()
	}
	wg.Wait()
	for _, dl := range details {
		if dl != "" {
			res.Details = append(res.Details, dl)
		}
	}
	sort.Strings(res.Survived)
	sort.Strings(res.Stale)
	sort.Strings(res.FalseAlarms)
	return res
}
