package rules

import (
	"fmt"
	"go/constant"
	"go/types"
	"sort"
	"strings"

	"golang.org/x/tools/go/ssa"

	"gzverify/load"
	"gzverify/px"
)

const mod = load.Module + "/"

// fn resolves an anchor; a missing anchor makes the rule UNDECIDED.
func (c *Ctx) fn(rule, pkg, name string) *ssa.Function {
	f := c.P.Func(pkg, name)
	if f == nil || f.Blocks == nil {
		c.R.Undecided(rule, pkg+"."+name, "anchor resolves", "function "+pkg+"."+name+" not found (renamed or removed): the rule cannot be decided")
		return nil
	}
	c.R.Funcs[pkg+"."+name] = true
	return f
}

// closure picks the anonymous function of parent satisfying pred (role query).
func (c *Ctx) closure(rule string, parent *ssa.Function, role string, pred func(f *ssa.Function) bool) *ssa.Function {
	var found []*ssa.Function
	var walk func(f *ssa.Function)
	walk = func(f *ssa.Function) {
		for _, a := range f.AnonFuncs {
			if pred(a) {
				found = append(found, a)
			}
			walk(a)
		}
	}
	walk(parent)
	if len(found) != 1 {
		c.R.Undecided(rule, parent.String()+" "+role, "anchor resolves", fmt.Sprintf("expected exactly one closure in role %q, found %d", role, len(found)))
		return nil
	}
	return found[0]
}

// callsInBody: does the body of f (not nested closures) contain a call satisfying pred?
func callsInBody(f *ssa.Function, pred func(cc *ssa.CallCommon) bool) bool {
	for _, b := range f.Blocks {
		for _, ins := range b.Instrs {
			if ci, ok := ins.(ssa.CallInstruction); ok && pred(ci.Common()) {
				return true
			}
		}
	}
	return false
}

func calleeName(cc *ssa.CallCommon) string {
	if cc.IsInvoke() {
		return cc.Method.FullName()
	}
	if f := cc.StaticCallee(); f != nil {
		if o, ok := f.Object().(*types.Func); ok {
			return o.FullName()
		}
		return f.String()
	}
	return ""
}

// paths runs the path engine; errors make the rule UNDECIDED.
func (c *Ctx) paths(rule string, f *ssa.Function, cfg px.Config) []*px.Path {
	if f == nil {
		return nil
	}
	cfg.Prog = c.P.SSA
	// Private helpers that did not exist when the rules were written (baseline_funcs_gen.go lists every
	// function of the pinned tree) are analysed in place: extracting a few lines into a new unexported
	// helper is a behaviour-preserving edit and must not change what a rule sees.
	own := cfg.Inline
	root := f
	cfg.Inline = func(ci *px.CallInfo, d int) bool {
		if own != nil && own(ci, d) {
			return true
		}
		callee := ci.Static
		if callee == nil || callee.Pkg == nil || root.Pkg == nil || callee.Pkg != root.Pkg || callee.Synthetic != "" || callee == root {
			return false
		}
		return !baselineFuncs[callee.String()] && len(callee.Blocks) <= 40
	}
	ps, _, err := px.Run(cfg, f)
	if err != nil {
		c.R.Undecided(rule, f.String(), "paths enumerable", err.Error())
		return nil
	}
	if len(ps) == 0 {
		c.R.Undecided(rule, f.String(), "paths enumerable", "no paths")
		return nil
	}
	return ps
}

// forall checks pred on every path; the first failing path is the witness.
func (c *Ctx) forall(rule, construct, text string, f *ssa.Function, ps []*px.Path, pred func(p *px.Path) (bool, string)) bool {
	if ps == nil {
		return false
	}
	for _, p := range ps {
		if ok, why := pred(p); !ok {
			pos := "-"
			if f != nil {
				pos = c.P.Pos(f.Pos())
			}
			o := c.R.Fail(rule, construct, text, pos, why, p.Trace(c.P.Pos, 60))
			o.Paths = len(ps)
			return false
		}
	}
	c.R.Hold(rule, construct, text, len(ps))
	return true
}

// name helpers -------------------------------------------------------------

// methodNamed matches call events (static or interface) whose callee is a method
// with the given name (any receiver).
func methodNamed(names ...string) px.Pred {
	return func(e *px.Event) bool {
		if e.Kind != px.EvCall || e.Call == nil {
			return false
		}
		o := e.Call.Obj()
		if o == nil {
			return false
		}
		sig, _ := o.Type().(*types.Signature)
		if sig == nil || sig.Recv() == nil {
			return false
		}
		for _, n := range names {
			if o.Name() == n {
				return true
			}
		}
		return false
	}
}

// calleeIs matches by full name with the module path abbreviated: "core/breaker.(*googleBreaker).markDrop",
// "sync.(*WaitGroup).Done", "fmt.Errorf".
func calleeIs(names ...string) px.Pred {
	return func(e *px.Event) bool {
		if e.Kind != px.EvCall || e.Call == nil {
			return false
		}
		return nameIn(shortName(e.Call), names)
	}
}

func nameIn(n string, names []string) bool {
	for _, w := range names {
		if n == w {
			return true
		}
	}
	return false
}

// shortName renders the callee as "pkg/path.(*T).m" / "pkg/path.f" / "pkg/path.(I).m"
// with the go-zero module prefix removed.
func shortName(ci *px.CallInfo) string {
	o := ci.Obj()
	if o == nil {
		return ci.Name()
	}
	return shortFuncName(o)
}

func shortFuncName(o *types.Func) string {
	sig, _ := o.Type().(*types.Signature)
	pkg := ""
	if o.Pkg() != nil {
		pkg = strings.TrimPrefix(o.Pkg().Path(), mod)
	}
	if sig != nil && sig.Recv() != nil {
		t := sig.Recv().Type()
		ptr := ""
		if p, ok := t.(*types.Pointer); ok {
			t = p.Elem()
			ptr = "*"
		}
		tn := "?"
		switch tt := t.(type) {
		case *types.Named:
			tn = tt.Obj().Name()
			if tt.Obj().Pkg() != nil {
				pkg = strings.TrimPrefix(tt.Obj().Pkg().Path(), mod)
			}
		case *types.Alias:
			tn = tt.Obj().Name()
		}
		return fmt.Sprintf("%s.(%s%s).%s", pkg, ptr, tn, o.Name())
	}
	return pkg + "." + o.Name()
}

// dynParamTyped matches dynamic calls of a root parameter whose type satisfies f.
func dynParamWhere(f func(p *ssa.Parameter) bool) px.Pred {
	return px.DynWhere(func(s *px.Sym) bool {
		s = s.Strip(false)
		if s.Kind != px.KParam {
			return false
		}
		p, ok := s.V.(*ssa.Parameter)
		return ok && f(p)
	})
}

func typeString(t types.Type) string {
	return types.TypeString(t, func(p *types.Package) string { return strings.TrimPrefix(p.Path(), mod) })
}

// dependsOn: does sym structurally derive from target (operands, call args,
// variadic slices)?
func dependsOn(p *px.Path, s, target *px.Sym) bool {
	seen := map[*px.Sym]bool{}
	var rec func(s *px.Sym, d int) bool
	rec = func(s *px.Sym, d int) bool {
		if s == nil || seen[s] || d > 12 {
			return false
		}
		seen[s] = true
		if s == target || s.Strip(true) == target.Strip(true) {
			return true
		}
		if rec(s.X, d+1) || rec(s.Y, d+1) {
			return true
		}
		if s.Kind == px.KAlloc {
			// a local cell: follow the value it holds at the end of the path
			if v := p.CellValue(s); v != nil && rec(v, d+1) {
				return true
			}
		}
		for _, o := range s.Ops {
			if rec(o, d+1) {
				return true
			}
		}
		for _, o := range s.Elems {
			if rec(o, d+1) {
				return true
			}
		}
		if s.Call != nil {
			for _, a := range s.Call.Args {
				if rec(a, d+1) {
					return true
				}
				for _, el := range p.SliceElems(a) {
					if rec(el, d+1) {
						return true
					}
				}
			}
			if rec(s.Call.Recv, d+1) {
				return true
			}
		}
		return false
	}
	return rec(s, 0)
}

func posOf(c *Ctx, f *ssa.Function) string {
	if f == nil {
		return "-"
	}
	return c.P.Pos(f.Pos())
}

// paramOfType returns the first parameter of f whose type string (module prefix
// stripped) equals ts.
func paramOfType(f *ssa.Function, ts string) *ssa.Parameter {
	for _, p := range f.Params {
		if typeString(p.Type()) == ts {
			return p
		}
	}
	return nil
}

func isParam(s *px.Sym, p *ssa.Parameter) bool {
	s = s.Strip(false)
	return s != nil && s.Kind == px.KParam && s.V == p
}

func sortStrings(s []string) { sort.Strings(s) }

// numEq / numLess compare numeric constants at float64 precision (typed constants
// are rounded by the type checker, untyped ones are exact).
func numEq(a, b constant.Value) bool {
	if a == nil || b == nil {
		return false
	}
	fa, _ := constant.Float64Val(constant.ToFloat(a))
	fb, _ := constant.Float64Val(constant.ToFloat(b))
	return fa == fb
}

func numLess(a, b constant.Value) bool {
	fa, _ := constant.Float64Val(constant.ToFloat(a))
	fb, _ := constant.Float64Val(constant.ToFloat(b))
	return fa < fb
}

func allocName(s *px.Sym) string { return px.AllocName(s) }

// isConstSym: the sym is a literal/named constant (not merely known to equal one on this path).
func isConstSym(s *px.Sym) bool {
	s = s.Strip(true)
	return s != nil && s.Kind == px.KConst
}

// fieldLoadDeep: s is a load of field `name` reached from a base satisfying f,
// possibly through embedded structs (&base.embedded.name).
func fieldLoadDeep(s *px.Sym, name string, f func(base *px.Sym) bool) bool {
	b, ok := fieldLoadBase(s, name)
	return ok && (f == nil || f(b))
}

// fieldLoadBase returns the outermost base of a (possibly embedded) field load.
func fieldLoadBase(s *px.Sym, name string) (*px.Sym, bool) {
	s = s.Strip(false)
	if s == nil || s.Kind != px.KLoad || s.X == nil || s.X.Kind != px.KFieldAddr {
		return nil, false
	}
	a := s.X
	if v := a.FieldVar(); v == nil || v.Name() != name {
		return nil, false
	}
	b := a.X
	for b != nil && b.Kind == px.KFieldAddr {
		if v := b.FieldVar(); v == nil || !v.Embedded() {
			break
		}
		b = b.X
	}
	return b, true
}

// sameElem: two index addresses denote the same element (same base, same index sym or constant).
func sameElem(a, b *px.Sym) bool {
	if a == b {
		return true
	}
	if a == nil || b == nil || a.Kind != px.KIndexAddr || b.Kind != px.KIndexAddr {
		return false
	}
	if a.X.Strip(false) != b.X.Strip(false) {
		return false
	}
	if a.Y != nil || b.Y != nil {
		return a.Y != nil && b.Y != nil && a.Y.Strip(true) == b.Y.Strip(true)
	}
	return a.Index == b.Index
}

// isParamOrCell: the parameter itself, or a load of the local cell it was spilled to
// (parameters captured by closures live in cells).
func isParamOrCell(s *px.Sym, p *ssa.Parameter) bool {
	if isParam(s, p) {
		return true
	}
	s = s.Strip(false)
	return s != nil && s.Kind == px.KLoad && s.X != nil && s.X.Kind == px.KAlloc && allocName(s.X) == p.Name()
}

// fieldByRole resolves a struct field by what it is (its type), not by its spelling, so that a
// renamed private field is still found: the unique field of pkg.typ whose type satisfies pred.
// Falls back to the given name when the role is not unique.
func (c *Ctx) fieldByRole(pkg, typ, fallback string, pred func(t types.Type) bool) string {
	pk := c.P.Pkg(pkg)
	if pk == nil || pk.Types == nil {
		return fallback
	}
	tn, _ := pk.Types.Scope().Lookup(typ).(*types.TypeName)
	if tn == nil {
		return fallback
	}
	st, _ := tn.Type().Underlying().(*types.Struct)
	if st == nil {
		return fallback
	}
	found := ""
	for i := 0; i < st.NumFields(); i++ {
		if pred(st.Field(i).Type()) {
			if found != "" {
				return fallback
			}
			found = st.Field(i).Name()
		}
	}
	if found == "" {
		return fallback
	}
	return found
}

func isMapType(t types.Type) bool { _, ok := t.Underlying().(*types.Map); return ok }

// runShared runs another property's rule set as a shared part of the current check: its obligations are recorded
// under the renamed rule ids, the current check's own descriptive texts are kept.
func runShared(c *Ctx, from, to string, rules func(c *Ctx)) {
	rt, ex, as := c.R.RuleText, c.R.Explain, c.R.Assume
	prev := c.R.Rename
	c.R.Rename = map[string]string{from: to}
	rules(c)
	c.R.Rename = prev
	c.R.RuleText, c.R.Explain, c.R.Assume = rt, ex, as
}
