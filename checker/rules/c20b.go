package rules

import (
	"fmt"
	"go/token"
	"go/types"
	"sort"
	"strings"

	"golang.org/x/tools/go/ssa"
)

// Round-3 additions to C20.

// c20concat (C20.R1c): two rendered nodes are never glued together with `+`. Where a new line has
// to start (a head comment in front of the second node, a trailing comment behind the first) is
// decided by the line-aware Writer when it is given the nodes; the concatenation of two Format()
// results puts a comment that belongs to the second node on the line of the first, where the next
// parse attaches it elsewhere (formatting is then not idempotent, seed r3-C20-3). One rendered node
// plus literal text is fine.
func c20concat(c *Ctx) {
	rule := "C20.R1c"
	pk := c.P.Pkg(goctlAst)
	if pk == nil {
		c.R.Undecided(rule, goctlAst, "anchor resolves", "package not loaded")
		return
	}
	var bad []string
	n := 0
	for _, fn := range c.P.AllFuncs(goctlAst) {
		if fn.Blocks == nil {
			continue
		}
		n++
		for _, b := range fn.Blocks {
			for _, ins := range b.Instrs {
				bo, ok := ins.(*ssa.BinOp)
				if !ok || bo.Op != token.ADD {
					continue
				}
				if bt, ok := bo.Type().Underlying().(*types.Basic); !ok || bt.Info()&types.IsString == 0 {
					continue
				}
				// only the root of a concatenation chain
				isInner := false
				for _, r := range *bo.Referrers() {
					if rb, ok := r.(*ssa.BinOp); ok && rb.Op == token.ADD {
						isInner = true
					}
				}
				if isInner {
					continue
				}
				rendered := map[ssa.Value]bool{}
				seen := map[ssa.Value]bool{}
				var walk func(v ssa.Value, d int)
				walk = func(v ssa.Value, d int) {
					if v == nil || seen[v] || d > 12 {
						return
					}
					seen[v] = true
					switch x := v.(type) {
					case *ssa.BinOp:
						if x.Op == token.ADD {
							walk(x.X, d+1)
							walk(x.Y, d+1)
						}
					case *ssa.Phi:
						for _, e := range x.Edges {
							walk(e, d+1)
						}
					case *ssa.Call:
						name, recvT := "", types.Type(nil)
						if x.Call.IsInvoke() {
							name, recvT = x.Call.Method.Name(), x.Call.Value.Type()
						} else if sc := x.Call.StaticCallee(); sc != nil && sc.Signature.Recv() != nil {
							name, recvT = sc.Name(), sc.Signature.Recv().Type()
						}
						if name == "Format" && recvT != nil && c20nodeish(recvT, pk.Types) {
							rendered[x] = true
						}
					}
				}
				walk(bo, 0)
				if len(rendered) >= 2 {
					bad = append(bad, fmt.Sprintf("%s: %s joins %d rendered nodes with `+` instead of handing the nodes to the Writer: a comment in front of the later node ends up on the line of the earlier one", c.P.Pos(bo.Pos()), fn.RelString(fn.Pkg.Pkg), len(rendered)))
				}
			}
		}
	}
	sort.Strings(bad)
	o := c.R.Check(len(bad) == 0 && n >= 100, rule, goctlAst+"#concat", "no function of package ast concatenates the Format() results of two nodes (line breaks between nodes are the Writer's decision)", "-", strings.Join(bad, "; "), bad, n)
	o.Sites = n
}

// c20scanBounds (C20.R7): every element access to the scanner's rune buffer is dominated by the
// in-bounds outcome of a comparison of the same index expression with the buffer's length (the
// `size` field, which only ever holds len(data), or len(data) itself). `idx > size` is not such a
// test: it lets idx == size through and the access panics (index out of range) on an input that
// ends at that point — a crash, not an error (seed r3-C20-1).
func c20scanBounds(c *Ctx) {
	rule := "C20.R7"
	pk := c.P.Pkg(goctlScan)
	if pk == nil {
		c.R.Undecided(rule, goctlScan, "anchor resolves", "package not loaded")
		return
	}
	// the buffer field: the []rune field of Scanner
	bufField := ""
	var sizeFields []string
	if tn, _ := pk.Types.Scope().Lookup("Scanner").(*types.TypeName); tn != nil {
		if st, ok := tn.Type().Underlying().(*types.Struct); ok {
			for i := 0; i < st.NumFields(); i++ {
				if sl, ok := st.Field(i).Type().Underlying().(*types.Slice); ok {
					if b, ok := sl.Elem().Underlying().(*types.Basic); ok && (b.Kind() == types.Int32 || b.Kind() == types.Uint8) {
						bufField = st.Field(i).Name()
					}
				}
			}
		}
	}
	if bufField == "" {
		c.R.Undecided(rule, goctlScan+".Scanner", "the scanner's input buffer field resolves", "no []rune/[]byte field in Scanner")
		return
	}
	isFieldLoadOf := func(v ssa.Value, field string) (*ssa.FieldAddr, bool) {
		u, ok := v.(*ssa.UnOp)
		if !ok || u.Op != token.MUL {
			return nil, false
		}
		fa, ok := u.X.(*ssa.FieldAddr)
		if !ok || fieldNameOf(fa) != field {
			return nil, false
		}
		if pt, ok := fa.X.Type().Underlying().(*types.Pointer); ok {
			if n, ok := pt.Elem().(*types.Named); ok && n.Obj().Name() == "Scanner" {
				return fa, true
			}
		}
		return nil, false
	}
	// which int fields hold len(buffer): every store to them in the package stores len(X) next to a
	// store of X into the buffer field (struct literal in the constructor)
	lenFields := map[string]bool{}
	notLen := map[string]string{}
	for _, fn := range c.P.AllFuncs(goctlScan) {
		for _, b := range fn.Blocks {
			for _, ins := range b.Instrs {
				st, ok := ins.(*ssa.Store)
				if !ok {
					continue
				}
				fa, ok := st.Addr.(*ssa.FieldAddr)
				if !ok {
					continue
				}
				pt, ok := fa.X.Type().Underlying().(*types.Pointer)
				if !ok {
					continue
				}
				if n, ok := pt.Elem().(*types.Named); !ok || n.Obj().Name() != "Scanner" || n.Obj().Pkg() != pk.Types {
					continue
				}
				name := fieldNameOf(fa)
				if call, ok := st.Val.(*ssa.Call); ok {
					if bi, ok := call.Call.Value.(*ssa.Builtin); ok && bi.Name() == "len" {
						// the same X is stored into the buffer field of the same object in this function
						same := false
						for _, b2 := range fn.Blocks {
							for _, ins2 := range b2.Instrs {
								if st2, ok := ins2.(*ssa.Store); ok {
									if fa2, ok := st2.Addr.(*ssa.FieldAddr); ok && fa2.X == fa.X && fieldNameOf(fa2) == bufField && st2.Val == call.Call.Args[0] {
										same = true
									}
								}
							}
						}
						if same {
							lenFields[name] = true
							continue
						}
					}
				}
				if _, isInt := st.Val.Type().Underlying().(*types.Basic); isInt {
					notLen[name] = c.P.Pos(st.Pos())
				}
			}
		}
	}
	for f := range lenFields {
		if _, bad := notLen[f]; bad {
			delete(lenFields, f)
		} else {
			sizeFields = append(sizeFields, f)
		}
	}
	sort.Strings(sizeFields)
	isBound := func(v ssa.Value) bool {
		for f := range lenFields {
			if _, ok := isFieldLoadOf(v, f); ok {
				return true
			}
		}
		if call, ok := v.(*ssa.Call); ok {
			if bi, ok := call.Call.Value.(*ssa.Builtin); ok && bi.Name() == "len" {
				if _, ok := isFieldLoadOf(call.Call.Args[0], bufField); ok {
					return true
				}
			}
		}
		return false
	}
	var sameExpr func(a, b ssa.Value, d int) bool
	sameExpr = func(a, b ssa.Value, d int) bool {
		if a == b {
			return true
		}
		if d > 4 {
			return false
		}
		switch x := a.(type) {
		case *ssa.UnOp:
			y, ok := b.(*ssa.UnOp)
			if !ok || x.Op != y.Op {
				return false
			}
			fx, ok1 := x.X.(*ssa.FieldAddr)
			fy, ok2 := y.X.(*ssa.FieldAddr)
			return ok1 && ok2 && fx.X == fy.X && fx.Field == fy.Field
		case *ssa.BinOp:
			y, ok := b.(*ssa.BinOp)
			return ok && x.Op == y.Op && sameExpr(x.X, y.X, d+1) && sameExpr(x.Y, y.Y, d+1)
		case *ssa.Const:
			y, ok := b.(*ssa.Const)
			return ok && x.Value != nil && y.Value != nil && x.Value.ExactString() == y.Value.ExactString()
		}
		return false
	}
	var bad []string
	sites := 0
	for _, fn := range c.P.AllFuncs(goctlScan) {
		for _, b := range fn.Blocks {
			for _, ins := range b.Instrs {
				ia, ok := ins.(*ssa.IndexAddr)
				if !ok {
					continue
				}
				if _, ok := isFieldLoadOf(ia.X, bufField); !ok {
					continue
				}
				sites++
				guarded := false
				var near string
				// walk up the dominator tree looking for the guarding branch
				for d := b; d != nil; d = d.Idom() {
					idom := d.Idom()
					if idom == nil || len(d.Preds) != 1 || d.Preds[0] != idom {
						continue
					}
					ifi, ok := idom.Instrs[len(idom.Instrs)-1].(*ssa.If)
					if !ok {
						continue
					}
					cmp, ok := ifi.Cond.(*ssa.BinOp)
					if !ok {
						continue
					}
					onTrue := idom.Succs[0] == d
					// normalise to "idx OP bound"
					var op token.Token
					switch {
					case sameExpr(cmp.X, ia.Index, 0) && isBound(cmp.Y):
						op = cmp.Op
					case sameExpr(cmp.Y, ia.Index, 0) && isBound(cmp.X):
						op = map[token.Token]token.Token{token.LSS: token.GTR, token.GTR: token.LSS, token.LEQ: token.GEQ, token.GEQ: token.LEQ, token.EQL: token.EQL, token.NEQ: token.NEQ}[cmp.Op]
					default:
						continue
					}
					// the edge taken must imply idx < bound
					if (op == token.LSS && onTrue) || (op == token.GEQ && !onTrue) {
						guarded = true
						break
					}
					near = fmt.Sprintf(" (the test at %s, `index %s length` %s, does not exclude index == length)", c.P.Pos(cmp.Pos()), op, map[bool]string{true: "taken", false: "not taken"}[onTrue])
				}
				if !guarded {
					bad = append(bad, fmt.Sprintf("%s: %s reads %s[…] without a dominating `index < length` outcome%s: an input that ends here panics the scanner (index out of range)", c.P.Pos(ia.Pos()), fn.RelString(fn.Pkg.Pkg), bufField, near))
				}
			}
		}
	}
	sort.Strings(bad)
	detail := strings.Join(bad, "; ")
	if len(sizeFields) == 0 && detail == "" {
		detail = "no field of Scanner provably holds len(" + bufField + ")"
	}
	o := c.R.Check(len(bad) == 0 && sites >= 2, rule, goctlScan+".Scanner."+bufField+"#bounds", fmt.Sprintf("every element read of the scanner's buffer is dominated by `index < length` for the same index expression (length = len(%s) or a field that only ever holds it: %v)", bufField, sizeFields), "-", detail, bad, sites)
	o.Sites = sites
}
