package rules

import (
	"fmt"
	"go/constant"
	"go/token"
	"go/types"
	"strings"

	"golang.org/x/tools/go/ssa"

	"gzverify/px"
)

// C01 — circuit breaker: exact accounting on all entry points and exits, gate shape.
func init() { register("C01", "other", c01) }

const brkPkg = "core/breaker"

func userPanics(ci *px.CallInfo) bool { return ci.IsDyn() }

func c01(c *Ctx) {
	c.R.RuleText = "path rules over every CFG path (incl. panic exits) of the breaker's throttle, its 8+2 entry points, wrappers and in-tree Allow users; decision tables for bucket.Add/defaultAcceptable; gate-shape facts for accept()"
	c.R.Explain = "Structural necessary conditions of C01 decided on all paths: a rejected call runs markDrop once, never the request, the fallback once iff present; an admitted call runs the request once and is marked exactly once (success only after acceptable(result of req) was true, failure on panic, panic re-raised), returns the request's error; the only rejection error is ErrServiceUnavailable and it is reachable only past the drop-ratio gate, the forced-pass test and the probabilistic test; every throttled admission refreshes lastPass and no rejection does; all Do*/Allow entry points and the package-level helpers forward exactly once unchanged; the in-tree promise users resolve the promise exactly once. NOT decided: the numeric admission law over 10 s histories, the probabilistic clause, interleavings."
	c.R.Assume = append(c.R.Assume, "panics originate at calls of user-supplied functions (req, fallback, acceptable)", "RollingWindow.Add/Reduce behave as their structural rules under C16 state")
	c01doReq(c)
	c01allow(c)
	c01bucket(c)
	c01accept(c)
	c01entry(c)
	c01wrappers(c)
	c01users(c)
	c01promiseUsers(c)
	// the rolling window whose sums the decision is computed from (same structure rules as C16.R5)
	c16windowAs(c, "C01.R7")
	c01registry(c)
	c01guarded(c)
	c01status(c)
	c01classify(c)
	// R13 (round 8)
	chainContains(c, "C01.R13", "Breaker", "BreakerHandler", "the breaker middleware")
}

func paramByType(f *ssa.Function, ts string) *ssa.Parameter { return paramOfType(f, ts) }

func c01doReq(c *Ctx) {
	rule := "C01.R1"
	f := c.fn(rule, brkPkg, "(*googleBreaker).doReq")
	if f == nil {
		return
	}
	reqP := paramByType(f, "func() error")
	fbP := paramByType(f, "core/breaker.Fallback")
	accP := paramByType(f, "core/breaker.Acceptable")
	if reqP == nil || fbP == nil || accP == nil {
		c.R.Undecided(rule, "core/breaker.(*googleBreaker).doReq", "anchor resolves", "parameters of types func() error, Fallback, Acceptable not found")
		return
	}
	isReq := px.DynWhere(func(s *px.Sym) bool { return isParam(s, reqP) })
	isFb := px.DynWhere(func(s *px.Sym) bool { return isParam(s, fbP) })
	isAcc := px.DynWhere(func(s *px.Sym) bool { return isParam(s, accP) })
	accept := calleeIs("core/breaker.(*googleBreaker).accept")
	drop := calleeIs("core/breaker.(*googleBreaker).markDrop")
	succ := calleeIs("core/breaker.(*googleBreaker).markSuccess")
	fail := calleeIs("core/breaker.(*googleBreaker).markFailure")
	ps := c.paths(rule, f, px.Config{MayPanic: userPanics})
	name := "core/breaker.(*googleBreaker).doReq"
	c.forall(rule, name+"#reject", "rejected ⇒ markDrop×1, request×0, no success/failure mark, fallback×1 iff non-nil (with the rejection error) and its result returned, else the rejection error returned", f, ps, func(p *px.Path) (bool, string) {
		a := p.First(accept)
		if a == nil || p.Count(accept) != 1 {
			return false, fmt.Sprintf("accept() consulted %d times", p.Count(accept))
		}
		switch p.Abs(a.Res).K {
		case px.Nil:
			return true, ""
		case px.Unknown:
			return false, "the admission decision is not tested"
		}
		if p.Count(drop) != 1 {
			return false, fmt.Sprintf("markDrop ×%d on a rejected call", p.Count(drop))
		}
		if p.Count(isReq) != 0 {
			return false, "the request runs although the call was rejected"
		}
		if p.Count(succ)+p.Count(fail) != 0 {
			return false, "a rejected call is also marked as success/failure"
		}
		fbs := p.All(isFb)
		if len(fbs) > 0 {
			if len(fbs) != 1 {
				return false, "fallback runs more than once"
			}
			if p.Abs(fbs[0].Call.FnSym).K != px.NonNil {
				return false, "fallback called without a nil test"
			}
			if len(fbs[0].Call.Args) != 1 || fbs[0].Call.Args[0].Strip(false) != a.Res {
				return false, "fallback does not receive the rejection error"
			}
			if fbs[0].PanicsHere {
				return true, ""
			}
			if len(p.Results) != 1 || p.Results[0].Strip(false) != fbs[0].Res {
				return false, "the fallback's result is not what is returned"
			}
			return true, ""
		}
		// no fallback call: allowed only when fallback is nil
		var fbSym *px.Sym
		for i := range p.Events {
			e := &p.Events[i]
			if e.Kind == px.EvBranch && e.Cond != nil && e.Cond.Kind == px.KBinOp {
				for _, s := range []*px.Sym{e.Cond.X, e.Cond.Y} {
					if isParam(s, fbP) {
						fbSym = s.Strip(false)
					}
				}
			}
		}
		if fbSym == nil || p.Abs(fbSym).K != px.Nil {
			return false, "rejected call skips the fallback although it was not established nil"
		}
		if len(p.Results) != 1 || p.Results[0].Strip(false) != a.Res {
			return false, "the rejection error is not what is returned"
		}
		return true, ""
	})
	c.forall(rule, name+"#admit", "admitted ⇒ request×1, markDrop×0, fallback×0, exactly one of markSuccess|markFailure on every exit incl. panic; success only after acceptable(result of request) returned true; a panic counts as failure and is re-raised; the request's error is returned unchanged", f, ps, func(p *px.Path) (bool, string) {
		a := p.First(accept)
		if a == nil || p.Abs(a.Res).K != px.Nil {
			return true, ""
		}
		if n := p.Count(isReq); n != 1 {
			return false, fmt.Sprintf("request called %d times on an admitted call", n)
		}
		if p.Count(drop) != 0 || p.Count(isFb) != 0 {
			return false, "admitted call runs markDrop or the fallback"
		}
		ns, nf := p.Count(succ), p.Count(fail)
		if ns+nf != 1 {
			return false, fmt.Sprintf("markSuccess×%d markFailure×%d (want exactly one mark)", ns, nf)
		}
		req := p.First(isReq)
		if !p.Precedes(isReq, px.Or(succ, fail)) {
			return false, "the call is marked before the request ran"
		}
		panicked := p.PanicOrigin() != nil
		if panicked {
			if ns != 0 {
				return false, "a panicking call is recorded as success"
			}
			if p.Exit != px.ExitPanic {
				return false, "the panic is swallowed instead of re-raised"
			}
			return true, ""
		}
		accs := p.All(isAcc)
		okAcc := false
		for _, e := range accs {
			if len(e.Call.Args) == 1 && e.Call.Args[0].Strip(false) == req.Res && e.Seq > req.Seq {
				okAcc = true
				if ns == 1 && p.Abs(e.Res).K != px.True {
					return false, "recorded as success although acceptable(err) was not established true"
				}
				if nf == 1 && p.Abs(e.Res).K != px.False {
					return false, "recorded as failure although acceptable(err) was not established false"
				}
			}
		}
		if !okAcc {
			return false, "acceptable is not applied to the request's error"
		}
		if len(accs) != 1 {
			return false, "acceptable is evaluated more than once"
		}
		if p.Exit != px.ExitReturn || len(p.Results) != 1 || p.Results[0].Strip(false) != req.Res {
			return false, "the request's error is not returned unchanged"
		}
		return true, ""
	})
}

func c01allow(c *Ctx) {
	rule := "C01.R1"
	f := c.fn(rule, brkPkg, "(*googleBreaker).allow")
	if f != nil {
		accept := calleeIs("core/breaker.(*googleBreaker).accept")
		drop := calleeIs("core/breaker.(*googleBreaker).markDrop")
		marks := calleeIs("core/breaker.(*googleBreaker).markSuccess", "core/breaker.(*googleBreaker).markFailure")
		ps := c.paths(rule, f, px.Config{})
		c.forall(rule, "core/breaker.(*googleBreaker).allow", "reject ⇒ markDrop×1 and (nil, rejection error); admit ⇒ a promise bound to this breaker and nil error, nothing marked yet", f, ps, func(p *px.Path) (bool, string) {
			a := p.First(accept)
			if a == nil || p.Count(accept) != 1 {
				return false, "accept() not consulted exactly once"
			}
			if p.Count(marks) != 0 {
				return false, "allow() marks success/failure itself"
			}
			if len(p.Results) != 2 {
				return false, "unexpected result arity"
			}
			switch p.Abs(a.Res).K {
			case px.NonNil:
				if p.Count(drop) != 1 {
					return false, fmt.Sprintf("markDrop ×%d on rejection", p.Count(drop))
				}
				if !px.IsNilConst(p.Results[0]) || p.Results[1].Strip(false) != a.Res {
					return false, "rejection does not return (nil, rejection error)"
				}
			case px.Nil:
				if p.Count(drop) != 0 {
					return false, "markDrop on admission"
				}
				if !px.IsNilConst(p.Results[1]) {
					return false, "admission returns a non-nil error"
				}
				pr := p.Results[0].Strip(false)
				if typeString(pr.Typ) != "core/breaker.googlePromise" {
					return false, "admission does not return a googlePromise (got " + typeString(pr.Typ) + ")"
				}
			default:
				return false, "admission decision not tested"
			}
			return true, ""
		})
	}
	for _, m := range []struct{ name, want, other string }{
		{"(googlePromise).Accept", "core/breaker.(*googleBreaker).markSuccess", "core/breaker.(*googleBreaker).markFailure"},
		{"(googlePromise).Reject", "core/breaker.(*googleBreaker).markFailure", "core/breaker.(*googleBreaker).markSuccess"},
	} {
		f := c.fn(rule, brkPkg, m.name)
		if f == nil {
			continue
		}
		ps := c.paths(rule, f, px.Config{})
		c.forall(rule, "core/breaker."+m.name, "resolving the promise records exactly one "+m.want, f, ps, func(p *px.Path) (bool, string) {
			if p.Count(calleeIs(m.want)) != 1 || p.Count(calleeIs(m.other, "core/breaker.(*googleBreaker).markDrop")) != 0 {
				return false, "does not record exactly one " + m.want
			}
			e := p.First(calleeIs(m.want))
			if !px.IsFieldLoad(e.Call.Recv, "b", nil) && !(e.Call.Recv.Kind == px.KField) {
				return false, "records on a breaker other than the promise's own"
			}
			return true, ""
		})
	}
}

func constVal(c *Ctx, pkg, name string) constant.Value {
	pk := c.P.Pkg(pkg)
	if pk == nil {
		return nil
	}
	if k, ok := pk.Types.Scope().Lookup(name).(*types.Const); ok {
		return k.Val()
	}
	return nil
}

// fieldIncrements counts, per field name, stores of (load field + 1) on the path.
func fieldIncrements(p *px.Path) map[string]int {
	out := map[string]int{}
	for i := range p.Events {
		e := &p.Events[i]
		if e.Kind != px.EvStore || e.Addr.Kind != px.KFieldAddr {
			continue
		}
		_, fname, _ := e.Addr.FieldAddrOf()
		v := e.Val
		if v.Kind == px.KBinOp && v.Op == token.ADD {
			a, b := v.X, v.Y
			if a.Kind == px.KConst {
				a, b = b, a
			}
			if b.Kind == px.KConst && p.Abs(b).K == px.ConstV && constant.Compare(p.Abs(b).C, token.EQL, constant.MakeInt64(1)) &&
				a.Kind == px.KLoad && a.X == e.Addr {
				out[fname]++
				continue
			}
		}
		out[fname+"!other"]++
	}
	return out
}

func c01bucket(c *Ctx) {
	rule := "C01.R2"
	f := c.fn(rule, brkPkg, "(*bucket).Add")
	if f != nil {
		inl := func(ci *px.CallInfo, d int) bool {
			return ci.Static != nil && ci.Static.Pkg == f.Pkg
		}
		for _, row := range []struct{ cname, field string }{{"success", "Success"}, {"fail", "Failure"}, {"drop", "Drop"}} {
			v := constVal(c, brkPkg, row.cname)
			if v == nil {
				c.R.Undecided(rule, "core/breaker."+row.cname, "anchor resolves", "constant not found")
				continue
			}
			ps := c.paths(rule, f, px.Config{Inline: inl, ParamAbs: map[string]px.Abs{f.Params[1].Name(): {K: px.ConstV, C: v}}})
			c.forall(rule, "core/breaker.(*bucket).Add("+row.cname+")", "Add("+row.cname+") increments Sum once and "+row.field+" once and nothing else", f, ps, func(p *px.Path) (bool, string) {
				inc := fieldIncrements(p)
				if inc["Sum"] != 1 || inc[row.field] != 1 || len(inc) != 2 {
					return false, fmt.Sprintf("increments: %v", inc)
				}
				return true, ""
			})
		}
	}
	for _, m := range []struct{ name, cname string }{{"markSuccess", "success"}, {"markFailure", "fail"}, {"markDrop", "drop"}} {
		f := c.fn(rule, brkPkg, "(*googleBreaker)."+m.name)
		if f == nil {
			continue
		}
		v := constVal(c, brkPkg, m.cname)
		ps := c.paths(rule, f, px.Config{})
		c.forall(rule, "core/breaker.(*googleBreaker)."+m.name, m.name+" adds exactly one `"+m.cname+"` sample to the rolling window", f, ps, func(p *px.Path) (bool, string) {
			adds := p.All(methodNamed("Add"))
			if len(adds) != 1 {
				return false, fmt.Sprintf("%d Add calls", len(adds))
			}
			e := adds[0]
			if !px.IsFieldLoad(e.Call.Recv, "stat", nil) {
				return false, "Add is not applied to the breaker's window"
			}
			last := e.Call.Args[len(e.Call.Args)-1]
			if a := p.Abs(last); a.K != px.ConstV || v == nil || !constant.Compare(a.C, token.EQL, v) {
				return false, "the sample added is not the constant " + m.cname
			}
			return true, ""
		})
	}
	// Reset covers every field
	if f := c.fn(rule, brkPkg, "(*bucket).Reset"); f != nil {
		ps := c.paths(rule, f, px.Config{})
		pk := c.P.Pkg(brkPkg)
		st, _ := pk.Types.Scope().Lookup("bucket").Type().Underlying().(*types.Struct)
		c.forall(rule, "core/breaker.(*bucket).Reset", "Reset zeroes every field of bucket", f, ps, func(p *px.Path) (bool, string) {
			zeroed := map[string]bool{}
			for _, e := range p.All(px.KindIs(px.EvStore)) {
				if _, fname, ok := e.Addr.FieldAddrOf(); ok {
					if a := p.Abs(e.Val); a.K == px.ConstV && constant.Sign(a.C) == 0 {
						zeroed[fname] = true
					}
				}
			}
			for i := 0; st != nil && i < st.NumFields(); i++ {
				if !zeroed[st.Field(i).Name()] {
					return false, "field " + st.Field(i).Name() + " is not reset"
				}
			}
			return true, ""
		})
	}
	// history(): accepts accumulates Success, total accumulates Sum
	if f := c.fn(rule, brkPkg, "(*googleBreaker).history"); f != nil {
		// the reducer, by role: the function literal handed to the window's Reduce
		reducers := map[*ssa.Function]bool{}
		for _, b := range f.Blocks {
			for _, ins := range b.Instrs {
				if call, ok := ins.(ssa.CallInstruction); ok && call.Common().StaticCallee() != nil && strings.HasPrefix(call.Common().StaticCallee().Name(), "Reduce") {
					for _, a := range call.Common().Args {
						if mc, ok := a.(*ssa.MakeClosure); ok {
							if fn, ok := mc.Fn.(*ssa.Function); ok {
								reducers[fn] = true
							}
						}
					}
				}
			}
		}
		cl := c.closure(rule, f, "reducer", func(a *ssa.Function) bool { return reducers[a] })
		// the summary is computed from the window on every call: each return follows one Reduce over b.stat and hands
		// out the accumulator it filled. A summary remembered from an earlier call (a snapshot with a lifetime) misses
		// what was recorded since — the admission law speaks about the calls recorded in the window, not about a copy.
		hps := c.paths(rule, f, px.Config{})
		c.forall(rule, "core/breaker.(*googleBreaker).history#live", "every result of history() comes from one Reduce over the rolling window made by this call (no remembered summary)", f, hps, func(p *px.Path) (bool, string) {
			if p.Exit != px.ExitReturn {
				return true, ""
			}
			n := 0
			for _, e := range p.All(px.KindIs(px.EvCall)) {
				if e.Call.Static != nil && strings.HasPrefix(e.Call.Static.Name(), "Reduce") && len(e.Call.Args) > 0 && px.IsFieldLoad(e.Call.Args[0], "stat", nil) && e.Seq < p.Last(px.KindIs(px.EvReturn)).Seq {
					n++
				}
			}
			if n != 1 {
				return false, fmt.Sprintf("a window summary is returned after %d Reduce calls over b.stat (a cached/remembered summary does not contain the calls recorded since it was taken: calls are rejected although the window is inside the law, or admitted although it is not)", n)
			}
			return true, ""
		})
		if cl != nil {
			ps := c.paths(rule, cl, px.Config{})
			c.forall(rule, "core/breaker.(*googleBreaker).history$reduce", "the window summary accumulates accepts += bucket.Success and total += bucket.Sum for every bucket", cl, ps, func(p *px.Path) (bool, string) {
				want := map[string]string{"accepts": "Success", "total": "Sum"}
				got := map[string]string{}
				for _, e := range p.All(px.KindIs(px.EvStore)) {
					_, fname, ok := e.Addr.FieldAddrOf()
					if !ok {
						continue
					}
					if _, tracked := want[fname]; !tracked {
						continue
					}
					v := e.Val
					if v.Kind == px.KBinOp && v.Op == token.ADD {
						for _, pair := range [][2]*px.Sym{{v.X, v.Y}, {v.Y, v.X}} {
							if pair[0].Kind == px.KLoad && pair[0].X == e.Addr && pair[1].Kind == px.KLoad {
								if _, src, ok := pair[1].X.FieldAddrOf(); ok {
									got[fname] = src
								}
							}
						}
					}
					if got[fname] == "" {
						got[fname] = "?"
					}
				}
				for k, w := range want {
					if got[k] != w {
						return false, fmt.Sprintf("%s accumulates %q, want bucket.%s", k, got[k], w)
					}
				}
				return true, ""
			})
		}
	}
	c.R.Min(rule, 9, "bucket.Add×3, mark*×3, Reset, history (live, reducer)")
}

func c01accept(c *Ctx) {
	rule := "C01.R3"
	f := c.fn(rule, brkPkg, "(*googleBreaker).accept")
	if f == nil {
		return
	}
	name := "core/breaker.(*googleBreaker).accept"
	ps := c.paths(rule, f, px.Config{})
	proba := calleeIs("core/mathx.(*Proba).TrueOnProba")
	setLP := func(e *px.Event) bool {
		return calleeIs("core/syncx.(*AtomicDuration).Set")(e) && px.IsFieldLoad(e.Call.Recv, "lastPass", nil)
	}
	loadLP := func(e *px.Event) bool {
		return calleeIs("core/syncx.(*AtomicDuration).Load")(e) && px.IsFieldLoad(e.Call.Recv, "lastPass", nil)
	}
	force := constVal(c, brkPkg, "forcePassDuration")
	if force == nil {
		c.R.Undecided(rule, name, "anchor resolves", "constant forcePassDuration not found")
		return
	}
	// classify branch facts on a path
	type facts struct {
		ratioPos   int // 1: established ratio>0 (or >=0); -1: established <=0; 0: untested
		lastPos    int // lastPass > 0: 1 true, -1 false
		sinceOver  int // Since(lastPass) > forcePassDuration
		sinceCalls int
	}
	getFacts := func(p *px.Path) facts {
		var fc facts
		lp := p.First(loadLP)
		for i := range p.Events {
			e := &p.Events[i]
			if e.Kind != px.EvBranch || e.Cond == nil || e.Cond.Kind != px.KBinOp {
				continue
			}
			x, y, op := e.Cond.X, e.Cond.Y, e.Cond.Op
			truth := e.Taken
			// normalise so that the constant is on the right
			if isConstSym(x) && !isConstSym(y) {
				x, y = y, x
				op = flip(op)
			}
			ay := p.Abs(y)
			if ay.K != px.ConstV {
				continue
			}
			gt, known := relTruth(op, truth) // does the fact establish x > y (1), x <= y (-1)
			if !known {
				continue
			}
			xs := x.Strip(true)
			switch {
			case constant.Sign(ay.C) == 0 && xs.Kind == px.KBinOp && xs.Op == token.QUO:
				fc.ratioPos = gt
			case constant.Sign(ay.C) == 0 && lp != nil && xs == lp.Res.Strip(true):
				fc.lastPos = gt
			case constant.Compare(ay.C, token.EQL, force) && lp != nil && isElapsedSince(xs, lp.Res):
				fc.sinceOver = gt
			}
		}
		return fc
	}
	c.forall(rule, name+"#errors", "the only non-nil result is ErrServiceUnavailable", f, ps, func(p *px.Path) (bool, string) {
		if p.Exit != px.ExitReturn || len(p.Results) != 1 {
			return false, "unexpected exit"
		}
		r := p.Results[0]
		if px.IsNilConst(r) || px.IsGlobalLoad(r, mod+brkPkg, "ErrServiceUnavailable") {
			return true, ""
		}
		return false, "returns " + r.Describe()
	})
	c.forall(rule, name+"#gate", "ErrServiceUnavailable only past the gate: drop ratio established positive, forced-pass test false, TrueOnProba true; no rejection refreshes lastPass", f, ps, func(p *px.Path) (bool, string) {
		if !px.IsGlobalLoad(p.Results[0], mod+brkPkg, "ErrServiceUnavailable") {
			return true, ""
		}
		fc := getFacts(p)
		if fc.ratioPos != 1 {
			return false, "rejects without having established dropRatio > 0"
		}
		if fc.lastPos == 1 && fc.sinceOver == 1 {
			return false, "rejects although more than forcePassDuration passed since the last throttled admission"
		}
		if fc.lastPos == 0 || (fc.lastPos == 1 && fc.sinceOver == 0) {
			return false, "rejects without evaluating the forced-pass test"
		}
		pr := p.All(proba)
		if len(pr) != 1 || p.Abs(pr[0].Res).K != px.True {
			return false, "rejects without TrueOnProba having returned true"
		}
		if a := pr[0].Call.Args[len(pr[0].Call.Args)-1].Strip(true); !derivesFromQuo(a, 0) {
			return false, "the probability passed to TrueOnProba does not derive from the drop ratio"
		}
		if p.Count(setLP) != 0 {
			return false, "a rejected call refreshes lastPass (this defeats the forced pass)"
		}
		return true, ""
	})
	forced := 0
	c.forall(rule, name+"#forcedpass", "while throttling, lastPass>0 ∧ Since(lastPass)>forcePassDuration ⇒ admitted without consulting the random test, lastPass refreshed once", f, ps, func(p *px.Path) (bool, string) {
		fc := getFacts(p)
		if !(fc.ratioPos == 1 && fc.lastPos == 1 && fc.sinceOver == 1) {
			return true, ""
		}
		forced++
		if !px.IsNilConst(p.Results[0]) {
			return false, "not admitted"
		}
		if p.Count(proba) != 0 {
			return false, "the random test runs before the forced pass is decided"
		}
		if p.Count(setLP) != 1 {
			return false, fmt.Sprintf("lastPass.Set ×%d", p.Count(setLP))
		}
		return true, ""
	})
	c.R.Check(forced > 0, rule, name+"#forcedpass-exists", "a forced-pass path exists (lastPass>0 ∧ Since(lastPass)>forcePassDuration tested against the 1 s constant)", posOf(c, f), "no path tests lastPass > 0 and timex.Since(lastPass) > forcePassDuration", nil, len(ps))
	c.forall(rule, name+"#lastpass", "every throttled admission (ratio>0 and admitted) refreshes lastPass exactly once; un-throttled admissions do not touch it", f, ps, func(p *px.Path) (bool, string) {
		if !px.IsNilConst(p.Results[0]) {
			return true, ""
		}
		fc := getFacts(p)
		n := p.Count(setLP)
		if fc.ratioPos == 1 && n != 1 {
			return false, fmt.Sprintf("throttled admission sets lastPass ×%d", n)
		}
		if fc.ratioPos == -1 && n != 0 {
			return false, "un-throttled admission touches lastPass"
		}
		if fc.ratioPos == 0 {
			return false, "admission without testing the drop ratio"
		}
		for _, e := range p.All(setLP) {
			if a := e.Call.Args[len(e.Call.Args)-1]; !px.ResultOf(a, 0, func(ci *px.CallInfo) bool { return shortName(ci) == "core/timex.Now" }) {
				return false, "lastPass is not set to timex.Now()"
			}
		}
		return true, ""
	})
	// constants named in the statement
	for _, k := range []struct {
		name string
		want constant.Value
		txt  string
	}{
		{"window", constant.MakeInt64(10_000_000_000), "10 s window"},
		{"forcePassDuration", constant.MakeInt64(1_000_000_000), "1 s forced pass"},
		{"protection", constant.MakeInt64(5), "protection of 5 calls"},
	} {
		v := constVal(c, brkPkg, k.name)
		ok := v != nil && constant.Compare(constant.ToInt(v), token.EQL, k.want)
		c.R.Check(ok, rule, "core/breaker."+k.name, "constant from the statement: "+k.txt, "-", fmt.Sprintf("%s = %v", k.name, v), nil, 1)
	}
	if kv, mk := constVal(c, brkPkg, "k"), constVal(c, brkPkg, "minK"); kv != nil && mk != nil {
		// 10% of accepted ones: weight w ≥ minK = 1.1 ⇒ 1/w-1 … statement: "5 plus 10% of the accepted ones"
		ok := constant.Compare(mk, token.GEQ, constant.MakeFromLiteral("1.1", token.FLOAT, 0)) && constant.Compare(kv, token.GEQ, mk)
		c.R.Check(ok, rule, "core/breaker.minK", "weight floor minK ≥ 1.1 (the 10% of the statement) and k ≥ minK", "-", fmt.Sprintf("k=%v minK=%v", kv, mk), nil, 1)
	} else {
		c.R.Undecided(rule, "core/breaker.minK", "anchor resolves", "constants k/minK not found")
	}
}

// isElapsedSince: x is timex.Since(t) or timex.Now() - t.
func isElapsedSince(x, t *px.Sym) bool {
	x = x.Strip(true)
	t = t.Strip(true)
	isCall := func(s *px.Sym, name string) bool {
		s = s.Strip(true)
		return s != nil && s.Kind == px.KCall && s.Call != nil && shortName(s.Call) == name
	}
	if isCall(x, "core/timex.Since") && len(x.Call.Args) == 1 && x.Call.Args[0].Strip(true) == t {
		return true
	}
	if x.Kind == px.KBinOp && x.Op == token.SUB && isCall(x.X, "core/timex.Now") && x.Y.Strip(true) == t {
		return true
	}
	return false
}

func flip(op token.Token) token.Token {
	switch op {
	case token.LSS:
		return token.GTR
	case token.LEQ:
		return token.GEQ
	case token.GTR:
		return token.LSS
	case token.GEQ:
		return token.LEQ
	}
	return op
}

// relTruth: given "x op y" evaluated to truth, does it establish x>y-ish (1: x>y or x>=y), or x<=y-ish (-1)?
func relTruth(op token.Token, truth bool) (int, bool) {
	switch op {
	case token.GTR, token.GEQ:
		if truth {
			return 1, true
		}
		return -1, true
	case token.LSS, token.LEQ:
		if truth {
			return -1, true
		}
		return 1, true
	}
	return 0, false
}

func derivesFromQuo(s *px.Sym, d int) bool {
	if s == nil || d > 8 {
		return false
	}
	s = s.Strip(true)
	if s.Kind == px.KBinOp {
		if s.Op == token.QUO {
			return true
		}
		return derivesFromQuo(s.X, d+1) || derivesFromQuo(s.Y, d+1)
	}
	return false
}

func c01entry(c *Ctx) {
	rule := "C01.R4"
	pk := c.P.Pkg(brkPkg)
	if pk == nil {
		c.R.Undecided(rule, brkPkg, "anchor resolves", "package missing")
		return
	}
	obj, _ := pk.Types.Scope().Lookup("circuitBreaker").(*types.TypeName)
	if obj == nil {
		c.R.Undecided(rule, "core/breaker.circuitBreaker", "anchor resolves", "type missing")
		return
	}
	named := obj.Type().(*types.Named)
	defAcc := c.P.Func(brkPkg, "defaultAcceptable")
	inl := func(ci *px.CallInfo, d int) bool {
		return ci.Static != nil && ci.Recv != nil && strings.Contains(ci.Static.String(), "circuitBreaker")
	}
	doReq := func(e *px.Event) bool {
		return e.Kind == px.EvCall && e.Call.Method != nil && e.Call.Method.Name() == "doReq" && px.IsFieldLoad(e.Call.Recv, "throttle", nil)
	}
	allow := func(e *px.Event) bool {
		return e.Kind == px.EvCall && e.Call.Method != nil && e.Call.Method.Name() == "allow" && px.IsFieldLoad(e.Call.Recv, "throttle", nil)
	}
	for i := 0; i < named.NumMethods(); i++ {
		m := named.Method(i)
		isDo := strings.HasPrefix(m.Name(), "Do")
		isAllow := strings.HasPrefix(m.Name(), "Allow")
		if !isDo && !isAllow {
			continue
		}
		f := c.P.FuncOf(m)
		if f == nil || f.Blocks == nil {
			continue
		}
		c.R.Funcs["core/breaker.(*circuitBreaker)."+m.Name()] = true
		reqP := paramByType(f, "func() error")
		fbP := paramByType(f, "core/breaker.Fallback")
		accP := paramByType(f, "core/breaker.Acceptable")
		ctxP := paramByType(f, "context.Context")
		ps := c.paths(rule, f, px.Config{Inline: inl})
		cname := "core/breaker.(*circuitBreaker)." + m.Name()
		c.forall(rule, cname, "reaches the throttle exactly once with its own req/fallback/acceptable (nil / defaultAcceptable when it has none) and returns the throttle's result; a done context returns ctx.Err() without entering the throttle", f, ps, func(p *px.Path) (bool, string) {
			target := doReq
			if isAllow {
				target = allow
			}
			// context already done?
			if ctxP != nil {
				sel := p.First(px.KindIs(px.EvSelect))
				if sel == nil {
					return false, "the ctx variant does not test ctx.Done()"
				}
				if sel.SelIndex >= 0 {
					if !px.ResultOf(sel.Addr, 0, func(ci *px.CallInfo) bool {
						return ci.Method != nil && ci.Method.Name() == "Done" && isParam(ci.Recv, ctxP)
					}) {
						return false, "the select does not wait on the caller's ctx.Done()"
					}
					if p.Count(target) != 0 {
						return false, "the throttle is entered although the context is done"
					}
					last := p.Results[len(p.Results)-1]
					if !px.ResultOf(last, 0, func(ci *px.CallInfo) bool {
						return ci.Method != nil && ci.Method.Name() == "Err" && isParam(ci.Recv, ctxP)
					}) {
						return false, "a done context does not return ctx.Err()"
					}
					return true, ""
				}
			}
			if n := p.Count(target); n != 1 {
				return false, fmt.Sprintf("throttle entered %d times", n)
			}
			e := p.First(target)
			// results returned unchanged
			for i, r := range p.Results {
				var want *px.Sym
				if len(p.Results) == 1 {
					want = e.Res
				} else {
					want = findExtract(p, e.Res, i)
				}
				if want == nil || r.Strip(false) != want {
					return false, "the throttle's result is not returned unchanged"
				}
			}
			if isAllow {
				return true, ""
			}
			if len(e.Call.Args) != 3 {
				return false, "unexpected doReq arity"
			}
			if !isParam(e.Call.Args[0], reqP) {
				return false, "req is not forwarded unchanged"
			}
			if fbP != nil {
				if !isParam(e.Call.Args[1], fbP) {
					return false, "fallback is not forwarded unchanged"
				}
			} else if !px.IsNilConst(e.Call.Args[1]) {
				return false, "an entry point without fallback passes a non-nil fallback"
			}
			if accP != nil {
				if !isParam(e.Call.Args[2], accP) {
					return false, "acceptable is not forwarded unchanged"
				}
			} else {
				a := e.Call.Args[2].Strip(false)
				if a.Kind != px.KFunc || a.Fn != defAcc {
					return false, "an entry point without acceptable does not pass defaultAcceptable"
				}
			}
			return true, ""
		})
	}
	c.R.Min(rule, 10, "8 Do* methods + Allow + AllowCtx of circuitBreaker")
	// defaultAcceptable ≡ err == nil
	if defAcc != nil && defAcc.Blocks != nil {
		for _, row := range []struct {
			in   px.AbsK
			want px.AbsK
		}{{px.Nil, px.True}, {px.NonNil, px.False}} {
			ps := c.paths(rule, defAcc, px.Config{ParamAbs: map[string]px.Abs{defAcc.Params[0].Name(): {K: row.in}}})
			c.forall(rule, fmt.Sprintf("core/breaker.defaultAcceptable(%v)", px.Abs{K: row.in}), "defaultAcceptable(err) is err == nil", defAcc, ps, func(p *px.Path) (bool, string) {
				if len(p.Results) != 1 || p.Abs(p.Results[0]).K != row.want {
					return false, "wrong verdict " + p.Abs(p.Results[0]).String()
				}
				return true, ""
			})
		}
	} else {
		c.R.Undecided(rule, "core/breaker.defaultAcceptable", "anchor resolves", "function missing")
	}
	// package-level helpers forward to the same-named method of the named breaker
	rule2 := "C01.R4b"
	sp := c.P.SSAPkg(brkPkg)
	doFn := c.P.Func(brkPkg, "do")
	if doFn == nil {
		c.R.Undecided(rule2, "core/breaker.do", "anchor resolves", "function missing")
		return
	}
	for _, mem := range sortedMembers(sp) {
		f, ok := mem.(*ssa.Function)
		if !ok || !strings.HasPrefix(f.Name(), "Do") || f.Blocks == nil {
			continue
		}
		c.R.Funcs["core/breaker."+f.Name()] = true
		ps := c.paths(rule2, f, px.Config{Model: func(in *px.Interp, st *px.State, ci *px.CallInfo) *px.Model {
			if ci.Static == doFn && len(ci.Args) == 2 {
				return &px.Model{Invoke: []*px.Sym{ci.Args[1]}}
			}
			return nil
		}})
		c.forall(rule2, "core/breaker."+f.Name(), "package-level helper forwards once to the named breaker's method of the same name with its own arguments and returns the result", f, ps, func(p *px.Path) (bool, string) {
			d := p.All(px.CallsFn(doFn))
			if len(d) != 1 || !isParam(d[0].Call.Args[0], f.Params[firstStringParam(f)]) {
				return false, "does not call do(name, …) once with its own name"
			}
			if len(p.Results) != 1 || p.Results[0].Strip(false) != d[0].Res {
				return false, "result of do() is not returned"
			}
			var inner []*px.Event
			for _, e := range p.All(px.KindIs(px.EvCall)) {
				if e.Call.Method != nil && e.Via != nil {
					inner = append(inner, e)
				}
			}
			if len(inner) != 1 || inner[0].Call.Method.Name() != f.Name() {
				return false, "the closure does not call the breaker's " + f.Name() + " exactly once"
			}
			// arguments: own parameters except the name, in order
			var want []*ssa.Parameter
			for i, pr := range f.Params {
				if i != firstStringParam(f) {
					want = append(want, pr)
				}
			}
			if len(inner[0].Call.Args) != len(want) {
				return false, "argument count differs"
			}
			for i, a := range inner[0].Call.Args {
				if !capturedParam(p, a, want[i]) {
					return false, fmt.Sprintf("argument %d is not the helper's own %s", i, want[i].Name())
				}
			}
			// closure returns the method's result
			for i := range p.Events {
				e := &p.Events[i]
				if e.Kind == px.EvReturn && e.Via != nil {
					if len(e.Results) != 1 || e.Results[0].Strip(false) != inner[0].Res {
						return false, "the closure does not return the breaker's result"
					}
				}
			}
			return true, ""
		})
	}
	c.R.Min(rule2, 8, "8 package-level Do* helpers")
	if ex := c.fn(rule2, brkPkg, "do"); ex != nil {
		ps := c.paths(rule2, ex, px.Config{})
		c.forall(rule2, "core/breaker.do", "do(name, execute) applies execute once to GetBreaker(name) and returns its result", ex, ps, func(p *px.Path) (bool, string) {
			calls := p.All(px.DynWhere(func(s *px.Sym) bool { return s.Kind == px.KParam }))
			if len(calls) != 1 {
				return false, "execute not called exactly once"
			}
			if len(p.Results) != 1 || p.Results[0].Strip(false) != calls[0].Res {
				return false, "result not returned"
			}
			if !px.ResultOf(calls[0].Call.Args[0], 0, func(ci *px.CallInfo) bool { return shortName(ci) == "core/breaker.GetBreaker" }) {
				return false, "execute is not applied to GetBreaker(name)"
			}
			return true, ""
		})
	}
}

func firstStringParam(f *ssa.Function) int {
	for i, p := range f.Params {
		if b, ok := p.Type().Underlying().(*types.Basic); ok && b.Kind() == types.String {
			return i
		}
	}
	return 0
}

// capturedParam: sym is parameter prm of the root, directly or as the load of the
// cell a closure captured it in.
func capturedParam(p *px.Path, s *px.Sym, prm *ssa.Parameter) bool {
	s = s.Strip(false)
	if isParam(s, prm) {
		return true
	}
	return false
}

func sortedMembers(sp *ssa.Package) []ssa.Member {
	var names []string
	for n := range sp.Members {
		names = append(names, n)
	}
	sortStrings(names)
	var out []ssa.Member
	for _, n := range names {
		out = append(out, sp.Members[n])
	}
	return out
}

func c01wrappers(c *Ctx) {
	rule := "C01.R5"
	f := c.fn(rule, brkPkg, "(loggedThrottle).doReq")
	if f != nil {
		reqP := paramByType(f, "func() error")
		fbP := paramByType(f, "core/breaker.Fallback")
		accP := paramByType(f, "core/breaker.Acceptable")
		inl := func(ci *px.CallInfo, d int) bool { return ci.Static != nil && ci.Static.Name() == "logError" }
		ps := c.paths(rule, f, px.Config{Inline: inl})
		inner := func(e *px.Event) bool {
			return e.Kind == px.EvCall && e.Call.Method != nil && e.Call.Method.Name() == "doReq"
		}
		var wrapper *ssa.Function
		c.forall(rule, "core/breaker.(loggedThrottle).doReq", "forwards once to the wrapped throttle with req and fallback unchanged and returns its result unchanged", f, ps, func(p *px.Path) (bool, string) {
			es := p.All(inner)
			if len(es) != 1 {
				return false, fmt.Sprintf("inner doReq ×%d", len(es))
			}
			a := es[0].Call.Args
			if len(a) != 3 || !isParam(a[0], reqP) || !isParam(a[1], fbP) {
				return false, "req/fallback not forwarded unchanged"
			}
			if w := a[2].Strip(false); w.Kind == px.KClosure {
				wrapper = w.Fn
			} else if !isParam(a[2], accP) {
				return false, "acceptable neither forwarded nor wrapped"
			}
			if len(p.Results) != 1 || p.Results[0].Strip(false) != es[0].Res {
				return false, "the inner result is not returned unchanged"
			}
			return true, ""
		})
		if wrapper != nil {
			ps := c.paths(rule, wrapper, px.Config{})
			c.forall(rule, "core/breaker.(loggedThrottle).doReq$acceptable", "the acceptable wrapper evaluates the caller's predicate once on its own argument and returns exactly its verdict", wrapper, ps, func(p *px.Path) (bool, string) {
				calls := p.All(px.DynWhere(func(s *px.Sym) bool {
					return s.Kind == px.KFreeVar || (s.Kind == px.KLoad && s.X != nil && s.X.Kind == px.KFreeVar)
				}))
				if len(calls) != 1 {
					return false, fmt.Sprintf("caller's predicate evaluated %d times", len(calls))
				}
				if len(calls[0].Call.Args) != 1 || !isParam(calls[0].Call.Args[0], wrapper.Params[0]) {
					return false, "predicate not applied to the wrapper's argument"
				}
				if len(p.Results) != 1 || p.Results[0].Strip(false) != calls[0].Res {
					return false, "wrapper does not return the predicate's verdict"
				}
				return true, ""
			})
		}
	}
	if f := c.fn(rule, brkPkg, "(loggedThrottle).logError"); f != nil {
		ps := c.paths(rule, f, px.Config{})
		c.forall(rule, "core/breaker.(loggedThrottle).logError", "logError returns its argument", f, ps, func(p *px.Path) (bool, string) {
			if len(p.Results) != 1 || !isParam(p.Results[0], f.Params[1]) {
				return false, "returns something else"
			}
			return true, ""
		})
	}
	if f := c.fn(rule, brkPkg, "(loggedThrottle).allow"); f != nil {
		inl := func(ci *px.CallInfo, d int) bool { return ci.Static != nil && ci.Static.Name() == "logError" }
		ps := c.paths(rule, f, px.Config{Inline: inl})
		c.forall(rule, "core/breaker.(loggedThrottle).allow", "forwards once to the wrapped throttle; returns a promise wrapping the inner promise and the inner error unchanged", f, ps, func(p *px.Path) (bool, string) {
			es := p.All(func(e *px.Event) bool {
				return e.Kind == px.EvCall && e.Call.Method != nil && e.Call.Method.Name() == "allow"
			})
			if len(es) != 1 {
				return false, "inner allow not called exactly once"
			}
			if len(p.Results) != 2 || p.Results[1].Strip(false) != findExtract(p, es[0].Res, 1) {
				return false, "inner error not returned unchanged"
			}
			return true, ""
		})
	}
	for _, m := range []struct{ name, inner string }{{"(promiseWithReason).Accept", "Accept"}, {"(promiseWithReason).Reject", "Reject"}} {
		f := c.fn(rule, brkPkg, m.name)
		if f == nil {
			continue
		}
		ps := c.paths(rule, f, px.Config{})
		c.forall(rule, "core/breaker."+m.name, "forwards once to the inner promise's "+m.inner, f, ps, func(p *px.Path) (bool, string) {
			n, other := 0, 0
			for _, e := range p.All(px.KindIs(px.EvCall)) {
				if e.Call.Method != nil && e.Call.Method.Pkg() != nil && e.Call.Method.Pkg().Path() == mod+brkPkg {
					if e.Call.Method.Name() == m.inner {
						n++
					} else {
						other++
					}
				}
			}
			if n != 1 || other != 0 {
				return false, fmt.Sprintf("inner %s ×%d, other promise methods ×%d", m.inner, n, other)
			}
			return true, ""
		})
	}
	c.R.Min(rule, 6, "loggedThrottle.doReq(+wrapper), logError, allow, promiseWithReason.Accept/Reject")
}

func c01users(c *Ctx) {
	rule := "C01.R6"
	f := c.fn(rule, "rest/handler", "BreakerHandler")
	if f == nil {
		return
	}
	// the request-serving closure: the one calling next.ServeHTTP
	cl := c.closure(rule, f, "handler closure", func(a *ssa.Function) bool {
		return callsInBody(a, func(cc *ssa.CallCommon) bool { return cc.IsInvoke() && cc.Method.Name() == "ServeHTTP" })
	})
	if cl == nil {
		return
	}
	ps := c.paths(rule, cl, px.Config{MayPanic: func(ci *px.CallInfo) bool { return ci.Method != nil && ci.Method.Name() == "ServeHTTP" }})
	allow := func(e *px.Event) bool {
		return e.Kind == px.EvCall && e.Call.Method != nil && e.Call.Method.Name() == "Allow" && e.Call.Method.Pkg().Path() == mod+brkPkg
	}
	next := func(e *px.Event) bool {
		return e.Kind == px.EvCall && e.Call.Method != nil && e.Call.Method.Name() == "ServeHTTP"
	}
	resolve := func(e *px.Event) bool {
		return e.Kind == px.EvCall && e.Call.Method != nil && (e.Call.Method.Name() == "Accept" || e.Call.Method.Name() == "Reject") && e.Call.Method.Pkg() != nil && e.Call.Method.Pkg().Path() == mod+brkPkg
	}
	writeHeader := func(e *px.Event) bool {
		return e.Kind == px.EvCall && e.Call.Method != nil && e.Call.Method.Name() == "WriteHeader"
	}
	c.forall(rule, "rest/handler.BreakerHandler$serve", "rejected ⇒ next×0 and 503; admitted ⇒ next×1 and the promise resolved exactly once on every exit incl. panic", cl, ps, func(p *px.Path) (bool, string) {
		a := p.First(allow)
		if a == nil || p.Count(allow) != 1 {
			return false, "Allow() not consulted exactly once"
		}
		es := findExtract(p, a.Res, 1)
		if es == nil {
			return false, "the error of Allow() is ignored"
		}
		switch p.Abs(es).K {
		case px.NonNil:
			if p.Count(next) != 0 {
				return false, "rejected request reaches the handler"
			}
			if p.Count(resolve) != 0 {
				return false, "rejected request resolves a promise"
			}
			wh := p.All(writeHeader)
			if len(wh) != 1 {
				return false, "rejection does not write a status"
			}
			if av := p.Abs(wh[0].Call.Args[0]); av.K != px.ConstV || !constant.Compare(av.C, token.EQL, constant.MakeInt64(503)) {
				return false, "rejection status is not 503"
			}
		case px.Nil:
			if p.Count(next) != 1 {
				return false, fmt.Sprintf("handler called %d times", p.Count(next))
			}
			if p.Count(resolve) != 1 {
				return false, fmt.Sprintf("promise resolved %d times", p.Count(resolve))
			}
			r := p.First(resolve)
			if r.Call.Recv.Strip(false) != findExtract(p, a.Res, 0) {
				return false, "a different promise is resolved"
			}
			if r.Seq < p.First(next).Seq {
				return false, "promise resolved before the handler ran"
			}
			if p.PanicOrigin() != nil && p.Exit != px.ExitPanic {
				return false, "panic swallowed"
			}
			if p.PanicOrigin() != nil && r.Call.Method.Name() != "Reject" {
				return false, "a handler that panicked is recorded with Accept: the statement counts a panic as a failure (the deferred accounting reads the status recorder, which still holds its initial 200 when the handler never wrote a status)"
			}
		default:
			return false, "Allow()'s error is not tested"
		}
		return true, ""
	})
	// zRPC / redis / sqlx users go through Do* with the caller's ctx and return the result (possibly mapped by a pure function)
	type user struct{ pkg, fn, closure string }
	for _, u := range []user{
		{"zrpc/internal/clientinterceptors", "BreakerInterceptor", ""},
		{"zrpc/internal/serverinterceptors", "StreamBreakerInterceptor", ""},
		{"zrpc/internal/serverinterceptors", "UnaryBreakerInterceptor", ""},
	} {
		f := c.fn(rule, u.pkg, u.fn)
		if f == nil {
			continue
		}
		ps := c.paths(rule, f, px.Config{Model: func(in *px.Interp, st *px.State, ci *px.CallInfo) *px.Model {
			if ci.Static != nil && ci.Static.Pkg != nil && ci.Static.Pkg.Pkg.Path() == mod+brkPkg && strings.HasPrefix(ci.Static.Name(), "Do") {
				for _, a := range ci.Args {
					if a.Strip(false).Kind == px.KClosure {
						return &px.Model{Invoke: []*px.Sym{a}, Maybe: true}
					}
				}
			}
			return nil
		}, MayPanic: userPanics})
		brk := func(e *px.Event) bool {
			return e.Kind == px.EvCall && e.Call.Static != nil && e.Call.Static.Pkg != nil && e.Call.Static.Pkg.Pkg.Path() == mod+brkPkg && strings.HasPrefix(e.Call.Static.Name(), "Do")
		}
		c.forall(rule, u.pkg+"."+u.fn, "goes through the breaker exactly once; the wrapped call runs at most once and only inside the breaker; the breaker's verdict reaches the caller (unchanged or through convertError)", f, ps, func(p *px.Path) (bool, string) {
			if p.Count(brk) != 1 {
				return false, fmt.Sprintf("breaker entered %d times", p.Count(brk))
			}
			b := p.First(brk)
			inner := p.All(px.DynWhere(func(s *px.Sym) bool { return true }))
			for _, e := range inner {
				if e.Via == nil {
					return false, "the wrapped call runs outside the breaker"
				}
			}
			if len(inner) > 1 {
				return false, "the wrapped call runs more than once"
			}
			if p.Exit == px.ExitReturn {
				last := p.Results[len(p.Results)-1].Strip(false)
				if last != b.Res && !px.ResultOf(last, 0, func(ci *px.CallInfo) bool {
					return ci.Static != nil && ci.Static.Name() == "convertError" && len(ci.Args) == 1 && ci.Args[0].Strip(false) == b.Res
				}) {
					return false, "the breaker's error does not reach the caller"
				}
			}
			return true, ""
		})
	}
	if f := c.fn(rule, "zrpc/internal/serverinterceptors", "convertError"); f != nil {
		ps := c.paths(rule, f, px.Config{})
		c.forall(rule, "zrpc/internal/serverinterceptors.convertError", "nil stays nil; a non-nil error stays non-nil (unchanged or converted to a status error)", f, ps, func(p *px.Path) (bool, string) {
			in := f.Params[0]
			var inSym *px.Sym
			for i := range p.Events {
				e := &p.Events[i]
				if e.Kind == px.EvBranch && e.Cond.Kind == px.KBinOp {
					for _, s := range []*px.Sym{e.Cond.X, e.Cond.Y} {
						if isParam(s, in) {
							inSym = s.Strip(false)
						}
					}
				}
			}
			r := p.Results[0].Strip(false)
			if inSym != nil && p.Abs(inSym).K == px.Nil {
				if !px.IsNilConst(r) && r != inSym {
					return false, "nil error converted to non-nil"
				}
				return true, ""
			}
			if px.IsNilConst(r) {
				return false, "non-nil error converted to nil"
			}
			return true, ""
		})
	}
	c.R.Min(rule, 5, "BreakerHandler, 3 zRPC interceptors, convertError")
}

// c01registry: the named-breaker registry hands every caller of one name the same instance.
func c01registry(c *Ctx) {
	rule := "C01.R8"
	if f := c.fn(rule, brkPkg, "GetBreaker"); f != nil {
		ps := c.paths(rule, f, px.Config{})
		c.forall(rule, brkPkg+".GetBreaker", "a breaker is stored under a name only while the write lock is held and only after a lookup inside that same lock hold found the name absent; the instance returned is the registered one (concurrent first users must not get separate windows)", f, ps, func(p *px.Path) (bool, string) {
			w := 0
			var lastMissInHold bool
			var stored *px.Sym
			for i := range p.Events {
				e := &p.Events[i]
				switch {
				case e.Kind == px.EvCall && e.Call.Obj() != nil && e.Call.Obj().Name() == "Lock":
					w++
					lastMissInHold = false
				case e.Kind == px.EvCall && e.Call.Obj() != nil && e.Call.Obj().Name() == "Unlock":
					w--
					lastMissInHold = false
				case e.Kind == px.EvLookup && w > 0:
					if okS := findExtract(p, e.Res, 1); okS != nil && p.Abs(okS).K == px.False {
						lastMissInHold = true
					}
				case e.Kind == px.EvMapUpdate:
					if w <= 0 {
						return false, "the registry is written without the write lock"
					}
					if !lastMissInHold {
						return false, "a breaker is registered without re-checking, under the write lock, that the name is still absent: two concurrent first users each create and register their own instance — calls recorded on the loser vanish from the window (and a NoBreakerFor entry can be overwritten)"
					}
					if !isParam(e.Key, f.Params[0]) {
						return false, "registered under another name"
					}
					stored = e.Val.Strip(false)
				}
			}
			if p.Exit == px.ExitReturn && stored != nil && p.Results[0].Strip(false) != stored {
				return false, "the returned breaker is not the one that was registered"
			}
			return true, ""
		})
	}
	// in-tree users that have a context use the context-aware entry point with that context
	sites := 0
	var bad []string
	ctxT := "context.Context"
	for _, pk := range c.P.Pkgs {
		rel := strings.TrimPrefix(pk.PkgPath, mod)
		if rel == brkPkg {
			continue
		}
		for _, fn := range c.P.AllFuncs(rel) {
			for _, b := range fn.Blocks {
				for _, ins := range b.Instrs {
					call, ok := ins.(ssa.CallInstruction)
					if !ok {
						continue
					}
					cc := call.Common()
					var callee *types.Func
					if cc.IsInvoke() {
						callee = cc.Method
					} else if sc := cc.StaticCallee(); sc != nil {
						callee, _ = sc.Object().(*types.Func)
					}
					if callee == nil || callee.Pkg() == nil || callee.Pkg().Path() != mod+brkPkg || !strings.HasPrefix(callee.Name(), "Do") {
						continue
					}
					sites++
					if strings.HasSuffix(callee.Name(), "Ctx") {
						continue
					}
					// a context in scope? (parameters of the function or of its enclosing functions)
					hasCtx := false
					for g := fn; g != nil; g = g.Parent() {
						for _, prm := range g.Params {
							if typeString(prm.Type()) == ctxT {
								hasCtx = true
							}
						}
					}
					if hasCtx {
						bad = append(bad, fmt.Sprintf("%s.%s calls breaker.%s although a context is in scope (%s)", rel, fn.Name(), callee.Name(), c.P.Pos(ins.Pos())))
					}
				}
			}
		}
	}
	o := c.R.Check(len(bad) == 0 && sites >= 10, rule, "breaker users with a context", "every in-tree call of a breaker Do* entry point from code that has a context.Context uses the ...Ctx variant (a call whose context is already done is neither run nor recorded — otherwise expired-context calls count as failures of a healthy callee and open the breaker)", "-", strings.Join(bad, "; "), bad, 0)
	o.Sites = sites
}

// c01guarded (C01.R9): a method that puts its work under a breaker held in a field of its receiver
// does *all* of the fallible work through the receiver's collaborators inside the guarded closure.
// A collaborator call made before the breaker (fetching the connection first, seed r3-C01-2) runs
// for rejected calls too and its failures are never recorded: with the callee down the breaker
// never opens for that method.
func c01guarded(c *Ctx) {
	rule := "C01.R9"
	brkNamed := func(t types.Type) bool {
		n, ok := t.(*types.Named)
		return ok && n.Obj().Name() == "Breaker" && n.Obj().Pkg() != nil && n.Obj().Pkg().Path() == mod+brkPkg
	}
	errT := types.Universe.Lookup("error").Type()
	returnsErr := func(sig *types.Signature) bool {
		for i := 0; i < sig.Results().Len(); i++ {
			if types.Identical(sig.Results().At(i).Type(), errT) {
				return true
			}
		}
		return false
	}
	recvNamed := func(f *ssa.Function) *types.Named {
		for f.Parent() != nil {
			f = f.Parent()
		}
		if f.Signature.Recv() == nil {
			return nil
		}
		t := f.Signature.Recv().Type()
		if p, ok := t.(*types.Pointer); ok {
			t = p.Elem()
		}
		n, _ := t.(*types.Named)
		return n
	}
	// field load of a value of (pointer to) named type n; returns the field
	fieldOf := func(v ssa.Value, n *types.Named) *types.Var {
		u, ok := v.(*ssa.UnOp)
		if !ok {
			if f, ok := v.(*ssa.Field); ok {
				if types.Identical(f.X.Type(), n) {
					return n.Underlying().(*types.Struct).Field(f.Field)
				}
			}
			return nil
		}
		fa, ok := u.X.(*ssa.FieldAddr)
		if !ok {
			return nil
		}
		pt, ok := fa.X.Type().Underlying().(*types.Pointer)
		if !ok || !types.Identical(pt.Elem(), n) {
			return nil
		}
		return n.Underlying().(*types.Struct).Field(fa.Field)
	}
	methods, sites := 0, 0
	var bad []string
	for _, pk := range c.P.Pkgs {
		rel := strings.TrimPrefix(pk.PkgPath, mod)
		if rel == brkPkg {
			continue
		}
		for _, m := range c.P.AllFuncs(rel) {
			if m.Parent() != nil || m.Signature.Recv() == nil || m.Blocks == nil {
				continue
			}
			n := recvNamed(m)
			if n == nil {
				continue
			}
			if _, ok := n.Underlying().(*types.Struct); !ok {
				continue
			}
			// closures handed to the breaker held in a receiver field
			guarded := map[*ssa.Function]bool{}
			uses := false
			walkWithClosures(m, func(g *ssa.Function) {
				for _, b := range g.Blocks {
					for _, ins := range b.Instrs {
						call, ok := ins.(ssa.CallInstruction)
						if !ok {
							continue
						}
						cc := call.Common()
						if !cc.IsInvoke() || !brkNamed(cc.Value.Type()) || !strings.HasPrefix(cc.Method.Name(), "Do") {
							continue
						}
						if fieldOf(cc.Value, n) == nil {
							continue
						}
						uses = true
						for _, a := range cc.Args {
							if mc, ok := a.(*ssa.MakeClosure); ok {
								walkWithClosures(mc.Fn.(*ssa.Function), func(h *ssa.Function) { guarded[h] = true })
							}
						}
					}
				}
			})
			if !uses {
				continue
			}
			methods++
			walkWithClosures(m, func(g *ssa.Function) {
				for _, b := range g.Blocks {
					for _, ins := range b.Instrs {
						call, ok := ins.(ssa.CallInstruction)
						if !ok {
							continue
						}
						cc := call.Common()
						var fld *types.Var
						var sig *types.Signature
						if cc.IsInvoke() {
							if brkNamed(cc.Value.Type()) {
								continue
							}
							fld = fieldOf(cc.Value, n)
							sig, _ = cc.Method.Type().(*types.Signature)
						} else if cc.StaticCallee() == nil {
							if _, isB := cc.Value.(*ssa.Builtin); isB {
								continue
							}
							fld = fieldOf(cc.Value, n)
							sig, _ = cc.Value.Type().Underlying().(*types.Signature)
						}
						if fld == nil || sig == nil || !returnsErr(sig) {
							continue
						}
						sites++
						if !guarded[g] {
							bad = append(bad, fmt.Sprintf("%s: %s.%s calls its collaborator %s outside the closure it hands to the breaker: the call runs for rejected requests too and its failure is never recorded", c.P.Pos(ins.Pos()), rel, m.RelString(m.Pkg.Pkg), fld.Name()))
						}
					}
				}
			})
		}
	}
	sortStrings(bad)
	o := c.R.Check(len(bad) == 0 && methods >= 20 && sites >= 4, rule, "breaker-guarded methods#collaborators", "in every method that guards its work with a breaker held in a receiver field, every error-returning call through the receiver's collaborators (function-typed or interface-typed fields) is made inside the guarded closure", "-", strings.Join(bad, "; "), bad, sites)
	o.Sites = sites
	c.R.Extra["C01.R9_methods"] = methods
}
