// Package rules holds the per-property rule tables.
package rules

import (
	"fmt"
	"sort"

	"gzverify/load"
	"gzverify/rep"
)

// Ctx is what a property check gets.
type Ctx struct {
	P    *load.Prog
	R    *rep.Report
	Tier string
}

type propDef struct {
	level string
	run   func(c *Ctx)
	load  func(tier string) (*load.Prog, error)
}

var props = map[string]*propDef{}

func register(id, level string, run func(c *Ctx)) { props[id] = &propDef{level: level, run: run} }

func Run(id, tier string, verbose bool, only string) int {
	d, ok := props[id]
	if !ok {
		var ids []string
		for k := range props {
			ids = append(ids, k)
		}
		sort.Strings(ids)
		fmt.Printf("unknown or unclaimed property %q (have %v)\n", id, ids)
		return 2
	}
	r := rep.New(id, tier, d.level)
	r.Checker = fmt.Sprintf("bin/gzverify -prop %s -tier %s", id, tier)
	r.Trusted = []string{"go/types type checker", "golang.org/x/tools/go/ssa v0.29.0 SSA construction", "px path engine: defer/panic/recover model, abstract store (nil/bool/const facts)", "documented semantics of the standard-library and third-party calls named in the rules"}
	var p *load.Prog
	var err error
	if d.load != nil {
		p, err = d.load(tier)
	} else {
		p, err = load.Load(load.Options{})
	}
	if err != nil {
		r.Undecided(id+".load", "go/packages", "the module loads", err.Error())
		return r.Finish(verbose)
	}
	if len(p.Errors) > 0 {
		n := len(p.Errors)
		if n > 5 {
			n = 5
		}
		r.Undecided(id+".load", "type-check", "analysed packages type-check", fmt.Sprintf("%d errors, first: %v", len(p.Errors), p.Errors[:n]))
		return r.Finish(verbose)
	}
	r.Extra["packages_loaded"] = len(p.Pkgs)
	r.Extra["config"] = p.Config
	c := &Ctx{P: p, R: r, Tier: tier}
	func() {
		defer func() {
			if e := recover(); e != nil {
				r.Undecided(id+".internal", "checker", "the checker completes", fmt.Sprintf("internal panic: %v", e))
			}
		}()
		d.run(c)
	}()
	return r.Finish(verbose)
}
