// Package rules holds the per-property rule tables.
package rules

import (
	"fmt"
	"sort"
	"strings"
	"time"

	"gzverify/load"
	"gzverify/rep"
)

// Ctx is what a property check gets.
type Ctx struct {
	P    *load.Prog
	R    *rep.Report
	Tier string
}

type propDef struct {
	level string
	run   func(c *Ctx)
	load  func(tier string) (*load.Prog, error)
	// loadWith loads with extra environment / overlay (thorough tier, self-test)
	loadWith func(env []string, overlay map[string][]byte) (*load.Prog, error)
}

var props = map[string]*propDef{}

func register(id, level string, run func(c *Ctx)) { props[id] = &propDef{level: level, run: run} }

// Props lists the registered property ids.
func Props() []string {
	var ids []string
	for k := range props {
		ids = append(ids, k)
	}
	sort.Strings(ids)
	return ids
}

func (d *propDef) doLoad(tier string, env []string, overlay map[string][]byte) (*load.Prog, error) {
	if d.loadWith != nil {
		return d.loadWith(env, overlay)
	}
	if d.load != nil && len(env) == 0 && overlay == nil {
		return d.load(tier)
	}
	return load.Load(load.Options{Env: env, Overlay: overlay})
}

// thoroughConfigs: additional build configurations analysed by the thorough tier, so that
// build-tagged siblings of the anchored files are covered too.
var thoroughConfigs = [][]string{{"GOOS=darwin"}, {"GOOS=windows"}, {"GOARCH=386"}}

// runOnce loads one configuration and runs the rules into r. label "" = host configuration.
func runOnce(id string, d *propDef, r *rep.Report, tier string, env []string, overlay map[string][]byte, label string) {
	before := len(r.Obs)
	p, err := d.doLoad(tier, env, overlay)
	// a load that raced with another go command rewriting the build cache (export data of a dependency half
	// written) shows up as type errors in packages nobody touched: load again before calling it undecided
	for attempt := 0; attempt < 2 && err == nil && len(p.Errors) > 0 && overlay == nil; attempt++ {
		time.Sleep(2 * time.Second)
		p, err = d.doLoad(tier, env, overlay)
	}
	if err != nil {
		r.Undecided(id+".load", "go/packages"+label, "the module loads", err.Error())
		return
	}
	if len(p.Errors) > 0 {
		n := len(p.Errors)
		if n > 5 {
			n = 5
		}
		r.Undecided(id+".load", "type-check"+label, "analysed packages type-check", fmt.Sprintf("%d errors, first: %v", len(p.Errors), p.Errors[:n]))
		return
	}
	if label == "" {
		r.Extra["packages_loaded"] = len(p.Pkgs)
		r.Extra["config"] = p.Config
	}
	c := &Ctx{P: p, R: r, Tier: tier}
	func() {
		defer func() {
			if e := recover(); e != nil {
				r.Undecided(id+".internal", "checker"+label, "the checker completes", fmt.Sprintf("internal panic: %v", e))
			}
		}()
		d.run(c)
	}()
	if label != "" {
		for _, o := range r.Obs[before:] {
			o.ID = o.Rule + ":" + o.Construct + label
			o.Config = strings.TrimPrefix(label, "@")
		}
	}
}

func Run(id, tier string, verbose bool, only string) int {
	d, ok := props[id]
	if !ok {
		fmt.Printf("unknown or unclaimed property %q (have %v)\n", id, Props())
		return 2
	}
	r := rep.New(id, tier, d.level)
	r.Checker = fmt.Sprintf("bin/gzverify -prop %s -tier %s", id, tier)
	r.Trusted = []string{"go/types type checker", "golang.org/x/tools/go/ssa v0.29.0 SSA construction", "px path engine: defer/panic/recover model, abstract store (nil/bool/const facts)", "documented semantics of the standard-library and third-party calls named in the rules"}
	runOnce(id, d, r, tier, nil, nil, "")
	if tier == "thorough" {
		var cfgs []string
		for _, env := range thoroughConfigs {
			label := "@" + strings.Join(env, ",")
			runOnce(id, d, r, tier, env, nil, label)
			cfgs = append(cfgs, strings.Join(env, ","))
		}
		r.Extra["configs"] = append([]string{"host"}, cfgs...)
		st := SelfTest(id, false)
		r.Extra["selftest"] = st
	}
	return r.Finish(verbose)
}
