package rules

import (
	"fmt"
	"go/token"
	"go/types"
	"sort"
	"strings"

	"golang.org/x/tools/go/ssa"

	"gzverify/px"
)

// c01status (R10, round 4): for the REST middleware the acceptability predicate is "final status < 500", read
// from the status recorder the handler was given. Three sites must agree:
//   - BreakerHandler hands next the recorder (NewWithCodeResponseWriter(w)) and resolves the promise with Accept
//     exactly on the paths where recorder.Code < 500 was true;
//   - the recorder's WriteHeader forwards the code to the real writer and records it; a path that does not
//     record is acceptable only if it decided so by looking at status codes (comparing the new or the recorded
//     code with a constant) — "the first call wins" decided by a bare flag freezes the code at a 1xx informational
//     response, and the final 5xx behind it is recorded as success: the breaker never opens (seed r4-C01-2);
//   - nothing else in the module writes the recorder's Code.
func c01status(c *Ctx) {
	rule := "C01.R10"
	const respPkg = "rest/internal/response"
	// (a) the middleware's decision
	if f := c.fn(rule, "rest/handler", "BreakerHandler"); f != nil {
		cl := c.closure(rule, f, "handler closure", func(a *ssa.Function) bool {
			return callsInBody(a, func(cc *ssa.CallCommon) bool { return cc.IsInvoke() && cc.Method.Name() == "ServeHTTP" })
		})
		if cl != nil {
			ps := c.paths(rule, cl, px.Config{})
			mk := calleeIs(respPkg + ".NewWithCodeResponseWriter")
			c.forall(rule, "rest/handler.BreakerHandler$serve#status", "the handler writes into the status recorder, and the promise is accepted exactly when the recorded code is < 500", cl, ps, func(p *px.Path) (bool, string) {
				nx := p.First(func(e *px.Event) bool {
					return e.Kind == px.EvCall && e.Call.Method != nil && e.Call.Method.Name() == "ServeHTTP"
				})
				if nx == nil {
					return true, ""
				}
				rec := p.First(mk)
				if rec == nil || len(nx.Call.Args) < 1 || nx.Call.Args[0].Strip(false) != rec.Res.Strip(false) {
					return false, "the wrapped handler is not given the status recorder"
				}
				var lt *bool
				for _, b := range p.All(px.KindIs(px.EvBranch)) {
					cnd := b.Cond.Strip(true)
					if cnd.Kind != px.KBinOp || !px.IsFieldLoad(cnd.X, "Code", func(b *px.Sym) bool { return b.Strip(false) == rec.Res.Strip(false) }) {
						continue
					}
					k, ok := constInt(p, cnd.Y)
					if !ok {
						continue
					}
					var v bool
					switch {
					case cnd.Op == token.LSS && k == 500, cnd.Op == token.LEQ && k == 499:
						v = b.Taken
					case cnd.Op == token.GEQ && k == 500, cnd.Op == token.GTR && k == 499:
						v = !b.Taken
					default:
						return false, fmt.Sprintf("the recorded code is compared with %d (%s), not with the 5xx boundary", k, cnd.Op)
					}
					lt = &v
				}
				for _, e := range p.All(px.KindIs(px.EvCall)) {
					if e.Call.Method == nil || e.Call.Method.Pkg() == nil || e.Call.Method.Pkg().Path() != mod+brkPkg {
						continue
					}
					switch e.Call.Method.Name() {
					case "Accept":
						if lt == nil || !*lt {
							return false, "Accept on a path where the recorded code was not found < 500"
						}
					case "Reject":
						if lt == nil || *lt {
							return false, "Reject on a path where the recorded code was not found >= 500"
						}
					}
				}
				return true, ""
			})
		}
	}
	// (b) the recorder
	if f := c.fn(rule, respPkg, "(*WithCodeResponseWriter).WriteHeader"); f != nil {
		codeP := f.Params[1]
		ps := c.paths(rule, f, px.Config{})
		c.forall(rule, respPkg+".(*WithCodeResponseWriter).WriteHeader", "the code is forwarded to the real writer once and recorded; a path that keeps the previous code instead decided that by comparing status codes (informational vs final), not by a bare already-written flag", f, ps, func(p *px.Path) (bool, string) {
			if p.Exit != px.ExitReturn {
				return true, ""
			}
			fw := 0
			for _, e := range p.All(px.KindIs(px.EvCall)) {
				if e.Call.Method != nil && e.Call.Method.Name() == "WriteHeader" && px.IsFieldLoad(e.Call.Recv, "Writer", nil) {
					if len(e.Call.Args) != 1 || !isParam(e.Call.Args[0], codeP) {
						return false, "the real writer gets another code than the handler's"
					}
					fw++
				}
			}
			if fw != 1 {
				return false, fmt.Sprintf("the code is forwarded to the real writer %d times", fw)
			}
			recorded := false
			for _, e := range p.All(px.KindIs(px.EvStore)) {
				if px.FieldAddrIs(e.Addr, "Code", nil) {
					if !isParam(e.Val, codeP) {
						return false, "something other than the handler's code is recorded"
					}
					recorded = true
				}
			}
			if recorded {
				return true, ""
			}
			for _, b := range p.All(px.KindIs(px.EvBranch)) {
				cnd := b.Cond.Strip(true)
				if cnd.Kind != px.KBinOp {
					continue
				}
				for _, side := range []*px.Sym{cnd.X, cnd.Y} {
					if isParam(side.Strip(true), codeP) || px.IsFieldLoad(side, "Code", nil) {
						return true, "" // a decision about the class of the code (1xx / final)
					}
				}
			}
			return false, "a status written by the handler is not recorded, and the path did not look at any status code to decide so (e.g. a bare wroteHeader flag): after an informational 1xx response the final status — the one the breaker, shedder and metrics judge — is lost"
		})
	}
	// (c) who writes Code
	var bad []string
	writers := 0
	for _, pk := range c.P.Pkgs {
		rel := strings.TrimPrefix(pk.PkgPath, mod)
		for _, g := range c.P.AllFuncs(rel) {
			for _, b := range g.Blocks {
				for _, ins := range b.Instrs {
					st, ok := ins.(*ssa.Store)
					if !ok {
						continue
					}
					fa, ok := st.Addr.(*ssa.FieldAddr)
					if !ok || fieldNameOf(fa) != "Code" || !strings.HasSuffix(typeString(fa.X.Type()), respPkg+".WithCodeResponseWriter") {
						continue
					}
					writers++
					root := g
					for root.Parent() != nil {
						root = root.Parent()
					}
					if rel != respPkg || (root.Name() != "WriteHeader" && root.Name() != "NewWithCodeResponseWriter") {
						bad = append(bad, c.P.Pos(st.Pos())+": "+funcDisplay(g)+" writes WithCodeResponseWriter.Code")
					}
				}
			}
		}
	}
	sort.Strings(bad)
	c.R.Check(len(bad) == 0 && writers >= 2, rule, respPkg+".WithCodeResponseWriter.Code#writers", "the recorded status is written only by the recorder's constructor and its WriteHeader", "-", fmt.Sprintf("%d writers; %v", writers, bad), bad, writers)
	c.R.Min(rule, 3, "BreakerHandler decision, WriteHeader, writers of Code")
}

// c01classify (R11, round 5): acceptability predicates classify errors by errors.Is/As semantics. In every function
// of the module that serves as a breaker acceptability predicate (a func(error) bool named …cceptable…, or a literal
// handed to a Do…WithAcceptable… / WithAcceptable call) the error is compared with a non-nil error value only
// through errors.Is / errors.As / errorx.In, never by identity (`err == sentinel`, `switch err`): a handler that wraps
// the sentinel (fmt.Errorf("…: %w", context.DeadlineExceeded)) would otherwise be recorded as a success, and under
// sustained failure of that kind the breaker never opens (seed r5-C01-3; its sibling convertError uses errors.Is).
func c01classify(c *Ctx) {
	rule := "C01.R11"
	errT := types.Universe.Lookup("error").Type()
	isPred := func(f *ssa.Function) bool {
		sig := f.Signature
		if sig.Recv() != nil && sig.Params().Len() != 1 {
			return false
		}
		return sig.Params().Len() == 1 && sig.Results().Len() == 1 && types.Identical(sig.Params().At(0).Type(), errT) &&
			types.Identical(sig.Results().At(0).Type(), types.Typ[types.Bool])
	}
	preds := map[*ssa.Function]bool{}
	for _, pk := range c.P.Pkgs {
		rel := strings.TrimPrefix(pk.PkgPath, mod)
		for _, f := range c.P.AllFuncs(rel) {
			if isPred(f) && strings.Contains(strings.ToLower(f.Name()), "cceptable") {
				preds[f] = true
			}
			for _, b := range f.Blocks {
				for _, ins := range b.Instrs {
					call, ok := ins.(ssa.CallInstruction)
					if !ok {
						continue
					}
					name := ""
					if call.Common().IsInvoke() {
						name = call.Common().Method.Name()
					} else if sc := call.Common().StaticCallee(); sc != nil {
						name = sc.Name()
					}
					if !strings.Contains(name, "Acceptable") {
						continue
					}
					for _, a := range call.Common().Args {
						if t := boundTarget(a); t != nil && isPred(t) {
							preds[t] = true
						}
					}
				}
			}
		}
	}
	var bad []string
	for f := range preds {
		if len(f.Params) == 0 {
			continue
		}
		errP := f.Params[len(f.Params)-1]
		fromErr := func(v ssa.Value) bool {
			seen := map[ssa.Value]bool{}
			var rec func(v ssa.Value) bool
			rec = func(v ssa.Value) bool {
				if v == nil || seen[v] {
					return false
				}
				seen[v] = true
				switch x := v.(type) {
				case *ssa.Parameter:
					return x == errP
				case *ssa.Phi:
					for _, e := range x.Edges {
						if rec(e) {
							return true
						}
					}
				case *ssa.ChangeInterface:
					return rec(x.X)
				case *ssa.MakeInterface:
					return rec(x.X)
				}
				return false
			}
			return rec(v)
		}
		isNil := func(v ssa.Value) bool {
			k, ok := v.(*ssa.Const)
			return ok && k.Value == nil
		}
		for _, b := range f.Blocks {
			for _, ins := range b.Instrs {
				bo, ok := ins.(*ssa.BinOp)
				if !ok || (bo.Op != token.EQL && bo.Op != token.NEQ) {
					continue
				}
				if (fromErr(bo.X) && !isNil(bo.Y)) || (fromErr(bo.Y) && !isNil(bo.X)) {
					bad = append(bad, fmt.Sprintf("%s: %s compares the error with a sentinel by identity (== / switch): a wrapped sentinel is classified as acceptable and recorded as a success", c.P.Pos(bo.Pos()), funcDisplay(f)))
				}
			}
		}
	}
	// R14 (round 9): what is classified is the OUTCOME. A predicate that also consults a context (`acceptable(err) &&
	// ctx.Err() == nil`) records a call whose caller gave up while the callee answered as a failure of the callee:
	// cancellations by impatient clients open the breaker of a healthy store
	var ctxBad []string
	for f := range preds {
		for _, b := range f.Blocks {
			for _, ins := range b.Instrs {
				call, ok := ins.(ssa.CallInstruction)
				if !ok || !call.Common().IsInvoke() {
					continue
				}
				if typeString(call.Common().Value.Type()) == "context.Context" {
					ctxBad = append(ctxBad, fmt.Sprintf("%s: %s consults a context (%s): the caller's state, not the outcome, decides success or failure", c.P.Pos(call.Pos()), funcDisplay(f), call.Common().Method.Name()))
				}
			}
		}
	}
	sort.Strings(ctxBad)
	c.R.Check(len(ctxBad) == 0 && len(preds) >= 5, "C01.R14", "breaker acceptability predicates#outcome-only", "acceptability predicates classify the outcome only: none of them consults a context", "-", fmt.Sprintf("%d predicates; %s", len(preds), strings.Join(ctxBad, "; ")), ctxBad, len(preds))
	sort.Strings(bad)
	c.R.Check(len(bad) == 0 && len(preds) >= 5, rule, "breaker acceptability predicates#classification", "acceptability predicates compare the error with sentinels only through errors.Is / errors.As / errorx.In (identity comparison misses wrapped errors)", "-", fmt.Sprintf("%d predicates; %s", len(preds), strings.Join(bad, "; ")), bad, len(preds))
}

// c01promiseUsers (C01.R12, round 8): every user of Allow + Promise in the module accounts exactly once. For each
// function outside core/breaker that calls Breaker.Allow/AllowCtx: on every path on which the returned error is nil
// the promise is resolved (Accept or Reject) exactly once on EVERY exit — including the panic exit of any call made
// between the admission and the resolution (the request itself: an http.Client.Do with a custom RoundTripper, a
// handler, a driver call). Straight-line "do the call, then resolve" code never records a call that panicked: the
// window has one admission without an outcome and sustained panics never open the breaker.
func c01promiseUsers(c *Ctx) {
	rule := "C01.R12"
	isAllow := func(cc *ssa.CallCommon) bool {
		return cc.IsInvoke() && (cc.Method.Name() == "Allow" || cc.Method.Name() == "AllowCtx") && cc.Method.Pkg() != nil && cc.Method.Pkg().Path() == mod+brkPkg
	}
	quiet := map[string]bool{"fmt": true, "strconv": true, "strings": true, "errors": true, "time": true, "sync/atomic": true, "sync": true}
	n := 0
	for _, pk := range c.P.Pkgs {
		rel := strings.TrimPrefix(pk.PkgPath, mod)
		if rel == brkPkg {
			continue
		}
		for _, fn := range c.P.AllFuncs(rel) {
			if !callsInBody(fn, isAllow) {
				continue
			}
			n++
			ps := c.paths(rule, fn, px.Config{MayPanic: func(ci *px.CallInfo) bool {
				if ci.Builtin != "" {
					return false
				}
				if o := ci.Obj(); o != nil {
					if o.Pkg() != nil && (o.Pkg().Path() == mod+brkPkg || quiet[o.Pkg().Path()]) {
						return false
					}
					if o.Name() == "Error" || o.Name() == "StatusText" || o.Name() == "WriteHeader" || o.Name() == "Header" {
						return false
					}
					// go-zero's own straight-line code is not modelled as panicking (§2.6); user code is reached through
					// interface methods, function values and library entry points that call back (an http.Client.Do)
					if ci.Method == nil && o.Pkg() != nil && strings.HasPrefix(o.Pkg().Path(), mod) {
						return false
					}
				}
				return true
			}})
			allow := func(e *px.Event) bool {
				return e.Kind == px.EvCall && e.Call.Method != nil && (e.Call.Method.Name() == "Allow" || e.Call.Method.Name() == "AllowCtx") && e.Call.Method.Pkg() != nil && e.Call.Method.Pkg().Path() == mod+brkPkg
			}
			resolve := func(e *px.Event) bool {
				return e.Kind == px.EvCall && e.Call.Method != nil && (e.Call.Method.Name() == "Accept" || e.Call.Method.Name() == "Reject") && e.Call.Method.Pkg() != nil && e.Call.Method.Pkg().Path() == mod+brkPkg
			}
			c.forall(rule, funcDisplay(fn)+"#promise", "an admitted call (Allow returned a nil error) resolves its promise exactly once on every exit, the panic exits of the calls made in between included", fn, ps, func(p *px.Path) (bool, string) {
				a := p.First(allow)
				if a == nil || p.Exit == px.ExitCut {
					return true, ""
				}
				es := findExtract(p, a.Res, 1)
				if es == nil || p.Abs(es).K != px.Nil {
					if p.Abs(es).K == px.NonNil && p.Count(resolve) != 0 {
						return false, "a rejected call resolves a promise"
					}
					return true, ""
				}
				if po := p.PanicOrigin(); po != nil && po.Seq < a.Seq {
					return true, ""
				}
				if k := p.Count(resolve); k != 1 {
					how := "returns"
					if p.Exit == px.ExitPanic {
						how = "panics"
					}
					return false, fmt.Sprintf("the promise is resolved ×%d on a path that %s after the admission: the call is not recorded exactly once (a panic counts as a failure)", k, how)
				}
				return true, ""
			})
		}
	}
	c.R.Min(rule, 1, "rest/handler.BreakerHandler's serving closure")
}
