package rules

import (
	"fmt"
	"go/token"
	"sort"
	"strings"

	"golang.org/x/tools/go/ssa"

	"gzverify/px"
)

// c01status (R10, round 4): for the REST middleware the acceptability predicate is "final status < 500", read
// from the status recorder the handler was given. Three sites must agree:
//   - BreakerHandler hands next the recorder (NewWithCodeResponseWriter(w)) and resolves the promise with Accept
//     exactly on the paths where recorder.Code < 500 was true;
//   - the recorder's WriteHeader forwards the code to the real writer and records it; a path that does not
//     record is acceptable only if it decided so by looking at status codes (comparing the new or the recorded
//     code with a constant) — "the first call wins" decided by a bare flag freezes the code at a 1xx informational
//     response, and the final 5xx behind it is recorded as success: the breaker never opens (seed r4-C01-2);
//   - nothing else in the module writes the recorder's Code.
func c01status(c *Ctx) {
	rule := "C01.R10"
	const respPkg = "rest/internal/response"
	// (a) the middleware's decision
	if f := c.fn(rule, "rest/handler", "BreakerHandler"); f != nil {
		cl := c.closure(rule, f, "handler closure", func(a *ssa.Function) bool {
			return callsInBody(a, func(cc *ssa.CallCommon) bool { return cc.IsInvoke() && cc.Method.Name() == "ServeHTTP" })
		})
		if cl != nil {
			ps := c.paths(rule, cl, px.Config{})
			mk := calleeIs(respPkg + ".NewWithCodeResponseWriter")
			c.forall(rule, "rest/handler.BreakerHandler$serve#status", "the handler writes into the status recorder, and the promise is accepted exactly when the recorded code is < 500", cl, ps, func(p *px.Path) (bool, string) {
				nx := p.First(func(e *px.Event) bool { return e.Kind == px.EvCall && e.Call.Method != nil && e.Call.Method.Name() == "ServeHTTP" })
				if nx == nil {
					return true, ""
				}
				rec := p.First(mk)
				if rec == nil || len(nx.Call.Args) < 1 || nx.Call.Args[0].Strip(false) != rec.Res.Strip(false) {
					return false, "the wrapped handler is not given the status recorder"
				}
				var lt *bool
				for _, b := range p.All(px.KindIs(px.EvBranch)) {
					cnd := b.Cond.Strip(true)
					if cnd.Kind != px.KBinOp || !px.IsFieldLoad(cnd.X, "Code", func(b *px.Sym) bool { return b.Strip(false) == rec.Res.Strip(false) }) {
						continue
					}
					k, ok := constInt(p, cnd.Y)
					if !ok {
						continue
					}
					var v bool
					switch {
					case cnd.Op == token.LSS && k == 500, cnd.Op == token.LEQ && k == 499:
						v = b.Taken
					case cnd.Op == token.GEQ && k == 500, cnd.Op == token.GTR && k == 499:
						v = !b.Taken
					default:
						return false, fmt.Sprintf("the recorded code is compared with %d (%s), not with the 5xx boundary", k, cnd.Op)
					}
					lt = &v
				}
				for _, e := range p.All(px.KindIs(px.EvCall)) {
					if e.Call.Method == nil || e.Call.Method.Pkg() == nil || e.Call.Method.Pkg().Path() != mod+brkPkg {
						continue
					}
					switch e.Call.Method.Name() {
					case "Accept":
						if lt == nil || !*lt {
							return false, "Accept on a path where the recorded code was not found < 500"
						}
					case "Reject":
						if lt == nil || *lt {
							return false, "Reject on a path where the recorded code was not found >= 500"
						}
					}
				}
				return true, ""
			})
		}
	}
	// (b) the recorder
	if f := c.fn(rule, respPkg, "(*WithCodeResponseWriter).WriteHeader"); f != nil {
		codeP := f.Params[1]
		ps := c.paths(rule, f, px.Config{})
		c.forall(rule, respPkg+".(*WithCodeResponseWriter).WriteHeader", "the code is forwarded to the real writer once and recorded; a path that keeps the previous code instead decided that by comparing status codes (informational vs final), not by a bare already-written flag", f, ps, func(p *px.Path) (bool, string) {
			if p.Exit != px.ExitReturn {
				return true, ""
			}
			fw := 0
			for _, e := range p.All(px.KindIs(px.EvCall)) {
				if e.Call.Method != nil && e.Call.Method.Name() == "WriteHeader" && px.IsFieldLoad(e.Call.Recv, "Writer", nil) {
					if len(e.Call.Args) != 1 || !isParam(e.Call.Args[0], codeP) {
						return false, "the real writer gets another code than the handler's"
					}
					fw++
				}
			}
			if fw != 1 {
				return false, fmt.Sprintf("the code is forwarded to the real writer %d times", fw)
			}
			recorded := false
			for _, e := range p.All(px.KindIs(px.EvStore)) {
				if px.FieldAddrIs(e.Addr, "Code", nil) {
					if !isParam(e.Val, codeP) {
						return false, "something other than the handler's code is recorded"
					}
					recorded = true
				}
			}
			if recorded {
				return true, ""
			}
			for _, b := range p.All(px.KindIs(px.EvBranch)) {
				cnd := b.Cond.Strip(true)
				if cnd.Kind != px.KBinOp {
					continue
				}
				for _, side := range []*px.Sym{cnd.X, cnd.Y} {
					if isParam(side.Strip(true), codeP) || px.IsFieldLoad(side, "Code", nil) {
						return true, "" // a decision about the class of the code (1xx / final)
					}
				}
			}
			return false, "a status written by the handler is not recorded, and the path did not look at any status code to decide so (e.g. a bare wroteHeader flag): after an informational 1xx response the final status — the one the breaker, shedder and metrics judge — is lost"
		})
	}
	// (c) who writes Code
	var bad []string
	writers := 0
	for _, pk := range c.P.Pkgs {
		rel := strings.TrimPrefix(pk.PkgPath, mod)
		for _, g := range c.P.AllFuncs(rel) {
			for _, b := range g.Blocks {
				for _, ins := range b.Instrs {
					st, ok := ins.(*ssa.Store)
					if !ok {
						continue
					}
					fa, ok := st.Addr.(*ssa.FieldAddr)
					if !ok || fieldNameOf(fa) != "Code" || !strings.HasSuffix(typeString(fa.X.Type()), respPkg+".WithCodeResponseWriter") {
						continue
					}
					writers++
					root := g
					for root.Parent() != nil {
						root = root.Parent()
					}
					if rel != respPkg || (root.Name() != "WriteHeader" && root.Name() != "NewWithCodeResponseWriter") {
						bad = append(bad, c.P.Pos(st.Pos())+": "+funcDisplay(g)+" writes WithCodeResponseWriter.Code")
					}
				}
			}
		}
	}
	sort.Strings(bad)
	c.R.Check(len(bad) == 0 && writers >= 2, rule, respPkg+".WithCodeResponseWriter.Code#writers", "the recorded status is written only by the recorder's constructor and its WriteHeader", "-", fmt.Sprintf("%d writers; %v", writers, bad), bad, writers)
	c.R.Min(rule, 3, "BreakerHandler decision, WriteHeader, writers of Code")
}
