package rules

import (
	"fmt"
	"go/token"
	"go/types"
	"sort"
	"strings"

	"golang.org/x/tools/go/ssa"

	"gzverify/px"
)

// Round-4 additions to C17.

// yamlOutputModel: the dynamic types a YAML decoder stores into an `any` target, per library (from the
// libraries' documentation and resolve tables). "nil" stands for the untyped nil a YAML null decodes to.
var yamlOutputModel = map[string][]string{
	"gopkg.in/yaml.v2": {"map[any]any", "[]any", "string", "bool", "int", "int64", "uint64", "float64", "nil"},
	// yaml.v3 additionally resolves date-shaped plain scalars to time.Time and string-keyed mappings to map[string]any
	"gopkg.in/yaml.v3": {"map[any]any", "map[string]any", "[]any", "string", "bool", "int", "int64", "uint64", "float64", "time.Time", "nil"},
}

func normAny(s string) string { return strings.ReplaceAll(s, "interface{}", "any") }

// c17decoderModel (R10): writer/reader agreement between the YAML decoder and the converter that turns its
// output into what the JSON encoder must see. Every dynamic type the decoder in use can produce has an explicit
// case in toStringKeyMap — whatever falls to the default branch is rendered with lang.Repr, i.e. becomes a
// *string*: a YAML null would arrive as "" (JSON null ⇒ field left alone; "" ⇒ type mismatch for a number),
// a yaml.v3 time.Time as "2024-01-15 00:00:00 +0000 UTC". A null must stay null.
func c17decoderModel(c *Ctx) {
	rule := "C17.R10"
	y := c.fn(rule, encPkg, "YamlToJson")
	conv := c.fn(rule, encPkg, "toStringKeyMap")
	if y == nil || conv == nil {
		return
	}
	lib := ""
	for _, b := range y.Blocks {
		for _, ins := range b.Instrs {
			if call, ok := ins.(ssa.CallInstruction); ok {
				if sc := call.Common().StaticCallee(); sc != nil && sc.Pkg != nil {
					p := sc.Pkg.Pkg.Path()
					if strings.Contains(p, "yaml") {
						lib = p
					}
				} else if call.Common().IsInvoke() && call.Common().Method.Pkg() != nil && strings.Contains(call.Common().Method.Pkg().Path(), "yaml") {
					lib = call.Common().Method.Pkg().Path()
				}
			}
		}
	}
	model, known := yamlOutputModel[lib]
	if !known {
		c.R.Undecided(rule, encPkg+".YamlToJson#decoder", "the YAML decoder in use is one whose output types are modelled (yaml.v2, yaml.v3)", fmt.Sprintf("decoder package %q: the set of dynamic types it stores into an `any` is not known to the checker, so coverage of the converter cannot be decided", lib))
		return
	}
	cases := map[string]bool{}
	for _, b := range conv.Blocks {
		for _, ins := range b.Instrs {
			if ta, ok := ins.(*ssa.TypeAssert); ok && ta.CommaOk {
				cases[normAny(types.TypeString(ta.AssertedType, nil))] = true
			}
		}
	}
	// null stays null: a path on which the input was found nil returns nil (or the input itself)
	nilKept, nilSeen := false, false
	ps := c.paths(rule, conv, px.Config{})
	for _, p := range ps {
		if p.Exit != px.ExitReturn || len(p.Results) != 1 {
			continue
		}
		for _, e := range p.All(px.KindIs(px.EvBranch)) {
			cnd := e.Cond.Strip(false)
			if cnd.Kind != px.KBinOp || (cnd.Op != token.EQL && cnd.Op != token.NEQ) {
				continue
			}
			isNilTest := (isParam(cnd.X, conv.Params[0]) && px.IsNilConst(cnd.Y)) || (isParam(cnd.Y, conv.Params[0]) && px.IsNilConst(cnd.X))
			if isNilTest && (cnd.Op == token.EQL) == e.Taken {
				nilSeen = true
				if px.IsNilConst(p.Results[0]) || isParam(p.Results[0], conv.Params[0]) {
					nilKept = true
				}
			}
		}
	}
	if nilSeen && nilKept {
		cases["nil"] = true
	}
	var missing []string
	for _, t := range model {
		if !cases[t] {
			missing = append(missing, t)
		}
	}
	sort.Strings(missing)
	detail := ""
	if len(missing) > 0 {
		detail = fmt.Sprintf("%s can store %v into an `any`, but toStringKeyMap has no explicit case for it: the value falls to the default branch and reaches the JSON encoder as a string (lang.Repr)", lib, missing)
		for _, m := range missing {
			if m == "nil" {
				detail += `; a YAML null becomes "" — "port: null" then fails with a type mismatch (or a string field is set to "") where the JSON document {"port": null} leaves the field alone`
			}
		}
	}
	c.R.Check(len(missing) == 0, rule, encPkg+".toStringKeyMap#decoder-output", "every dynamic type the YAML decoder in use can produce (incl. the nil of a YAML null, which must stay nil) has an explicit case in the converter; nothing but unknown exotic types reaches the stringifying default branch", posOf(c, conv), detail, nil, len(model))
	c.R.Extra["C17.R10_yaml_decoder"] = lib
}

// c17positional (R11): slices are filled position by position. In fillSlice the element read from the source at
// index i is written to the target at the same index i (same SSA value), and the field receives the converted
// slice whole. encoding/json keeps a null element in place as a zero value; compacting nulls away shifts every
// later element (seed r4-C17-2).
func c17positional(c *Ctx) {
	rule := "C17.R11"
	f := c.fn(rule, "core/mapping", "(*Unmarshaler).fillSlice")
	if f == nil {
		return
	}
	// receivers: conv = result of reflect.MakeSlice; source = the value ranged over (Index receiver that is not conv)
	var conv ssa.Value
	for _, b := range f.Blocks {
		for _, ins := range b.Instrs {
			if call, ok := ins.(*ssa.Call); ok && calleeName(call.Common()) == "reflect.MakeSlice" {
				conv = call
			}
		}
	}
	if conv == nil {
		c.R.Undecided(rule, "core/mapping.(*Unmarshaler).fillSlice", "the converted slice is recognised", "no reflect.MakeSlice call")
		return
	}
	isConv := func(v ssa.Value) bool {
		for _, d := range reachingDefs(v, f, 0) {
			if d == conv {
				return true
			}
		}
		return v == conv
	}
	var srcIdx []ssa.Value
	type use struct {
		idx ssa.Value
		pos token.Pos
		how string
	}
	var dst []use
	var sets []*ssa.Call
	for _, b := range f.Blocks {
		for _, ins := range b.Instrs {
			call, ok := ins.(*ssa.Call)
			if !ok {
				continue
			}
			cc := call.Common()
			switch calleeName(cc) {
			case "(reflect.Value).Index":
				if isConv(cc.Args[0]) {
					dst = append(dst, use{cc.Args[1], call.Pos(), "conv.Index"})
				} else {
					srcIdx = append(srcIdx, cc.Args[1])
				}
			case "(reflect.Value).Set":
				if len(cc.Args) == 2 {
					sets = append(sets, call)
				}
			default:
				// helpers that take (conv, index, …)
				if sc := cc.StaticCallee(); sc != nil && sc.Pkg == f.Pkg {
					for i, a := range cc.Args {
						if isConv(a) && i+1 < len(cc.Args) {
							if bt, ok := cc.Args[i+1].Type().Underlying().(*types.Basic); ok && bt.Info()&types.IsInteger != 0 {
								dst = append(dst, use{cc.Args[i+1], call.Pos(), sc.Name()})
							}
						}
					}
				}
			}
		}
	}
	var bad []string
	if len(srcIdx) == 0 || len(dst) == 0 {
		c.R.Undecided(rule, "core/mapping.(*Unmarshaler).fillSlice", "source reads and target writes by index are recognised", fmt.Sprintf("%d source index reads, %d target index uses", len(srcIdx), len(dst)))
		return
	}
	for _, d := range dst {
		same := false
		for _, s := range srcIdx {
			if s == d.idx {
				same = true
			}
		}
		if !same {
			bad = append(bad, fmt.Sprintf("%s: %s writes target position %s, which is not the position the element was read from (%s): elements after a skipped null shift", c.P.Pos(d.pos), d.how, d.idx.Name(), srcIdx[0].Name()))
		}
	}
	setWhole := false
	for _, s := range sets {
		if isConv(s.Call.Args[1]) {
			setWhole = true
		} else if call, ok := s.Call.Args[1].(*ssa.Call); ok && strings.HasPrefix(calleeName(call.Common()), "(reflect.Value).Slice") && isConv(call.Call.Args[0]) {
			bad = append(bad, c.P.Pos(s.Pos())+": the field receives a sub-slice of the converted slice (a shorter list than the document's)")
		}
	}
	if !setWhole {
		bad = append(bad, "the converted slice is never stored whole into the field")
	}
	sort.Strings(bad)
	c.R.Check(len(bad) == 0, rule, "core/mapping.(*Unmarshaler).fillSlice", "element i of the document's list goes to element i of the target (a null keeps its place as a zero value, as in encoding/json) and the field receives the converted slice whole", posOf(c, f), strings.Join(bad, "; "), bad, len(dst)+len(sets))
}

// evalByteCond evaluates a boolean sym that compares the byte `bs` with constants, for bs = b (uint8 arithmetic).
func evalByteCond(p *px.Path, s, bs *px.Sym, b int64) (val, ok bool) {
	s = s.Strip(false)
	if s == nil {
		return false, false
	}
	var num func(x *px.Sym) (int64, bool)
	num = func(x *px.Sym) (int64, bool) {
		x = x.Strip(true)
		if x == nil {
			return 0, false
		}
		if x == bs.Strip(true) {
			return b, true
		}
		if v, ok := constInt(p, x); ok {
			return v, true
		}
		if x.Kind == px.KBinOp && (x.Op == token.SUB || x.Op == token.ADD) {
			l, ok1 := num(x.X)
			r, ok2 := num(x.Y)
			if !ok1 || !ok2 {
				return 0, false
			}
			v := l - r
			if x.Op == token.ADD {
				v = l + r
			}
			if bt, ok := x.Typ.Underlying().(*types.Basic); ok && bt.Kind() == types.Uint8 {
				v = ((v % 256) + 256) % 256
			}
			return v, true
		}
		return 0, false
	}
	switch s.Kind {
	case px.KUnOp:
		if s.Op == token.NOT {
			v, ok := evalByteCond(p, s.X, bs, b)
			return !v, ok
		}
	case px.KBinOp:
		l, ok1 := num(s.X)
		r, ok2 := num(s.Y)
		if !ok1 || !ok2 {
			return false, false
		}
		switch s.Op {
		case token.LSS:
			return l < r, true
		case token.LEQ:
			return l <= r, true
		case token.GTR:
			return l > r, true
		case token.GEQ:
			return l >= r, true
		case token.EQL:
			return l == r, true
		case token.NEQ:
			return l != r, true
		}
	}
	return false, false
}

func mentions(s, target *px.Sym, d int) bool {
	if s == nil || d > 8 {
		return false
	}
	if s == target {
		return true
	}
	return mentions(s.X, target, d+1) || mentions(s.Y, target, d+1)
}

// c17fold (R12): the key normaliser folds case like strings.ToLower for *every* string. Each return of
// conf.toLowerCase is strings.ToLower(s); a path that returns s itself (a "nothing to fold" fast path) is
// accepted only when, for every byte value 0…255 consistent with the comparisons made on each examined byte,
// the byte is ASCII and not an upper-case letter, and the scan visits every byte. A byte ≥ 0x80 may be part of
// an upper-case letter outside ASCII (Ü, Ш): keys that differ only in the case of such letters would stop
// matching (seed r4-C17-3).
func c17fold(c *Ctx) {
	rule := "C17.R12"
	f := c.fn(rule, confPkg, "toLowerCase")
	if f == nil {
		return
	}
	ps := c.paths(rule, f, px.Config{MaxVisits: 3})
	sP := f.Params[0]
	rows := 0
	c.forall(rule, confPkg+".toLowerCase", "every result is strings.ToLower(s); s is returned as it is only when each examined byte was established to be ASCII and not in 'A'…'Z' (256-value table per examined byte) by a scan over all bytes", f, ps, func(p *px.Path) (bool, string) {
		if p.Exit != px.ExitReturn || len(p.Results) != 1 {
			return true, ""
		}
		r := p.Results[0].Strip(false)
		if r.Kind == px.KCall && r.Call != nil && shortName(r.Call) == "strings.ToLower" && len(r.Call.Args) == 1 && isParam(r.Call.Args[0], sP) {
			return true, ""
		}
		if !isParam(r, sP) {
			return false, "the result is neither strings.ToLower(s) nor s itself: " + r.Describe()
		}
		// s returned unchanged: collect the examined bytes (lookups s[i]) and the comparisons made on each
		type ex struct {
			b     *px.Sym
			conds []*px.Event
		}
		var bytesSeen []*ex
		find := func(b *px.Sym) *ex {
			for _, e := range bytesSeen {
				if e.b == b {
					return e
				}
			}
			e := &ex{b: b}
			bytesSeen = append(bytesSeen, e)
			return e
		}
		var lookups []*px.Sym
		var collect func(s *px.Sym, d int)
		collect = func(s *px.Sym, d int) {
			if s == nil || d > 8 {
				return
			}
			_, isIdx := s.V.(*ssa.Index)
			if (s.Kind == px.KLookup || (s.Kind == px.KOther && isIdx)) && s.X != nil && isParam(s.X, sP) {
				lookups = append(lookups, s)
			}
			collect(s.X, d+1)
			collect(s.Y, d+1)
		}
		for _, e := range p.All(px.KindIs(px.EvBranch)) {
			lookups = nil
			collect(e.Cond, 0)
			for _, l := range lookups {
				x := find(l)
				x.conds = append(x.conds, e)
			}
		}
		for _, x := range bytesSeen {
			for b := int64(0); b < 256; b++ {
				rows++
				consistent := true
				for _, e := range x.conds {
					v, ok := evalByteCond(p, e.Cond, x.b, b)
					if !ok {
						return false, "s is returned unfolded after a test on its bytes the checker cannot evaluate (" + e.Cond.Describe() + ")"
					}
					if v != e.Taken {
						consistent = false
						break
					}
				}
				if consistent && (b >= 0x80 || (b >= 'A' && b <= 'Z')) {
					what := "an upper-case ASCII letter"
					if b >= 0x80 {
						what = "a byte of a non-ASCII character, possibly an upper-case letter such as Ü or Ш"
					}
					return false, fmt.Sprintf("s is returned without folding although an examined byte may be 0x%02X (%s): strings.ToLower would change such a key, so document keys and field names that differ only in the case of that letter no longer match", b, what)
				}
			}
		}
		// every byte must have been examined: the path must not leave the scan early — with bounded unrolling the
		// only evidence is structural: the loop over s is a full counting/range loop whose exits are the bound or a fold
		if len(bytesSeen) == 0 {
			// returned unchanged without looking at any byte: only the empty string may take this path
			for _, e := range p.All(px.KindIs(px.EvBranch)) {
				cnd := e.Cond.Strip(true)
				if cnd.Kind == px.KBinOp && (isLenOf(cnd.X, func(x *px.Sym) bool { return isParam(x, sP) }) || isLenOf(cnd.Y, func(x *px.Sym) bool { return isParam(x, sP) })) {
					return true, ""
				}
			}
			return false, "s is returned unfolded without any of its bytes having been examined"
		}
		return true, ""
	})
	c.R.Extra["C17.R12_byte_rows"] = rows
}

// c17mapEntries (R13, round 5): every entry of a document map arrives in the target map. In generateMap each iteration
// over the source's keys either stores an entry for that key (SetMapIndex) or ends the function with an error; an
// iteration that just moves on drops the entry — encoding/json keeps a null entry as a zero value (seed r5-C17-3).
func c17mapEntries(c *Ctx) {
	rule := "C17.R13"
	f := c.fn(rule, "core/mapping", "(*Unmarshaler).generateMap")
	if f == nil {
		return
	}
	ps := c.paths(rule, f, px.Config{MaxVisits: 3, MaxPaths: 200000})
	mapIndex := calleeIs("reflect.(Value).MapIndex")
	rawSet := calleeIs("reflect.(Value).SetMapIndex")
	// helpers of the package that store a map entry themselves count as stores
	setters := map[*ssa.Function]bool{}
	for _, g := range c.P.AllFuncs("core/mapping") {
		if g != f && callsInBody(g, func(cc *ssa.CallCommon) bool { return calleeName(cc) == "(reflect.Value).SetMapIndex" }) {
			setters[g] = true
		}
	}
	setIndex := func(e *px.Event) bool {
		return rawSet(e) || (e.Kind == px.EvCall && e.Call != nil && e.Call.Static != nil && setters[e.Call.Static])
	}
	iters := 0
	held := c.forall(rule, "core/mapping.(*Unmarshaler).generateMap", "each iteration over the document map's keys stores an entry for its key (SetMapIndex) unless the function returns an error: no entry is silently dropped", f, ps, func(p *px.Path) (bool, string) {
		var idx []int
		for i := range p.Events {
			if mapIndex(&p.Events[i]) && p.Events[i].Depth == 0 {
				idx = append(idx, i)
			}
		}
		for k := 0; k+1 < len(idx); k++ {
			iters++
			stored := false
			for j := idx[k]; j < idx[k+1]; j++ {
				if setIndex(&p.Events[j]) {
					stored = true
				}
			}
			if !stored {
				return false, "an iteration over the source map's keys moves on to the next key without storing an entry for this one (a null entry is skipped): the target map has fewer entries than the document"
			}
		}
		return true, ""
	})
	if held && iters == 0 {
		c.R.Undecided(rule, "core/mapping.(*Unmarshaler).generateMap#loop", "the loop over the source keys is recognised", "no path with two successive MapIndex calls")
	}
}

// c17mapFieldInfo (R14, round 5): the names of a map's entries are data, not field names. conf lower-cases document
// keys guided by a tree of field infos; for a map-typed field the tree node must say "any entry name, then the
// element type" (mapField) instead of exposing the element struct's field names as children — otherwise an entry
// whose name equals a field name of the element type ("host", "Port") is taken for that field, and mixed-case keys
// below it are no longer matched (seed r5-C17-2). In buildNamedFieldInfo the path that found the field's kind to be
// reflect.Map hands addOrMergeFields a fresh info whose mapField is the element type's info.
func c17mapFieldInfo(c *Ctx) {
	rule := "C17.R14"
	f := c.fn(rule, confPkg, "buildNamedFieldInfo")
	if f == nil {
		return
	}
	const reflectMap = 21 // reflect.Map (part of reflect's API)
	ps := c.paths(rule, f, px.Config{})
	merge := calleeIs(confPkg + ".addOrMergeFields")
	build := calleeIs(confPkg + ".buildFieldsInfo")
	mapPaths := 0
	held := c.forall(rule, confPkg+".buildNamedFieldInfo", "for a field of kind map the info merged into the tree is a fresh node whose mapField is the element type's info (entry names are not matched against the element's field names)", f, ps, func(p *px.Path) (bool, string) {
		isMap := false
		for _, b := range p.All(px.KindIs(px.EvBranch)) {
			cnd := b.Cond.Strip(true)
			if cnd.Kind != px.KBinOp || cnd.Op != token.EQL || !b.Taken {
				continue
			}
			if k, ok := constInt(p, cnd.Y); ok && k == reflectMap {
				if x := cnd.X.Strip(true); x.Kind == px.KCall && x.Call != nil && x.Call.Obj() != nil && x.Call.Obj().Name() == "Kind" {
					isMap = true
				}
			}
		}
		if !isMap {
			return true, ""
		}
		m := p.First(merge)
		if m == nil {
			return true, "" // an error path
		}
		mapPaths++
		arg := m.Call.Args[2].Strip(false)
		if arg.Kind != px.KAlloc {
			return false, "the info merged for a map field is not a fresh node (the element type's own info is used: its field names would be matched against entry names)"
		}
		ok := false
		for _, st := range p.All(px.KindIs(px.EvStore)) {
			if px.FieldAddrIs(st.Addr, "mapField", func(b *px.Sym) bool { return b == arg }) {
				for _, bf := range p.All(build) {
					if findExtract(p, bf.Res, 0) != nil && st.Val.Strip(false) == findExtract(p, bf.Res, 0).Strip(false) {
						ok = true
					}
				}
			}
		}
		if !ok {
			return false, "the fresh node's mapField is not the info built for the element type"
		}
		return true, ""
	})
	if held && mapPaths == 0 {
		c.R.Fail(rule, confPkg+".buildNamedFieldInfo#map-kind", "a field of kind map is distinguished from struct/slice fields when the key tree is built", posOf(c, f), "no path of buildNamedFieldInfo establishes kind == reflect.Map before merging: map fields get the element struct's field names as children, so an entry named like one of those fields (\"host\", \"Port\") is treated as that field and the keys below it are not folded", nil)
	}
}

// c17configCenterVerbatim (C17.R16, round 8): the configuration center is one more way into the same loaders. The
// document it received reaches the unmarshaler byte for byte: on the call through the center's unmarshaler field the
// argument is the conversion of genValue's own parameter, nothing in between. White space is structure in YAML only
// (a trimmed document loses the indentation of its first line, a final `|+` scalar its newlines): a helper that tidies
// the text makes the YAML rendering fail or differ while JSON and TOML are unaffected.
func c17configCenterVerbatim(c *Ctx) {
	rule := "C17.R16"
	pkg := "core/configcenter"
	n := 0
	var bad []string
	for _, f := range c.P.AllFuncs(pkg) {
		if f.Name() != "genValue" || len(f.Params) < 2 {
			continue
		}
		for _, b := range f.Blocks {
			for _, ins := range b.Instrs {
				call, ok := ins.(*ssa.Call)
				if !ok || call.Call.IsInvoke() || call.Call.StaticCallee() != nil {
					continue
				}
				ld, ok := call.Call.Value.(*ssa.UnOp)
				if !ok {
					continue
				}
				fa, ok := ld.X.(*ssa.FieldAddr)
				if !ok || fieldNameAt(fa.X.Type(), fa.Field) != "unmarshaler" || len(call.Call.Args) == 0 {
					continue
				}
				n++
				arg := call.Call.Args[0]
				cv, isConv := arg.(*ssa.Convert)
				var src ssa.Value = arg
				if isConv {
					src = cv.X
				}
				if p, isParam := src.(*ssa.Parameter); !isParam || p.Parent() != f {
					bad = append(bad, fmt.Sprintf("%s: the unmarshaler is handed %s, not the document genValue received", c.P.Pos(call.Pos()), src.Name()))
				}
			}
		}
	}
	sort.Strings(bad)
	c.R.Check(len(bad) == 0 && n >= 1, rule, pkg+".genValue#verbatim", "the document the configuration center received reaches the format loader byte for byte (the unmarshaler's argument is the conversion of genValue's own parameter)", "-", fmt.Sprintf("%d calls through the unmarshaler field; %s", n, strings.Join(bad, "; ")), bad, n)
}

// c17yamlNotStrict (C17.R17 / C08.R18, round 8): the three formats accept the same documents. YAML has constructs the
// other two do not — merge keys (`<<: *base`) followed by an override, two merged anchors that overlap — which yaml.v2's
// *strict* mode reports as duplicate keys. The converter decodes with the plain entry points: no function of the module
// calls yaml.UnmarshalStrict or (*yaml.Decoder).SetStrict (valid YAML configuration would be refused while its JSON and
// TOML renderings load).
func c17yamlNotStrict(c *Ctx, rule string) {
	var bad []string
	sites := 0
	for _, pk := range c.P.Pkgs {
		rel := strings.TrimPrefix(pk.PkgPath, mod)
		for _, fn := range c.P.AllFuncs(rel) {
			for _, b := range fn.Blocks {
				for _, ins := range b.Instrs {
					call, ok := ins.(ssa.CallInstruction)
					if !ok {
						continue
					}
					cal := call.Common().StaticCallee()
					if cal == nil || cal.Pkg == nil || !strings.HasPrefix(cal.Pkg.Pkg.Path(), "gopkg.in/yaml.") {
						continue
					}
					sites++
					if cal.Name() == "UnmarshalStrict" || cal.Name() == "SetStrict" {
						bad = append(bad, fmt.Sprintf("%s: %s decodes YAML in strict mode (%s)", c.P.Pos(call.Pos()), funcDisplay(fn), cal.Name()))
					}
				}
			}
		}
	}
	sort.Strings(bad)
	o := c.R.Check(len(bad) == 0 && sites >= 1, rule, "module#yaml-decoding", "YAML is decoded with the plain (non-strict) entry points everywhere in the module: merge keys with overrides are valid YAML", "-", fmt.Sprintf("%d calls into the YAML library; %s", sites, strings.Join(bad, "; ")), bad, sites)
	o.Sites = sites
}
