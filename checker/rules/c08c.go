package rules

import (
	"fmt"
	"go/constant"
	"go/token"
	"go/types"
	"sort"
	"strings"

	"golang.org/x/tools/go/ssa"
)

// c08memoValuesStayPrivate (C08.R15, round 7): what the package memoises is never handed out. The values kept in a
// package-level memo map of core/mapping (parsed defaults, split keys …) are shared by every later Unmarshal of the
// process: a target may receive a *copy* built from them, never the object itself — otherwise the first owner that
// edits its own result (sorts the slice, sets a map entry) rewrites the default of every later target, and of the
// cache ("defaults filled for the absent fields" stops being a function of the declaration).
//
// Decided by an interprocedural value-flow over the SSA of the package (flow-insensitive, context-insensitive, a
// fixpoint over static calls inside the package):
//
//	sources  — the result of a lookup / range on a package-level map, and every value stored into one (it becomes
//	           shared by that store); shape by static type: a slice of scalars is "flat" (only the slice object is
//	           shared, its elements are values), a scalar is nothing, everything else is "deep" (whatever is
//	           reachable from it is shared as well — the dynamic type behind an `any` is unknown);
//	flow     — boxing, assertions, conversions, φ, local cells, closure captures, slicing, reflect.ValueOf and the
//	           reflect.Value views of the same object (Interface, Elem, Slice, Convert); element access (Index,
//	           MapIndex, range, x[i]) of a deep value is deep, of a flat value nothing; a value of scalar static
//	           type is never tracked; arguments to parameters and results back through static calls of the package;
//	sinks    — reflect.Value.Set / SetMapIndex / reflect.Append(…) with a tracked operand: the shared object itself
//	           becomes (part of) the target. reflect.MakeSlice/MakeMap/New results are fresh.
//
// One obligation per memo map; the report names the chain of functions from the table to the sink.
func c08memoValuesStayPrivate(c *Ctx, pkg string) {
	rule := "C08.R15"
	sp := c.P.SSAPkg(pkg)
	if sp == nil {
		c.R.Undecided(rule, pkg, "package loads", "no SSA package")
		return
	}
	funcs := c.P.AllFuncs(pkg)
	inPkg := map[*ssa.Function]bool{}
	for _, f := range funcs {
		inPkg[f] = true
	}
	var tables []*ssa.Global
	for _, m := range sp.Members {
		if g, ok := m.(*ssa.Global); ok {
			if _, isMap := g.Type().(*types.Pointer).Elem().Underlying().(*types.Map); isMap {
				tables = append(tables, g)
			}
		}
	}
	sort.Slice(tables, func(i, j int) bool { return tables[i].Name() < tables[j].Name() })
	n := 0
	for _, g := range tables {
		elem := g.Type().(*types.Pointer).Elem().Underlying().(*types.Map).Elem()
		k := shapeOf(elem)
		name := pkg + "." + g.Name() + "#values-stay-private"
		text := "no value kept in this package-level memo map (or reachable from one, when its shape is not flat) is stored into a target through reflect Set/SetMapIndex/Append: targets get copies, the memoised object stays the package's own"
		if k == tNone {
			c.R.Hold(rule, name, text+" (scalar values: nothing to share)", 1)
			n++
			continue
		}
		ta := &taintRun{c: c, inPkg: inPkg, table: g, st: map[ssa.Value]taintK{}, cell: map[ssa.Value]taintK{}, from: map[ssa.Value]ssa.Value{}, alias: map[ssa.Value]ssa.Value{}}
		ta.run(funcs)
		n++
		if len(ta.sinks) == 0 {
			c.R.Hold(rule, name, text, ta.tracked())
			continue
		}
		sort.Strings(ta.sinks)
		c.R.Fail(rule, name, text, c.P.Pos(g.Pos()), fmt.Sprintf("%d sink(s): %s", len(ta.sinks), strings.Join(ta.sinks, " | ")), ta.sinks)
	}
	if n < 2 {
		c.R.Undecided(rule, pkg+"#memo-tables", "the package-level memo maps are recognised", fmt.Sprintf("%d found", n))
	}
}

type taintK int

const (
	tNone taintK = iota
	tFlat        // the object is shared, its elements are scalars
	tDeep        // the object and whatever is reachable from it
)

func isScalarType(t types.Type) bool {
	switch u := t.Underlying().(type) {
	case *types.Basic:
		return true
	case *types.Struct:
		// small value structs made of scalars (e.g. cache entries holding flags)
		for i := 0; i < u.NumFields(); i++ {
			if !isScalarType(u.Field(i).Type()) {
				return false
			}
		}
		return true
	}
	return false
}

func shapeOf(t types.Type) taintK {
	if isScalarType(t) {
		return tNone
	}
	switch u := t.Underlying().(type) {
	case *types.Slice:
		if isScalarType(u.Elem()) {
			return tFlat
		}
	case *types.Array:
		if isScalarType(u.Elem()) {
			return tNone
		}
	case *types.Struct:
		// a struct value is copied; what it refers to may be shared
		k := tNone
		for i := 0; i < u.NumFields(); i++ {
			if s := shapeOf(u.Field(i).Type()); s > k {
				k = s
			}
		}
		return k
	}
	return tDeep
}

type taintRun struct {
	c       *Ctx
	inPkg   map[*ssa.Function]bool
	table   *ssa.Global
	st      map[ssa.Value]taintK
	cell    map[ssa.Value]taintK    // local cells (Alloc) and captured cells
	alias   map[ssa.Value]ssa.Value // FreeVar -> the Alloc it was bound to
	from    map[ssa.Value]ssa.Value
	sinks   []string
	sinkSet map[string]bool
	changed bool
}

func (t *taintRun) tracked() int {
	n := 0
	for _, k := range t.st {
		if k != tNone {
			n++
		}
	}
	if n == 0 {
		n = 1
	}
	return n
}

// clamp: a value of scalar static type carries nothing; a flat shape stays flat only for slices of scalars.
func clamp(k taintK, typ types.Type) taintK {
	if k == tNone || typ == nil {
		return k
	}
	if isScalarType(typ) {
		return tNone
	}
	if k == tDeep {
		if s := shapeOf(typ); s < k {
			// the static type proves a smaller shape (e.g. asserted to []string)
			if _, isIface := typ.Underlying().(*types.Interface); !isIface && !isReflectValue(typ) {
				return s
			}
		}
	}
	return k
}

func isReflectValue(t types.Type) bool {
	n, ok := t.(*types.Named)
	return ok && n.Obj().Pkg() != nil && n.Obj().Pkg().Path() == "reflect" && n.Obj().Name() == "Value"
}

func (t *taintRun) set(v ssa.Value, k taintK, src ssa.Value) {
	if v == nil || k == tNone {
		return
	}
	if !isReflectValue(v.Type()) {
		k = clamp(k, v.Type())
	}
	if k > t.st[v] {
		t.st[v] = k
		if _, ok := t.from[v]; !ok && src != nil {
			t.from[v] = src
		}
		t.changed = true
	}
}

func (t *taintRun) cellOf(addr ssa.Value) ssa.Value {
	if a, ok := t.alias[addr]; ok {
		return a
	}
	if _, ok := addr.(*ssa.Alloc); ok {
		return addr
	}
	if _, ok := addr.(*ssa.FreeVar); ok {
		return addr
	}
	return nil
}

func (t *taintRun) isTableLoad(v ssa.Value) bool {
	u, ok := v.(*ssa.UnOp)
	return ok && u.Op == token.MUL && u.X == ssa.Value(t.table)
}

func (t *taintRun) get(v ssa.Value) taintK {
	return t.st[v]
}

func (t *taintRun) run(funcs []*ssa.Function) {
	elemShape := shapeOf(t.table.Type().(*types.Pointer).Elem().Underlying().(*types.Map).Elem())
	for iter := 0; iter < 50; iter++ {
		t.changed = false
		for _, f := range funcs {
			for _, b := range f.Blocks {
				for _, ins := range b.Instrs {
					t.step(f, ins, elemShape)
				}
			}
		}
		if !t.changed {
			return
		}
	}
	t.sink(nil, t.table, "fixpoint not reached in 50 rounds")
}

func (t *taintRun) sink(f *ssa.Function, at ssa.Value, what string) {
	if t.sinkSet == nil {
		t.sinkSet = map[string]bool{}
	}
	chain := []string{}
	seen := map[ssa.Value]bool{}
	for v := at; v != nil && !seen[v] && len(chain) < 12; v = t.from[v] {
		seen[v] = true
		if p := v.Parent(); p != nil {
			n := funcDisplay(p)
			if len(chain) == 0 || chain[len(chain)-1] != n {
				chain = append(chain, n)
			}
		}
	}
	for i, j := 0, len(chain)-1; i < j; i, j = i+1, j-1 {
		chain[i], chain[j] = chain[j], chain[i]
	}
	fn := "-"
	if f != nil {
		fn = funcDisplay(f)
	}
	s := fmt.Sprintf("%s in %s (flow: %s)", what, fn, strings.Join(chain, " → "))
	if !t.sinkSet[s] {
		t.sinkSet[s] = true
		t.sinks = append(t.sinks, s)
	}
}

func (t *taintRun) step(f *ssa.Function, ins ssa.Instruction, elemShape taintK) {
	switch x := ins.(type) {
	case *ssa.Lookup:
		if t.isTableLoad(x.X) {
			if x.CommaOk {
				// the tuple; Extract 0 picks the value
				t.set(x, elemShape, nil)
			} else {
				t.set(x, elemShape, nil)
			}
			return
		}
		if k := t.get(x.X); k == tDeep {
			t.set(x, tDeep, x.X)
		}
	case *ssa.MapUpdate:
		if t.isTableLoad(x.Map) {
			// the stored value becomes shared: mark it (and the cell it was read from) as a source
			v := x.Value
			t.set(v, elemShape, nil)
			t.markBackward(v, elemShape)
		}
	case *ssa.Range:
		if t.isTableLoad(x.X) {
			t.set(x, elemShape, nil)
		} else if k := t.get(x.X); k == tDeep {
			t.set(x, tDeep, x.X)
		}
	case *ssa.Next:
		if k := t.get(x.Iter); k != tNone {
			t.set(x, k, x.Iter)
		}
	case *ssa.Extract:
		if k := t.get(x.Tuple); k != tNone {
			// tuples of lookups (value, ok), of range (ok, key, value) and of calls: only non-scalar components keep it
			t.set(x, k, x.Tuple)
		}
	case *ssa.Phi:
		for _, e := range x.Edges {
			if k := t.get(e); k != tNone {
				t.set(x, k, e)
			}
		}
	case *ssa.MakeInterface:
		t.set(x, t.get(x.X), x.X)
	case *ssa.ChangeInterface:
		t.set(x, t.get(x.X), x.X)
	case *ssa.ChangeType:
		t.set(x, t.get(x.X), x.X)
	case *ssa.Convert:
		t.set(x, t.get(x.X), x.X)
	case *ssa.TypeAssert:
		if k := t.get(x.X); k != tNone {
			if x.CommaOk {
				// tuple (value, ok): clamp by the asserted type
				t.setRaw(x, clamp(k, x.AssertedType), x.X)
			} else {
				t.set(x, k, x.X)
			}
		}
	case *ssa.Slice:
		t.set(x, t.get(x.X), x.X)
	case *ssa.IndexAddr:
		if k := t.get(x.X); k == tDeep {
			t.set(x, tDeep, x.X)
		}
	case *ssa.Index:
		if k := t.get(x.X); k == tDeep {
			t.set(x, tDeep, x.X)
		}
	case *ssa.FieldAddr, *ssa.Field:
		// struct values read out of a table: their reference-typed fields are shared
		var base ssa.Value
		if fa, ok := x.(*ssa.FieldAddr); ok {
			base = fa.X
		} else {
			base = x.(*ssa.Field).X
		}
		if k := t.get(base); k != tNone {
			t.set(x.(ssa.Value), k, base)
		}
	case *ssa.UnOp:
		if x.Op != token.MUL {
			return
		}
		if cl := t.cellOf(x.X); cl != nil {
			if k := t.cell[cl]; k != tNone {
				t.set(x, k, t.from[cl])
			}
			return
		}
		if k := t.get(x.X); k != tNone { // load through a tracked address (element / field address)
			t.set(x, k, x.X)
		}
	case *ssa.Store:
		if cl := t.cellOf(x.Addr); cl != nil {
			if k := t.get(x.Val); k > t.cell[cl] {
				t.cell[cl] = k
				if _, ok := t.from[cl]; !ok {
					t.from[cl] = x.Val
				}
				t.changed = true
			}
		}
	case *ssa.MakeClosure:
		if fn, ok := x.Fn.(*ssa.Function); ok {
			for i, b := range x.Bindings {
				if i >= len(fn.FreeVars) {
					break
				}
				fv := fn.FreeVars[i]
				if cl := t.cellOf(b); cl != nil {
					if t.alias[fv] != cl {
						t.alias[fv] = cl
						t.changed = true
					}
				} else if k := t.get(b); k != tNone {
					t.set(fv, k, b)
				}
			}
		}
	case *ssa.Return:
		// handled at call sites (results are read from the callee's returns)
	case ssa.CallInstruction:
		t.call(f, x)
	}
}

// setRaw sets without clamping by the value's own static type (used for tuples).
func (t *taintRun) setRaw(v ssa.Value, k taintK, src ssa.Value) {
	if k > t.st[v] {
		t.st[v] = k
		if _, ok := t.from[v]; !ok && src != nil {
			t.from[v] = src
		}
		t.changed = true
	}
}

// markBackward: a value that is stored into the table is shared from then on; when it was read from a local cell the
// cell's other readers see the same object.
func (t *taintRun) markBackward(v ssa.Value, k taintK) {
	for d := 0; d < 6 && v != nil; d++ {
		switch x := v.(type) {
		case *ssa.UnOp:
			if x.Op == token.MUL {
				if cl := t.cellOf(x.X); cl != nil {
					if k > t.cell[cl] {
						t.cell[cl] = k
						t.changed = true
					}
					return
				}
			}
			return
		case *ssa.MakeInterface:
			t.set(x.X, k, nil)
			v = x.X
		case *ssa.ChangeType:
			t.set(x.X, k, nil)
			v = x.X
		case *ssa.ChangeInterface:
			t.set(x.X, k, nil)
			v = x.X
		default:
			return
		}
	}
}

func (t *taintRun) call(f *ssa.Function, ci ssa.CallInstruction) {
	cc := ci.Common()
	val, _ := ci.(ssa.Value)
	if cc.IsInvoke() {
		return
	}
	if b, ok := cc.Value.(*ssa.Builtin); ok {
		if b.Name() == "append" && val != nil {
			for _, a := range cc.Args {
				if k := t.get(a); k == tDeep {
					t.set(val, tDeep, a)
				}
			}
			// append(dst, flat...) copies scalars: nothing shared; append(flatSlice, x) may alias flatSlice's array
			if len(cc.Args) > 0 {
				if k := t.get(cc.Args[0]); k != tNone {
					t.set(val, k, cc.Args[0])
				}
			}
		}
		return
	}
	callee := cc.StaticCallee()
	if callee == nil {
		return
	}
	if callee.Pkg != nil && callee.Pkg.Pkg.Path() == "reflect" {
		t.reflectCall(f, ci, callee)
		return
	}
	if !t.inPkg[callee] || callee.Blocks == nil {
		return
	}
	// arguments → parameters
	for i, a := range cc.Args {
		if i < len(callee.Params) {
			if k := t.get(a); k != tNone {
				t.set(callee.Params[i], k, a)
			}
		}
	}
	// closures called directly: bindings handled at MakeClosure
	// results ← the callee's returns
	if val == nil {
		return
	}
	for _, b := range callee.Blocks {
		if len(b.Instrs) == 0 {
			continue
		}
		r, ok := b.Instrs[len(b.Instrs)-1].(*ssa.Return)
		if !ok {
			continue
		}
		for _, rv := range r.Results {
			if k := t.get(rv); k != tNone {
				if len(r.Results) > 1 {
					t.setRaw(val, k, rv)
				} else {
					t.set(val, k, rv)
				}
			}
		}
	}
}

func (t *taintRun) reflectCall(f *ssa.Function, ci ssa.CallInstruction, callee *ssa.Function) {
	cc := ci.Common()
	val, _ := ci.(ssa.Value)
	name := callee.Name()
	recv := callee.Signature.Recv() != nil
	arg := func(i int) taintK {
		if i < len(cc.Args) {
			return t.get(cc.Args[i])
		}
		return tNone
	}
	switch {
	case !recv && name == "ValueOf":
		if val != nil {
			t.setRaw(val, arg(0), cc.Args[0])
		}
	case !recv && (name == "Append" || name == "AppendSlice"):
		for i := 1; i < len(cc.Args); i++ {
			if k := t.elemsOfVariadic(cc.Args[i]); k != tNone {
				t.sink(f, cc.Args[i], "reflect."+name+" takes a memoised value at "+t.c.P.Pos(ci.Pos()))
			}
		}
		if val != nil && arg(0) != tNone {
			t.setRaw(val, arg(0), cc.Args[0])
		}
	case recv && (name == "Set" || name == "SetMapIndex"):
		last := len(cc.Args) - 1
		if last >= 1 && arg(last) != tNone {
			t.sink(f, cc.Args[last], "reflect.Value."+name+" stores a memoised value at "+t.c.P.Pos(ci.Pos()))
		}
		if name == "SetMapIndex" && last >= 2 && arg(1) == tDeep {
			t.sink(f, cc.Args[1], "reflect.Value.SetMapIndex uses a memoised key at "+t.c.P.Pos(ci.Pos()))
		}
	case recv && val != nil:
		k := arg(0)
		if k == tNone {
			return
		}
		switch name {
		case "Interface", "Elem", "Slice", "Slice3", "Convert", "Addr":
			// the same object (Interface's static type is `any`: keep the shape)
			t.setRaw(val, k, cc.Args[0])
		case "Index", "MapIndex", "Field", "MapKeys", "MapRange":
			if k == tDeep {
				t.setRaw(val, tDeep, cc.Args[0])
			}
		}
	}
}

// elemsOfVariadic: reflect.Append(s, xs...) — xs is a []reflect.Value built by the compiler; look at what was stored in it.
func (t *taintRun) elemsOfVariadic(v ssa.Value) taintK {
	if k := t.get(v); k != tNone {
		return k
	}
	sl, ok := v.(*ssa.Slice)
	if !ok {
		return tNone
	}
	al, ok := sl.X.(*ssa.Alloc)
	if !ok {
		return tNone
	}
	best := tNone
	for _, r := range *al.Referrers() {
		ia, ok := r.(*ssa.IndexAddr)
		if !ok {
			continue
		}
		for _, r2 := range *ia.Referrers() {
			if st, ok := r2.(*ssa.Store); ok {
				if k := t.get(st.Val); k > best {
					best = k
				}
			}
		}
	}
	return best
}

// c08kindEstablished (C08.R16, round 7): "no input makes the unmarshaller panic" — reflect.Type.Key panics unless the
// type's kind is Map. Every call of it in the package is made on a type whose Kind() == reflect.Map was established
// for that very value: by a dominating comparison in the same function, or — when the receiver is a parameter — at every
// call site of the function in the package, for the argument passed (two levels). Testing the kind of Deref(t) and then
// handing on t itself (a pointer type for a `*map[…]…` member) is the mistake this catches: the callee's t.Key() panics
// for a member the dispatch took for a map.
func c08kindEstablished(c *Ctx, pkg string) {
	rule := "C08.R16"
	funcs := c.P.AllFuncs(pkg)
	callers := map[*ssa.Function][]*ssa.Call{}
	for _, f := range funcs {
		for _, b := range f.Blocks {
			for _, ins := range b.Instrs {
				if call, ok := ins.(*ssa.Call); ok {
					if cal := call.Call.StaticCallee(); cal != nil {
						callers[cal] = append(callers[cal], call)
					}
				}
			}
		}
	}
	n := 0
	for _, f := range funcs {
		for _, b := range f.Blocks {
			for _, ins := range b.Instrs {
				call, ok := ins.(*ssa.Call)
				if !ok || !call.Call.IsInvoke() || call.Call.Method.Name() != "Key" || !strings.HasSuffix(typeString(call.Call.Value.Type()), "reflect.Type") {
					continue
				}
				n++
				name := funcDisplay(f) + "#Key@" + strings.TrimPrefix(c.P.Pos(call.Pos()), "core/mapping/")
				why := kindIsMap(call.Call.Value, b, callers, 0)
				text := "reflect.Type.Key is called only on a type whose Kind() == reflect.Map was established for that same value (in the function, or at every call site for the argument passed)"
				if why == "" {
					c.R.Hold(rule, funcDisplay(f)+"#Key", text, 1)
				} else {
					_ = name
					c.R.Fail(rule, funcDisplay(f)+"#Key", text, c.P.Pos(call.Pos()), why, nil)
				}
			}
		}
	}
	if n == 0 {
		c.R.Undecided(rule, pkg+"#Key-sites", "the calls of reflect.Type.Key are recognised", "none found")
	}
}

// kindIsMap returns "" when v's kind is established as Map at block b, else the reason.
func kindIsMap(v ssa.Value, b *ssa.BasicBlock, callers map[*ssa.Function][]*ssa.Call, depth int) string {
	if condsEstablishMap(v, b, 0) {
		return ""
	}
	// reflect.Value.Type() of a value whose kind is established
	if call, ok := v.(*ssa.Call); ok && !call.Call.IsInvoke() {
		if cal := call.Call.StaticCallee(); cal != nil && cal.Name() == "Type" && cal.Signature.Recv() != nil && len(call.Call.Args) == 1 {
			if condsEstablishMap(call.Call.Args[0], b, 0) {
				return ""
			}
		}
	}
	// reflect.TypeOf(x) of a value that is a map
	if call, ok := v.(*ssa.Call); ok && !call.Call.IsInvoke() {
		if cal := call.Call.StaticCallee(); cal != nil && cal.Pkg != nil && cal.Pkg.Pkg.Path() == "reflect" && cal.Name() == "TypeOf" && len(call.Call.Args) == 1 {
			if valueIsMap(call.Call.Args[0], b, callers, depth) {
				return ""
			}
			return fmt.Sprintf("reflect.TypeOf(%s): the value is not known to be a map here", call.Call.Args[0].Name())
		}
	}
	p, ok := v.(*ssa.Parameter)
	if !ok || depth >= 2 {
		return fmt.Sprintf("the kind of %s is not established as Map here", v.Name())
	}
	fn := p.Parent()
	idx := -1
	for i, q := range fn.Params {
		if q == p {
			idx = i
		}
	}
	sites := callers[fn]
	if idx < 0 || len(sites) == 0 {
		return fmt.Sprintf("parameter %s of %s: no call site to establish its kind", p.Name(), funcDisplay(fn))
	}
	for _, s := range sites {
		if idx >= len(s.Call.Args) {
			continue
		}
		if why := kindIsMap(s.Call.Args[idx], s.Block(), callers, depth+1); why != "" {
			return fmt.Sprintf("%s passes %s for parameter %s of %s without having established that value's kind as Map (the kind of another value, e.g. of its dereferenced type, does not count): %s", funcDisplay(s.Parent()), s.Call.Args[idx].Name(), p.Name(), funcDisplay(fn), why)
		}
	}
	return ""
}

// condsEstablishMap: some condition known to hold at b says Kind(v) == reflect.Map.
func condsEstablishMap(v ssa.Value, b *ssa.BasicBlock, depth int) bool {
	kindOf := func(x ssa.Value) ssa.Value {
		call, ok := x.(*ssa.Call)
		if !ok {
			return nil
		}
		if call.Call.IsInvoke() && call.Call.Method.Name() == "Kind" {
			return call.Call.Value
		}
		if cal := call.Call.StaticCallee(); cal != nil && cal.Name() == "Kind" && len(call.Call.Args) == 1 {
			return call.Call.Args[0]
		}
		return nil
	}
	isMapConst := func(x ssa.Value) bool {
		k, ok := x.(*ssa.Const)
		if !ok || k.Value == nil || !strings.HasSuffix(typeString(k.Type()), "reflect.Kind") {
			return false
		}
		n, exact := constant.Int64Val(k.Value)
		return exact && n == 21 // reflect.Map
	}
	for _, eq := range knownEqualities(b) {
		if (kindOf(eq[0]) == v && isMapConst(eq[1])) || (kindOf(eq[1]) == v && isMapConst(eq[0])) {
			return true
		}
	}
	return false
}

// valueIsMap: the dynamic type of x is a map at block b — by its static type, by a dominating type assertion or kind
// test of reflect.TypeOf(x), or (for a parameter) at every call site.
func valueIsMap(x ssa.Value, b *ssa.BasicBlock, callers map[*ssa.Function][]*ssa.Call, depth int) bool {
	isMapT := func(t types.Type) bool { _, ok := t.Underlying().(*types.Map); return ok }
	if isMapT(x.Type()) {
		return true
	}
	if mi, ok := x.(*ssa.MakeInterface); ok && isMapT(mi.X.Type()) {
		return true
	}
	// dominating `_, ok := x.(map…)` / type-switch case, or TypeOf(x).Kind() == Map
	for _, cnd := range knownConds(b, 0) {
		if ex, ok := cnd.(*ssa.Extract); ok && ex.Index == 1 {
			if ta, ok := ex.Tuple.(*ssa.TypeAssert); ok && ta.X == x && isMapT(ta.AssertedType) {
				return true
			}
		}
		if bo, ok := cnd.(*ssa.BinOp); ok && bo.Op == token.EQL {
			for _, side := range []ssa.Value{bo.X, bo.Y} {
				kc, ok := side.(*ssa.Call)
				if !ok || !kc.Call.IsInvoke() || kc.Call.Method.Name() != "Kind" {
					continue
				}
				tc, ok := kc.Call.Value.(*ssa.Call)
				if !ok || tc.Call.IsInvoke() {
					continue
				}
				if cal := tc.Call.StaticCallee(); cal != nil && cal.Name() == "TypeOf" && len(tc.Call.Args) == 1 && tc.Call.Args[0] == x {
					other := bo.Y
					if side == bo.Y {
						other = bo.X
					}
					if k, ok := other.(*ssa.Const); ok && k.Value != nil {
						if n, exact := constant.Int64Val(k.Value); exact && n == 21 {
							return true
						}
					}
				}
			}
		}
	}
	p, ok := x.(*ssa.Parameter)
	if !ok || depth >= 3 {
		return false
	}
	fn := p.Parent()
	idx := -1
	for i, q := range fn.Params {
		if q == p {
			idx = i
		}
	}
	sites := callers[fn]
	if idx < 0 || len(sites) == 0 {
		return false
	}
	for _, s := range sites {
		if idx >= len(s.Call.Args) || !valueIsMap(s.Call.Args[idx], s.Block(), callers, depth+1) {
			return false
		}
	}
	return true
}

// knownConds: the atomic conditions known to be true on entry to block b — the conditions of the dominating
// conditionals on whose true side b lies; a conjunction `a && b` (a φ of false and b) contributes b and whatever is
// known where b was evaluated (which includes a).
func knownConds(b *ssa.BasicBlock, depth int) []ssa.Value {
	pos, _ := knownCondsBoth(b, depth)
	return pos
}

// knownEqualities: the (x, y) pairs known to be equal on entry to b — `x == y` on a true side, `x != y` on a false side.
func knownEqualities(b *ssa.BasicBlock) [][2]ssa.Value {
	var out [][2]ssa.Value
	pos, neg := knownCondsBoth(b, 0)
	for _, c := range pos {
		if bo, ok := c.(*ssa.BinOp); ok && bo.Op == token.EQL {
			out = append(out, [2]ssa.Value{bo.X, bo.Y})
		}
	}
	for _, c := range neg {
		if bo, ok := c.(*ssa.BinOp); ok && bo.Op == token.NEQ {
			out = append(out, [2]ssa.Value{bo.X, bo.Y})
		}
	}
	return out
}

func knownCondsBoth(b *ssa.BasicBlock, depth int) (out []ssa.Value, negs []ssa.Value) {
	if b == nil || depth > 6 {
		return nil, nil
	}
	var flat func(c ssa.Value, d int) bool
	flat = func(c ssa.Value, d int) bool {
		phi, ok := c.(*ssa.Phi)
		if !ok {
			out = append(out, c)
			return true
		}
		if d > 6 {
			return false
		}
		for _, e := range phi.Edges {
			if k, isK := e.(*ssa.Const); isK && k.Value != nil && constant.BoolVal(k.Value) {
				return false // a disjunction: nothing certain
			}
		}
		for i, e := range phi.Edges {
			if _, isK := e.(*ssa.Const); isK {
				continue
			}
			n := len(out)
			if !flat(e, d+1) {
				out = out[:n]
				continue
			}
			p2, n2 := knownCondsBoth(phi.Block().Preds[i], depth+1)
			out = append(out, p2...)
			negs = append(negs, n2...)
		}
		return true
	}
	for d := b; d != nil; d = d.Idom() {
		id := d.Idom()
		if id == nil || len(id.Instrs) == 0 {
			continue
		}
		br, ok := id.Instrs[len(id.Instrs)-1].(*ssa.If)
		if !ok {
			continue
		}
		if id.Succs[0].Dominates(b) && len(id.Succs[0].Preds) == 1 {
			flat(br.Cond, 0)
		} else if id.Succs[1].Dominates(b) && len(id.Succs[1].Preds) == 1 {
			if _, isPhi := br.Cond.(*ssa.Phi); !isPhi {
				negs = append(negs, br.Cond)
			}
		}
	}
	return out, negs
}

// c08contentLengthReadOnly (C08.R17, round 8): the request-side adapter decides from r.ContentLength whether there is
// a JSON body to validate (httpx.withJsonBody). No function of the module writes http.Request.ContentLength: a
// middleware that "corrects" it (after swapping in a decompressing reader, say) makes the adapter skip the body — its
// members are never range- or option-checked and the target keeps its zero values.
func c08contentLengthReadOnly(c *Ctx) {
	rule := "C08.R17"
	var bad []string
	reads := 0
	for _, pk := range c.P.Pkgs {
		rel := strings.TrimPrefix(pk.PkgPath, mod)
		for _, f := range c.P.AllFuncs(rel) {
			for _, b := range f.Blocks {
				for _, ins := range b.Instrs {
					fa, ok := ins.(*ssa.FieldAddr)
					if !ok {
						continue
					}
					pt, ok := fa.X.Type().Underlying().(*types.Pointer)
					if !ok || typeString(pt.Elem()) != "net/http.Request" || fieldNameAt(fa.X.Type(), fa.Field) != "ContentLength" {
						continue
					}
					reads++
					for _, r := range *fa.Referrers() {
						// the request a handler was handed (a parameter), not one the function builds for an outgoing call
						if _, isParam := fa.X.(*ssa.Parameter); !isParam {
							continue
						}
						if st, ok := r.(*ssa.Store); ok && st.Addr == ssa.Value(fa) {
							bad = append(bad, fmt.Sprintf("%s: %s writes r.ContentLength", c.P.Pos(st.Pos()), funcDisplay(f)))
						}
					}
				}
			}
		}
	}
	sort.Strings(bad)
	o := c.R.Check(len(bad) == 0 && reads >= 2, rule, "module#request-content-length", "no function of the module writes the ContentLength of a request it was handed (the adapters decide from it whether a body is to be parsed and validated)", "-", fmt.Sprintf("%d uses; %s", reads, strings.Join(bad, "; ")), bad, reads)
	o.Sites = reads
}
