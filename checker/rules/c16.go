package rules

import (
	"fmt"
	"go/constant"
	"go/token"
	"strings"

	"golang.org/x/tools/go/ssa"

	"gzverify/px"
)

// C16 — in-memory collections.
func init() { register("C16", "other", c16) }

const colPkg = "core/collection"

func c16(c *Ctx) {
	c.R.RuleText = "two-generation discipline of SafeMap on all paths, LRU coherence rules, Cache API path rules and lock guards, decision table and algebraic normal forms of the rolling window (span, offset advance, time re-alignment, reduce range)"
	c.R.Explain = "Structural necessary conditions of C16: SafeMap.Set writes one generation only after the key was removed from the other (so a key lives in at most one), Get/Range/Size consult both, Del removes from the generation that holds the key, each migration copies every entry before the source is replaced, all under the lock; keyLru.add moves an existing key to the front or pushes a new one and evicts the back whenever the list outgrew the limit, removeElement unlinks, forgets and calls onEvict; Cache.Del removes data, LRU entry and timer; SetWithExpire stores, refreshes the LRU position unconditionally and sets or moves the timer by prior presence; Take fetches only inside the single-flight closure after a second miss and caches only a successful fetch; RollingWindow: span = Since(lastTime)/interval if within [0,size) else size; updateOffset resets the span buckets following the offset, advances the offset by span modulo size and re-aligns lastTime to the last interval boundary not after now; Reduce visits size−span buckets (size−1 when ignoring the current one) starting after the expired ones. Ring.Add stores at index % len, advances by one and rebases by exactly len once index ≥ 2·len; Ring.Take reads (start+i) % len for i < size with (start, size) = (index % len, len) when wrapped and (0, index) otherwise. NOT decided: equivalence to reference models over operation sequences; expiry timing."
	c.R.Assume = append(c.R.Assume, "container/list semantics", "map semantics")
	c16safemap(c)
	c16lru(c)
	c16cache(c)
	c16window(c)
	c16queue(c)
	c16queueEmpty(c)
	c16set(c)
	c16ring(c)
	c16deleters(c)
	// R10/R11 (round 8): the cache's expiry is the timing wheel's doing and its Take is the single flight's: their
	// rules are part of this property's check as well (a wheel that forgets a live key's timer deletes a newer value;
	// a flight that keeps a finished call answers every later Take with the old error)
	runShared(c, "C12.", "C16.R10·C12.", c12)
	runShared(c, "C07.", "C16.R11·C07.", c07)
}

// countPred evaluates a boolean sym that only compares the load of field `field` with integer constants,
// for field = n. ok=false when the sym has another shape.
func countPred(s *px.Sym, field string, n int64) (val, ok bool) {
	s = s.Strip(true)
	if s == nil {
		return false, false
	}
	switch s.Kind {
	case px.KUnOp:
		if s.Op == token.NOT {
			v, ok := countPred(s.X, field, n)
			return !v, ok
		}
	case px.KBinOp:
		num := func(x *px.Sym) (int64, bool) {
			x = x.Strip(true)
			if x == nil {
				return 0, false
			}
			if px.IsFieldLoad(x, field, nil) {
				return n, true
			}
			if x.Kind == px.KConst {
				if k, ok := x.V.(*ssa.Const); ok && k.Value != nil && k.Value.Kind() == constant.Int {
					return k.Int64(), true
				}
			}
			return 0, false
		}
		a, ok1 := num(s.X)
		b, ok2 := num(s.Y)
		if !ok1 || !ok2 {
			return false, false
		}
		switch s.Op {
		case token.EQL:
			return a == b, true
		case token.NEQ:
			return a != b, true
		case token.LSS:
			return a < b, true
		case token.LEQ:
			return a <= b, true
		case token.GTR:
			return a > b, true
		case token.GEQ:
			return a >= b, true
		}
	}
	return false, false
}

// c16queueEmpty (R6): Empty() is decided by the element count (head == tail is also true for a full ring) and
// the queue grows by a positive step (a queue created with size 0 must still accept elements).
func c16queueEmpty(c *Ctx) {
	rule := "C16.R6"
	if f := c.fn(rule, colPkg, "(*Queue).Empty"); f != nil {
		ps := c.paths(rule, f, px.Config{})
		c.forall(rule, colPkg+".(*Queue).Empty", "Empty() ⇔ count == 0, read under the lock (head == tail also holds for a full ring buffer)", f, ps, func(p *px.Path) (bool, string) {
			if p.Exit != px.ExitReturn || len(p.Results) != 1 {
				return true, ""
			}
			for n := int64(0); n <= 2; n++ {
				v, ok := countPred(p.Results[0], "count", n)
				if !ok {
					return false, "the result is not a test of q.count: " + p.Results[0].Describe()
				}
				if v != (n == 0) {
					return false, fmt.Sprintf("with %d elements Empty() is %v", n, v)
				}
			}
			return true, ""
		})
		lockGuardFn(c, rule, colPkg+".(*Queue).Empty#lock", f, "lock", []string{"count", "head", "tail", "elements"}, false, false, nil, false)
	}
	// the ring is created with at least one cell and grows by a positive step: Put indexes elements[tail] and
	// reduces modulo len(elements) unconditionally
	if f := c.fn(rule, colPkg, "NewQueue"); f != nil && len(f.Params) == 1 {
		positive := func(v ssa.Value) bool {
			switch x := v.(type) {
			case *ssa.Const:
				return x.Value != nil && x.Value.Kind() == constant.Int && x.Int64() > 0
			case *ssa.Phi:
				// size, or a positive constant on the branch that found it too small
				hasConst, rest := false, true
				for _, e := range x.Edges {
					if k, ok := e.(*ssa.Const); ok && k.Value != nil && k.Int64() > 0 {
						hasConst = true
					} else if e != f.Params[0] {
						rest = false
					}
				}
				return hasConst && rest
			case *ssa.Call:
				if b, ok := x.Call.Value.(*ssa.Builtin); ok && b.Name() == "max" {
					for _, a := range x.Call.Args {
						if k, ok := a.(*ssa.Const); ok && k.Value != nil && k.Int64() > 0 {
							return true
						}
					}
				}
				if sc := x.Call.StaticCallee(); sc != nil && (sc.Name() == "MaxInt" || sc.Name() == "AtLeast") {
					for _, a := range x.Call.Args {
						if k, ok := a.(*ssa.Const); ok && k.Value != nil && k.Int64() > 0 {
							return true
						}
					}
				}
			}
			return false
		}
		var bad []string
		n := 0
		for _, b := range f.Blocks {
			for _, ins := range b.Instrs {
				switch x := ins.(type) {
				case *ssa.MakeSlice:
					n++
					if !positive(x.Len) {
						bad = append(bad, c.P.Pos(x.Pos())+": the ring is made with the caller's size as it is (0 or negative gives an empty ring: Put then indexes elements[0] of an empty slice)")
					}
				case *ssa.Store:
					if fa, ok := x.Addr.(*ssa.FieldAddr); ok && fieldNameOf(fa) == "size" {
						n++
						if !positive(x.Val) {
							bad = append(bad, c.P.Pos(x.Pos())+": the growth step q.size is the caller's size as it is (0 means the ring never grows)")
						}
					}
				}
			}
		}
		if n < 2 {
			c.R.Undecided(rule, colPkg+".NewQueue#size", "the ring allocation and the growth step are recognised", fmt.Sprint(n))
		} else {
			c.R.Check(len(bad) == 0, rule, colPkg+".NewQueue#size", "the ring has at least one cell and a positive growth step for every size argument (Queue behaves as a FIFO for every size parameter)", posOf(c, f), fmt.Sprint(bad), nil, n)
		}
	}
}

// c16set (R7): Set is a mathematical set over whatever was added: add stores the element on every path, Remove
// deletes it on every path, Contains answers the map lookup (false without a lookup only for the empty set). The
// type bookkeeping (validate) only logs; it must not make Contains disagree with add/Keys/Count.
func c16set(c *Ctx) {
	rule := "C16.R7"
	isData := func(s *px.Sym) bool { return px.IsFieldLoad(s, "data", nil) }
	if f := c.fn(rule, colPkg, "(*Set).add"); f != nil {
		ps := c.paths(rule, f, px.Config{})
		c.forall(rule, colPkg+".(*Set).add", "every path stores data[i] (the type bookkeeping never rejects an element)", f, ps, func(p *px.Path) (bool, string) {
			if p.Exit != px.ExitReturn {
				return true, ""
			}
			for _, e := range p.All(px.KindIs(px.EvMapUpdate)) {
				if isData(e.Addr) && isParam(e.Key, f.Params[1]) {
					return true, ""
				}
			}
			return false, "an element is dropped without being stored"
		})
	}
	if f := c.fn(rule, colPkg, "(*Set).Remove"); f != nil {
		ps := c.paths(rule, f, px.Config{})
		c.forall(rule, colPkg+".(*Set).Remove", "every path deletes data[i]", f, ps, func(p *px.Path) (bool, string) {
			if p.Exit != px.ExitReturn {
				return true, ""
			}
			for _, e := range p.All(px.KindIs(px.EvCall)) {
				if e.Call.Builtin == "delete" && isData(e.Call.Args[0]) && isParam(e.Call.Args[1], f.Params[1]) {
					return true, ""
				}
			}
			return false, "Remove returns without deleting the element"
		})
	}
	if f := c.fn(rule, colPkg, "(*Set).Contains"); f != nil {
		ps := c.paths(rule, f, px.Config{})
		c.forall(rule, colPkg+".(*Set).Contains", "the answer is the lookup data[i]; false without a lookup only when the set is empty", f, ps, func(p *px.Path) (bool, string) {
			if p.Exit != px.ExitReturn || len(p.Results) != 1 {
				return true, ""
			}
			for _, lk := range p.All(px.KindIs(px.EvLookup)) {
				if isData(lk.Addr) && isParam(lk.Key, f.Params[1]) && p.Results[0].Strip(false) == findExtract(p, lk.Res, 1) {
					return true, ""
				}
			}
			if p.Abs(p.Results[0]).K == px.False {
				// the emptiness test must be the branch that decided this return
				var last *px.Event
				for _, b := range p.All(px.KindIs(px.EvBranch)) {
					if !b.Forced {
						last = b
					}
				}
				if last != nil {
					cnd := last.Cond.Strip(true)
					if cnd.Kind == px.KBinOp && (isLenOf(cnd.X, isData) || isLenOf(cnd.Y, isData)) {
						return true, ""
					}
				}
				return false, "false is answered without looking the element up in a non-empty set: an element that add() stored (and Keys/Count report) is denied"
			}
			return false, "the answer is not the result of the lookup data[i]"
		})
	}
	c.R.Min(rule, 3, "Set.add, Set.Remove, Set.Contains")
}

func c16safemap(c *Ctx) {
	rule := "C16.R1"
	gens := []string{"dirtyOld", "dirtyNew"}
	other := func(g string) string {
		if g == "dirtyOld" {
			return "dirtyNew"
		}
		return "dirtyOld"
	}
	genOf := func(s *px.Sym) string {
		for _, g := range gens {
			if px.IsFieldLoad(s, g, nil) {
				return g
			}
		}
		return ""
	}
	if f := c.fn(rule, colPkg, "(*SafeMap).Set"); f != nil {
		keyP, valP := f.Params[1], f.Params[2]
		ps := c.paths(rule, f, px.Config{})
		c.forall(rule, colPkg+".(*SafeMap).Set", "the key/value is stored in exactly one generation, and only after the key was looked up in the other generation and deleted from it when present (a key never lives in both)", f, ps, func(p *px.Path) (bool, string) {
			if p.Exit != px.ExitReturn {
				return true, ""
			}
			ups := p.All(px.KindIs(px.EvMapUpdate))
			if len(ups) != 1 || !isParam(ups[0].Key, keyP) || !isParam(ups[0].Val, valP) {
				return false, "not exactly one store of (key, value)"
			}
			g := genOf(ups[0].Addr)
			if g == "" {
				return false, "stored into something other than a generation map"
			}
			ok := false
			for _, lk := range p.All(px.KindIs(px.EvLookup)) {
				if lk.Seq > ups[0].Seq || genOf(lk.Addr) != other(g) || !isParam(lk.Key, keyP) {
					continue
				}
				present := findExtract(p, lk.Res, 1)
				switch p.Abs(present).K {
				case px.False:
					ok = true
				case px.True:
					for _, d := range p.All(func(e *px.Event) bool { return e.Kind == px.EvCall && e.Call.Builtin == "delete" }) {
						if d.Seq > lk.Seq && d.Seq < ups[0].Seq && genOf(d.Call.Args[0]) == other(g) && isParam(d.Call.Args[1], keyP) {
							ok = true
						}
					}
				}
			}
			if !ok {
				return false, "the key is written to " + g + " without being removed from " + other(g) + ": it can then live in both generations — Get returns the stale value, Size/Range count it twice and a migration resurrects the old value"
			}
			return true, ""
		})
	}
	if f := c.fn(rule, colPkg, "(*SafeMap).Get"); f != nil {
		keyP := f.Params[1]
		ps := c.paths(rule, f, px.Config{})
		c.forall(rule, colPkg+".(*SafeMap).Get", "both generations are consulted for the key: a hit in one returns that value with true; otherwise the other generation's answer", f, ps, func(p *px.Path) (bool, string) {
			if p.Exit != px.ExitReturn {
				return true, ""
			}
			lks := p.All(px.KindIs(px.EvLookup))
			seen := map[string]*px.Event{}
			for _, lk := range lks {
				if g := genOf(lk.Addr); g != "" && isParam(lk.Key, keyP) {
					seen[g] = lk
				}
			}
			r0, r1 := p.Results[0].Strip(false), p.Results[1].Strip(false)
			for _, lk := range seen {
				if ok := findExtract(p, lk.Res, 1); ok != nil && p.Abs(ok).K == px.True {
					if r0 != findExtract(p, lk.Res, 0).Strip(false) || p.Abs(r1).K != px.True {
						return false, "a hit is not returned as (value, true)"
					}
					return true, ""
				}
			}
			if len(seen) != 2 {
				return false, "a miss in one generation is answered without consulting the other"
			}
			// answer of the last lookup
			last := lks[len(lks)-1]
			if r0 != findExtract(p, last.Res, 0).Strip(false) || r1 != findExtract(p, last.Res, 1).Strip(false) {
				return false, "the second generation's answer is not returned"
			}
			return true, ""
		})
	}
	if f := c.fn(rule, colPkg, "(*SafeMap).Del"); f != nil {
		keyP := f.Params[1]
		ps := c.paths(rule, f, px.Config{MaxVisits: 2, MaxPaths: 100000})
		c.forall(rule, colPkg+".(*SafeMap).Del", "the key is deleted from the generation that holds it (and that generation's deletion counter incremented); every migration copies each entry of the source generation into the target before the source is replaced", f, ps, func(p *px.Path) (bool, string) {
			if p.Exit == px.ExitCut {
				return true, ""
			}
			// deletion part
			for _, lk := range p.All(px.KindIs(px.EvLookup)) {
				g := genOf(lk.Addr)
				if g == "" || !isParam(lk.Key, keyP) {
					continue
				}
				if ok := findExtract(p, lk.Res, 1); ok != nil && p.Abs(ok).K == px.True {
					found := false
					for _, d := range p.All(func(e *px.Event) bool { return e.Kind == px.EvCall && e.Call.Builtin == "delete" }) {
						if genOf(d.Call.Args[0]) == g && isParam(d.Call.Args[1], keyP) {
							found = true
						}
					}
					if !found {
						return false, "the key is found in " + g + " but not deleted from it"
					}
					break
				}
			}
			// migrations: a store replacing a generation field by another map must be preceded by a complete copy loop
			for _, st := range p.All(px.KindIs(px.EvStore)) {
				_, fname, ok := st.Addr.FieldAddrOf()
				if !ok || !nameIn(fname, gens) {
					continue
				}
				if st.Val.Strip(false).Kind == px.KMakeMap {
					// the map that fname held must survive: handed to the other generation field, or
					// ranged over and copied entry by entry into the other generation's map
					copied := false
					rangedOver := func(next *px.Sym) bool { // next: KNext sym
						return next != nil && next.Kind == px.KNext && next.X != nil && next.X.Kind == px.KRange && px.IsFieldLoad(next.X.X, fname, nil)
					}
					for _, ev := range p.Events[:st.Seq] {
						switch ev.Kind {
						case px.EvStore:
							if _, on, isF := ev.Addr.FieldAddrOf(); isF && on == other(fname) && px.IsFieldLoad(ev.Val, fname, nil) {
								copied = true // pointer hand-off: other = this
							}
						case px.EvMapUpdate:
							k := ev.Key.Strip(false)
							if genOf(ev.Addr) == other(fname) && k.Kind == px.KExtract && rangedOver(k.X) {
								copied = true
							}
						case px.EvBranch:
							cn := ev.Cond.Strip(false)
							if cn.Kind == px.KExtract && cn.Index == 0 && rangedOver(cn.X) && !ev.Taken {
								copied = true // the loop over fname ran to exhaustion (possibly zero entries)
							}
						}
					}
					if !copied {
						return false, fname + " is replaced by a fresh map without its entries having been copied to " + other(fname)
					}
				}
			}
			return true, ""
		})
		c.R.Check(len(earlyExitLoops(f)) == 0, rule, colPkg+".(*SafeMap).Del#copyall", "the migration loops visit every entry (no early exit)", posOf(c, f), fmt.Sprint(earlyExitLoops(f)), nil, 2)
	}
	if f := c.fn(rule, colPkg, "(*SafeMap).Size"); f != nil {
		ps := c.paths(rule, f, px.Config{})
		c.forall(rule, colPkg+".(*SafeMap).Size", "len(dirtyOld) + len(dirtyNew)", f, ps, func(p *px.Path) (bool, string) {
			if p.Exit != px.ExitReturn {
				return true, ""
			}
			got := anf(p, p.Results[0], func(s *px.Sym) string {
				for _, g := range gens {
					if isLenOf(s, func(x *px.Sym) bool { return px.IsFieldLoad(x, g, nil) }) {
						return "len_" + g
					}
				}
				return ""
			}).String()
			if got != "1·len_dirtyNew + 1·len_dirtyOld" {
				return false, "size is " + got
			}
			return true, ""
		})
	}
	if f := c.fn(rule, colPkg, "(*SafeMap).Range"); f != nil {
		ranged := map[string]bool{}
		for _, b := range f.Blocks {
			for _, ins := range b.Instrs {
				if r, ok := ins.(*ssa.Range); ok {
					for _, g := range gens {
						if viaField(r.X, g) {
							ranged[g] = true
						}
					}
				}
			}
		}
		c.R.Check(len(ranged) == 2, rule, colPkg+".(*SafeMap).Range", "both generations are iterated", posOf(c, f), fmt.Sprint(ranged), nil, 2)
	}
	c.R.Min(rule, 6, "Set, Get, Del (2), Size, Range")

	rule = "C16.R4"
	fields := []string{"dirtyOld", "dirtyNew", "deletionOld", "deletionNew"}
	for _, m := range []string{"Set", "Get", "Del", "Size", "Range"} {
		lockGuardFn(c, rule, colPkg+".(*SafeMap)."+m+"#lock", c.fn(rule, colPkg, "(*SafeMap)."+m), "lock", fields, false, true, nil, false)
	}
}

func c16lru(c *Ctx) {
	rule := "C16.R2"
	if f := c.fn(rule, colPkg, "(*keyLru).add"); f != nil {
		keyP := f.Params[1]
		ps := c.paths(rule, f, px.Config{})
		c.forall(rule, colPkg+".(*keyLru).add", "a known key is moved to the front (nothing else); a new key is pushed to the front and recorded, and the oldest entry is evicted whenever the list has outgrown the limit", f, ps, func(p *px.Path) (bool, string) {
			if p.Exit != px.ExitReturn {
				return true, ""
			}
			lk := p.First(px.KindIs(px.EvLookup))
			if lk == nil || !px.IsFieldLoad(lk.Addr, "elements", nil) || !isParam(lk.Key, keyP) {
				return false, "elements[key] not consulted"
			}
			known := findExtract(p, lk.Res, 1)
			mv := p.All(calleeIs("container/list.(*List).MoveToFront"))
			pf := p.All(calleeIs("container/list.(*List).PushFront"))
			ups := p.All(px.KindIs(px.EvMapUpdate))
			ro := p.All(calleeIs(colPkg + ".(*keyLru).removeOldest"))
			switch p.Abs(known).K {
			case px.True:
				if len(mv) != 1 || mv[0].Call.Args[1].Strip(false) != findExtract(p, lk.Res, 0).Strip(false) || len(pf)+len(ups)+len(ro) != 0 {
					return false, "a known key is not simply moved to the front"
				}
			case px.False:
				if len(pf) != 1 || len(ups) != 1 || len(mv) != 0 {
					return false, "a new key is not pushed and recorded once"
				}
				if !isParam(ups[0].Key, keyP) || ups[0].Val.Strip(false) != pf[0].Res {
					return false, "elements[key] is not the pushed element"
				}
				over := 0
				for _, b := range p.All(px.KindIs(px.EvBranch)) {
					cnd := b.Cond.Strip(true)
					if cnd.Kind == px.KBinOp && px.IsFieldLoad(cnd.Y, "limit", nil) {
						x := cnd.X.Strip(true)
						if x.Kind == px.KCall && shortName(x.Call) == "container/list.(*List).Len" {
							switch cnd.Op {
							case token.GTR:
								over = triOf(b.Taken)
							case token.GEQ:
								if b.Taken {
									over = 1
								} else {
									over = -1
								}
							case token.LEQ:
								over = triOf(!b.Taken)
							}
						}
					}
				}
				if over == 0 {
					return false, "the list length is not compared with the limit"
				}
				if over == 1 && len(ro) != 1 {
					return false, "the list exceeds the limit but nothing is evicted"
				}
				if over == -1 && len(ro) != 0 {
					// evicting earlier than necessary only when compared with >= is acceptable; with > it is a surplus eviction
					for _, b := range p.All(px.KindIs(px.EvBranch)) {
						if cnd := b.Cond.Strip(true); cnd.Kind == px.KBinOp && cnd.Op == token.GTR && px.IsFieldLoad(cnd.Y, "limit", nil) {
							return false, "an entry is evicted although the limit is not exceeded"
						}
					}
				}
			default:
				return false, "presence not tested"
			}
			return true, ""
		})
	}
	if f := c.fn(rule, colPkg, "(*keyLru).removeElement"); f != nil {
		ps := c.paths(rule, f, px.Config{})
		c.forall(rule, colPkg+".(*keyLru).removeElement", "the element is unlinked, its key forgotten, and onEvict(key) called — each once", f, ps, func(p *px.Path) (bool, string) {
			if p.Exit != px.ExitReturn {
				return true, ""
			}
			rm := p.All(calleeIs("container/list.(*List).Remove"))
			dl := p.All(func(e *px.Event) bool { return e.Kind == px.EvCall && e.Call.Builtin == "delete" })
			ev := p.All(px.DynWhere(func(s *px.Sym) bool { return px.IsFieldLoad(s, "onEvict", nil) }))
			if len(rm) != 1 || len(dl) != 1 || len(ev) != 1 {
				return false, fmt.Sprintf("Remove ×%d, delete ×%d, onEvict ×%d", len(rm), len(dl), len(ev))
			}
			if !isParam(rm[0].Call.Args[1], f.Params[1]) || dl[0].Call.Args[1].Strip(false) != ev[0].Call.Args[0].Strip(false) {
				return false, "unlinks/forgets/evicts different things"
			}
			return true, ""
		})
	}
	if f := c.fn(rule, colPkg, "(*keyLru).removeOldest"); f != nil {
		ps := c.paths(rule, f, px.Config{})
		c.forall(rule, colPkg+".(*keyLru).removeOldest", "the back (least recently used) element is removed", f, ps, func(p *px.Path) (bool, string) {
			bk := p.First(calleeIs("container/list.(*List).Back"))
			if bk == nil {
				return false, "the victim is not evicts.Back()"
			}
			for _, r := range p.All(calleeIs(colPkg + ".(*keyLru).removeElement")) {
				if r.Call.Args[1].Strip(false) != bk.Res {
					return false, "another element is removed"
				}
			}
			if p.Abs(bk.Res).K == px.NonNil && p.Exit == px.ExitReturn && !p.Has(calleeIs(colPkg+".(*keyLru).removeElement")) {
				return false, "a non-empty list evicts nothing"
			}
			return true, ""
		})
	}
	if f := c.fn(rule, colPkg, "(*keyLru).remove"); f != nil {
		ps := c.paths(rule, f, px.Config{})
		c.forall(rule, colPkg+".(*keyLru).remove", "a known key's element is removed; an unknown key has no effect", f, ps, func(p *px.Path) (bool, string) {
			lk := p.First(px.KindIs(px.EvLookup))
			if lk == nil {
				return false, "elements[key] not consulted"
			}
			re := p.All(calleeIs(colPkg + ".(*keyLru).removeElement"))
			if p.Abs(findExtract(p, lk.Res, 1)).K == px.True {
				if len(re) != 1 || re[0].Call.Args[1].Strip(false) != findExtract(p, lk.Res, 0).Strip(false) {
					return false, "known key not removed"
				}
			} else if len(re) != 0 {
				return false, "unknown key removed"
			}
			return true, ""
		})
	}
	if f := c.fn(rule, colPkg, "(*Cache).onEvict"); f != nil {
		ps := c.paths(rule, f, px.Config{})
		c.forall(rule, colPkg+".(*Cache).onEvict", "an evicted key loses its data entry and its timer", f, ps, func(p *px.Path) (bool, string) {
			dl := p.All(func(e *px.Event) bool {
				return e.Kind == px.EvCall && e.Call.Builtin == "delete" && px.IsFieldLoad(e.Call.Args[0], "data", nil) && isParam(e.Call.Args[1], f.Params[1])
			})
			rt := p.All(calleeIs(colPkg + ".(*TimingWheel).RemoveTimer"))
			if len(dl) != 1 || len(rt) != 1 || !isParam(rt[0].Call.Args[1], f.Params[1]) {
				return false, "data entry or timer not removed for the evicted key"
			}
			return true, ""
		})
	}
	c.R.Min(rule, 5, "add, removeElement, removeOldest, remove, onEvict")
}

func c16cache(c *Ctx) { c16cacheAs(c, "C16.R3", false) }

// c16cacheAs: the in-memory cache's API rules; with timersOnly only the two methods that drive the timing
// wheel (SetWithExpire, Del) are checked — that part also runs under C12, whose timers the cache sets and moves.
func c16cacheAs(c *Ctx, rule string, timersOnly bool) {
	lruCall := func(name string) px.Pred {
		return func(e *px.Event) bool {
			return e.Kind == px.EvCall && e.Call.Method != nil && e.Call.Method.Name() == name && px.IsFieldLoad(e.Call.Recv, "lruCache", nil)
		}
	}
	if f := c.fn(rule, colPkg, "(*Cache).SetWithExpire"); f != nil {
		keyP, valP := f.Params[1], f.Params[2]
		ps := c.paths(rule, f, px.Config{})
		c.forall(rule, colPkg+".(*Cache).SetWithExpire", "under the lock: data[key] = value and the key's LRU position is refreshed — for new and for overwritten keys alike; then the timer is (re)armed with the jittered expiry through an operation that cannot fire at once (SetTimer; MoveTimer only with an expiry compared against a bound)", f, ps, func(p *px.Path) (bool, string) {
			if p.Exit != px.ExitReturn {
				return true, ""
			}
			ups := p.All(px.KindIs(px.EvMapUpdate))
			adds := p.All(lruCall("add"))
			if len(ups) != 1 || !px.IsFieldLoad(ups[0].Addr, "data", nil) || !isParam(ups[0].Key, keyP) || !isParam(ups[0].Val, valP) {
				return false, "data[key] = value not stored once"
			}
			if len(adds) != 1 || !isParam(adds[0].Call.Args[0], keyP) {
				return false, fmt.Sprintf("lruCache.add(key) ×%d: an overwritten key must also move to the front, otherwise a just-written key is evicted before keys used earlier", len(adds))
			}
			mv := p.All(calleeIs(colPkg + ".(*TimingWheel).MoveTimer"))
			st := p.All(calleeIs(colPkg + ".(*TimingWheel).SetTimer"))
			ar := p.First(calleeIs("core/mathx.(Unstable).AroundDuration"))
			if ar == nil || !isParam(ar.Call.Args[1], f.Params[3]) {
				return false, "the expiry is not the jittered requested one"
			}
			setOK := len(st) == 1 && len(mv) == 0 && isParam(st[0].Call.Args[1], keyP) && st[0].Call.Args[3].Strip(false) == ar.Res
			if len(mv) == 0 {
				// SetTimer arms a new key's timer and re-arms an existing key's (setTask), clamping a delay below one tick
				if !setOK {
					return false, "the key's timer is not (re)armed once with the jittered expiry"
				}
				return true, ""
			}
			// a path that moves the timer: only for a key known to exist, and only with an expiry known not to be below
			// one tick — MoveTimer runs the expiry callback at once for such a delay, and the callback deletes the key,
			// i.e. the value just written (SetTimer clamps instead)
			lk := p.First(px.KindIs(px.EvLookup))
			if lk == nil || lk.Seq > ups[0].Seq {
				return false, "prior presence not read before the store"
			}
			existed := findExtract(p, lk.Res, 1)
			if p.Abs(existed).K != px.True {
				return false, "a timer is moved for a key not known to exist"
			}
			if len(mv) != 1 || len(st) != 0 || !isParam(mv[0].Call.Args[1], keyP) || mv[0].Call.Args[2].Strip(false) != ar.Res {
				return false, "an existing key's timer is not moved to the new expiry"
			}
			bounded := false
			for _, b := range p.All(px.KindIs(px.EvBranch)) {
				if b.Seq < mv[0].Seq && b.Cond != nil && dependsOn(p, b.Cond, ar.Res) {
					bounded = true
				}
			}
			if !bounded {
				return false, "an existing key's timer is moved with an expiry that may be below one tick: MoveTimer then runs the expiry callback at once and the callback deletes the value just written (overwrite with a sub-second expiry ⇒ immediate miss); SetTimer clamps the delay to one tick"
			}
			return true, ""
		})
	}
	if f := c.fn(rule, colPkg, "(*Cache).Del"); f != nil {
		keyP := f.Params[1]
		ps := c.paths(rule, f, px.Config{})
		c.forall(rule, colPkg+".(*Cache).Del", "the data entry, the LRU entry and the timer of the key are all removed", f, ps, func(p *px.Path) (bool, string) {
			dl := p.All(func(e *px.Event) bool {
				return e.Kind == px.EvCall && e.Call.Builtin == "delete" && px.IsFieldLoad(e.Call.Args[0], "data", nil) && isParam(e.Call.Args[1], keyP)
			})
			rm := p.All(lruCall("remove"))
			rt := p.All(calleeIs(colPkg + ".(*TimingWheel).RemoveTimer"))
			if len(dl) != 1 || len(rm) != 1 || len(rt) != 1 || !isParam(rm[0].Call.Args[0], keyP) || !isParam(rt[0].Call.Args[1], keyP) {
				return false, fmt.Sprintf("delete ×%d, lru.remove ×%d, RemoveTimer ×%d", len(dl), len(rm), len(rt))
			}
			return true, ""
		})
	}
	if timersOnly {
		c.R.Min(rule, 2, "Cache.SetWithExpire, Cache.Del")
		return
	}
	if f := c.fn(rule, colPkg, "(*Cache).doGet"); f != nil {
		ps := c.paths(rule, f, px.Config{})
		c.forall(rule, colPkg+".(*Cache).doGet", "a hit refreshes the key's LRU position and returns the stored value; a miss touches nothing", f, ps, func(p *px.Path) (bool, string) {
			if p.Exit != px.ExitReturn {
				return true, ""
			}
			lk := p.First(px.KindIs(px.EvLookup))
			if lk == nil || !px.IsFieldLoad(lk.Addr, "data", nil) {
				return false, "data[key] not read"
			}
			adds := p.All(lruCall("add"))
			if p.Abs(findExtract(p, lk.Res, 1)).K == px.True {
				if len(adds) != 1 {
					return false, "a hit does not refresh the LRU position"
				}
			} else if len(adds) != 0 {
				return false, "a miss creates an LRU entry"
			}
			return true, ""
		})
	}
	if f := c.fn(rule, colPkg, "(*Cache).Take"); f != nil {
		cl := c.closure(rule, f, "single-flight closure", func(a *ssa.Function) bool { return a.Parent() == f })
		ps := c.paths(rule, f, px.Config{})
		c.forall(rule, colPkg+".(*Cache).Take", "a cached value is returned directly; otherwise the fetch runs only inside barrier.Do(key, …) and its error is returned", f, ps, func(p *px.Path) (bool, string) {
			if p.Has(px.DynWhere(func(s *px.Sym) bool { return s.Kind == px.KParam })) {
				return false, "fetch is called outside the single flight"
			}
			dg := p.First(calleeIs(colPkg + ".(*Cache).doGet"))
			do := p.All(func(e *px.Event) bool {
				return e.Kind == px.EvCall && e.Call.Method != nil && e.Call.Method.Name() == "Do"
			})
			if dg == nil {
				return false, "cache not consulted"
			}
			if p.Abs(findExtract(p, dg.Res, 1)).K == px.True {
				if len(do) != 0 {
					return false, "a hit still fetches"
				}
				return true, ""
			}
			if len(do) != 1 || !isParam(do[0].Call.Args[0], f.Params[1]) {
				return false, "miss: barrier.Do(key, …) not called once with the key"
			}
			if a := do[0].Call.Args[1].Strip(false); cl == nil || a.Kind != px.KClosure || a.Fn != cl {
				return false, "the fetching closure is not what the barrier runs"
			}
			es := findExtract(p, do[0].Res, 1)
			if es != nil && p.Abs(es).K == px.NonNil && p.Exit == px.ExitReturn {
				if !px.IsNilConst(p.Results[0]) || p.Results[1].Strip(false) != es {
					return false, "a fetch error is not returned as (nil, err)"
				}
			}
			return true, ""
		})
		if cl != nil {
			cps := c.paths(rule, cl, px.Config{MayPanic: userPanics})
			fetch := px.DynWhere(func(s *px.Sym) bool {
				return s.Kind == px.KFreeVar || (s.Kind == px.KLoad && s.X != nil && s.X.Kind == px.KFreeVar)
			})
			set := calleeIs(colPkg + ".(*Cache).Set")
			c.forall(rule, colPkg+".(*Cache).Take$flight", "inside the flight: a second hit returns without fetching; fetch error ⇒ returned, nothing cached; success ⇒ Set(key, fetched value) once and the value returned", cl, cps, func(p *px.Path) (bool, string) {
				dg := p.First(calleeIs(colPkg + ".(*Cache).doGet"))
				if dg == nil {
					return false, "no double-check of the cache"
				}
				fs, ss := p.All(fetch), p.All(set)
				if p.Abs(findExtract(p, dg.Res, 1)).K == px.True {
					if len(fs)+len(ss) != 0 {
						return false, "fetches although the value arrived meanwhile"
					}
					return true, ""
				}
				if len(fs) != 1 {
					return false, fmt.Sprintf("fetch ×%d on a miss", len(fs))
				}
				if fs[0].PanicsHere {
					if len(ss) != 0 {
						return false, "caches although fetch panicked"
					}
					return true, ""
				}
				es := findExtract(p, fs[0].Res, 1)
				switch p.Abs(es).K {
				case px.NonNil:
					if len(ss) != 0 {
						return false, "a failed fetch is cached"
					}
					if p.Exit == px.ExitReturn && p.Results[1].Strip(false) != es {
						return false, "the fetch error is not returned"
					}
				case px.Nil:
					if len(ss) != 1 || ss[0].Call.Args[2].Strip(false) != findExtract(p, fs[0].Res, 0).Strip(false) {
						return false, "the fetched value is not cached exactly once"
					}
				default:
					return false, "fetch error not tested"
				}
				return true, ""
			})
		}
	}
	c.R.Min(rule, 5, "SetWithExpire, Del, doGet, Take, Take closure")
	rule = "C16.R4"
	for _, m := range []string{"Del", "SetWithExpire", "doGet", "size"} {
		lockGuardFn(c, rule, colPkg+".(*Cache)."+m+"#lock", c.fn(rule, colPkg, "(*Cache)."+m), "lock", []string{"data", "lruCache"}, false, true, nil, false)
	}
	for _, m := range []string{"Add", "Reduce"} {
		lockGuardFn(c, rule, colPkg+".(*RollingWindow)."+m+"#lock", c.fn(rule, colPkg, "(*RollingWindow)."+m), "lock", []string{"offset", "lastTime"}, false, true, []string{"updateOffset", "span"}, false)
	}
	c.R.Min(rule, 10, "5 SafeMap, 4 Cache, 2 RollingWindow lock guards (at least 10)")
}

func rwLeaf(s *px.Sym) string {
	s = s.Strip(true)
	if s == nil {
		return ""
	}
	if s.Kind == px.KLoad && s.X != nil && s.X.Kind == px.KFieldAddr {
		if v := s.X.FieldVar(); v != nil {
			return v.Name()
		}
	}
	if s.Kind == px.KCall {
		switch shortName(s.Call) {
		case "core/timex.Now":
			return "now"
		case "core/timex.Since":
			if len(s.Call.Args) == 1 && rwLeaf(s.Call.Args[0]) == "lastTime" {
				return "since_lastTime"
			}
		case colPkg + ".(*RollingWindow).span":
			return "span"
		}
	}
	if s.Kind == px.KParam {
		return s.V.Name()
	}
	return ""
}

func c16window(c *Ctx) { c16windowAs(c, "C16.R5") }

// c16windowAs checks the rolling-window structure under the given rule id: the
// breaker (C01) and the shedder (C02) rest on the same window.
func c16windowAs(c *Ctx, rule string) {
	if f := c.fn(rule, colPkg, "(*RollingWindow).span"); f != nil {
		ps := c.paths(rule, f, px.Config{})
		var rows []tableRow
		for o0 := -1; o0 <= 1; o0++ {
			for os := -1; os <= 1; os++ {
				o0, os := o0, os
				exp := "size"
				if o0 >= 0 && os < 0 {
					exp = "offset"
				}
				rows = append(rows, tableRow{name: fmt.Sprintf("offset%s0 offset%ssize", map[int]string{-1: "<", 0: "=", 1: ">"}[o0], map[int]string{-1: "<", 0: "=", 1: ">"}[os]), expect: exp,
					atomP: ordAtomP(func(p *px.Path, x, y *px.Sym) (int, bool) {
						xo := anf(p, x, rwLeaf).String() == "1·(1·since_lastTime)/(1·interval)"
						yo := anf(p, y, rwLeaf).String() == "1·(1·since_lastTime)/(1·interval)"
						if xo {
							if z, ok := constInt(p, y); ok && z == 0 {
								return o0, true
							}
							if rwLeaf(y) == "size" {
								return os, true
							}
						}
						if yo {
							if z, ok := constInt(p, x); ok && z == 0 {
								return -o0, true
							}
							if rwLeaf(x) == "size" {
								return -os, true
							}
						}
						return 0, false
					})})
			}
		}
		c.checkTableP(rule, colPkg+".(*RollingWindow).span", "span = Since(lastTime)/interval when it lies in [0, size), otherwise size (all 9 orderings of the quotient against 0 and size)", posOf(c, f), ps, rows, func(p *px.Path) string {
			if p.Exit != px.ExitReturn {
				return "exit"
			}
			switch got := anf(p, p.Results[0], rwLeaf).String(); got {
			case "1·(1·since_lastTime)/(1·interval)":
				return "offset"
			case "1·size":
				return "size"
			default:
				return "?" + got
			}
		})
	}
	if f := c.fn(rule, colPkg, "(*RollingWindow).updateOffset"); f != nil {
		ps := c.paths(rule, f, px.Config{MaxVisits: 2})
		c.forall(rule, colPkg+".(*RollingWindow).updateOffset", "span <= 0 ⇒ nothing changes; otherwise buckets (offset+i+1)%size for i < span are reset, offset ← (offset+span)%size and lastTime is re-aligned to the last interval boundary not after now: now − (now−lastTime)%interval", f, ps, func(p *px.Path) (bool, string) {
			if p.Exit == px.ExitCut {
				return true, ""
			}
			sp := p.First(calleeIs(colPkg + ".(*RollingWindow).span"))
			if sp == nil {
				return false, "span not consulted"
			}
			var offSt, ltSt *px.Event
			for _, e := range p.All(px.KindIs(px.EvStore)) {
				if px.FieldAddrIs(e.Addr, "offset", nil) {
					offSt = e
				}
				if px.FieldAddrIs(e.Addr, "lastTime", nil) {
					ltSt = e
				}
			}
			resets := p.All(calleeIs(colPkg + ".(*window).resetBucket"))
			pos := 0
			for _, b := range p.All(px.KindIs(px.EvBranch)) {
				cnd := b.Cond.Strip(true)
				if cnd.Kind == px.KBinOp && cnd.X.Strip(false) == sp.Res {
					if z, ok := constInt(p, cnd.Y); ok && z == 0 {
						switch cnd.Op {
						case token.LEQ:
							pos = triOf(!b.Taken)
						case token.GTR:
							pos = triOf(b.Taken)
						}
					}
				}
			}
			if pos == 0 {
				return false, "span is not tested against 0"
			}
			if pos == -1 {
				if offSt != nil || ltSt != nil || len(resets) != 0 {
					return false, "state changes although no interval elapsed"
				}
				return true, ""
			}
			if offSt == nil || ltSt == nil {
				return false, "offset or lastTime is not advanced"
			}
			if got := anf(p, offSt.Val, rwLeaf).String(); got != "1·(1·offset + 1·span)%(1·size)" {
				return false, "offset becomes " + got + ", want (offset+span)%size"
			}
			got := anf(p, ltSt.Val, rwLeaf).String()
			formA := "-1·(-1·lastTime + 1·now)%(1·interval) + 1·now"
			formB := "1·interval*(-1·lastTime + 1·now)/(1·interval) + 1·lastTime"
			formC := "1·interval*span + 1·lastTime"
			// is span known to be below the cap (size) on this path?
			capped := 0 // 1: span >= size established, -1: span < size established
			for _, b := range p.All(px.KindIs(px.EvBranch)) {
				cnd := b.Cond.Strip(true)
				if cnd.Kind != px.KBinOp || cnd.X.Strip(false) != sp.Res || rwLeaf(cnd.Y) != "size" {
					continue
				}
				switch cnd.Op {
				case token.LSS:
					capped = -triOf(b.Taken)
				case token.GEQ, token.EQL:
					capped = triOf(b.Taken)
				case token.NEQ:
					capped = -triOf(b.Taken)
				}
			}
			switch {
			case got == formC:
				if capped != -1 {
					return false, "lastTime advances by span·interval on a path where span may be capped at size: after an idle gap longer than the window lastTime lags, every following Add resets all buckets again and Reduce sees an empty window"
				}
			case got == formA || got == formB:
				// a re-alignment to \"now\" reads the clock a second time (span() took its own reading): offset advanced by the
				// span of the first reading, lastTime by the intervals of the second — when an interval boundary passes in
				// between they differ, the skipped interval's bucket is never reset and its values stay in the window one
				// interval too long. Only when every bucket was reset anyway (span capped at size) is the second reading harmless.
				if capped != 1 {
					return false, "lastTime is re-aligned with a second clock reading (now − (now−lastTime)%interval) although offset advanced by the span of the first reading, on a path where span is not known to be capped: if an interval boundary passes between the two readings lastTime moves one interval further than offset, that interval's bucket is never reset and stale values stay visible"
				}
			default:
				return false, "lastTime becomes " + got + " — neither lastTime + span·interval (span below the cap) nor the last interval boundary at or before now (span capped)"
			}
			for _, r := range resets {
				a := anf(p, r.Call.Args[1], func(s *px.Sym) string {
					if n := rwLeaf(s); n != "" {
						return n
					}
					if s.Kind == px.KBinOp || s.Kind == px.KConst {
						return ""
					}
					return "i"
				}).String()
				if !strings.HasSuffix(a, "%(1·size)") || !strings.Contains(a, "1·offset") || !strings.Contains(a, "1 + ") {
					return false, "a reset targets bucket " + a + ", want (offset+i+1)%size"
				}
				if r.Seq > offSt.Seq {
					return false, "buckets are reset relative to the already advanced offset"
				}
			}
			return true, ""
		})
		// loop bound i < span
		okBound := false
		for _, p := range ps {
			sp := p.First(calleeIs(colPkg + ".(*RollingWindow).span"))
			if sp == nil {
				continue
			}
			for _, b := range p.All(px.KindIs(px.EvBranch)) {
				cnd := b.Cond.Strip(true)
				if cnd.Kind == px.KBinOp && cnd.Op == token.LSS && cnd.Y.Strip(false) == sp.Res {
					okBound = true
				}
			}
		}
		c.R.Check(okBound && len(earlyExitLoops(f)) == 0, rule, colPkg+".(*RollingWindow).updateOffset#loop", "exactly span buckets are reset (loop i < span without early exit)", posOf(c, f), fmt.Sprintf("bound=%v exits=%v", okBound, earlyExitLoops(f)), nil, 1)
	}
	if f := c.fn(rule, colPkg, "(*RollingWindow).Reduce"); f != nil {
		ps := c.paths(rule, f, px.Config{})
		c.forall(rule, colPkg+".(*RollingWindow).Reduce", "size − span buckets are visited (size − 1 when span is 0 and the current bucket is ignored), starting at (offset+span+1)%size, and only when that count is positive", f, ps, func(p *px.Path) (bool, string) {
			if p.Exit != px.ExitReturn {
				return true, ""
			}
			red := p.All(calleeIs(colPkg + ".(*window).reduce"))
			if len(red) == 0 {
				return true, ""
			}
			if len(red) != 1 {
				return false, "reduce called more than once"
			}
			start := anf(p, red[0].Call.Args[1], rwLeaf).String()
			if start != "1·(1 + 1·offset + 1·span)%(1·size)" {
				return false, "start bucket is " + start + ", want (offset+span+1)%size"
			}
			cnt := anf(p, red[0].Call.Args[2], rwLeaf).String()
			ignoring := false
			for _, b := range p.All(px.KindIs(px.EvBranch)) {
				if px.IsFieldLoad(b.Cond, "ignoreCurrent", nil) && b.Taken {
					ignoring = true
				}
			}
			switch cnt {
			case "1·size + -1·span", "-1·span + 1·size":
			case "-1 + 1·size":
				if !ignoring {
					return false, "size−1 buckets although the current bucket is not ignored"
				}
			default:
				return false, "bucket count is " + cnt
			}
			if !isParamOrCell(red[0].Call.Args[3], f.Params[1]) {
				return false, "reduce is not given the caller's function"
			}
			return true, ""
		})
	}
	for _, m := range []struct{ name, want string }{{"add", "Add"}, {"resetBucket", "Reset"}} {
		f := c.fn(rule, colPkg, "(*window)."+m.name)
		if f == nil {
			continue
		}
		ps := c.paths(rule, f, px.Config{})
		c.forall(rule, colPkg+".(*window)."+m.name, "operates on bucket offset % size", f, ps, func(p *px.Path) (bool, string) {
			for _, e := range p.All(px.KindIs(px.EvCall)) {
				if e.Call.Method != nil && e.Call.Method.Name() == m.want {
					r := e.Call.Recv.Strip(false)
					if r.Kind != px.KLoad || r.X.Kind != px.KIndexAddr || r.X.Y == nil {
						return false, "receiver is not a bucket element"
					}
					if got := anf(p, r.X.Y, rwLeaf).String(); got != "1·(1·offset)%(1·size)" {
						return false, "bucket index is " + got
					}
					return true, ""
				}
			}
			return false, "bucket method not called"
		})
	}
	c.R.Min(rule, 6, "span, updateOffset (2), Reduce, window.add, window.resetBucket")
}

// ordAtomP / checkTableP: table helpers whose atoms need the path (for normal forms).
type atomFnP func(p *px.Path, s *px.Sym) (bool, bool)

func ordAtomP(cmp func(p *px.Path, x, y *px.Sym) (int, bool)) atomFnP {
	return func(p *px.Path, s *px.Sym) (bool, bool) {
		if s.Kind == px.KBinOp {
			switch s.Op {
			case token.LSS, token.LEQ, token.GTR, token.GEQ, token.EQL, token.NEQ:
				if o, ok := cmp(p, s.X, s.Y); ok {
					return ordHolds(s.Op, o), true
				}
			}
		}
		return false, false
	}
}

func (c *Ctx) checkTableP(rule, construct, text, pos string, ps []*px.Path, rows []tableRow, outcome func(p *px.Path) string) bool {
	return c.checkTable(rule, construct, text, pos, ps, rows, func(p *px.Path, atom atomFn) string { return outcome(p) })
}

// c16queue: the FIFO's ring arithmetic is relative to the CURRENT capacity (len(q.elements)).
func c16queue(c *Ctx) {
	rule := "C16.R6"
	qleaf := func(s *px.Sym) string {
		s = s.Strip(true)
		if isLenOf(s, func(x *px.Sym) bool { return px.IsFieldLoad(x, "elements", nil) }) {
			return "cap"
		}
		if s.Kind == px.KLoad && s.X != nil && s.X.Kind == px.KFieldAddr {
			if v := s.X.FieldVar(); v != nil {
				return v.Name()
			}
		}
		return ""
	}
	if f := c.fn(rule, colPkg, "(*Queue).Put"); f != nil {
		ps := c.paths(rule, f, px.Config{})
		grew := 0
		held := c.forall(rule, colPkg+".(*Queue).Put", "on growth the wrapped prefix is copied behind the tail part (offset len(elements) − head), head ← 0, tail ← len(elements) — all relative to the current capacity, not the initial size; the element is stored at tail and tail advances modulo the current capacity", f, ps, func(p *px.Path) (bool, string) {
			if p.Exit != px.ExitReturn {
				return true, ""
			}
			var tailStores []*px.Event
			for _, e := range p.All(px.KindIs(px.EvStore)) {
				if px.FieldAddrIs(e.Addr, "tail", nil) {
					tailStores = append(tailStores, e)
				}
			}
			copies := p.All(func(e *px.Event) bool { return e.Kind == px.EvCall && e.Call.Builtin == "copy" })
			if len(copies) > 0 {
				grew++
				if len(copies) != 2 || len(tailStores) != 2 {
					return false, "growth does not copy the two halves and set the tail"
				}
				if got := anf(p, tailStores[0].Val, qleaf).String(); got != "1·cap" {
					return false, "after growth tail is " + got + ", want len(elements) (the old capacity): with the initial size instead, the second growth puts the tail inside live elements and elements are overwritten or reordered"
				}
				dst := copies[1].Call.Args[0].Strip(false)
				if dst.Kind != px.KSlice {
					return false, "second copy does not target a sub-slice of the new array"
				}
				if sl, ok := dst.V.(*ssa.Slice); ok && sl.Low != nil {
					// low bound symbol: find through the path's environment — compare by normal form of the instruction operand
					_ = sl
				}
			}
			last := tailStores[len(tailStores)-1].Val.Strip(true)
			isCurCap := func(s *px.Sym) bool {
				return isLenOf(s, func(x *px.Sym) bool {
					if px.IsFieldLoad(x, "elements", nil) {
						return true
					}
					for _, st := range p.All(px.KindIs(px.EvStore)) {
						if px.FieldAddrIs(st.Addr, "elements", nil) && st.Val.Strip(false) == x.Strip(false) {
							return true
						}
					}
					return false
				})
			}
			if last.Kind != px.KBinOp || last.Op != token.REM || !isCurCap(last.Y) {
				return false, "tail does not advance modulo the current capacity len(q.elements): " + last.Describe()
			}
			return true, ""
		})
		if held && grew == 0 {
			c.R.Undecided(rule, colPkg+".(*Queue).Put#grow", "the growth branch is recognised", "no path copies")
		}
	}
	if f := c.fn(rule, colPkg, "(*Queue).Take"); f != nil {
		ps := c.paths(rule, f, px.Config{})
		c.forall(rule, colPkg+".(*Queue).Take", "an empty queue yields (nil,false); otherwise the element at head is returned and head advances modulo the current capacity, count decremented", f, ps, func(p *px.Path) (bool, string) {
			if p.Exit != px.ExitReturn {
				return true, ""
			}
			if p.Abs(p.Results[1]).K == px.False {
				if p.Has(func(e *px.Event) bool { return e.Kind == px.EvStore && px.FieldAddrIs(e.Addr, "head", nil) }) {
					return false, "an empty Take moves the head"
				}
				return true, ""
			}
			for _, e := range p.All(px.KindIs(px.EvStore)) {
				if px.FieldAddrIs(e.Addr, "head", nil) {
					if got := anf(p, e.Val, qleaf).String(); got != "1·(1 + 1·head)%(1·cap)" {
						return false, "head becomes " + got + ", want (head+1) % len(elements)"
					}
				}
			}
			r := p.Results[0].Strip(false)
			if r.Kind != px.KLoad || r.X.Kind != px.KIndexAddr || r.X.Y == nil || qleaf(r.X.Y) != "head" {
				return false, "the returned element is not elements[head]"
			}
			return true, ""
		})
	}
}
