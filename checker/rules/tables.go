package rules

import (
	"fmt"
	"go/constant"
	"go/token"
	"sort"
	"strings"

	"gzverify/px"
)

// Decision tables (E7 of DESIGN.md) on top of the path engine: a row assigns
// truth values / orderings to the atoms a decision procedure tests; a path is
// feasible for the row iff every branch it took agrees with the row. The
// outputs of all feasible paths must agree and equal the expected outcome.

// atomFn evaluates an atomic condition under a row: (value, known).
type atomFn func(s *px.Sym) (bool, bool)

// evalBool evaluates a boolean sym: atoms first, then structure (!x, x==y, x!=y
// over booleans, boolean constants).
func evalBool(p *px.Path, s *px.Sym, atom atomFn, d int) (bool, bool) {
	if s == nil || d > 12 {
		return false, false
	}
	s = s.Strip(true)
	if v, ok := atom(s); ok {
		return v, true
	}
	switch s.Kind {
	case px.KConst:
		switch p.Abs(s).K {
		case px.True:
			return true, true
		case px.False:
			return false, true
		}
	case px.KUnOp:
		if s.Op == token.NOT {
			if v, ok := evalBool(p, s.X, atom, d+1); ok {
				return !v, true
			}
		}
	case px.KBinOp:
		if s.Op == token.EQL || s.Op == token.NEQ {
			x, okx := evalBool(p, s.X, atom, d+1)
			y, oky := evalBool(p, s.Y, atom, d+1)
			if okx && oky {
				return (x == y) == (s.Op == token.EQL), true
			}
		}
	}
	return false, false
}

// feasibleUnder: every (non-forced) branch of the path agrees with the row.
// unknown conditions do not prune (over-approximation); they are counted.
func feasibleUnder(p *px.Path, atom atomFn) (ok bool, unknown int) {
	for i := range p.Events {
		e := &p.Events[i]
		if e.Kind != px.EvBranch {
			continue
		}
		v, known := evalBool(p, e.Cond, atom, 0)
		if !known {
			if !e.Forced {
				unknown++
			}
			continue
		}
		if v != e.Taken {
			return false, unknown
		}
	}
	return true, unknown
}

// ordAtom builds an atom evaluator for ordered comparisons: cmp(x, y) returns
// -1/0/+1 and ok when the row orders the two operands.
func ordAtom(cmp func(x, y *px.Sym) (int, bool), next atomFn) atomFn {
	return func(s *px.Sym) (bool, bool) {
		if s.Kind == px.KBinOp {
			switch s.Op {
			case token.LSS, token.LEQ, token.GTR, token.GEQ, token.EQL, token.NEQ:
				if o, ok := cmp(s.X.Strip(true), s.Y.Strip(true)); ok {
					return ordHolds(s.Op, o), true
				}
				if o, ok := cmp(s.Y.Strip(true), s.X.Strip(true)); ok {
					return ordHolds(s.Op, -o), true
				}
			}
		}
		if next != nil {
			return next(s)
		}
		return false, false
	}
}

// ordUnordered: the two operands are unordered (a NaN is involved): every ordered comparison and == is false, != is true.
const ordUnordered = 2

func ordHolds(op token.Token, o int) bool {
	if o == ordUnordered || o == -ordUnordered {
		return op == token.NEQ
	}
	switch op {
	case token.LSS:
		return o < 0
	case token.LEQ:
		return o <= 0
	case token.GTR:
		return o > 0
	case token.GEQ:
		return o >= 0
	case token.EQL:
		return o == 0
	case token.NEQ:
		return o != 0
	}
	return false
}

// tableRow is one row of a decision table.
type tableRow struct {
	name   string
	atom   atomFn
	atomP  func(p *px.Path, s *px.Sym) (bool, bool) // alternative to atom when the path is needed
	expect string                                   // expected outcome label
}

// checkTable: for each row exactly the feasible paths' outcomes must all equal
// row.expect. outcome labels a path ("" = not classifiable → failure).
func (c *Ctx) checkTable(rule, construct, text string, pos string, ps []*px.Path, rows []tableRow, outcome func(p *px.Path, atom atomFn) string) bool {
	if ps == nil {
		return false
	}
	var bad []string
	for _, r := range rows {
		outs := map[string]int{}
		n := 0
		for _, p := range ps {
			if p.Exit == px.ExitCut {
				continue
			}
			at := r.atom
			if r.atomP != nil {
				pp, ap := p, r.atomP
				at = func(s *px.Sym) (bool, bool) { return ap(pp, s) }
			}
			ok, _ := feasibleUnder(p, at)
			if !ok {
				continue
			}
			n++
			outs[outcome(p, at)]++
		}
		if n == 0 {
			bad = append(bad, fmt.Sprintf("row %s: no feasible path", r.name))
			continue
		}
		var ks []string
		for k := range outs {
			ks = append(ks, k)
		}
		sort.Strings(ks)
		if len(ks) != 1 || ks[0] != r.expect {
			bad = append(bad, fmt.Sprintf("row %s: expected %q, code gives %q", r.name, r.expect, strings.Join(ks, "|")))
		}
	}
	if len(bad) > 0 {
		o := c.R.Fail(rule, construct, text, pos, fmt.Sprintf("%d of %d rows differ: %s", len(bad), len(rows), strings.Join(bad, "; ")), bad)
		o.Paths = len(rows)
		c.R.PathsTotal += len(rows)
		return false
	}
	c.R.Hold(rule, construct, text, len(rows))
	return true
}

func constInt(p *px.Path, s *px.Sym) (int64, bool) {
	if s == nil {
		return 0, false
	}
	a := p.Abs(s.Strip(true))
	if a.K != px.ConstV || a.C.Kind() != constant.Int {
		return 0, false
	}
	return constant.Int64Val(a.C)
}

// isLenOf: s is len(x) with x satisfying f.
func isLenOf(s *px.Sym, f func(x *px.Sym) bool) bool {
	s = s.Strip(true)
	return s != nil && s.Kind == px.KCall && s.Call != nil && s.Call.Builtin == "len" && len(s.Call.Args) == 1 && f(s.Call.Args[0])
}
