package rules

import (
	"fmt"
	"go/constant"
	"go/token"
	"go/types"
	"sort"
	"strings"

	"golang.org/x/tools/go/ssa"

	"gzverify/px"
)

// Round-3 additions to C06.

// c06retryChain (C06.R8): the retry of a failed invalidation is a chain — AddCleanTask registers the
// task with a first delay, and after each failed attempt clean() asks nextDelay(current) for the
// next one. The two sites agree through the value kept in delayTask.delay: the first delay must be
// one nextDelay knows (otherwise the first failed retry is also the last and the stale entry lives
// until its TTL, seed r3-C06-1), every delay nextDelay hands out is again one it knows or the end of
// the chain, the chain grows strictly (it ends), and the timer is armed with the delay recorded in
// the task.
func c06retryChain(c *Ctx) {
	rule := "C06.R8"
	nd := c.fn(rule, cachePkg, "nextDelay")
	add := c.fn(rule, cachePkg, "AddCleanTask")
	if nd == nil || add == nil {
		return
	}
	// the table of nextDelay: k → (v, ok)
	table := map[string]constant.Value{}
	keys := map[string]constant.Value{}
	ps := c.paths(rule, nd, px.Config{})
	tableOK := c.forall(rule, cachePkg+".nextDelay", "a total table from known delays to the next delay; an unknown delay ends the chain", nd, ps, func(p *px.Path) (bool, string) {
		if p.Exit != px.ExitReturn || len(p.Results) != 2 {
			return true, ""
		}
		var k constant.Value
		for _, e := range p.All(px.KindIs(px.EvBranch)) {
			cnd := e.Cond.Strip(true)
			if cnd.Kind == px.KBinOp && cnd.Op == token.EQL && e.Taken && isParam(cnd.X.Strip(true), nd.Params[0]) {
				if a := p.Abs(cnd.Y); a.K == px.ConstV {
					k = a.C
				}
			}
		}
		okA := p.Abs(p.Results[1])
		switch okA.K {
		case px.True:
			v := p.Abs(p.Results[0])
			if k == nil || v.K != px.ConstV {
				return false, "a continuing row whose input or output delay is not a constant"
			}
			table[k.ExactString()] = v.C
			keys[k.ExactString()] = k
		case px.False:
			if k != nil {
				keys[k.ExactString()] = k
			}
		default:
			return false, "the continue/stop result is not a constant on this path"
		}
		return true, ""
	})
	if !tableOK {
		return
	}
	var bad []string
	for ks, v := range table {
		k := keys[ks]
		if !constant.Compare(v, token.GTR, k) {
			bad = append(bad, fmt.Sprintf("nextDelay(%s) = %s does not grow: the back-off never ends", k, v))
		}
	}
	// first delay and the timer armed with it
	aps := c.paths(rule, add, px.Config{})
	first := map[string]bool{}
	for _, p := range aps {
		var rec, armed *px.Sym
		for i := range p.Events {
			e := &p.Events[i]
			if e.Kind == px.EvStore && px.FieldAddrIs(e.Addr, "delay", nil) {
				rec = e.Val
			}
			if e.Kind == px.EvCall && e.Call.Obj() != nil && e.Call.Obj().Name() == "SetTimer" && len(e.Call.Args) >= 3 {
				armed = e.Call.Args[len(e.Call.Args)-1]
			}
		}
		if rec == nil || armed == nil {
			bad = append(bad, "AddCleanTask: the recorded first delay or the SetTimer call is not recognised")
			continue
		}
		ra, aa := p.Abs(rec), p.Abs(armed)
		if ra.K != px.ConstV || aa.K != px.ConstV {
			bad = append(bad, "AddCleanTask: the first delay is not a constant")
			continue
		}
		if !constant.Compare(ra.C, token.EQL, aa.C) {
			bad = append(bad, fmt.Sprintf("AddCleanTask arms the timer with %s but records %s as the current delay: the chain continues from the wrong link", aa.C, ra.C))
		}
		first[ra.C.ExactString()] = true
		if _, known := table[ra.C.ExactString()]; !known {
			var ks []string
			for _, k := range keys {
				ks = append(ks, k.String())
			}
			sort.Strings(ks)
			bad = append(bad, fmt.Sprintf("the first retry delay %s is not one nextDelay knows (%s): after the first failed retry the invalidation is dropped and the stale entry is served until its TTL", ra.C, strings.Join(ks, ", ")))
		}
	}
	// every delay handed out is known again, or is the last link
	terminal := 0
	for _, v := range table {
		if _, known := table[v.ExactString()]; !known {
			terminal++
		}
	}
	if len(table) > 0 && terminal != 1 {
		bad = append(bad, fmt.Sprintf("%d of the delays nextDelay hands out have no successor row (expected exactly one, the end of the chain): a link in the middle stops the retries", terminal))
	}
	// clean(): re-arms with the delay it records
	if cl := c.fn(rule, cachePkg, "clean"); cl != nil {
		var task *ssa.Function
		for _, a := range cl.AnonFuncs {
			task = a
		}
		if task != nil {
			for _, p := range c.paths(rule, task, px.Config{MayPanic: func(ci *px.CallInfo) bool { return false }}) {
				var rec, armed, asked *px.Sym
				for i := range p.Events {
					e := &p.Events[i]
					if e.Kind == px.EvStore && px.FieldAddrIs(e.Addr, "delay", nil) {
						rec = e.Val
					}
					if e.Kind == px.EvCall && e.Call.Obj() != nil && e.Call.Obj().Name() == "SetTimer" && len(e.Call.Args) >= 3 {
						armed = e.Call.Args[len(e.Call.Args)-1]
					}
					if e.Kind == px.EvCall && e.Call.Static == nd {
						asked = e.Res
					}
				}
				if armed == nil {
					continue
				}
				if rec == nil || asked == nil || rec.Strip(false) != armed.Strip(false) {
					bad = append(bad, "clean re-arms the timer with a delay other than the one it records in the task")
				}
			}
		}
	}
	sort.Strings(bad)
	bad = uniqStrings(bad)
	c.R.Check(len(bad) == 0 && len(table) >= 2, rule, cachePkg+"#retry-chain", "the first retry delay and every delay nextDelay hands out is again known to nextDelay (except the last), delays grow strictly, and timers are armed with the recorded delay", posOf(c, nd), strings.Join(bad, "; "), bad, len(ps)+len(aps))
}

func uniqStrings(s []string) []string {
	var out []string
	for i, x := range s {
		if i == 0 || x != s[i-1] {
			out = append(out, x)
		}
	}
	return out
}

// c06optionsForwarded (C06.R9): the cache options (WithExpiry, WithNotFoundExpiry) a caller passes
// reach every node. Each function of the cache-aside packages that accepts a variadic option list
// and calls another function taking the same list hands its own list on — a node built "with
// defaults" in the multi-node branch writes entries with the 7-day default TTL instead of the
// configured expiry (seed r3-C06-3).
func c06optionsForwarded(c *Ctx) {
	rule := "C06.R9"
	var bad []string
	sites := 0
	for _, pkg := range []string{cachePkg, "core/stores/sqlc", "core/stores/monc", "core/stores/kv"} {
		b, n := c.optionsForwarded(pkg, func(f *ssa.Function) bool {
			// functional options only: the variadic element is a named func type (…keys lists are not options)
			sl, ok := f.Params[len(f.Params)-1].Type().Underlying().(*types.Slice)
			if !ok {
				return false
			}
			_, isFn := sl.Elem().Underlying().(*types.Signature)
			_, named := sl.Elem().(*types.Named)
			return isFn && named
		})
		bad = append(bad, b...)
		sites += n
	}
	sort.Strings(bad)
	o := c.R.Check(len(bad) == 0 && sites >= 6, rule, "cache constructors#options", "every constructor that takes ...Option and calls another taking the same list forwards its own list", "-", strings.Join(bad, "; "), bad, sites)
	o.Sites = sites
}

// c06codec (C06.R10, round 4): one codec for everything the cache holds. A row is stored as jsonx.Marshal text
// and every reader — the cache hit, the leader of a load, and the readers that joined the leader's flight —
// decodes with jsonx.Unmarshal*, whose decoder has UseNumber enabled (C17.R2). A second decoder inside the
// cache-aside packages (encoding/json.Unmarshal has no UseNumber) hands some readers float64 where the others
// get the exact number: joiners of a flight then do not receive "that query's result" (integers above 2^53 are
// rounded, an `any`-typed primary key renders as 1.234567e+06 and misses its own cache entry; seed r4-C06-1).
func c06codec(c *Ctx) {
	rule := "C06.R10"
	var bad []string
	dec, enc := 0, 0
	for _, pkg := range []string{cachePkg, "core/stores/sqlc", "core/stores/monc"} {
		for _, f := range c.P.AllFuncs(pkg) {
			for _, b := range f.Blocks {
				for _, ins := range b.Instrs {
					call, ok := ins.(ssa.CallInstruction)
					if !ok {
						continue
					}
					cc := call.Common()
					var o *types.Func
					if cc.IsInvoke() {
						o = cc.Method
					} else if sc := cc.StaticCallee(); sc != nil {
						o, _ = sc.Object().(*types.Func)
					}
					if o == nil || o.Pkg() == nil {
						continue
					}
					path := o.Pkg().Path()
					switch {
					case path == mod+"core/jsonx" && strings.HasPrefix(o.Name(), "Unmarshal"):
						dec++
					case path == mod+"core/jsonx" && strings.HasPrefix(o.Name(), "Marshal"):
						enc++
					case path == mod+"core/jsonx":
					case strings.HasSuffix(path, "json") || strings.Contains(path, "/json") || strings.HasSuffix(path, "/sonic"):
						switch o.Name() {
						case "Unmarshal", "NewDecoder", "Decode", "UnmarshalFromString", "Valid":
							bad = append(bad, fmt.Sprintf("%s: %s decodes with %s instead of core/jsonx (no UseNumber: numbers in interface-typed positions become float64)", c.P.Pos(ins.Pos()), f.Name(), o.FullName()))
						case "Marshal", "NewEncoder", "Encode", "MarshalToString":
							bad = append(bad, fmt.Sprintf("%s: %s encodes with %s instead of core/jsonx", c.P.Pos(ins.Pos()), f.Name(), o.FullName()))
						}
					}
				}
			}
		}
	}
	sort.Strings(bad)
	c.R.Check(len(bad) == 0, rule, "cache-aside packages#codec", "every encode/decode of a cached row in core/stores/{cache,sqlc,monc} goes through core/jsonx (UseNumber decoder): the readers sharing a load decode exactly like the leader and like a later cache hit", "-", strings.Join(bad, "; "), bad, dec+enc)
	if len(bad) == 0 && (dec < 2 || enc < 1) {
		c.R.Undecided(rule, "cache-aside packages#codec-sites", "the jsonx decode and encode sites are recognised", fmt.Sprintf("%d decode, %d encode sites", dec, enc))
	}
}

// c06notFoundIsNotAnError (C06.R11, round 6): "database errors are returned and never cached". The row scanner reports
// "not found" — which the cache layer turns into a cached placeholder — only when the result set ended cleanly: on
// every path of sqlx.unmarshalRow that returns ErrNotFound, rows.Err() was consulted after Next() returned false and
// found nil. A driver error delivered with the first fetch otherwise reads as "no such row": the placeholder is cached
// and an existing row stays invisible for the not-found expiry (seed r6-C06-1).
func c06notFoundIsNotAnError(c *Ctx) {
	rule := "C06.R11"
	f := c.fn(rule, "core/stores/sqlx", "unmarshalRow")
	if f == nil {
		return
	}
	ps := c.paths(rule, f, px.Config{})
	n := 0
	held := c.forall(rule, "core/stores/sqlx.unmarshalRow", "ErrNotFound is returned only after rows.Err() was found nil (an iteration that ended with a driver error is an error, not an empty result)", f, ps, func(p *px.Path) (bool, string) {
		if p.Exit != px.ExitReturn || len(p.Results) != 1 || !px.IsGlobalLoad(p.Results[0], mod+"core/stores/sqlx", "ErrNotFound") {
			return true, ""
		}
		n++
		for _, e := range p.All(px.KindIs(px.EvCall)) {
			if e.Call.Method != nil && e.Call.Method.Name() == "Err" && p.Abs(e.Res).K == px.Nil {
				return true, ""
			}
		}
		return false, "ErrNotFound is returned without rows.Err() having been found nil: a fetch error on the first row is reported as \"no such row\", the cache stores the not-found placeholder, and the existing row is hidden until the placeholder expires"
	})
	if held && n == 0 {
		c.R.Undecided(rule, "core/stores/sqlx.unmarshalRow#not-found", "the not-found return is recognised", "no path returns ErrNotFound")
	}
	// (round 8) the many-rows reader: a result set that breaks part-way is an error, not a shorter result — every path
	// that left the row loop (Next() false) returns what rows.Err() said, or found it nil
	if g := c.fn(rule, "core/stores/sqlx", "unmarshalRows"); g != nil {
		gs := c.paths(rule, g, px.Config{MaxVisits: 2, MaxPaths: 200000})
		ended := 0
		isNext := func(e *px.Event) bool {
			return e.Kind == px.EvCall && e.Call.Method != nil && e.Call.Method.Name() == "Next"
		}
		h2 := c.forall(rule, "core/stores/sqlx.unmarshalRows#stream-error", "a path that left the row loop returns the scanner's Err() (or has found it nil): a stream that broke part-way is reported, not returned as a shorter slice", g, gs, func(p *px.Path) (bool, string) {
			if p.Exit != px.ExitReturn || len(p.Results) != 1 {
				return true, ""
			}
			var last *px.Event
			for _, e := range p.All(isNext) {
				last = e
			}
			if last == nil || p.Abs(last.Res).K != px.False {
				return true, ""
			}
			ended++
			for _, e := range p.All(px.KindIs(px.EvCall)) {
				if e.Seq > last.Seq && e.Call.Method != nil && e.Call.Method.Name() == "Err" {
					if p.Results[0].Strip(false) == e.Res || p.Abs(e.Res).K == px.Nil {
						return true, ""
					}
				}
			}
			return false, "the row loop ended and the function returns without the scanner's Err(): a query whose row stream broke returns nil with a truncated result (inside a transaction the body then reports success and the transaction commits)"
		})
		if h2 && ended == 0 {
			c.R.Undecided(rule, "core/stores/sqlx.unmarshalRows#loop-exit", "the exits of the row loop are recognised", "no path saw Next() return false")
		}
	}
}

// c06atomicTTL (C06.R12, round 6): value and TTL travel in ONE command. The two store methods the cache node writes
// with — (*Redis).SetexCtx and SetnxExCtx — issue exactly one command on the connection, a SET/SETNX whose expiration
// argument derives from the seconds parameter. SETNX followed by EXPIRE leaves a window in which a fault (or a crash
// of the caller) stores the entry — e.g. the not-found placeholder — without any TTL: a persistent key (seed r6-C06-2).
func c06atomicTTL(c *Ctx) {
	rule := "C06.R12"
	for _, name := range []string{"(*Redis).SetexCtx", "(*Redis).SetnxExCtx"} {
		f := c.fn(rule, "core/stores/redis", name)
		if f == nil {
			continue
		}
		var secP *ssa.Parameter
		for _, p := range f.Params {
			if p.Name() == "seconds" || typeString(p.Type()) == "int" {
				secP = p
			}
		}
		ps := c.paths(rule, f, px.Config{})
		c.forall(rule, "core/stores/redis."+name, "exactly one command is sent, and it carries the TTL derived from the seconds parameter", f, ps, func(p *px.Path) (bool, string) {
			var cmds []*px.Event
			for _, e := range p.All(px.KindIs(px.EvCall)) {
				if e.Call.Method != nil && e.Call.Recv != nil && strings.HasSuffix(typeString(e.Call.Recv.Strip(false).Typ), "RedisNode") {
					cmds = append(cmds, e)
				}
			}
			if len(cmds) == 0 {
				return true, "" // connection error path
			}
			if len(cmds) != 1 {
				var ns []string
				for _, e := range cmds {
					ns = append(ns, e.Call.Method.Name())
				}
				return false, fmt.Sprintf("%d commands are sent (%s): value and TTL are not written atomically — a fault between them leaves the key without a TTL", len(cmds), strings.Join(ns, ", "))
			}
			e := cmds[0]
			if !nameIn(e.Call.Method.Name(), []string{"Set", "SetNX", "SetEx", "SetEX"}) {
				return false, "the command is " + e.Call.Method.Name()
			}
			last := e.Call.Args[len(e.Call.Args)-1]
			if secP != nil && !dependsOn(p, last, p.ParamSym(secP)) {
				return false, "the expiration handed to " + e.Call.Method.Name() + " does not derive from the seconds parameter (" + last.Describe() + ")"
			}
			return true, ""
		})
	}
	c.R.Min(rule, 2, "SetexCtx, SetnxExCtx")
}

// reachingStoresOf: the stores to a local cell that can still be its content at use (a store followed by another store
// that dominates the use is dead there).
func reachingStoresOf(al *ssa.Alloc, use ssa.Instruction) []*ssa.Store {
	before := func(a, b ssa.Instruction) bool {
		if a.Block() != b.Block() {
			return a.Block().Dominates(b.Block())
		}
		for _, i := range a.Block().Instrs {
			if i == a {
				return true
			}
			if i == b {
				return false
			}
		}
		return false
	}
	var all []*ssa.Store
	for _, r := range *al.Referrers() {
		if st, ok := r.(*ssa.Store); ok && st.Addr == al {
			all = append(all, st)
		}
	}
	var out []*ssa.Store
	for _, s1 := range all {
		dead := false
		for _, s2 := range all {
			if s2 != s1 && before(s1, s2) && (use == nil || before(s2, use)) && use != nil {
				dead = true
			}
		}
		if !dead {
			out = append(out, s1)
		}
	}
	return out
}

// c06retryOwnsKeys (R13, round 6): which keys a deferred invalidation deletes is fixed when the write returns. A retry
// task handed to AddCleanTask runs a second or more later; every slice it captures (and the key list given along with
// it) is owned by the task: built by the function that schedules it (a literal / variadic pack, append to nil, make +
// copy), or — followed through the package's static callers — by one of them. A slice that arrives through a
// parameter of an exported entry point is the caller's: `buf = append(buf[:0], "user:2")` after `Del(buf...)` returned
// makes the retry delete user:2 and leave user:1 stale until its TTL.
func c06retryOwnsKeys(c *Ctx) {
	rule := "C06.R13"
	add := c.P.Func(cachePkg, "AddCleanTask")
	if add == nil {
		c.R.Undecided(rule, cachePkg+".AddCleanTask", "anchor resolves", "function not found")
		return
	}
	// static callers inside the package
	callers := map[*ssa.Function][]*ssa.Call{}
	for _, f := range c.P.AllFuncs(cachePkg) {
		for _, b := range f.Blocks {
			for _, ins := range b.Instrs {
				if call, ok := ins.(*ssa.Call); ok {
					if sc := call.Call.StaticCallee(); sc != nil {
						callers[sc] = append(callers[sc], call)
					}
				}
			}
		}
	}
	var owner func(v ssa.Value, f *ssa.Function, depth int, seen map[ssa.Value]bool) string
	owner = func(v ssa.Value, f *ssa.Function, depth int, seen map[ssa.Value]bool) string {
		if v == nil || seen[v] {
			return ""
		}
		seen[v] = true
		switch x := v.(type) {
		case *ssa.Const, *ssa.MakeSlice:
			return ""
		case *ssa.Alloc:
			return ""
		case *ssa.Slice:
			if al, ok := x.X.(*ssa.Alloc); ok && al.Heap {
				return "" // a literal / the pack of a variadic call
			}
			return owner(x.X, f, depth, seen)
		case *ssa.Phi:
			for _, e := range x.Edges {
				if r := owner(e, f, depth, seen); r != "" {
					return r
				}
			}
			return ""
		case *ssa.Call:
			if b, ok := x.Call.Value.(*ssa.Builtin); ok && b.Name() == "append" {
				// append(fresh, …) stays fresh; the appended elements are strings (copied)
				return owner(x.Call.Args[0], f, depth, seen)
			}
			return fmt.Sprintf("the result of %s", calleeName(x.Common()))
		case *ssa.UnOp:
			if al, ok := x.X.(*ssa.Alloc); ok {
				for _, st := range reachingStoresOf(al, x) {
					if r := owner(st.Val, f, depth, seen); r != "" {
						return r
					}
				}
				return ""
			}
			if fv, ok := x.X.(*ssa.FreeVar); ok {
				return owner(fv, f, depth, seen)
			}
			return "a value loaded from " + x.X.Name()
		case *ssa.FreeVar:
			// the enclosing function's binding
			par := f.Parent()
			if par == nil {
				return "a free variable"
			}
			for _, b := range par.Blocks {
				for _, ins := range b.Instrs {
					if mc, ok := ins.(*ssa.MakeClosure); ok && mc.Fn == f {
						for i, fvv := range f.FreeVars {
							if fvv == x {
								return owner(mc.Bindings[i], par, depth, seen)
							}
						}
					}
				}
			}
			return "a free variable"
		case *ssa.Parameter:
			idx := -1
			for i, p := range f.Params {
				if p == x {
					idx = i
				}
			}
			exported := f.Object() != nil && f.Object().Exported()
			if exported || depth >= 4 || len(callers[f]) == 0 {
				return fmt.Sprintf("parameter %s of %s", x.Name(), funcDisplay(f))
			}
			for _, call := range callers[f] {
				if idx >= len(call.Call.Args) {
					continue
				}
				if r := owner(call.Call.Args[idx], call.Parent(), depth+1, map[ssa.Value]bool{}); r != "" {
					return r
				}
			}
			return ""
		}
		return fmt.Sprintf("%s (%T)", v.Name(), v)
	}
	isStrSlice := func(t types.Type) bool {
		if p, ok := t.Underlying().(*types.Pointer); ok {
			t = p.Elem()
		}
		_, ok := t.Underlying().(*types.Slice)
		return ok
	}
	sites := 0
	for _, call := range callers[add] {
		f := call.Parent()
		sites++
		var bad []string
		// the key list
		if r := owner(call.Call.Args[len(call.Call.Args)-1], f, 0, map[ssa.Value]bool{}); r != "" {
			bad = append(bad, "the key list of the task is "+r)
		}
		// slices captured by the task
		if mc, ok := call.Call.Args[0].(*ssa.MakeClosure); ok {
			for i, b := range mc.Bindings {
				if !isStrSlice(b.Type()) {
					continue
				}
				v := b
				if al, ok := b.(*ssa.Alloc); ok {
					// captured by reference: what was stored
					for _, st := range reachingStoresOf(al, mc) {
						if r := owner(st.Val, f, 0, map[ssa.Value]bool{}); r != "" {
							bad = append(bad, fmt.Sprintf("the task captures %s, which is %s", mc.Fn.(*ssa.Function).FreeVars[i].Name(), r))
						}
					}
					continue
				}
				if r := owner(v, f, 0, map[ssa.Value]bool{}); r != "" {
					bad = append(bad, fmt.Sprintf("the task captures %s, which is %s", mc.Fn.(*ssa.Function).FreeVars[i].Name(), r))
				}
			}
		}
		sort.Strings(bad)
		detail := strings.Join(bad, "; ")
		if len(bad) > 0 {
			detail += ": the caller's slice is read a second or more after the call returned — a reused key buffer makes the retry delete other keys and leave the written ones stale"
		}
		c.R.Check(len(bad) == 0, rule, funcDisplay(f)+"#retry-keys", "every slice a deferred invalidation task keeps is owned by the task (built by the scheduling function or its in-package callers), never a slice that came in through an exported entry point", c.P.Pos(call.Pos()), detail, bad, 1)
	}
	c.R.Min(rule, 1, "cacheNode.asyncRetryDelCache")
}

// c06queriesInsideTake (C06.R15, round 8): the load suppression is only as good as its callers. Every method of
// sqlc.CachedConn that is handed a query function (a parameter whose named type is one of the package's …Query…Fn
// types) invokes it only from inside a function literal that is itself handed to a method of the connection's cache
// (Take…): never in the method body, never in a literal used otherwise. A "retry outside the flight" — re-running the
// query when the shared load was cancelled by its owner, say — lets every sharer hit the database at once for one key.
func c06queriesInsideTake(c *Ctx) {
	rule := "C06.R15"
	pkg := "core/stores/sqlc"
	pk := c.P.Pkg(pkg)
	if pk == nil {
		c.R.Undecided(rule, pkg, "anchor resolves", "package not loaded")
		return
	}
	tn, _ := pk.Types.Scope().Lookup("CachedConn").(*types.TypeName)
	if tn == nil {
		c.R.Undecided(rule, pkg+".CachedConn", "anchor resolves", "type missing")
		return
	}
	isQueryParam := func(p *ssa.Parameter) bool {
		n, ok := p.Type().(*types.Named)
		if !ok {
			return false
		}
		_, isFn := n.Underlying().(*types.Signature)
		return isFn && strings.Contains(n.Obj().Name(), "Query")
	}
	// a literal is "handed to the cache" when its only use is as an argument of an invoke on a value loaded from the field cache
	var handed func(v ssa.Value, mc *ssa.MakeClosure, d int) bool
	handedToCache := func(mc *ssa.MakeClosure) bool { return handed(mc, mc, 0) }
	handed = func(v ssa.Value, mc *ssa.MakeClosure, d int) bool {
		refs := v.Referrers()
		if refs == nil || len(*refs) == 0 || d > 3 {
			return false
		}
		for _, r := range *refs {
			call, ok := r.(ssa.CallInstruction)
			if !ok {
				if _, dbg := r.(*ssa.DebugRef); dbg {
					continue
				}
				// the literal converted to the named function type of the parameter it is passed for
				if ct, isCT := r.(*ssa.ChangeType); isCT {
					if !handed(ct, mc, d+1) {
						return false
					}
					continue
				}
				return false
			}
			cc := call.Common()
			if !cc.IsInvoke() {
				// forwarded as the query function of a sibling method: the rule applies there
				if cal := cc.StaticCallee(); cal != nil && cal.Signature.Recv() != nil && strings.HasSuffix(typeString(cal.Signature.Recv().Type()), "sqlc.CachedConn") {
					fwd := false
					for ai, a := range cc.Args {
						if a == v && ai < len(cal.Params) && isQueryParam(cal.Params[ai]) {
							fwd = true
						}
					}
					if fwd {
						continue
					}
				}
				return false
			}
			ok = false
			switch x := cc.Value.(type) {
			case *ssa.UnOp:
				if fa, isFA := x.X.(*ssa.FieldAddr); isFA {
					ok = fieldNameAt(fa.X.Type(), fa.Field) == "cache"
				}
			case *ssa.Field:
				ok = fieldNameAt(x.X.Type(), x.Field) == "cache"
			}
			if !ok {
				return false
			}
		}
		return true
	}
	n := 0
	ms := types.NewMethodSet(tn.Type())
	for i := 0; i < ms.Len(); i++ {
		fo, _ := ms.At(i).Obj().(*types.Func)
		f := c.P.FuncOf(fo)
		if f == nil || f.Blocks == nil {
			continue
		}
		var qps []*ssa.Parameter
		for _, p := range f.Params {
			if isQueryParam(p) {
				qps = append(qps, p)
			}
		}
		if len(qps) == 0 {
			continue
		}
		n++
		var bad []string
		calls := 0
		var visit func(fn *ssa.Function, alias map[ssa.Value]bool, inCacheLiteral bool)
		visit = func(fn *ssa.Function, alias map[ssa.Value]bool, inCacheLiteral bool) {
			for _, b := range fn.Blocks {
				for _, ins := range b.Instrs {
					switch x := ins.(type) {
					case ssa.CallInstruction:
						if alias[x.Common().Value] && !x.Common().IsInvoke() {
							calls++
							if !inCacheLiteral {
								bad = append(bad, fmt.Sprintf("%s: the query function is invoked outside a literal handed to the cache (in %s)", c.P.Pos(x.Pos()), funcDisplay(fn)))
							}
						}
					}
					if mc, ok := ins.(*ssa.MakeClosure); ok {
						lit, _ := mc.Fn.(*ssa.Function)
						if lit == nil {
							continue
						}
						al := map[ssa.Value]bool{}
						for bi, bnd := range mc.Bindings {
							if bi >= len(lit.FreeVars) {
								break
							}
							// a captured parameter (by value or through its cell)
							if alias[bnd] {
								al[lit.FreeVars[bi]] = true
							}
							if a, isAlloc := bnd.(*ssa.Alloc); isAlloc {
								for _, r := range *a.Referrers() {
									if st, isSt := r.(*ssa.Store); isSt && alias[st.Val] {
										al[lit.FreeVars[bi]] = true
									}
								}
							}
						}
						// loads of captured cells inside the literal
						for _, lb := range lit.Blocks {
							for _, li := range lb.Instrs {
								if u, isU := li.(*ssa.UnOp); isU && al[u.X] {
									al[u] = true
								}
							}
						}
						visit(lit, al, inCacheLiteral || handedToCache(mc))
					}
				}
			}
		}
		al := map[ssa.Value]bool{}
		for _, p := range qps {
			al[p] = true
			// spilled to a cell when captured
			for _, r := range *p.Referrers() {
				if st, ok := r.(*ssa.Store); ok {
					if a, ok := st.Addr.(*ssa.Alloc); ok {
						for _, r2 := range *a.Referrers() {
							if u, ok := r2.(*ssa.UnOp); ok {
								al[u] = true
							}
						}
					}
				}
			}
		}
		visit(f, al, false)
		name := pkg + ".(CachedConn)." + fo.Name() + "#query-inside-take"
		text := "a query function handed to the method is invoked only from inside a function literal handed to the connection's cache (the single flight and the cache decide whether it runs)"
		sort.Strings(bad)
		switch {
		case len(bad) > 0:
			c.R.Fail(rule, name, text, c.P.Pos(f.Pos()), strings.Join(bad, "; "), bad)
		case calls == 0:
			// forwarded to a sibling method: then that method is the instance
			c.R.Hold(rule, name, text+" (forwards its query function to a sibling method)", 1)
		default:
			c.R.Hold(rule, name, text, calls)
		}
	}
	c.R.Min(rule, 4, "QueryRow, QueryRowCtx, QueryRowIndex, QueryRowIndexCtx")
}

func fieldNameAt(t types.Type, idx int) string {
	if p, ok := t.Underlying().(*types.Pointer); ok {
		t = p.Elem()
	}
	if st, ok := t.Underlying().(*types.Struct); ok && idx < st.NumFields() {
		return st.Field(idx).Name()
	}
	return ""
}
