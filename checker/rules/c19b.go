package rules

import (
	"fmt"
	"go/types"
	"sort"
	"strings"

	"golang.org/x/tools/go/ssa"

	"gzverify/px"
)

// c19wrappers (R7, round 4): the verdict a lock instance reports is the verdict of *its own* script run. The
// context-less variants (Acquire, Release) call their …Ctx sibling themselves, once, on their own receiver, and
// return its two results unchanged; no method of RedisLock consults package-level state other than the two
// scripts. A verdict shared between instances — a single flight or cache keyed by (server, key) instead of by
// lock instance — hands the winner's "true" to every overlapping caller (seed r4-C19-3).
func c19wrappers(c *Ctx) {
	rule := "C19.R7"
	byName := map[string]*ssa.Function{}
	for _, f := range c.P.AllFuncs(redisPkg) {
		if f.Parent() != nil || f.Signature.Recv() == nil {
			continue
		}
		if !strings.HasSuffix(typeString(f.Signature.Recv().Type()), redisPkg+".RedisLock") {
			continue
		}
		byName[f.Name()] = f
	}
	n := 0
	for name, f := range byName {
		sib := byName[name+"Ctx"]
		if sib == nil {
			continue
		}
		n++
		ps := c.paths(rule, f, px.Config{})
		isSib := px.CallsFn(sib)
		c.forall(rule, redisPkg+".(*RedisLock)."+name, "the context-less variant runs its …Ctx sibling itself (not through a closure handed to something else), once, on its own receiver, and returns that call's results unchanged: a lock instance reports only the verdict of its own script run", f, ps, func(p *px.Path) (bool, string) {
			if p.Exit != px.ExitReturn {
				return true, ""
			}
			cs := p.All(isSib)
			if len(cs) != 1 {
				return false, fmt.Sprintf("%sCtx is called %d times by the calling goroutine on this path (a call inside a closure handed to a single flight, pool or cache is not this instance's own attempt: its verdict may be shared with other instances)", name, len(cs))
			}
			e := cs[0]
			if e.Depth != 0 || e.InGo {
				return false, name + "Ctx runs inside a closure or goroutine, not directly"
			}
			if len(e.Call.Args) == 0 || !isParam(e.Call.Args[0], f.Params[0]) {
				return false, name + "Ctx is called on another lock instance"
			}
			for i, r := range p.Results {
				if x := findExtract(p, e.Res, i); x == nil || r.Strip(false) != x.Strip(false) {
					return false, fmt.Sprintf("result %d is not the corresponding result of %sCtx", i, name)
				}
			}
			return true, ""
		})
	}
	c.R.Min(rule, 2, "Acquire, Release")
	_ = n
	// no verdict-sharing state: the methods of RedisLock reference no package-level variable except the scripts
	var bad []string
	sites := 0
	for _, f := range byName {
		walkWithClosures(f, func(g *ssa.Function) {
			for _, b := range g.Blocks {
				for _, ins := range b.Instrs {
					for _, op := range ins.Operands(nil) {
						gl, ok := (*op).(*ssa.Global)
						if !ok || gl.Pkg == nil || gl.Pkg.Pkg.Path() != mod+redisPkg {
							continue
						}
						sites++
						if pt, ok := gl.Type().(*types.Pointer); ok && strings.HasSuffix(typeString(pt.Elem()), "Script") {
							continue
						}
						bad = append(bad, fmt.Sprintf("%s: %s uses package-level %s (%s)", c.P.Pos(ins.Pos()), f.Name(), gl.Name(), typeString(gl.Type())))
					}
				}
			}
		})
	}
	sortStrings(bad)
	c.R.Check(len(bad) == 0 && sites >= 2, rule, redisPkg+".RedisLock#no-shared-verdict", "the methods of RedisLock use no package-level state besides the two scripts (nothing through which one instance's attempt could answer another's)", "-", fmt.Sprintf("%d references; %v", sites, bad), bad, sites)
}

// c19synchronous (R8, round 5): the key is freed — and taken — only by the API call that asked for it, while it runs.
// No method of RedisLock (nor a helper only they use) starts a goroutine, a timer or a GoSafe task: a release retried
// in the background runs the owner-checked delete with this instance's id later, when the same instance may have
// acquired the lock again — the retry then deletes the new lease and a second instance gets in (seed r5-C19-3).
func c19synchronous(c *Ctx) {
	rule := "C19.R8"
	var roots []*ssa.Function
	for _, f := range c.P.AllFuncs(redisPkg) {
		if f.Parent() == nil && f.Signature.Recv() != nil && strings.HasSuffix(typeString(f.Signature.Recv().Type()), redisPkg+".RedisLock") {
			roots = append(roots, f)
		}
	}
	var bad []string
	n := 0
	for _, r := range roots {
		walkWithClosures(r, func(g *ssa.Function) {
			n++
			for _, b := range g.Blocks {
				for _, ins := range b.Instrs {
					switch x := ins.(type) {
					case *ssa.Go:
						bad = append(bad, c.P.Pos(x.Pos())+": "+r.Name()+" starts a goroutine")
					case ssa.CallInstruction:
						name := calleeName(x.Common())
						if strings.HasPrefix(name, mod+"core/threading.") || name == "time.AfterFunc" || name == "time.NewTimer" || name == "time.NewTicker" {
							bad = append(bad, c.P.Pos(ins.Pos())+": "+r.Name()+" defers work to "+strings.TrimPrefix(name, mod))
						}
					}
				}
			}
		})
	}
	sortStrings(bad)
	c.R.Check(len(bad) == 0 && len(roots) >= 5, rule, redisPkg+".RedisLock#synchronous", "no method of RedisLock starts a goroutine, timer or background task: scripts run only inside the API call that asked for them", "-", fmt.Sprintf("%d methods; %v", len(roots), bad), bad, n)
}

// c19seed (R9, round 6): the ids that tell lock holders apart come from stringx's shared generator, seeded once, when
// the process starts, from the nanosecond clock. Nothing else in the module reseeds it: stringx.Seed is called by no
// non-test function (a package that "seeds the generator" with time.Now().Unix() gives every process started in the
// same second the same id sequence — two processes then both pass the script's owner test for one key), and the
// package-level source is built from (time.Time).UnixNano().
func c19seed(c *Ctx) {
	rule := "C19.R9"
	const pkg = "core/stringx"
	seed := c.fn(rule, pkg, "Seed")
	if seed == nil {
		return
	}
	var bad []string
	calls, pkgs := 0, 0
	for _, pk := range c.P.Pkgs {
		if !strings.HasPrefix(pk.PkgPath, strings.TrimSuffix(mod, "/")) {
			continue
		}
		pkgs++
		for _, f := range c.P.AllFuncs(strings.TrimPrefix(pk.PkgPath, mod)) {
			for _, b := range f.Blocks {
				for _, ins := range b.Instrs {
					ci, ok := ins.(ssa.CallInstruction)
					if !ok {
						continue
					}
					sc := ci.Common().StaticCallee()
					// the function used as a value counts as well (it can then be called from anywhere)
					for _, op := range ins.Operands(nil) {
						if fv, ok := (*op).(*ssa.Function); ok && fv == seed && sc != seed {
							bad = append(bad, fmt.Sprintf("%s: %s takes stringx.Seed as a value", c.P.Pos(ins.Pos()), funcDisplay(f)))
						}
					}
					if sc == seed {
						calls++
						bad = append(bad, fmt.Sprintf("%s: %s reseeds the shared id generator: ids drawn afterwards are a function of that seed (a second-resolution or constant seed makes concurrent processes draw identical lock ids)", c.P.Pos(ins.Pos()), funcDisplay(f)))
					}
				}
			}
		}
	}
	sort.Strings(bad)
	c.R.Check(len(bad) == 0 && pkgs > 50, rule, "module#reseed", "no function of the module calls stringx.Seed", "-", fmt.Sprintf("%d packages scanned, %d calls; %s", pkgs, calls, strings.Join(bad, "; ")), bad, pkgs)
	// the initial seed
	okSeed, found := false, false
	if sp := c.P.SSAPkg(pkg); sp != nil {
		if init := sp.Func("init"); init != nil {
			for _, b := range init.Blocks {
				for _, ins := range b.Instrs {
					call, ok := ins.(*ssa.Call)
					if !ok || call.Call.StaticCallee() == nil || call.Call.StaticCallee().Name() != "newLockedSource" {
						continue
					}
					// its result is what `src` holds
					toSrc := false
					for _, r := range *call.Referrers() {
						if st, ok := r.(*ssa.Store); ok {
							if g, ok := st.Addr.(*ssa.Global); ok && g.Name() == "src" {
								toSrc = true
							}
						}
					}
					if !toSrc {
						continue
					}
					found = true
					if a, ok := call.Call.Args[0].(*ssa.Call); ok && calleeName(a.Common()) == "(time.Time).UnixNano" {
						okSeed = true
					}
				}
			}
		}
	}
	if !found {
		c.R.Undecided(rule, pkg+".src", "the package-level id source and its seed are recognised", "src = newLockedSource(…) not found in the package initialiser")
		return
	}
	c.R.Check(okSeed, rule, pkg+".src#initial-seed", "the shared generator is seeded from the nanosecond clock at process start", "-", "", nil, 1)
}

// c19setExpire (C19.R10, round 8): "the lease lasts the configured seconds plus 500 ms" — configured last. SetExpire
// stores its argument into the field AcquireCtx computes the lease from, on every path: a guard that skips some values
// (0 is a legal setting: a 500 ms lease) leaves the previous lease in force for the next Acquire.
func c19setExpire(c *Ctx) {
	rule := "C19.R10"
	pkg := "core/stores/redis"
	f := c.fn(rule, pkg, "(*RedisLock).SetExpire")
	if f == nil {
		return
	}
	ps := c.paths(rule, f, px.Config{})
	argP := f.Params[1]
	c.forall(rule, pkg+".(*RedisLock).SetExpire", "every path stores the argument (converted, not otherwise transformed) into the lease field", f, ps, func(p *px.Path) (bool, string) {
		if p.Exit != px.ExitReturn {
			return true, ""
		}
		stored := false
		for i := range p.Events {
			e := &p.Events[i]
			switch {
			case e.Kind == px.EvStore && px.FieldAddrIs(e.Addr, "seconds", nil):
				if dependsOn(p, e.Val, p.ParamSym(argP)) {
					stored = true
				}
			case e.Kind == px.EvCall && e.Call != nil && strings.HasPrefix(shortName(e.Call), "sync/atomic.Store") && len(e.Call.Args) == 2 && px.FieldAddrIs(e.Call.Args[0], "seconds", nil):
				if dependsOn(p, e.Call.Args[1], p.ParamSym(argP)) {
					stored = true
				}
			}
		}
		if !stored {
			return false, "a path returns without storing the argument: the previous lease stays in force"
		}
		return true, ""
	})
}
