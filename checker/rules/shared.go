package rules

import (
	"fmt"
	"go/token"
	"go/types"
	"sort"
	"strings"

	"golang.org/x/tools/go/ssa"

	"gzverify/px"
)

// Small SSA lints shared between properties (round 3).

// globalRoot follows a pointer value back through phis, field/index addresses, conversions and
// module functions that just return such a value; it returns the package-level variable the
// pointer leads into, if any. (Only the positive answer is used: "this IS shared state".)
func globalRoot(v ssa.Value, d int, seen map[ssa.Value]bool) *ssa.Global {
	if v == nil || d > 10 || seen[v] {
		return nil
	}
	seen[v] = true
	switch x := v.(type) {
	case *ssa.Global:
		return x
	case *ssa.FieldAddr:
		return globalRoot(x.X, d+1, seen)
	case *ssa.IndexAddr:
		return globalRoot(x.X, d+1, seen)
	case *ssa.ChangeType:
		return globalRoot(x.X, d+1, seen)
	case *ssa.Convert:
		return globalRoot(x.X, d+1, seen)
	case *ssa.Phi:
		for _, e := range x.Edges {
			if g := globalRoot(e, d+1, seen); g != nil {
				return g
			}
		}
	case *ssa.UnOp:
		// a pointer-like value read out of a package-level variable (var shared = NewThing()) is shared as well
		if g, ok := x.X.(*ssa.Global); ok {
			switch x.Type().Underlying().(type) {
			case *types.Pointer, *types.Map, *types.Slice, *types.Chan:
				return g
			}
		}
		// a load of a local cell that was stored a global's address (var p = &g)
		if a, ok := x.X.(*ssa.Alloc); ok {
			for _, r := range *a.Referrers() {
				if st, ok := r.(*ssa.Store); ok && st.Addr == a {
					if g := globalRoot(st.Val, d+1, seen); g != nil {
						return g
					}
				}
			}
		}
	case *ssa.Call:
		if f := x.Call.StaticCallee(); f != nil && f.Blocks != nil && d < 4 {
			for _, b := range f.Blocks {
				for _, ins := range b.Instrs {
					if r, ok := ins.(*ssa.Return); ok {
						for _, res := range r.Results {
							if g := globalRoot(res, d+1, seen); g != nil {
								return g
							}
						}
					}
				}
			}
		}
	}
	return nil
}

// optionTargetsShared: option functions (dynamic calls of a value of a named func type taking a
// pointer to a struct, the `for _, o := range opts { o(&x) }` idiom) must customise a per-call
// struct. It reports every application whose target is (part of) a package-level variable:
// whatever one call configures would then leak into every later call.
func (c *Ctx) optionTargetsShared(pkgs ...string) (bad []string, sites int) {
	for _, pkg := range pkgs {
		for _, f := range c.P.AllFuncs(pkg) {
			for _, b := range f.Blocks {
				for _, ins := range b.Instrs {
					call, ok := ins.(*ssa.Call)
					if !ok || call.Call.IsInvoke() || len(call.Call.Args) != 1 {
						continue
					}
					switch call.Call.Value.(type) {
					case *ssa.Function, *ssa.MakeClosure, *ssa.Builtin:
						continue
					}
					if _, named := call.Call.Value.Type().(*types.Named); !named {
						continue
					}
					pt, ok := call.Call.Args[0].Type().Underlying().(*types.Pointer)
					if !ok {
						continue
					}
					if _, ok := pt.Elem().Underlying().(*types.Struct); !ok {
						continue
					}
					sites++
					if g := globalRoot(call.Call.Args[0], 0, map[ssa.Value]bool{}); g != nil {
						bad = append(bad, fmt.Sprintf("%s: option applied to package-level variable %s in %s", c.P.Pos(call.Pos()), g.Name(), f.Name()))
					}
				}
			}
		}
	}
	sort.Strings(bad)
	return
}

// optionsForwarded: a function that accepts a variadic option list and calls another function
// of the module accepting the same option type must hand its own list on (whole, as the variadic
// argument) at every such call; building the callee "with defaults" silently drops the caller's
// configuration. Returns violations and the number of forwarding call sites examined.
func (c *Ctx) optionsForwarded(pkg string, only func(caller *ssa.Function) bool) (bad []string, sites int) {
	for _, f := range c.P.AllFuncs(pkg) {
		if f.Signature == nil || !f.Signature.Variadic() || (only != nil && !only(f)) {
			continue
		}
		np := len(f.Params)
		if np == 0 {
			continue
		}
		vp := f.Params[np-1]
		vt := vp.Type()
		if _, ok := vt.Underlying().(*types.Slice); !ok {
			continue
		}
		walkWithClosures(f, func(g *ssa.Function) {
			for _, b := range g.Blocks {
				for _, ins := range b.Instrs {
					call, ok := ins.(ssa.CallInstruction)
					if !ok {
						continue
					}
					cc := call.Common()
					callee := cc.StaticCallee()
					if callee == nil || callee.Signature == nil || !callee.Signature.Variadic() || len(cc.Args) == 0 {
						continue
					}
					ps := callee.Signature.Params()
					if !types.Identical(ps.At(ps.Len()-1).Type(), vt) {
						continue
					}
					sites++
					last := cc.Args[len(cc.Args)-1]
					if !valueIsParam(last, vp, g) {
						bad = append(bad, fmt.Sprintf("%s: %s calls %s without forwarding its own %s", c.P.Pos(call.Pos()), f.Name(), callee.Name(), vp.Name()))
					}
				}
			}
		})
	}
	sort.Strings(bad)
	return
}

func walkWithClosures(f *ssa.Function, visit func(g *ssa.Function)) {
	visit(f)
	for _, a := range f.AnonFuncs {
		walkWithClosures(a, visit)
	}
}

// valueIsParam: v is the parameter p itself (in the declaring function or captured by a closure,
// directly or through the cell a captured parameter is spilled to).
func valueIsParam(v ssa.Value, p *ssa.Parameter, in *ssa.Function) bool {
	switch x := v.(type) {
	case *ssa.Parameter:
		return x == p
	case *ssa.FreeVar:
		// find the binding in the parent's MakeClosure
		par := in.Parent()
		if par == nil {
			return false
		}
		idx := -1
		for i, fv := range in.FreeVars {
			if fv == x {
				idx = i
			}
		}
		if idx < 0 {
			return false
		}
		for _, b := range par.Blocks {
			for _, ins := range b.Instrs {
				if mc, ok := ins.(*ssa.MakeClosure); ok && mc.Fn == in && idx < len(mc.Bindings) {
					return valueIsParam(mc.Bindings[idx], p, par)
				}
			}
		}
	case *ssa.UnOp:
		// load of the cell a captured parameter lives in: the cell's only store is the parameter
		var cell ssa.Value = x.X
		if fv, ok := cell.(*ssa.FreeVar); ok {
			par := in.Parent()
			if par == nil {
				return false
			}
			for i, f2 := range in.FreeVars {
				if f2 == fv {
					for _, b := range par.Blocks {
						for _, ins := range b.Instrs {
							if mc, ok := ins.(*ssa.MakeClosure); ok && mc.Fn == in && i < len(mc.Bindings) {
								cell = mc.Bindings[i]
								in = par
							}
						}
					}
				}
			}
		}
		if a, ok := cell.(*ssa.Alloc); ok {
			n, isP := 0, false
			for _, r := range *a.Referrers() {
				if st, ok := r.(*ssa.Store); ok && st.Addr == a {
					n++
					if st.Val == p {
						isP = true
					}
				}
			}
			return n == 1 && isP
		}
	}
	return false
}

// methodsVia: the set of method names invoked (statically or through an interface) on values
// loaded from field `field` of struct type pkg.typ, anywhere in the given packages.
func (c *Ctx) methodsVia(pkg, typ, field string, inPkgs ...string) (map[string][]string, bool) {
	out := map[string][]string{}
	pk := c.P.Pkg(pkg)
	if pk == nil {
		return nil, false
	}
	tn, _ := pk.Types.Scope().Lookup(typ).(*types.TypeName)
	if tn == nil {
		return nil, false
	}
	st, _ := tn.Type().Underlying().(*types.Struct)
	if st == nil {
		return nil, false
	}
	var fv *types.Var
	for i := 0; i < st.NumFields(); i++ {
		if st.Field(i).Name() == field {
			fv = st.Field(i)
		}
	}
	if fv == nil {
		return nil, false
	}
	isFieldLoad := func(v ssa.Value) bool {
		u, ok := v.(*ssa.UnOp)
		if !ok {
			if fl, ok := v.(*ssa.Field); ok {
				if s, ok := fl.X.Type().Underlying().(*types.Struct); ok && s.Field(fl.Field) == fv {
					return true
				}
			}
			return false
		}
		fa, ok := u.X.(*ssa.FieldAddr)
		if !ok {
			return false
		}
		pt, ok := fa.X.Type().Underlying().(*types.Pointer)
		if !ok {
			return false
		}
		s, ok := pt.Elem().Underlying().(*types.Struct)
		return ok && s.Field(fa.Field) == fv
	}
	for _, p := range inPkgs {
		for _, f := range c.P.AllFuncs(p) {
			for _, b := range f.Blocks {
				for _, ins := range b.Instrs {
					call, ok := ins.(ssa.CallInstruction)
					if !ok {
						continue
					}
					cc := call.Common()
					var recv ssa.Value
					name := ""
					if cc.IsInvoke() {
						recv, name = cc.Value, cc.Method.Name()
					} else if sc := cc.StaticCallee(); sc != nil && sc.Signature.Recv() != nil && len(cc.Args) > 0 {
						recv, name = cc.Args[0], sc.Name()
					}
					if recv != nil && isFieldLoad(recv) {
						out[name] = append(out[name], c.P.Pos(call.Pos()))
					}
				}
			}
		}
	}
	return out, true
}

// fullRangeIndex decides whether idx, used to index a slice whose length is given by isBound(v)
// (v is the loop's upper bound: len(slice) or a field holding it), runs over every position:
// the range-loop induction variable, a counting loop i = 0; i < bound; i++, or a rotation
// (x + i) % bound of one of these. why explains a refusal.
func fullRangeIndex(idx ssa.Value, isBound func(v ssa.Value) bool) (bool, string) {
	if b, ok := idx.(*ssa.BinOp); ok && b.Op == token.REM {
		if !isBound(b.Y) {
			return false, "rotation modulo something other than the number of slots"
		}
		add, ok := b.X.(*ssa.BinOp)
		if !ok || add.Op != token.ADD {
			return false, "rotation is not (offset + i) % n"
		}
		if ok1, _ := fullRangeIndex(add.X, isBound); ok1 {
			return true, ""
		}
		if ok2, _ := fullRangeIndex(add.Y, isBound); ok2 {
			return true, ""
		}
		return false, "no operand of the rotation counts from 0 to n-1"
	}
	// range loop: t4 = phi[-1, t4'] + 1 compared with len
	inc, phi := (*ssa.BinOp)(nil), (*ssa.Phi)(nil)
	start := int64(0)
	switch x := idx.(type) {
	case *ssa.BinOp:
		if x.Op != token.ADD {
			return false, "index is not a loop counter"
		}
		ph, ok := x.X.(*ssa.Phi)
		one, ok2 := x.Y.(*ssa.Const)
		if !ok || !ok2 || one.Value == nil || one.Int64() != 1 {
			return false, "index is not a loop counter"
		}
		inc, phi, start = x, ph, -1
	case *ssa.Phi:
		phi, start = x, 0
	default:
		return false, "index is not a loop counter"
	}
	if len(phi.Edges) != 2 {
		return false, "loop counter has an unusual shape"
	}
	okStart, okStep := false, false
	for _, e := range phi.Edges {
		if k, ok := e.(*ssa.Const); ok && k.Value != nil && k.Int64() == start {
			okStart = true
		} else if b, ok := e.(*ssa.BinOp); ok && b.Op == token.ADD && b.X == phi {
			if k, ok := b.Y.(*ssa.Const); ok && k.Value != nil && k.Int64() == 1 && (inc == nil || b == inc) {
				okStep = true
			}
		}
	}
	if !okStart {
		return false, fmt.Sprintf("the loop does not start at the first position (start value is not %d)", start+map[bool]int64{true: 1, false: 0}[inc != nil])
	}
	if !okStep {
		return false, "the loop does not advance by one"
	}
	// the comparison that bounds it
	var cmpd ssa.Value = phi
	if inc != nil {
		cmpd = inc
	}
	for _, r := range *cmpd.Referrers() {
		if b, ok := r.(*ssa.BinOp); ok && b.Op == token.LSS && b.X == cmpd && isBound(b.Y) {
			return true, ""
		}
	}
	return false, "the loop is not bounded by `< number of slots`"
}

// writeRetainsArg: io.Writer's contract — "Write must not retain p". For a Write([]byte) method it
// follows p (and slices of it) to every use; allowed: len/cap/copy source/append spread source,
// string conversion, range/index reads, and handing it to another Write/WriteString-like method
// (which is bound by the same contract). A store of p into memory or passing it to anything else
// (bytes.NewBuffer(p) adopts the slice as its storage) is reported.
func writeRetainsArg(c *Ctx, f *ssa.Function) []string {
	if len(f.Params) < 2 {
		return nil
	}
	p := f.Params[1]
	var bad []string
	seen := map[ssa.Value]bool{}
	var follow func(v ssa.Value)
	follow = func(v ssa.Value) {
		if seen[v] {
			return
		}
		seen[v] = true
		for _, r := range *v.Referrers() {
			switch x := r.(type) {
			case *ssa.Slice:
				follow(x)
			case *ssa.Phi:
				follow(x)
			case *ssa.ChangeType:
				follow(x)
			case *ssa.Convert:
				// string(p) copies
			case *ssa.IndexAddr, *ssa.Index, *ssa.Range, *ssa.DebugRef:
			case *ssa.Store:
				if x.Val == v {
					if _, local := x.Addr.(*ssa.Alloc); local {
						// spilled to a local variable: follow its loads
						for _, lr := range *x.Addr.(*ssa.Alloc).Referrers() {
							if u, ok := lr.(*ssa.UnOp); ok {
								follow(u)
							}
						}
						continue
					}
					bad = append(bad, c.P.Pos(x.Pos())+": p is stored into memory that outlives the call")
				}
			case *ssa.MakeInterface, *ssa.MakeClosure:
				bad = append(bad, c.P.Pos(r.Pos())+": p escapes into an interface/closure")
			case ssa.CallInstruction:
				cc := x.Common()
				if b, ok := cc.Value.(*ssa.Builtin); ok {
					switch b.Name() {
					case "len", "cap":
						continue
					case "copy":
						if len(cc.Args) == 2 && cc.Args[1] == v && cc.Args[0] != v {
							continue
						}
					case "append":
						// append(dst, p...) copies the bytes of p; append(p, …) may alias p
						if len(cc.Args) == 2 && cc.Args[1] == v && cc.Args[0] != v {
							continue
						}
					}
					bad = append(bad, c.P.Pos(x.Pos())+": p used by builtin "+b.Name()+" in a way that may alias it")
					continue
				}
				name := ""
				if cc.IsInvoke() {
					name = cc.Method.Name()
				} else if sc := cc.StaticCallee(); sc != nil {
					name = sc.Name()
				}
				switch name {
				case "Write", "WriteString", "Sum", "Sum256", "Equal", "Compare", "Contains", "Index", "HasPrefix", "HasSuffix":
					continue
				}
				bad = append(bad, fmt.Sprintf("%s: p is handed to %s, which is not known to copy it", c.P.Pos(x.Pos()), calleeName(cc)))
			case *ssa.Return:
				bad = append(bad, c.P.Pos(x.Pos())+": p is returned")
			}
		}
	}
	follow(p)
	sort.Strings(bad)
	return bad
}

// reachingDefs resolves a value used inside `in` (possibly a closure) to the SSA values that define
// it: through closure bindings, and through loads of local cells to the values stored there.
func reachingDefs(v ssa.Value, in *ssa.Function, d int) []ssa.Value {
	if d > 6 {
		return []ssa.Value{v}
	}
	switch x := v.(type) {
	case *ssa.FreeVar:
		par := in.Parent()
		if par == nil {
			return []ssa.Value{v}
		}
		for i, fv := range in.FreeVars {
			if fv != x {
				continue
			}
			var out []ssa.Value
			for _, b := range par.Blocks {
				for _, ins := range b.Instrs {
					if mc, ok := ins.(*ssa.MakeClosure); ok && mc.Fn == in && i < len(mc.Bindings) {
						out = append(out, reachingDefs(mc.Bindings[i], par, d+1)...)
					}
				}
			}
			if len(out) > 0 {
				return out
			}
		}
	case *ssa.UnOp:
		if x.Op != token.MUL {
			break
		}
		cells := reachingDefs(x.X, in, d+1)
		var out []ssa.Value
		for _, cell := range cells {
			a, ok := cell.(*ssa.Alloc)
			if !ok {
				return []ssa.Value{v}
			}
			for _, r := range *a.Referrers() {
				if st, ok := r.(*ssa.Store); ok && st.Addr == a {
					out = append(out, reachingDefs(st.Val, a.Parent(), d+1)...)
				}
			}
		}
		if len(out) > 0 {
			return out
		}
	case *ssa.Phi:
		var out []ssa.Value
		for _, e := range x.Edges {
			out = append(out, reachingDefs(e, in, d+1)...)
		}
		return out
	case *ssa.ChangeType:
		return reachingDefs(x.X, in, d+1)
	case *ssa.ChangeInterface:
		return reachingDefs(x.X, in, d+1)
	case *ssa.MakeInterface:
		return reachingDefs(x.X, in, d+1)
	}
	return []ssa.Value{v}
}

// describeDef renders a defining value for messages.
func describeDef(c *Ctx, v ssa.Value) string {
	switch x := v.(type) {
	case *ssa.MakeMap:
		return "make(map) at " + c.P.Pos(x.Pos())
	case *ssa.Global:
		return "package variable " + x.Name()
	case *ssa.Parameter:
		return "parameter " + x.Name()
	case *ssa.UnOp:
		if fa, ok := x.X.(*ssa.FieldAddr); ok {
			return "field " + fieldNameOf(fa)
		}
		if g, ok := x.X.(*ssa.Global); ok {
			return "package variable " + g.Name()
		}
	case *ssa.Call:
		return "result of " + calleeName(x.Common())
	}
	return v.String()
}

// scriptDispatch: the one function through which every embedded Lua script reaches the store,
// (*Redis).ScriptRunCtx, dispatches it with a call that survives the server having forgotten the
// script (go-redis Script.Run / Eval: EVALSHA with a transparent EVAL on NOSCRIPT, or plain EVAL).
// A bare EvalSha after a one-off Load answers NOSCRIPT for ever after a SCRIPT FLUSH, restart or
// fail-over: limiters classify that as a store outage and fall back to their private buckets
// although the store is reachable; the lock can no longer be taken or released (seed r3-C03-1).
func scriptDispatch(c *Ctx, rule string) {
	f := c.fn(rule, "core/stores/redis", "(*Redis).ScriptRunCtx")
	if f == nil {
		return
	}
	var script *ssa.Parameter
	for _, p := range f.Params {
		if strings.HasSuffix(typeString(p.Type()), "redis/v9.Script") || strings.HasSuffix(typeString(p.Type()), ".Script") {
			script = p
		}
	}
	if script == nil {
		c.R.Undecided(rule, "core/stores/redis.(*Redis).ScriptRunCtx", "the script parameter resolves", "no parameter of type *Script")
		return
	}
	ok := map[string]bool{"Run": true, "RunRO": true, "Eval": true, "EvalRO": true, "Hash": true}
	var used, bad []string
	walkWithClosures(f, func(g *ssa.Function) {
		for _, b := range g.Blocks {
			for _, ins := range b.Instrs {
				call, isCall := ins.(ssa.CallInstruction)
				if !isCall {
					continue
				}
				cc := call.Common()
				sc := cc.StaticCallee()
				if sc == nil || sc.Signature.Recv() == nil || len(cc.Args) == 0 || !valueIsParam(cc.Args[0], script, g) {
					continue
				}
				used = append(used, sc.Name())
				if !ok[sc.Name()] {
					bad = append(bad, fmt.Sprintf("%s: the script is dispatched with Script.%s — no fallback to EVAL when the server no longer knows the script", c.P.Pos(ins.Pos()), sc.Name()))
				}
			}
		}
	})
	sort.Strings(bad)
	sort.Strings(used)
	detail := strings.Join(bad, "; ")
	if len(used) == 0 {
		detail = "no method of the script is called: the dispatch is not recognised"
	}
	c.R.Check(len(bad) == 0 && len(used) > 0, rule, "core/stores/redis.(*Redis).ScriptRunCtx#dispatch", "scripts are sent with Script.Run/Eval (EVALSHA falling back to EVAL), never with a bare EvalSha/Load", posOf(c, f), detail, bad, len(used))
}

// instanceStateFresh (round 5): the mutable state of an instance belongs to that instance. For every composite
// literal of struct type pkg.typ built anywhere in pkg, a field of pointer, map, slice or channel type is
// initialised from a value made for this instance (a constructor call, make, a literal, a parameter) — never
// from a package-level variable: what one instance records there (an overload timestamp, a window, a flag)
// would be seen by every other instance. Function-typed and interface-typed fields are exempt (shared
// behaviour, not state). Returns violations and the number of field initialisations examined.
func (c *Ctx) instanceStateFresh(pkg, typ string, exemptFields ...string) (bad []string, sites int) {
	for _, f := range c.P.AllFuncs(pkg) {
		for _, b := range f.Blocks {
			for _, ins := range b.Instrs {
				st, ok := ins.(*ssa.Store)
				if !ok {
					continue
				}
				fa, ok := st.Addr.(*ssa.FieldAddr)
				if !ok {
					continue
				}
				al, ok := fa.X.(*ssa.Alloc)
				if !ok || !strings.HasSuffix(typeString(al.Type()), pkg+"."+typ) {
					continue
				}
				name := fieldNameOf(fa)
				if nameIn(name, exemptFields) {
					continue
				}
				switch st.Val.Type().Underlying().(type) {
				case *types.Pointer, *types.Map, *types.Slice, *types.Chan:
				default:
					continue
				}
				sites++
				if g := globalRoot(st.Val, 0, map[ssa.Value]bool{}); g != nil {
					bad = append(bad, fmt.Sprintf("%s: %s initialises %s.%s from package-level variable %s: the state is shared by every %s", c.P.Pos(st.Pos()), f.Name(), typ, name, g.Name(), typ))
				}
			}
		}
	}
	sort.Strings(bad)
	return
}

// locksReleasedOnAllExits (round 5): a function that calls user code (a function-typed parameter, field or captured
// variable, or an interface method on a parameter) while holding a sync mutex must release it on the panic exit of
// that call too — i.e. through a deferred Unlock. Executors recover a callback's panic further up and carry on; a
// lock left behind by the panicking call blocks every later batch. Returns one message per offending path kind.
func (c *Ctx) locksReleasedOnAllExits(rule string, f *ssa.Function) (bad []string, paths int) {
	ps := c.paths(rule, f, px.Config{MaxVisits: 2, MayPanic: userPanics})
	seen := map[string]bool{}
	for _, p := range ps {
		paths++
		held := map[string]int{}
		for i := range p.Events {
			e := &p.Events[i]
			if e.Kind != px.EvCall || e.Call == nil || e.Call.Obj() == nil || e.Call.Recv == nil {
				continue
			}
			o := e.Call.Obj()
			if o.Pkg() == nil || o.Pkg().Path() != "sync" {
				continue
			}
			key := e.Call.Recv.Describe()
			switch o.Name() {
			case "Lock", "RLock":
				held[key]++
			case "Unlock", "RUnlock":
				held[key]--
			}
		}
		for k, n := range held {
			if n > 0 && p.Exit == px.ExitPanic {
				msg := fmt.Sprintf("%s is still held when a panic of the user callback leaves %s (Unlock is not deferred): the panic is recovered further up, and every later call blocks on the lock", k, f.Name())
				if !seen[msg] {
					seen[msg] = true
					bad = append(bad, msg)
				}
			}
		}
	}
	sort.Strings(bad)
	return
}

// pooledObjectsClean: what comes out of a sync.Pool carries whatever its previous user left in it. For every
// (*sync.Pool).Get() in fns (and their static in-module callees, three levels), the object is either emptied at the
// Get — a Reset()/Truncate(0) on it that comes before every other use (the tree's own idiom, iox.BufferPool.Get) —
// or emptied at every Put: a Put that is not deferred and directly follows a Reset (a panic then never returns the
// object), or a Put inside a deferred literal that resets first. A deferred Put with the Reset only on the normal path
// returns a filled object to the pool when the function panics: the next user's content is appended to it.
func (c *Ctx) pooledObjectsClean(fns []*ssa.Function) (bad []string, gets int) {
	seen := map[*ssa.Function]bool{}
	var visit func(f *ssa.Function, depth int)
	isPoolCall := func(cc *ssa.CallCommon, name string) bool {
		return calleeName(cc) == "(*sync.Pool)."+name
	}
	isResetOn := func(ins ssa.Instruction, v ssa.Value) bool {
		call, ok := ins.(*ssa.Call)
		if !ok || len(call.Call.Args) == 0 || call.Call.Args[0] != v {
			return false
		}
		sc := call.Call.StaticCallee()
		if sc == nil {
			return false
		}
		if sc.Name() == "Reset" {
			return true
		}
		if sc.Name() == "Truncate" && len(call.Call.Args) == 2 {
			if k, ok := call.Call.Args[1].(*ssa.Const); ok && k.Value != nil && k.Int64() == 0 {
				return true
			}
		}
		return false
	}
	before := func(a, b ssa.Instruction) bool {
		if a.Block() != b.Block() {
			return a.Block().Dominates(b.Block())
		}
		for _, i := range a.Block().Instrs {
			if i == a {
				return true
			}
			if i == b {
				return false
			}
		}
		return false
	}
	visit = func(f *ssa.Function, depth int) {
		if f == nil || f.Blocks == nil || seen[f] || depth > 3 {
			return
		}
		seen[f] = true
		for _, b := range f.Blocks {
			for _, ins := range b.Instrs {
				if ci, ok := ins.(ssa.CallInstruction); ok {
					if sc := ci.Common().StaticCallee(); sc != nil && sc.Pkg != nil && strings.HasPrefix(sc.Pkg.Pkg.Path(), strings.TrimSuffix(mod, "/")) {
						visit(sc, depth+1)
					}
					for _, a := range ci.Common().Args {
						if mc, ok := a.(*ssa.MakeClosure); ok {
							visit(mc.Fn.(*ssa.Function), depth)
						}
					}
				}
				call, ok := ins.(*ssa.Call)
				if !ok || !isPoolCall(call.Common(), "Get") {
					continue
				}
				gets++
				// the typed object: through type assertions
				objs := []ssa.Value{call}
				for i := 0; i < len(objs); i++ {
					for _, r := range *objs[i].Referrers() {
						switch x := r.(type) {
						case *ssa.TypeAssert:
							objs = append(objs, x)
						case *ssa.Extract:
							if x.Index == 0 {
								objs = append(objs, x)
							}
						}
					}
				}
				obj := objs[len(objs)-1]
				var resets, uses, puts []ssa.Instruction
				for _, r := range *obj.Referrers() {
					switch x := r.(type) {
					case *ssa.DebugRef:
						continue
					case *ssa.MakeInterface:
						onlyPut := true
						for _, rr := range *x.Referrers() {
							ci, ok := rr.(ssa.CallInstruction)
							if !ok || !isPoolCall(ci.Common(), "Put") {
								onlyPut = false
							} else {
								puts = append(puts, rr)
							}
						}
						if !onlyPut {
							uses = append(uses, r)
						}
						continue
					}
					if isResetOn(r, obj) {
						resets = append(resets, r)
					} else {
						uses = append(uses, r)
					}
				}
				cleanAtGet := false
				for _, rs := range resets {
					ok := true
					for _, u := range uses {
						if !before(rs, u) {
							ok = false
						}
					}
					if ok {
						cleanAtGet = true
					}
				}
				if cleanAtGet {
					continue
				}
				cleanAtPut := len(puts) > 0
				for _, p := range puts {
					if _, deferred := p.(*ssa.Defer); deferred {
						cleanAtPut = false
						continue
					}
					ok := false
					for _, rs := range resets {
						if rs.Block() == p.Block() && before(rs, p) {
							ok = true
							for _, u := range uses {
								if u.Block() == p.Block() && before(rs, u) && before(u, p) {
									ok = false
								}
							}
						}
					}
					if !ok {
						cleanAtPut = false
					}
				}
				// an object captured by a deferred literal that resets and puts it
				if !cleanAtPut && len(puts) == 0 {
					for _, u := range uses {
						mc, ok := u.(*ssa.MakeClosure)
						if !ok {
							continue
						}
						isDeferred := false
						for _, rr := range *mc.Referrers() {
							if _, ok := rr.(*ssa.Defer); ok {
								isDeferred = true
							}
						}
						if !isDeferred {
							continue
						}
						lit := mc.Fn.(*ssa.Function)
						var fv *ssa.FreeVar
						for i, bnd := range mc.Bindings {
							if bnd == obj {
								fv = lit.FreeVars[i]
							}
						}
						if fv == nil {
							continue
						}
						var r2, p2 ssa.Instruction
						for _, rr := range *fv.Referrers() {
							if isResetOn(rr, fv) {
								r2 = rr
							}
							if mi, ok := rr.(*ssa.MakeInterface); ok {
								for _, r3 := range *mi.Referrers() {
									if ci, ok := r3.(ssa.CallInstruction); ok && isPoolCall(ci.Common(), "Put") {
										p2 = r3
									}
								}
							}
						}
						if r2 != nil && p2 != nil && before(r2, p2) {
							cleanAtPut = true
						}
					}
				}
				if cleanAtPut {
					continue
				}
				bad = append(bad, fmt.Sprintf("%s: %s takes an object from a sync.Pool and neither empties it before use nor on every way back into the pool (a deferred Put with the Reset on the normal path only): after a panic here the next user appends to the previous content", c.P.Pos(call.Pos()), funcDisplay(f)))
			}
		}
	}
	for _, f := range fns {
		visit(f, 0)
	}
	sort.Strings(bad)
	return bad, gets
}

// chainContains (shared, round 8): a protection is only as good as the chain that contains it. On every returning path
// of rest.(*engine).buildChainWithNativeMiddlewares the middleware switch `sw` was tested, and where it was found on, the
// middleware built by `ctor` is part of the returned chain — for every kind of route (an early return for a class of
// routes, e.g. event streams, that comes before the switch leaves those routes without the protection).
func chainContains(c *Ctx, rule, sw, ctor, what string) {
	f := c.fn(rule, "rest", "(*engine).buildChainWithNativeMiddlewares")
	if f == nil {
		return
	}
	ps := c.paths(rule, f, px.Config{MaxPaths: 200000})
	isCtor := calleeIs("rest/handler." + ctor)
	seenOn := false
	c.forall(rule, "rest.(*engine).buildChainWithNativeMiddlewares#"+sw, "every returning path tested the "+sw+" switch, and where it is on "+what+" is part of the returned chain — whatever the route's features", f, ps, func(p *px.Path) (bool, string) {
		if p.Exit != px.ExitReturn {
			return true, ""
		}
		tested, on := false, false
		for _, b := range p.All(px.KindIs(px.EvBranch)) {
			if fieldLoadDeep(b.Cond, sw, nil) {
				tested = true
				if b.Taken {
					on = true
				}
			}
		}
		if !tested {
			return false, "a chain is returned without the " + sw + " switch having been consulted: routes taking this path are served without " + what
		}
		if !on {
			return true, ""
		}
		seenOn = true
		cs := p.All(isCtor)
		if len(cs) != 1 {
			return false, fmt.Sprintf("the %s switch is on but %s is built ×%d", sw, ctor, len(cs))
		}
		if len(p.Results) == 0 || !dependsOn(p, p.Results[0], cs[0].Res) {
			return false, ctor + " is built but not part of the returned chain"
		}
		return true, ""
	})
	if !seenOn {
		c.R.Undecided(rule, "rest.(*engine).buildChainWithNativeMiddlewares#"+sw+"-on", "the switch is recognised", "no path found the "+sw+" switch on")
	}
}
