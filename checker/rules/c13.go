package rules

import (
	"fmt"
	"go/constant"
	"go/token"
	"go/types"
	"strings"

	"golang.org/x/tools/go/ssa"

	"gzverify/px"
)

// C13 — service discovery view.
func init() { register("C13", "other", c13) }

func c13(c *Ctx) {
	c.R.RuleText = "inverse-map discipline and lock/dirty/notify rules on all paths of the subscriber container, per-event path table of the watch loop, per-key decision table of the snapshot diff and its dispatch order, resolver publication"
	c.R.Explain = "Structural necessary conditions of C13: the container's key→value map and value→keys map stay inverse (a key is re-pointed only after its previous image was dropped, or is known absent/equal); every mutation holds the lock and marks the view dirty; Values() rebuilds from the value map under the lock; OnAdd/OnDelete mutate then notify every listener; each PUT/DELETE watch event updates the watcher's value map under the lock and is forwarded to every listener with that event's key and value; the reload diff classifies each key exactly (added iff new or changed, removed iff vanished or changed), stores the new snapshot, and a changed key's removal cannot erase its new value (removals skipped for keys still present, or dispatched before additions); the resolver publishes subset(Values(), 32) and is registered as listener. NOT decided: convergence over arbitrary event histories, etcd behaviour."
	c.R.Assume = append(c.R.Assume, "etcd delivers events in revision order", "sync.Mutex semantics")
	c13container(c)
	c13events(c)
	c13diff(c)
	c13resolver(c)
	c13reload(c)
	c13kube(c)
	c13attach(c)
	c13atomicSnapshot(c)
	c13loadApplies(c)
	c13kubeTombstone(c)
	c13optionsFirst(c)
	c13stickyDisconnect(c)
	c13targetKey(c)
	c13waitHolding(c)
}

const discovPkg = "core/discov"
const discovInt = "core/discov/internal"

func c13container(c *Ctx) {
	// R1 inverse-map discipline
	rule := "C13.R1"
	if f := c.fn(rule, discovPkg, "(*container).addKv"); f != nil {
		keyP, valP := f.Params[1], f.Params[2]
		rm := c.P.Func(discovPkg, "(*container).doRemoveKey")
		ps := c.paths(rule, f, px.Config{MaxVisits: 2})
		c.forall(rule, discovPkg+".(*container).addKv", "mapping[key] is re-pointed only after the key's previous image was dropped (doRemoveKey(key)) or the key is known absent or already mapped to this value; the key is then listed under values[value]", f, ps, func(p *px.Path) (bool, string) {
			if p.Exit == px.ExitCut {
				return true, ""
			}
			var mapSt, valSt *px.Event
			for _, e := range p.All(px.KindIs(px.EvMapUpdate)) {
				if px.IsFieldLoad(e.Addr, "mapping", nil) {
					mapSt = e
				}
				if px.IsFieldLoad(e.Addr, "values", nil) {
					valSt = e
				}
			}
			if mapSt == nil || valSt == nil {
				return false, "key→value or value→keys is not updated"
			}
			if !isParam(mapSt.Key, keyP) || !isParam(mapSt.Val, valP) || !isParam(valSt.Key, valP) {
				return false, "maps updated with something other than (key, value)"
			}
			if !dependsOn(p, valSt.Val, p.ParamSym(keyP)) {
				return false, "the key is not appended to values[value]"
			}
			safe := false
			for i := range p.Events {
				e := &p.Events[i]
				if e.Seq > mapSt.Seq {
					break
				}
				if px.CallsFn(rm)(e) && isParam(e.Call.Args[1], keyP) {
					safe = true
				}
				if e.Kind == px.EvLookup && px.IsFieldLoad(e.Addr, "mapping", nil) && isParam(e.Key, keyP) {
					ok := findExtract(p, e.Res, 1)
					prev := findExtract(p, e.Res, 0)
					if ok != nil && p.Abs(ok).K == px.False {
						safe = true
					}
					// prev == value established
					for _, b := range p.All(px.KindIs(px.EvBranch)) {
						cnd := b.Cond.Strip(true)
						if cnd.Kind == px.KBinOp && prev != nil && ((cnd.X.Strip(false) == prev && isParam(cnd.Y, valP)) || (cnd.Y.Strip(false) == prev && isParam(cnd.X, valP))) {
							if (cnd.Op == token.NEQ && !b.Taken) || (cnd.Op == token.EQL && b.Taken) {
								safe = true
							}
						}
					}
				}
			}
			if !safe {
				return false, "mapping[key] = value overwrites the key's previous value without removing the key from values[previous]: after a key is updated in place both its old and its new value stay in Values() forever"
			}
			return true, ""
		})
	}
	if f := c.fn(rule, discovPkg, "(*container).doRemoveKey"); f != nil {
		keyP := f.Params[1]
		ps := c.paths(rule, f, px.Config{MaxVisits: 2})
		c.forall(rule, discovPkg+".(*container).doRemoveKey", "unknown key ⇒ no effect; known key ⇒ deleted from mapping and filtered out of values[its value] (the value entry deleted when no key remains)", f, ps, func(p *px.Path) (bool, string) {
			if p.Exit != px.ExitReturn {
				return true, ""
			}
			lk := p.First(px.KindIs(px.EvLookup))
			if lk == nil || !px.IsFieldLoad(lk.Addr, "mapping", nil) || !isParam(lk.Key, keyP) {
				return false, "mapping[key] not consulted first"
			}
			ok := findExtract(p, lk.Res, 1)
			server := findExtract(p, lk.Res, 0)
			dels := p.All(func(e *px.Event) bool { return e.Kind == px.EvCall && e.Call.Builtin == "delete" })
			ups := p.All(px.KindIs(px.EvMapUpdate))
			if p.Abs(ok).K == px.False {
				if len(dels)+len(ups) != 0 {
					return false, "unknown key has effects"
				}
				return true, ""
			}
			delMapping, delValues := 0, 0
			for _, d := range dels {
				switch {
				case px.IsFieldLoad(d.Call.Args[0], "mapping", nil) && isParam(d.Call.Args[1], keyP):
					delMapping++
				case px.IsFieldLoad(d.Call.Args[0], "values", nil) && server != nil && d.Call.Args[1].Strip(false) == server.Strip(false):
					delValues++
				default:
					return false, "unexpected delete"
				}
			}
			if delMapping != 1 {
				return false, "the key is not deleted from mapping"
			}
			setValues := 0
			for _, u := range ups {
				if px.IsFieldLoad(u.Addr, "values", nil) && server != nil && u.Key.Strip(false) == server.Strip(false) {
					setValues++
				} else {
					return false, "unexpected map store"
				}
			}
			if delValues+setValues != 1 {
				return false, "values[previous value] is neither shrunk nor deleted"
			}
			return true, ""
		})
	}
	c.R.Min(rule, 2, "addKv, doRemoveKey")

	// R2 lock + dirty
	rule = "C13.R2"
	fields := []string{"values", "mapping", "listeners"}
	lockGuardFn(c, rule, discovPkg+".(*container).addKv#lock", c.fn(rule, discovPkg, "(*container).addKv"), "lock", fields, false, true, []string{"doRemoveKey"}, true)
	lockGuardFn(c, rule, discovPkg+".(*container).removeKey#lock", c.fn(rule, discovPkg, "(*container).removeKey"), "lock", fields, false, true, []string{"doRemoveKey"}, true)
	lockGuardFn(c, rule, discovPkg+".(*container).getValues#lock", c.fn(rule, discovPkg, "(*container).getValues"), "lock", fields, false, true, nil, true)
	lockGuardFn(c, rule, discovPkg+".(*container).addListener#lock", c.fn(rule, discovPkg, "(*container).addListener"), "lock", fields, false, true, nil, true)
	lockGuardFn(c, rule, discovPkg+".(*container).notifyChange#lock", c.fn(rule, discovPkg, "(*container).notifyChange"), "lock", fields, false, true, nil, true)
	setDirty := func(want px.AbsK) px.Pred {
		return func(e *px.Event) bool {
			return e.Kind == px.EvCall && shortName(e.Call) == "core/syncx.(*AtomicBool).Set" && px.IsFieldLoad(e.Call.Recv, "dirty", nil)
		}
	}
	for _, m := range []string{"addKv", "removeKey"} {
		f := c.fn(rule, discovPkg, "(*container)."+m)
		if f == nil {
			continue
		}
		ps := c.paths(rule, f, px.Config{MaxVisits: 2})
		c.forall(rule, discovPkg+".(*container)."+m+"#dirty", "every mutation marks the view dirty (so Values() rebuilds)", f, ps, func(p *px.Path) (bool, string) {
			if p.Exit != px.ExitReturn {
				return true, ""
			}
			d := p.All(setDirty(px.True))
			if len(d) == 0 {
				return false, "dirty is not set"
			}
			for _, e := range d {
				if p.Abs(e.Call.Args[1]).K != px.True {
					return false, "dirty set to something other than true"
				}
			}
			return true, ""
		})
	}
	if f := c.fn(rule, discovPkg, "(*container).getValues"); f != nil {
		ps := c.paths(rule, f, px.Config{MaxVisits: 2})
		c.forall(rule, discovPkg+".(*container).getValues", "clean ⇒ the stored snapshot; dirty ⇒ the keys of the value map are collected, stored as snapshot, dirty cleared and returned", f, ps, func(p *px.Path) (bool, string) {
			if p.Exit != px.ExitReturn {
				return true, ""
			}
			tr := p.First(calleeIs("core/syncx.(*AtomicBool).True"))
			if tr == nil {
				return false, "dirty not consulted"
			}
			if p.Abs(tr.Res).K == px.False {
				if p.Has(px.KindIs(px.EvMapUpdate)) || p.Has(setDirty(px.False)) {
					return false, "clean read mutates"
				}
				return true, ""
			}
			st := p.All(calleeIs("sync/atomic.(*Value).Store"))
			d := p.All(setDirty(px.False))
			if len(st) != 1 || len(d) != 1 || p.Abs(d[0].Call.Args[1]).K != px.False {
				return false, "snapshot not stored exactly once or dirty not cleared"
			}
			return true, ""
		})
		// the rebuilt slice ranges over c.values
		ranged := false
		for _, b := range f.Blocks {
			for _, ins := range b.Instrs {
				if r, ok := ins.(*ssa.Range); ok && viaField(r.X, "values") {
					ranged = true
				}
			}
		}
		c.R.Check(ranged, rule, discovPkg+".(*container).getValues#source", "the view is rebuilt by ranging over the value map", posOf(c, f), "getValues does not range over c.values", nil, 1)
	}
	c.R.Min(rule, 9, "5 lock guards, 2 dirty, getValues (2)")

	// R3 notify
	rule = "C13.R3"
	for _, m := range []struct{ name, mut string }{{"OnAdd", "addKv"}, {"OnDelete", "removeKey"}} {
		f := c.fn(rule, discovPkg, "(*container)."+m.name)
		if f == nil {
			continue
		}
		ps := c.paths(rule, f, px.Config{})
		c.forall(rule, discovPkg+".(*container)."+m.name, "the event is applied with its own key (and value) and then the listeners are notified exactly once", f, ps, func(p *px.Path) (bool, string) {
			mu := p.All(calleeIs(discovPkg + ".(*container)." + m.mut))
			nt := p.All(calleeIs(discovPkg + ".(*container).notifyChange"))
			if len(mu) != 1 || len(nt) != 1 || nt[0].Seq < mu[0].Seq {
				return false, fmt.Sprintf("%s ×%d, notifyChange ×%d (or in the wrong order)", m.mut, len(mu), len(nt))
			}
			kv := f.Params[1]
			isKV := func(s *px.Sym, fld string) bool {
				s = s.Strip(false)
				if s.Kind == px.KField {
					return s.FieldVar().Name() == fld && isParam(s.X, kv)
				}
				b, ok := fieldLoadBase(s, fld)
				return ok && (b.Kind == px.KAlloc || isParam(b, kv))
			}
			if !isKV(mu[0].Call.Args[1], "Key") {
				return false, "applied with something other than the event's key"
			}
			if m.mut == "addKv" && !isKV(mu[0].Call.Args[2], "Val") {
				return false, "applied with something other than the event's value"
			}
			return true, ""
		})
	}
	if f := c.fn(rule, discovPkg, "(*container).notifyChange"); f != nil {
		ps := c.paths(rule, f, px.Config{MaxVisits: 2})
		called := 0
		c.forall(rule, discovPkg+".(*container).notifyChange", "every registered listener is called (outside the lock)", f, ps, func(p *px.Path) (bool, string) {
			for _, e := range p.All(func(e *px.Event) bool { return e.Kind == px.EvCall && e.Call.IsDyn() }) {
				called++
				_ = e
			}
			return true, ""
		})
		// the loop ranges over a copy of c.listeners taken under the lock and calls each element
		ok := false
		for _, b := range f.Blocks {
			for _, ins := range b.Instrs {
				if call, isCall := ins.(*ssa.Call); isCall && call.Call.StaticCallee() == nil && !call.Call.IsInvoke() {
					if _, isBuiltin := call.Call.Value.(*ssa.Builtin); !isBuiltin {
						ok = true
					}
				}
			}
		}
		c.R.Check(ok && called > 0, rule, discovPkg+".(*container).notifyChange#calls", "listeners are invoked in a loop", posOf(c, f), "no listener call found", nil, 1)
	}
	c.R.Min(rule, 4, "OnAdd, OnDelete, notifyChange (2)")
}

// c13events: handleWatchEvents per event.
func c13events(c *Ctx) {
	rule := "C13.R4"
	f := c.fn(rule, discovInt, "(*cluster).handleWatchEvents")
	if f == nil {
		return
	}
	ps := c.paths(rule, f, px.Config{MaxVisits: 2, MaxPaths: 100000})
	lockF, unlockF := lockOn("lock", "Lock"), lockOn("lock", "Unlock")
	puts, dels := 0, 0
	var eventsP *ssa.Parameter
	for _, p := range f.Params {
		if strings.HasPrefix(typeString(p.Type()), "[]*") && strings.HasSuffix(typeString(p.Type()), "Event") {
			eventsP = p
		}
	}
	// the event comes straight out of the events parameter (every event of the response is applied, in order): a
	// filtered or compacted copy drops intermediate events — a DELETE followed by a PUT of the same key collapses into
	// the PUT, and an exclusive subscriber never sees the key leave
	fromEvents := func(s *px.Sym) bool {
		for d := 0; s != nil && d < 12; d++ {
			s = s.Strip(true)
			if s == nil {
				return false
			}
			if eventsP != nil && isParam(s, eventsP) {
				return true
			}
			s = s.X
		}
		return false
	}
	evKV := func(s *px.Sym, fld string) bool {
		// string(ev.Kv.Key) / string(ev.Kv.Value)
		s = s.Strip(true)
		b, ok := fieldLoadBase(s, fld)
		return ok && b != nil && (eventsP == nil || fromEvents(b))
	}
	held := c.forall(rule, discovInt+".(*cluster).handleWatchEvents", "PUT ⇒ values[key] = value under the write lock, then OnAdd{key,value} to the listeners; DELETE ⇒ delete(values, key) under the write lock, then OnDelete{key,…}; an unknown watcher ⇒ nothing", f, ps, func(p *px.Path) (bool, string) {
		w := 0
		// every event applied to the registry's copy is forwarded: between a mutation of watcher.values and the next event
		// (or the end) the path reaches the listeners — an OnAdd/OnDelete call, or the listener loop's own length test.
		// The registry cannot decide that an event is a "no-op" for its listeners: an exclusive subscriber's view is
		// deliberately not a copy of watcher.values (it evicts older keys of a value), so a repeated pair changes it.
		isListeners := func(s *px.Sym) bool {
			s = s.Strip(false)
			if s == nil {
				return false
			}
			if px.IsFieldLoad(s, "listeners", nil) {
				return true
			}
			if s.Kind == px.KCall && s.Call != nil && s.Call.Builtin == "append" {
				for _, a := range s.Call.Args {
					if px.IsFieldLoad(a, "listeners", nil) {
						return true
					}
				}
			}
			return false
		}
		isMutation := func(e *px.Event) bool {
			return (e.Kind == px.EvMapUpdate && px.IsFieldLoad(e.Addr, "values", nil)) ||
				(e.Kind == px.EvCall && e.Call.Builtin == "delete" && len(e.Call.Args) == 2 && px.IsFieldLoad(e.Call.Args[0], "values", nil))
		}
		for i := range p.Events {
			if !isMutation(&p.Events[i]) {
				continue
			}
			reached := false
			for j := i + 1; j < len(p.Events) && !reached; j++ {
				x := &p.Events[j]
				if isMutation(x) || x.Kind == px.EvReturn {
					break
				}
				if x.Kind == px.EvLoopCut {
					reached = true // the path was cut before the event was finished: not a witness
				}
				if x.Kind == px.EvCall && x.Call.Method != nil && (x.Call.Method.Name() == "OnAdd" || x.Call.Method.Name() == "OnDelete") {
					reached = true
				}
				if x.Kind == px.EvCall && x.Call.Builtin == "len" && len(x.Call.Args) == 1 && isListeners(x.Call.Args[0]) {
					reached = true
				}
			}
			if !reached {
				return false, "an event is applied to watcher.values but on this path it never reaches the listeners (skipped before the listener loop): the registry's copy is not the subscribers' view — an exclusive subscriber that evicted the key must hear a repeated PUT"
			}
		}
		for i := range p.Events {
			e := &p.Events[i]
			switch {
			case lockF(e):
				w++
			case unlockF(e):
				w--
			case e.Kind == px.EvMapUpdate && px.IsFieldLoad(e.Addr, "values", nil):
				puts++
				if w <= 0 {
					return false, "watcher.values written without the write lock"
				}
				if !evKV(e.Key, "Key") || !evKV(e.Val, "Value") {
					return false, "values[...] is not set from the key and value of an element of the events parameter (the events are not taken one by one from the watch response itself)"
				}
			case e.Kind == px.EvCall && e.Call.Builtin == "delete" && px.IsFieldLoad(e.Call.Args[0], "values", nil):
				dels++
				if w <= 0 {
					return false, "watcher.values deleted from without the write lock"
				}
				if !evKV(e.Call.Args[1], "Key") {
					return false, "delete uses something other than the event's key"
				}
			case e.Kind == px.EvCall && e.Call.Method != nil && (e.Call.Method.Name() == "OnAdd" || e.Call.Method.Name() == "OnDelete"):
				if w > 0 {
					return false, "listeners are called while the cluster lock is held"
				}
				// the previous values mutation on this path must be of the matching kind
				var last *px.Event
				for j := i - 1; j >= 0; j-- {
					pe := &p.Events[j]
					if pe.Kind == px.EvMapUpdate && px.IsFieldLoad(pe.Addr, "values", nil) {
						last = pe
						break
					}
					if pe.Kind == px.EvCall && pe.Call.Builtin == "delete" {
						last = pe
						break
					}
				}
				if last == nil {
					return false, e.Call.Method.Name() + " dispatched without updating the watcher's value map first"
				}
				if (e.Call.Method.Name() == "OnAdd") != (last.Kind == px.EvMapUpdate) {
					return false, "a PUT is forwarded as OnDelete or a DELETE as OnAdd"
				}
			}
		}
		return true, ""
	})
	if held && (puts == 0 || dels == 0) {
		c.R.Undecided(rule, "event kinds", "both PUT and DELETE handling are recognised", fmt.Sprintf("puts=%d deletes=%d", puts, dels))
	}
	// the switch distinguishes exactly the two etcd event types by their constants
	var sawPut, sawDel bool
	for _, b := range f.Blocks {
		for _, ins := range b.Instrs {
			if bo, ok := ins.(*ssa.BinOp); ok && bo.Op == token.EQL {
				if cst, ok := bo.Y.(*ssa.Const); ok && cst.Value != nil {
					switch cst.Int64() {
					case 0:
						sawPut = true // mvccpb.PUT
					case 1:
						sawDel = true // mvccpb.DELETE
					}
				}
			}
		}
	}
	c.R.Check(sawPut && sawDel, rule, discovInt+".(*cluster).handleWatchEvents#switch", "the event switch has a case for PUT (0) and for DELETE (1)", posOf(c, f), "a case is missing", nil, 2)
	c.R.Min(rule, 2, "handleWatchEvents paths, switch coverage")
}

// c13diff: calculateChanges and handleChanges.
func c13diff(c *Ctx) {
	rule := "C13.R5"
	if f := c.fn(rule, discovInt, "calculateChanges"); f != nil {
		oldP, newP := f.Params[0], f.Params[1]
		ps := c.paths(rule, f, px.Config{MaxVisits: 2, MaxPaths: 100000})
		iters := 0
		held := c.forall(rule, discovInt+".calculateChanges", "per key of the new snapshot: added iff absent from or different in the old one; per key of the old snapshot: removed iff absent from or different in the new one; each with its own key and value", f, ps, func(p *px.Path) (bool, string) {
			// iteration = from a lookup to the next lookup / range-next of the other loop
			type it struct {
				other    *ssa.Parameter
				ok, val  *px.Sym
				okT      px.AbsK
				neq      int // 0 unknown, 1 differs, -1 equal
				appends  int
				seqStart int
			}
			var cur *it
			finish := func() (bool, string) {
				if cur == nil {
					return true, ""
				}
				iters++
				want := 0
				switch {
				case cur.okT == px.False:
					want = 1
				case cur.okT == px.True && cur.neq == 1:
					want = 1
				case cur.okT == px.True && cur.neq == -1:
					want = 0
				default:
					return false, "an entry is classified without testing presence and equality in the other snapshot"
				}
				if cur.appends != want {
					return false, fmt.Sprintf("entry with present=%v differs=%d is appended ×%d (want %d)", cur.okT == px.True, cur.neq, cur.appends, want)
				}
				return true, ""
			}
			complete := p.Exit == px.ExitReturn
			for i := range p.Events {
				e := &p.Events[i]
				switch e.Kind {
				case px.EvLookup:
					if ok, why := finish(); !ok {
						return false, why
					}
					cur = &it{ok: findExtract(p, e.Res, 1), val: findExtract(p, e.Res, 0)}
					switch {
					case isParam(e.Addr, oldP):
						cur.other = oldP
					case isParam(e.Addr, newP):
						cur.other = newP
					default:
						return false, "lookup in an unexpected map"
					}
				case px.EvBranch:
					if cur == nil {
						continue
					}
					cnd := e.Cond.Strip(true)
					if cur.ok != nil && cnd == cur.ok.Strip(true) {
						if e.Taken {
							cur.okT = px.True
						} else {
							cur.okT = px.False
						}
					}
					if cnd.Kind == px.KBinOp && cur.val != nil && (cnd.X.Strip(false) == cur.val || cnd.Y.Strip(false) == cur.val) {
						differs := (cnd.Op == token.NEQ) == e.Taken
						if cnd.Op != token.NEQ && cnd.Op != token.EQL {
							return false, "values compared with something other than ==/!="
						}
						if differs {
							cur.neq = 1
						} else {
							cur.neq = -1
						}
					}
				case px.EvCall:
					if cur != nil && e.Call.Builtin == "append" {
						cur.appends++
					}
				}
			}
			if complete {
				if ok, why := finish(); !ok {
					return false, why
				}
			}
			return true, ""
		})
		if held && iters < 6 {
			c.R.Undecided(rule, "diff iterations", "the two classification loops are recognised", fmt.Sprintf("%d iterations", iters))
		}
		// first loop ranges the new snapshot and looks up the old one and feeds `add` (result 0); second the converse
		c.forall(rule, discovInt+".calculateChanges#roles", "keys of the NEW snapshot are looked up in the OLD one and feed the additions; keys of the OLD one are looked up in the NEW one and feed the removals", f, ps, func(p *px.Path) (bool, string) {
			if p.Exit != px.ExitReturn {
				return true, ""
			}
			for ri, wantMap := range []*ssa.Parameter{oldP, newP} {
				r := p.Results[ri].Strip(false)
				if px.IsNilConst(r) {
					continue
				}
				// the append producing r must follow a lookup in wantMap without an intervening lookup in the other map
				var lastLookup *px.Event
				for i := range p.Events {
					e := &p.Events[i]
					if e.Kind == px.EvLookup {
						lastLookup = e
					}
					if e.Kind == px.EvCall && e.Call.Builtin == "append" && e.Res == r {
						if lastLookup == nil || !isParam(lastLookup.Addr, wantMap) {
							return false, fmt.Sprintf("result #%d is fed from the wrong loop", ri)
						}
					}
				}
			}
			return true, ""
		})
	}
	if f := c.fn(rule, discovInt, "(*cluster).handleChanges"); f != nil {
		ps := c.paths(rule, f, px.Config{MaxVisits: 2, MaxPaths: 200000})
		calc := calleeIs(discovInt + ".calculateChanges")
		isOn := func(name string) px.Pred {
			return func(e *px.Event) bool {
				return e.Kind == px.EvCall && e.Call.Method != nil && e.Call.Method.Name() == name
			}
		}
		c.forall(rule, discovInt+".(*cluster).handleChanges", "the diff is computed between the watcher's stored snapshot and the reloaded one and the reloaded one is stored, under the lock; additions/removals are dispatched outside the lock", f, ps, func(p *px.Path) (bool, string) {
			cs := p.All(calc)
			if len(cs) == 0 {
				return true, "" // unknown watcher
			}
			if len(cs) != 1 {
				return false, "diff computed more than once"
			}
			if !px.IsFieldLoad(cs[0].Call.Args[0], "values", nil) {
				return false, "the old side of the diff is not the watcher's stored snapshot"
			}
			newVals := cs[0].Call.Args[1].Strip(false)
			if newVals.Kind != px.KMakeMap {
				return false, "the new side of the diff is not the freshly built snapshot"
			}
			stored := false
			for _, e := range p.All(px.KindIs(px.EvStore)) {
				if px.FieldAddrIs(e.Addr, "values", nil) && e.Val.Strip(false) == newVals {
					stored = true
				}
			}
			if !stored {
				return false, "the reloaded snapshot does not replace the watcher's stored one (the next diff is computed against stale data)"
			}
			w := 0
			for i := range p.Events {
				e := &p.Events[i]
				switch {
				case lockOn("lock", "Lock")(e):
					w++
				case lockOn("lock", "Unlock")(e):
					w--
				case isOn("OnAdd")(e) || isOn("OnDelete")(e):
					if w > 0 {
						return false, "listeners called under the cluster lock"
					}
				}
			}
			return true, ""
		})
		c.forall(rule, discovInt+".(*cluster).handleChanges#order", "a changed key appears in both lists; its removal must not erase its new value: either each removal is skipped when the key is still present in the new snapshot, or all removals are dispatched before the additions", f, ps, func(p *px.Path) (bool, string) {
			cs := p.All(calc)
			if len(cs) != 1 {
				return true, ""
			}
			newVals := cs[0].Call.Args[1].Strip(false)
			adds, rems := p.All(isOn("OnAdd")), p.All(isOn("OnDelete"))
			if len(rems) == 0 {
				return true, ""
			}
			if len(adds) > 0 && rems[len(rems)-1].Seq < adds[0].Seq {
				return true, "" // removals first
			}
			// each removal guarded by "key not in newVals"
			for _, r := range rems {
				guarded := false
				for i := r.Seq - 1; i >= 0; i-- {
					e := &p.Events[i]
					if isOn("OnDelete")(e) || isOn("OnAdd")(e) {
						// same iteration may deliver to several listeners: keep scanning back only within this kv
						if e.Call.Args[0].Strip(false) != r.Call.Args[0].Strip(false) {
							break
						}
						continue
					}
					if e.Kind == px.EvLookup && e.Addr.Strip(false) == newVals {
						ok := findExtract(p, e.Res, 1)
						if ok != nil && p.Abs(ok).K == px.False {
							guarded = true
						}
						break
					}
				}
				if !guarded {
					return false, "a removal is dispatched after the additions without checking that the key is absent from the new snapshot: for a key whose value changed, the key-only OnDelete erases the value that OnAdd has just published"
				}
			}
			return true, ""
		})
	}
	// the in-tree listener removes by key only (this is why the order matters)
	if f := c.fn(rule, discovPkg, "(*container).OnDelete"); f != nil {
		c.R.Hold(rule, discovPkg+".(*container).OnDelete#keyonly", "(context) the subscriber's OnDelete removes by key only — see C13.R3", 1)
	}
	c.R.Min(rule, 5, "calculateChanges (2), handleChanges (2), context")
}

func c13resolver(c *Ctx) {
	rule := "C13.R6"
	pkg := "zrpc/resolver/internal"
	if v := constVal(c, pkg, "subsetSize"); v == nil || !numEq(v, constantInt(32)) {
		c.R.Fail(rule, pkg+".subsetSize", "the resolver publishes at most 32 addresses", "-", fmt.Sprintf("subsetSize = %v", v), nil)
	} else {
		c.R.Hold(rule, pkg+".subsetSize", "the resolver publishes at most 32 addresses (subsetSize == 32)", 1)
	}
	if f := c.fn(rule, pkg, "subset"); f != nil {
		ps := c.paths(rule, f, px.Config{})
		setP, subP := f.Params[0], f.Params[1]
		c.forall(rule, pkg+".subset", "a set of at most `sub` elements is returned whole", f, ps, func(p *px.Path) (bool, string) {
			if p.Exit != px.ExitReturn {
				return true, ""
			}
			for _, e := range p.All(px.KindIs(px.EvBranch)) {
				cnd := e.Cond.Strip(true)
				if cnd.Kind == px.KBinOp && isLenOf(cnd.X, func(x *px.Sym) bool { return isParamOrCell(x, setP) }) && isParam(cnd.Y, subP) {
					small := (cnd.Op == token.LEQ && e.Taken) || (cnd.Op == token.GTR && !e.Taken)
					if small && !isParamOrCell(p.Results[0], setP) {
						return false, "a small set is not returned unchanged"
					}
					return true, ""
				}
			}
			return false, "len(set) is not compared with sub"
		})
	}
	if f := c.fn(rule, pkg, "(*discovBuilder).Build"); f != nil {
		var upd *ssa.Function
		for _, a := range f.AnonFuncs {
			if callsInBody(a, func(cc *ssa.CallCommon) bool { return cc.IsInvoke() && cc.Method.Name() == "UpdateState" }) {
				upd = a
			}
		}
		if upd == nil {
			c.R.Undecided(rule, pkg+".(*discovBuilder).Build$update", "anchor resolves", "closure calling UpdateState not found")
		} else {
			ps := c.paths(rule, upd, px.Config{MaxVisits: 2})
			c.forall(rule, pkg+".(*discovBuilder).Build$update", "the published state has one address per element of subset(sub.Values(), subsetSize)", upd, ps, func(p *px.Path) (bool, string) {
				us := p.All(px.Iface("UpdateState", nil))
				if p.Exit == px.ExitReturn && len(us) != 1 {
					return false, fmt.Sprintf("UpdateState ×%d", len(us))
				}
				ss := p.All(calleeIs(pkg + ".subset"))
				vs := p.All(calleeIs(discovPkg + ".(*Subscriber).Values"))
				if len(ss) != 1 || len(vs) != 1 || ss[0].Call.Args[0].Strip(false) != vs[0].Res {
					return false, "addresses do not come from subset(sub.Values(), …)"
				}
				if a := p.Abs(ss[0].Call.Args[1]); a.K != px.ConstV || !numEq(a.C, constantInt(32)) {
					return false, "subset size is not subsetSize"
				}
				return true, ""
			})
			// registered as listener and called once at build
			bps := c.paths(rule, f, px.Config{MaxVisits: 2})
			c.forall(rule, pkg+".(*discovBuilder).Build", "the update function is registered as the subscriber's listener and run once at build time", f, bps, func(p *px.Path) (bool, string) {
				if p.Exit != px.ExitReturn || !px.IsNilConst(p.Results[1]) {
					return true, ""
				}
				al := p.All(calleeIs(discovPkg + ".(*Subscriber).AddListener"))
				if len(al) != 1 {
					return false, "AddListener not called once"
				}
				if a := al[0].Call.Args[1].Strip(false); a.Kind != px.KClosure || a.Fn != upd {
					return false, "the registered listener is not the update function"
				}
				direct := p.All(px.CallsFn(upd))
				if len(direct) != 1 {
					return false, "the update function is not run once at build time"
				}
				return true, ""
			})
		}
	}
	c.R.Min(rule, 4, "subsetSize, subset, update closure, Build")
}

// ---------------------------------------------------------------- additional rules (reload protocol, copies, filter loop)

// earlyExitLoops reports range/for loops of f whose exit block is reachable from
// inside the body (break / return do not count: only edges into the loop's own
// "done" block other than from its header).
func earlyExitLoops(f *ssa.Function) []string {
	var out []string
	for _, b := range f.Blocks {
		if !strings.HasSuffix(b.Comment, ".done") {
			continue
		}
		kind := strings.TrimSuffix(b.Comment, ".done")
		if !nameIn(kind, []string{"rangeindex", "rangeiter", "rangechan", "for", "rangeint"}) {
			continue
		}
		for _, p := range b.Preds {
			if p.Comment != kind+".loop" {
				out = append(out, fmt.Sprintf("%s loop left from block %q", kind, p.Comment))
			}
		}
	}
	return out
}

// errorfWrapViolations: fmt.Errorf calls in f that format an error operand with a verb other than %w.
func errorfWrapViolations(c *Ctx, f *ssa.Function) (bad []string, sites int) {
	errT := types.Universe.Lookup("error").Type().Underlying().(*types.Interface)
	for _, b := range f.Blocks {
		for _, ins := range b.Instrs {
			call, ok := ins.(*ssa.Call)
			if !ok || calleeName(call.Common()) != "fmt.Errorf" || len(call.Call.Args) != 2 {
				continue
			}
			fc, ok := call.Call.Args[0].(*ssa.Const)
			if !ok || fc.Value == nil {
				continue
			}
			format := constant.StringVal(fc.Value)
			// collect verbs
			var verbs []byte
			for i := 0; i < len(format); i++ {
				if format[i] != '%' {
					continue
				}
				j := i + 1
				for j < len(format) && strings.IndexByte("+-# 0123456789.[]*", format[j]) >= 0 {
					j++
				}
				if j < len(format) {
					if format[j] != '%' {
						verbs = append(verbs, format[j])
					}
					i = j
				}
			}
			// variadic args: a slice of an array alloc; stores into its elements
			sl, ok := call.Call.Args[1].(*ssa.Slice)
			if !ok {
				continue
			}
			al, ok := sl.X.(*ssa.Alloc)
			if !ok {
				continue
			}
			for _, ref := range *al.Referrers() {
				ia, ok := ref.(*ssa.IndexAddr)
				if !ok {
					continue
				}
				idx, ok := ia.Index.(*ssa.Const)
				if !ok {
					continue
				}
				k := int(idx.Int64())
				for _, r2 := range *ia.Referrers() {
					st, ok := r2.(*ssa.Store)
					if !ok {
						continue
					}
					v := st.Val
					switch mi := v.(type) {
					case *ssa.MakeInterface:
						v = mi.X
					case *ssa.ChangeInterface:
						v = mi.X
					}
					if types.Implements(v.Type(), errT) || (types.IsInterface(v.Type()) && types.Implements(v.Type(), errT)) {
						sites++
						if k >= len(verbs) || verbs[k] != 'w' {
							vb := byte('?')
							if k < len(verbs) {
								vb = verbs[k]
							}
							bad = append(bad, fmt.Sprintf("%s: error operand #%d formatted with %%%c instead of %%w in %q (errors.Is on the result no longer sees the cause)", c.P.Pos(call.Pos()), k, vb, format))
						}
					}
				}
			}
		}
	}
	return bad, sites
}

func c13reload(c *Ctx) {
	rule := "C13.R7"
	if f := c.fn(rule, discovInt, "(*cluster).watchStream"); f != nil {
		bad, sites := errorfWrapViolations(c, f)
		o := c.R.Check(len(bad) == 0 && sites >= 2, rule, discovInt+".(*cluster).watchStream#wrap", "the errors returned for a cancelled / failed watch stream wrap the etcd error with %w, so that watch() can recognise a compaction with errors.Is and reload", posOf(c, f), fmt.Sprintf("%v (error operands found: %d)", bad, sites), bad, sites)
		o.Sites = sites
	}
	if f := c.fn(rule, discovInt, "(*cluster).watch"); f != nil {
		ps := c.paths(rule, f, px.Config{MaxVisits: 2})
		ws := calleeIs(discovInt + ".(*cluster).watchStream")
		ld := calleeIs(discovInt + ".(*cluster).load")
		seen := 0
		held := c.forall(rule, discovInt+".(*cluster).watch", "when the stream error is a compaction (errors.Is(err, rpctypes.ErrCompacted)) and a revision was in use, the full snapshot is reloaded and watching resumes from the reloaded revision", f, ps, func(p *px.Path) (bool, string) {
			for _, e := range p.All(calleeIs("errors.Is")) {
				if p.Abs(e.Res).K != px.True {
					continue
				}
				seen++
				if r := e.Call.Args[0].Strip(false); r.Kind != px.KCall || !ws(&px.Event{Kind: px.EvCall, Call: r.Call}) {
					return false, "the tested error is not the stream's error"
				}
				if !px.IsGlobalLoad(e.Call.Args[1], "go.etcd.io/etcd/api/v3/v3rpc/rpctypes", "ErrCompacted") {
					return false, "the error is not compared with rpctypes.ErrCompacted"
				}
				// a load follows before the next watchStream
				var l *px.Event
				for i := e.Seq + 1; i < len(p.Events); i++ {
					x := &p.Events[i]
					if ld(x) {
						l = x
						break
					}
					if ws(x) {
						break
					}
				}
				if l == nil && p.Exit != px.ExitCut {
					return false, "a compacted stream is retried without reloading the snapshot"
				}
				if l != nil {
					// the next watchStream uses the reloaded revision
					for i := l.Seq + 1; i < len(p.Events); i++ {
						x := &p.Events[i]
						if ws(x) {
							if x.Call.Args[3].Strip(false) != l.Res {
								return false, "watching resumes from a revision other than the reloaded one"
							}
							break
						}
					}
				}
			}
			return true, ""
		})
		if held && seen == 0 {
			c.R.Undecided(rule, discovInt+".(*cluster).watch#reach", "the compaction branch is recognised", "no errors.Is(err, ErrCompacted) test found on any path")
		}
	}
	// dispatch works on a private copy of the listener slice taken under the lock
	for _, m := range []string{"handleWatchEvents", "handleChanges"} {
		f := c.fn(rule, discovInt, "(*cluster)."+m)
		if f == nil {
			continue
		}
		ps := c.paths(rule, f, px.Config{MaxVisits: 2, MaxPaths: 200000})
		n := 0
		c.forall(rule, discovInt+".(*cluster)."+m+"#copy", "listeners are called from a private copy of watcher.listeners made while the cluster lock is held (Unmonitor edits the shared slice in place)", f, ps, func(p *px.Path) (bool, string) {
			w := 0
			var copies []*px.Sym
			for i := range p.Events {
				e := &p.Events[i]
				switch {
				case lockOn("lock", "Lock", "RLock")(e):
					w++
				case lockOn("lock", "Unlock", "RUnlock")(e):
					w--
				case e.Kind == px.EvCall && e.Call.Builtin == "append" && len(e.Call.Args) == 2 && px.IsNilConst(e.Call.Args[0]) && px.IsFieldLoad(e.Call.Args[1], "listeners", nil):
					if w <= 0 {
						return false, "the listener slice is copied without holding the lock"
					}
					copies = append(copies, e.Res)
				case e.Kind == px.EvCall && e.Call.Method != nil && (e.Call.Method.Name() == "OnAdd" || e.Call.Method.Name() == "OnDelete"):
					n++
					ok := false
					for _, cp := range copies {
						if dependsOn(p, e.Call.Recv, cp) {
							ok = true
						}
					}
					if !ok {
						return false, "a listener is taken from the shared watcher.listeners slice instead of a private copy: an Unmonitor during delivery shifts the slice and a listener is skipped"
					}
				}
			}
			return true, ""
		})
		_ = n
	}
	// the container's filter loop has no early exit (a key may be listed more than once after a replayed PUT)
	if f := c.fn(rule, discovPkg, "(*container).doRemoveKey"); f != nil {
		ee := earlyExitLoops(f)
		loops := 0
		for _, b := range f.Blocks {
			if nameIn(b.Comment, []string{"rangeindex.done", "rangeiter.done", "for.done"}) {
				loops++
			}
		}
		c.R.Check(len(ee) == 0 && loops >= 1, rule, discovPkg+".(*container).doRemoveKey#all", "the key is filtered out of values[value] completely: the loop visits every element (a replayed PUT lists the key twice)", posOf(c, f), fmt.Sprintf("%v (loops: %d)", ee, loops), ee, loops)
	}
	// reconnect: every watch key is reloaded by its own task (no shared loop variable)
	nfun, bad := 0, []string{}
	for _, fn := range c.P.AllFuncs(discovInt) {
		if fn.Parent() != nil {
			continue
		}
		nfun++
		bad = append(bad, loopVarCaptures(c, fn)...)
	}
	c.R.Check(len(bad) == 0 && nfun > 20, rule, discovInt+"#loopvars", "no closure started from inside a loop captures the loop's variable by reference (on reconnect each watch key must be reloaded and re-watched by its own task, not all tasks by the last key)", "-", strings.Join(bad, "; "), bad, nfun)
	c.R.Min(rule, 6, "watchStream wrap, watch reload, 2 listener copies, filter loop, loop variables")
}

// ---------------------------------------------------------------- kube endpoints handler

func c13kube(c *Ctx) {
	rule := "C13.R8"
	pkg := "zrpc/resolver/internal/kube"
	inl := inlineNamed("notify")
	for _, m := range []string{"OnAdd", "OnDelete", "Update"} {
		lockGuardFn(c, rule, pkg+".(*EventHandler)."+m+"#lock", c.fn(rule, pkg, "(*EventHandler)."+m), "lock", []string{"endpoints"}, false, true, []string{"notify"}, false)
	}
	isUpdateCall := px.DynWhere(func(s *px.Sym) bool { return px.IsFieldLoad(s, "update", nil) })
	// the set-comparison helper is identified by its role (a package function taking two address sets and
	// returning bool, called by Update), not by its name
	var diffFn *ssa.Function
	if uf := c.P.Func(pkg, "(*EventHandler).Update"); uf != nil {
		for _, b := range uf.Blocks {
			for _, ins := range b.Instrs {
				if call, ok := ins.(*ssa.Call); ok {
					if cal := call.Call.StaticCallee(); cal != nil && cal.Signature.Recv() == nil && cal.Signature.Params().Len() == 2 && cal.Signature.Results().Len() == 1 && cal.Pkg == uf.Pkg {
						if _, isMap := cal.Signature.Params().At(0).Type().Underlying().(*types.Map); isMap {
							diffFn = cal
						}
					}
				}
			}
		}
	}
	if diffFn == nil {
		c.R.Undecided(rule, pkg+".diff", "anchor resolves", "the set-comparison helper called by Update was not found")
	}
	isDiffCall := px.CallsFn(diffFn)
	for _, m := range []struct {
		name string
		add  bool
	}{{"OnAdd", true}, {"OnDelete", false}} {
		f := c.fn(rule, pkg, "(*EventHandler)."+m.name)
		if f == nil {
			continue
		}
		ps := c.paths(rule, f, px.Config{MaxVisits: 2, MaxPaths: 100000, Inline: inl})
		c.forall(rule, pkg+".(*EventHandler)."+m.name, "each address is added only when absent / deleted only when present, keyed by its IP; the resolver is notified exactly once iff something changed; a foreign object has no effect", f, ps, func(p *px.Path) (bool, string) {
			if p.Exit == px.ExitCut {
				return true, ""
			}
			changes := 0
			for i := range p.Events {
				e := &p.Events[i]
				isChange := false
				var key *px.Sym
				if m.add && e.Kind == px.EvMapUpdate && px.IsFieldLoad(e.Addr, "endpoints", nil) {
					isChange, key = true, e.Key
				}
				if !m.add && e.Kind == px.EvCall && e.Call.Builtin == "delete" && px.IsFieldLoad(e.Call.Args[0], "endpoints", nil) {
					isChange, key = true, e.Call.Args[1]
				}
				if !isChange {
					continue
				}
				changes++
				if !fieldLoadDeep(key, "IP", nil) {
					return false, "an endpoint is keyed by something other than the address IP"
				}
				// guarded by a lookup of the same key with the right outcome
				ok := false
				for j := i - 1; j >= 0; j-- {
					lk := &p.Events[j]
					if lk.Kind == px.EvLookup && lk.Key.Strip(false) == key.Strip(false) {
						present := findExtract(p, lk.Res, 1)
						ok = present != nil && ((m.add && p.Abs(present).K == px.False) || (!m.add && p.Abs(present).K == px.True))
						break
					}
				}
				if !ok {
					return false, "the set is changed without having established absence (add) / presence (delete) of that address"
				}
			}
			ups := p.All(isUpdateCall)
			if p.Exit != px.ExitReturn {
				return true, ""
			}
			// an Endpoints object is always processed (no early return on other arguments such as isInInitialList)
			// only a foreign object is ignored: an early return on anything else (e.g. isInInitialList) drops addresses
			foreign := false
			for _, b := range p.All(px.KindIs(px.EvBranch)) {
				cn := b.Cond.Strip(false)
				if cn.Kind == px.KExtract && cn.Index == 1 && cn.X.Kind == px.KTypeAssert && p.Abs(cn).K == px.False {
					foreign = true
				}
			}
			if !foreign && !p.Has(lockOn("lock", "Lock")) {
				return false, "an Endpoints event is dropped without being applied (return before the set is examined, not because the object is foreign): addresses delivered only by this event are never published"
			}
			if changes > 0 && len(ups) != 1 {
				return false, fmt.Sprintf("the address set changed but the resolver is notified ×%d", len(ups))
			}
			if changes == 0 && len(ups) != 0 {
				return false, "the resolver is notified although nothing changed"
			}
			return true, ""
		})
	}
	if f := c.fn(rule, pkg, "(*EventHandler).Update"); f != nil {
		ps := c.paths(rule, f, px.Config{MaxVisits: 2, MaxPaths: 100000, Inline: inl, Keep: map[*ssa.Function]bool{diffFn: true}})
		epP := f.Params[1]
		c.forall(rule, pkg+".(*EventHandler).Update", "the address set is replaced by a fresh map holding exactly the addresses of the new object (filled after the replacement), and the resolver is notified iff diff(previous set, new set)", f, ps, func(p *px.Path) (bool, string) {
			if p.Exit == px.ExitCut {
				return true, ""
			}
			var repl *px.Event
			for _, e := range p.All(px.KindIs(px.EvStore)) {
				if px.FieldAddrIs(e.Addr, "endpoints", nil) {
					if repl != nil {
						return false, "the set is replaced twice"
					}
					repl = e
				}
			}
			if repl == nil || repl.Val.Strip(false).Kind != px.KMakeMap {
				return false, "the set is not replaced by a fresh map (addresses that disappeared would stay published)"
			}
			for _, u := range p.All(px.KindIs(px.EvMapUpdate)) {
				if u.Seq < repl.Seq {
					return false, "addresses are stored before the set is replaced (they are lost)"
				}
				if u.Addr.Strip(false) != repl.Val.Strip(false) {
					return false, "addresses are stored into a map other than the new set"
				}
				if !fieldLoadDeep(u.Key, "IP", nil) || !dependsOn(p, u.Key, p.ParamSym(epP)) {
					return false, "a stored key is not an address IP of the new object"
				}
			}
			d := p.All(isDiffCall)
			if p.Exit != px.ExitReturn {
				return true, ""
			}
			if len(d) != 1 {
				return false, "diff is not evaluated exactly once"
			}
			if d[0].Call.Args[1].Strip(false) != repl.Val.Strip(false) || !px.IsFieldLoad(d[0].Call.Args[0], "endpoints", nil) {
				return false, "diff does not compare the previous set with the new one"
			}
			ups := p.All(isUpdateCall)
			if (p.Abs(d[0].Res).K == px.True) != (len(ups) == 1) || len(ups) > 1 {
				return false, "the resolver is not notified exactly when the sets differ"
			}
			return true, ""
		})
		c.R.Check(len(earlyExitLoops(f)) == 0, rule, pkg+".(*EventHandler).Update#all", "every subset and every address is visited (no early exit)", posOf(c, f), fmt.Sprint(earlyExitLoops(f)), nil, 2)
	}
	if f := diffFn; f != nil {
		ps := c.paths(rule, f, px.Config{MaxVisits: 2})
		c.forall(rule, pkg+".diff", "(set-comparison helper, found by role) true when the sizes differ or some key of the old set is missing from the new one; false only after every old key was found", f, ps, func(p *px.Path) (bool, string) {
			if p.Exit != px.ExitReturn {
				return true, ""
			}
			got := p.Abs(p.Results[0]).K
			sizeDiffers := 0
			for _, b := range p.All(px.KindIs(px.EvBranch)) {
				cnd := b.Cond.Strip(true)
				if cnd.Kind == px.KBinOp && isLenOf(cnd.X, func(x *px.Sym) bool { return true }) && isLenOf(cnd.Y, func(x *px.Sym) bool { return true }) {
					sizeDiffers = triOf((cnd.Op == token.NEQ) == b.Taken)
				}
			}
			if sizeDiffers == 0 {
				return false, "sizes are not compared"
			}
			if sizeDiffers == 1 {
				if got != px.True {
					return false, "different sizes are reported as equal"
				}
				return true, ""
			}
			missing := false
			for _, lk := range p.All(px.KindIs(px.EvLookup)) {
				if !isParam(lk.Addr, f.Params[1]) {
					return false, "keys are looked up in the wrong set"
				}
				if okS := findExtract(p, lk.Res, 1); okS != nil && p.Abs(okS).K == px.False {
					missing = true
				}
			}
			if missing != (got == px.True) {
				return false, fmt.Sprintf("missing key=%v but result=%v", missing, got == px.True)
			}
			return true, ""
		})
	}
	if f := c.fn(rule, pkg, "(*EventHandler).notify"); f != nil {
		ps := c.paths(rule, f, px.Config{MaxVisits: 2})
		c.forall(rule, pkg+".(*EventHandler).notify", "update is called once with a slice built from the keys of the current set", f, ps, func(p *px.Path) (bool, string) {
			if p.Exit != px.ExitReturn {
				return true, ""
			}
			ups := p.All(isUpdateCall)
			if len(ups) != 1 {
				return false, "update not called exactly once"
			}
			return true, ""
		})
		ranged := false
		for _, b := range f.Blocks {
			for _, ins := range b.Instrs {
				if r, ok := ins.(*ssa.Range); ok && viaField(r.X, "endpoints") {
					ranged = true
				}
			}
		}
		c.R.Check(ranged && len(earlyExitLoops(f)) == 0, rule, pkg+".(*EventHandler).notify#all", "all keys of the set are published (range over h.endpoints without early exit)", posOf(c, f), fmt.Sprintf("ranged=%v exits=%v", ranged, earlyExitLoops(f)), nil, 1)
	}
	if f := c.fn(rule, pkg, "(*EventHandler).OnUpdate"); f != nil {
		ps := c.paths(rule, f, px.Config{})
		c.forall(rule, pkg+".(*EventHandler).OnUpdate", "an unchanged resource version has no effect; otherwise the set is rebuilt from the NEW object", f, ps, func(p *px.Path) (bool, string) {
			us := p.All(calleeIs(pkg + ".(*EventHandler).Update"))
			if len(us) > 1 {
				return false, "Update called more than once"
			}
			for _, u := range us {
				a := u.Call.Args[1].Strip(false)
				if a.Kind != px.KExtract || a.X.Kind != px.KTypeAssert || !isParam(a.X.X, f.Params[2]) {
					return false, "the set is rebuilt from something other than the new object"
				}
			}
			if len(us) == 0 && p.Exit == px.ExitReturn {
				// an update is dropped only for a foreign object or for an unchanged resource version —
				// versions are opaque strings: any ordering of them (seed r3-C13-2: `new <= old`, which is
				// lexicographic) drops real updates ("9" → "10") and the view keeps stale addresses
				why := ""
				for _, b := range p.All(px.KindIs(px.EvBranch)) {
					cnd := b.Cond.Strip(true)
					if cnd.Kind == px.KExtract && cnd.Index == 1 && cnd.X != nil && cnd.X.Kind == px.KTypeAssert && !b.Taken {
						why = "foreign"
					}
					if cnd.Kind == px.KBinOp && px.IsFieldLoad(cnd.X, "ResourceVersion", nil) && px.IsFieldLoad(cnd.Y, "ResourceVersion", nil) {
						if (cnd.Op == token.EQL && b.Taken) || (cnd.Op == token.NEQ && !b.Taken) {
							why = "same version"
						} else if cnd.Op != token.EQL && cnd.Op != token.NEQ {
							return false, fmt.Sprintf("resource versions are compared with %s: they are opaque strings, an ordered (lexicographic) comparison drops genuine updates such as \"9\" → \"10\"", cnd.Op)
						}
					}
				}
				if why == "" {
					return false, "an update of a well-typed pair of objects is dropped although their resource versions were not found equal"
				}
			}
			return true, ""
		})
	}
	c.R.Min(rule, 10, "3 lock guards, OnAdd, OnDelete, Update (2), diff, notify (2), OnUpdate")
}
