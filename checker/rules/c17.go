package rules

import (
	"fmt"
	"go/constant"
	"go/types"
	"sort"
	"strings"

	"golang.org/x/tools/go/ssa"

	"gzverify/px"
)

// C17 — configuration loading.
func init() { register("C17", "other", c17) }

const confPkg = "core/conf"
const encPkg = "internal/encoding"

func c17(c *Ctx) {
	c.R.RuleText = "single-decode-path rules (YAML/TOML = convert then the JSON entry point) on all paths, loader-table agreement, UseNumber-before-Decode ordering, numeric type-switch coverage of the converter, env-expansion gating, identity of the key normaliser, recursion coverage of the key-lowering walk"
	c.R.Explain = "Structural necessary conditions of C17: YAML and TOML documents are converted to JSON and then decoded by the very same JSON entry point with the caller's target and options (conf and mapping variants alike), conversion errors are returned; the extension table maps .json/.yaml/.yml/.toml to exactly these loaders; every JSON decoder of core/jsonx enables UseNumber before Decode (so numbers are not rounded through float64), and the YAML converter turns every Go numeric type into json.Number; environment expansion happens only under the env option; the function that lower-cases document keys is the same function handed to the unmarshaller as canonical-key function; the key-lowering walk recurses through maps and through every element of slices at every depth. NOT decided: equality of results across formats and agreement with encoding/json (relations over decoded values)."
	c.R.Assume = append(c.R.Assume, "yaml.v2 / go-toml decode into generic Go values", "encoding/json semantics")
	c17paths(c)
	c17numbers(c)
	c17env(c)
	c17keys(c)
	c17owned(c)
	c17lossless(c)
	c17perCall(c)
	c17mapStored(c)
	c17decoderModel(c)
	c17positional(c)
	c17fold(c)
	c17mapEntries(c)
	c17mapFieldInfo(c)
	// R15 (round 6): what a document spells is what is parsed — every kind is parsed from the supplied string itself (the C08.R4
	// kind tables, run here because a "tolerant" trim changes string elements that encoding/json keeps verbatim)
	c08widths(c, "core/mapping", "C17.R15")
	if n := c.freshPerIteration("C17.R5", "core/mapping"); n < 2 {
		c.R.Undecided("C17.R5", "core/mapping#fresh", "per-iteration stores of reflect.New targets are recognised", fmt.Sprintf("%d found", n))
	}
	c17configCenterVerbatim(c)
	c17yamlNotStrict(c, "C17.R17")
}

func c17paths(c *Ctx) {
	rule := "C17.R1"
	type conv struct{ pkg, fn, convert, json string }
	for _, cv := range []conv{
		{confPkg, "LoadFromYamlBytes", encPkg + ".YamlToJson", confPkg + ".LoadFromJsonBytes"},
		{confPkg, "LoadFromTomlBytes", encPkg + ".TomlToJson", confPkg + ".LoadFromJsonBytes"},
		{"core/mapping", "UnmarshalYamlBytes", encPkg + ".YamlToJson", "core/mapping.UnmarshalJsonBytes"},
		{"core/mapping", "UnmarshalTomlBytes", encPkg + ".TomlToJson", "core/mapping.UnmarshalJsonBytes"},
	} {
		f := c.fn(rule, cv.pkg, cv.fn)
		if f == nil {
			continue
		}
		ps := c.paths(rule, f, px.Config{})
		c.forall(rule, cv.pkg+"."+cv.fn, "the document is converted to JSON (error ⇒ returned) and then decoded by the JSON entry point exactly once with the caller's target (and options); its error is the result", f, ps, func(p *px.Path) (bool, string) {
			if p.Exit != px.ExitReturn {
				return true, ""
			}
			cs := p.All(calleeIs(cv.convert))
			js := p.All(calleeIs(cv.json))
			if len(cs) != 1 || !isParam(cs[0].Call.Args[0], f.Params[0]) {
				return false, "the content is not converted with " + cv.convert
			}
			es := findExtract(p, cs[0].Res, 1)
			if es != nil && p.Abs(es).K == px.NonNil {
				if len(js) != 0 || p.Results[0].Strip(false) != es {
					return false, "a conversion error is not returned"
				}
				return true, ""
			}
			if len(js) != 1 {
				return false, "the JSON entry point is not called exactly once"
			}
			if js[0].Call.Args[0].Strip(false) != findExtract(p, cs[0].Res, 0).Strip(false) || !isParam(js[0].Call.Args[1], f.Params[1]) {
				return false, "the JSON entry point does not get (converted bytes, caller's target)"
			}
			if len(f.Params) > 2 && (len(js[0].Call.Args) < 3 || !isParam(js[0].Call.Args[2], f.Params[2])) {
				return false, "the caller's options are not forwarded"
			}
			if p.Results[0].Strip(false) != js[0].Res {
				return false, "the JSON entry point's error is not returned"
			}
			return true, ""
		})
	}
	// loaders table
	if sp := c.P.SSAPkg(confPkg); sp != nil {
		got := map[string]string{}
		if init := sp.Func("init"); init != nil {
			for _, b := range init.Blocks {
				for _, ins := range b.Instrs {
					if mu, ok := ins.(*ssa.MapUpdate); ok {
						k, ok1 := mu.Key.(*ssa.Const)
						var fn *ssa.Function
						switch v := mu.Value.(type) {
						case *ssa.Function:
							fn = v
						case *ssa.MakeClosure:
							fn, _ = v.Fn.(*ssa.Function)
						case *ssa.ChangeType:
							fn, _ = v.X.(*ssa.Function)
						}
						if ok1 && k.Value != nil && k.Value.Kind() == constant.String && fn != nil {
							got[constant.StringVal(k.Value)] = fn.Name()
						}
					}
				}
			}
		}
		want := map[string]string{".json": "LoadFromJsonBytes", ".toml": "LoadFromTomlBytes", ".yaml": "LoadFromYamlBytes", ".yml": "LoadFromYamlBytes"}
		var bad []string
		for k, v := range want {
			if got[k] != v {
				bad = append(bad, fmt.Sprintf("%s → %q (want %s)", k, got[k], v))
			}
		}
		sort.Strings(bad)
		c.R.Check(len(bad) == 0, rule, confPkg+".loaders", "the extension table maps .json/.toml/.yaml/.yml to the JSON/TOML/YAML/YAML loaders", "-", strings.Join(bad, "; "), nil, 4)
	}
	if f := c.fn(rule, confPkg, "Load"); f != nil {
		ps := c.paths(rule, f, px.Config{MaxVisits: 2})
		c.forall(rule, confPkg+".Load", "the loader is chosen by the lower-cased file extension and given the file's content (environment-expanded only under the env option) and the caller's target; its error is returned", f, ps, func(p *px.Path) (bool, string) {
			if p.Exit != px.ExitReturn {
				return true, ""
			}
			ld := p.All(func(e *px.Event) bool { return e.Kind == px.EvCall && e.Call.IsDyn() && len(e.Call.Args) == 2 })
			// option functions are dyn calls with 1 arg; the loader has 2
			if len(ld) == 0 {
				if px.IsNilConst(p.Results[0]) {
					return false, "success without loading"
				}
				return true, ""
			}
			if len(ld) != 1 || !isParam(ld[0].Call.Args[1], f.Params[1]) {
				return false, "the loader is not called once with the caller's target"
			}
			lk := p.First(px.KindIs(px.EvLookup))
			if lk == nil || !px.IsGlobalLoad(lk.Addr, mod+confPkg, "loaders") {
				return false, "the loader does not come from the extension table"
			}
			k := lk.Key.Strip(false)
			if k.Kind != px.KCall || shortName(k.Call) != "strings.ToLower" {
				return false, "the extension is not lower-cased"
			}
			if es := ld[0].Res; p.Abs(es).K == px.NonNil && p.Results[0].Strip(false) != es {
				return false, "the loader's error is not returned"
			}
			return true, ""
		})
	}
	c.R.Min(rule, 6, "4 converters, loaders table, Load")
}

func c17numbers(c *Ctx) {
	rule := "C17.R2"
	n := 0
	for _, fn := range c.P.AllFuncs("core/jsonx") {
		has := callsInBody(fn, func(cc *ssa.CallCommon) bool { return calleeName(cc) == "encoding/json.NewDecoder" })
		dec := callsInBody(fn, func(cc *ssa.CallCommon) bool { return calleeName(cc) == "(*encoding/json.Decoder).Decode" })
		if !has && !dec {
			continue
		}
		n++
		ps := c.paths(rule, fn, px.Config{Inline: inlineNamed("unmarshalUseNumber")})
		c.forall(rule, "core/jsonx."+fn.Name(), "every JSON decoder has UseNumber() enabled before Decode (numbers keep their textual precision instead of passing through float64)", fn, ps, func(p *px.Path) (bool, string) {
			for _, d := range p.All(calleeIs("encoding/json.(*Decoder).Decode")) {
				ok := false
				for _, u := range p.All(calleeIs("encoding/json.(*Decoder).UseNumber")) {
					if u.Seq < d.Seq && u.Call.Args[0].Strip(false) == d.Call.Args[0].Strip(false) {
						ok = true
					}
				}
				if !ok {
					return false, "Decode without a preceding UseNumber on the same decoder: large integers lose precision and differ from the other formats"
				}
			}
			for _, nd := range p.All(calleeIs("encoding/json.NewDecoder")) {
				if p.Exit != px.ExitReturn {
					continue
				}
				used := false
				for _, e := range p.All(px.KindIs(px.EvCall)) {
					if e.Seq > nd.Seq && !e.Inlined {
						for _, a := range e.Call.Args {
							if a.Strip(false) == nd.Res {
								used = true
							}
						}
					}
				}
				if !used {
					return false, "a decoder is created but not used"
				}
			}
			return true, ""
		})
	}
	c.R.Extra["C17.R2_decoder_functions"] = n
	// YAML converter: numeric type switch coverage
	if f := c.fn(rule, encPkg, "toStringKeyMap"); f != nil {
		ps := c.paths(rule, f, px.Config{})
		covered := map[string]bool{}
		other := map[string]string{}
		for _, p := range ps {
			if p.Exit != px.ExitReturn {
				continue
			}
			// the asserted type of the last successful type-switch case
			var tname string
			for _, b := range p.All(px.KindIs(px.EvBranch)) {
				cnd := b.Cond.Strip(false)
				if b.Taken && cnd.Kind == px.KExtract && cnd.Index == 1 && cnd.X.Kind == px.KTypeAssert {
					if ta, ok := cnd.X.V.(*ssa.TypeAssert); ok {
						tname = types.TypeString(ta.AssertedType, nil)
					}
				}
			}
			if tname == "" {
				continue
			}
			isJSONNumber := func(s *px.Sym) bool {
				for s != nil && s.Kind == px.KMkIface {
					s = s.X
				}
				return s != nil && s.Typ != nil && types.TypeString(s.Typ, nil) == "encoding/json.Number"
			}
			switch {
			case isJSONNumber(p.Results[0]):
				// whether built by a helper or by an in-line conversion: the value handed on is a json.Number
				covered[tname] = true
			default:
				for _, e := range p.All(px.KindIs(px.EvCall)) {
					if !e.Inlined && e.Call.Obj() != nil {
						other[tname] = e.Call.Obj().Name()
					}
				}
			}
		}
		var missing []string
		for _, t := range []string{"int", "uint", "int8", "uint8", "int16", "uint16", "int32", "uint32", "int64", "uint64", "float32", "float64"} {
			if !covered[t] {
				missing = append(missing, t)
			}
		}
		c.R.Check(len(missing) == 0, rule, encPkg+".toStringKeyMap", "every Go numeric type a YAML decoder can produce is converted to json.Number (so the JSON decode sees the same number as for a JSON document)", posOf(c, f),
			fmt.Sprintf("numeric types %v are not converted to json.Number (they fall to the default branch and become strings: e.g. yaml.v2 yields uint64 above MaxInt64, which then fails with a type mismatch while the identical JSON loads)", missing), nil, 12)
		// slices and maps recurse
		rec := map[string]bool{}
		for _, p := range ps {
			if p.Has(calleeIs(encPkg + ".convertSlice")) {
				rec["slice"] = true
			}
			if p.Has(calleeIs(encPkg + ".convertKeyToString")) {
				rec["map"] = true
			}
		}
		c.R.Check(rec["slice"] && rec["map"], rule, encPkg+".toStringKeyMap#recursion", "slices and maps are converted recursively", posOf(c, f), fmt.Sprint(rec), nil, 2)
	}
	for _, h := range []string{"convertSlice", "convertKeyToString"} {
		f := c.fn(rule, encPkg, h)
		if f == nil {
			continue
		}
		recurses := callsInBody(f, func(cc *ssa.CallCommon) bool { return calleeName(cc) == mod+encPkg+".toStringKeyMap" })
		ee := earlyExitLoops(f)
		c.R.Check(recurses && len(ee) == 0, rule, encPkg+"."+h, "every element is converted through toStringKeyMap (no element skipped)", posOf(c, f), fmt.Sprintf("recurses=%v early exits=%v", recurses, ee), nil, 1)
	}
	c.R.Min(rule, 7, "≥3 jsonx decoders, toStringKeyMap (2), convertSlice, convertKeyToString")
}

func c17env(c *Ctx) {
	rule := "C17.R3"
	sites := 0
	for _, pk := range c.P.Pkgs {
		rel := strings.TrimPrefix(pk.PkgPath, mod)
		for _, fn := range c.P.AllFuncs(rel) {
			if !callsInBody(fn, func(cc *ssa.CallCommon) bool { return calleeName(cc) == "os.ExpandEnv" }) {
				continue
			}
			sites++
			root := fn
			for root.Parent() != nil {
				root = root.Parent()
			}
			if rel != confPkg {
				c.R.Fail(rule, rel+"."+fn.Name(), "os.ExpandEnv is used only by the configuration loaders", c.P.Pos(fn.Pos()), "environment expansion outside core/conf", nil)
				continue
			}
			ps := c.paths(rule, fn, px.Config{MaxVisits: 2})
			c.forall(rule, rel+"."+fn.Name()+"#env", "environment variables are expanded only on the branch where the env option is set (a '$' in a document loaded without the option is data)", fn, ps, func(p *px.Path) (bool, string) {
				for _, e := range p.All(calleeIs("os.ExpandEnv")) {
					ok := false
					for _, b := range p.All(px.KindIs(px.EvBranch)) {
						if b.Seq < e.Seq && b.Taken && fieldLoadDeep(b.Cond, "env", nil) {
							ok = true
						}
					}
					if !ok {
						return false, "ExpandEnv runs without the env option having been tested true"
					}
				}
				return true, ""
			})
		}
	}
	c.R.Extra["C17.R3_expandenv_functions"] = sites
	c.R.Min(rule, 2, "conf.Load, conf.LoadProperties")
}

func c17keys(c *Ctx) {
	rule := "C17.R4"
	if f := c.fn(rule, confPkg, "LoadFromJsonBytes"); f != nil {
		ps := c.paths(rule, f, px.Config{})
		c.forall(rule, confPkg+".LoadFromJsonBytes", "the decoded document's keys are normalised by toLowerCaseKeyMap and the unmarshaller is given the same toLowerCase as canonical-key function; decode and unmarshal errors are returned", f, ps, func(p *px.Path) (bool, string) {
			if p.Exit != px.ExitReturn {
				return true, ""
			}
			um := p.All(calleeIs("core/mapping.UnmarshalJsonMap"))
			if len(um) == 0 {
				if px.IsNilConst(p.Results[0]) {
					return false, "success without unmarshalling"
				}
				return true, ""
			}
			lk := p.First(calleeIs(confPkg + ".toLowerCaseKeyMap"))
			if lk == nil || um[0].Call.Args[0].Strip(false) != lk.Res {
				return false, "the unmarshalled map is not the key-normalised document"
			}
			ck := p.First(calleeIs("core/mapping.WithCanonicalKeyFunc"))
			if ck == nil {
				return false, "no canonical-key function is given to the unmarshaller"
			}
			if a := ck.Call.Args[0].Strip(false); a.Kind != px.KFunc || a.Fn.Name() != "toLowerCase" {
				return false, "the canonical-key function is not toLowerCase (the function that normalised the document keys)"
			}
			jd := p.First(calleeIs("core/jsonx.Unmarshal"))
			if jd == nil || !isParam(jd.Call.Args[0], f.Params[0]) {
				return false, "the content is not decoded with jsonx.Unmarshal (UseNumber)"
			}
			return true, ""
		})
	}
	if f := c.fn(rule, confPkg, "toLowerCaseKeyMap"); f != nil {
		usesSame := callsInBody(f, func(cc *ssa.CallCommon) bool { return calleeName(cc) == mod+confPkg+".toLowerCase" })
		rec := callsInBody(f, func(cc *ssa.CallCommon) bool { return calleeName(cc) == mod+confPkg+".toLowerCaseInterface" })
		c.R.Check(usesSame && rec && len(earlyExitLoops(f)) == 0, rule, confPkg+".toLowerCaseKeyMap", "keys are lower-cased with toLowerCase and every value is walked through toLowerCaseInterface (no entry skipped)", posOf(c, f), fmt.Sprintf("toLowerCase=%v recursion=%v early exits=%v", usesSame, rec, earlyExitLoops(f)), nil, 1)
	}
	if f := c.fn(rule, confPkg, "toLowerCaseInterface"); f != nil {
		ps := c.paths(rule, f, px.Config{MaxVisits: 2})
		self := px.CallsFn(f)
		km := calleeIs(confPkg + ".toLowerCaseKeyMap")
		sliceElems, maps := 0, 0
		held := c.forall(rule, confPkg+".toLowerCaseInterface", "a map is walked by toLowerCaseKeyMap; every element of a slice is walked by toLowerCaseInterface itself (so maps nested in slices of slices are reached); other values are returned unchanged", f, ps, func(p *px.Path) (bool, string) {
			var tname string
			for _, b := range p.All(px.KindIs(px.EvBranch)) {
				cnd := b.Cond.Strip(false)
				if b.Taken && cnd.Kind == px.KExtract && cnd.Index == 1 && cnd.X.Kind == px.KTypeAssert {
					if ta, ok := cnd.X.V.(*ssa.TypeAssert); ok {
						tname = types.TypeString(ta.AssertedType, nil)
					}
					break
				}
			}
			switch tname {
			case "map[string]any", "map[string]interface{}":
				maps++
				if p.Count(km) != 1 {
					return false, "a map is not walked by toLowerCaseKeyMap"
				}
			case "[]any", "[]interface{}":
				for _, e := range p.All(px.KindIs(px.EvCall)) {
					if e.Inlined {
						continue
					}
					if km(e) {
						return false, "slice elements are lower-cased directly as maps instead of recursively: objects two or more array levels deep keep their original key case and are rejected"
					}
					if self(e) {
						sliceElems++
					}
				}
			case "":
				if p.Exit == px.ExitReturn && !isParam(p.Results[0], f.Params[0]) {
					return false, "a scalar is not returned unchanged"
				}
			}
			return true, ""
		})
		if held && (sliceElems == 0 || maps == 0) {
			c.R.Undecided(rule, confPkg+".toLowerCaseInterface#reach", "the map case and the recursive slice case are recognised", fmt.Sprintf("maps=%d slice element recursions=%d", maps, sliceElems))
		}
	}
	c.R.Min(rule, 3, "LoadFromJsonBytes, toLowerCaseKeyMap, toLowerCaseInterface")
}

// c17owned: the JSON text produced from a YAML/TOML document is owned by the load that produced it
// (a buffer handed back to a pool while its bytes are still being decoded makes concurrent loads of
// different formats disagree).
func c17owned(c *Ctx) {
	rule := "C17.R6"
	var bad []string
	n := 0
	for _, pkg := range []string{encPkg, confPkg, "core/mapping", "core/jsonx"} {
		for _, fn := range c.P.AllFuncs(pkg) {
			n++
			bad = append(bad, pooledEscapes(c, fn)...)
		}
	}
	sort.Strings(bad)
	c.R.Check(len(bad) == 0 && n > 100, rule, "conversion/decoding functions#ownership", "no function of the loading pipeline returns bytes that alias a buffer it has handed back to a pool (each load decodes its own copy of the converted document)", "-", strings.Join(bad, "; "), bad, n)
}

// c17lossless (R7): numbers are rendered to text without loss. Every strconv.FormatFloat in the loading
// pipeline formats with the shortest round-tripping precision (-1) and with the bit size of the value it
// was given: 64 unless the operand was widened from a float32. (seed r3-C17-2: float64 formatted with 32)
func c17lossless(c *Ctx) {
	rule := "C17.R7"
	sites := 0
	var bad []string
	for _, pkg := range []string{encPkg, confPkg, "core/mapping", "core/jsonx", "core/lang"} {
		for _, f := range c.P.AllFuncs(pkg) {
			for _, b := range f.Blocks {
				for _, ins := range b.Instrs {
					call, ok := ins.(*ssa.Call)
					if !ok || calleeName(call.Common()) != "strconv.FormatFloat" || len(call.Call.Args) != 4 {
						continue
					}
					sites++
					from32 := false
					if cv, ok := call.Call.Args[0].(*ssa.Convert); ok {
						if bt, ok := cv.X.Type().Underlying().(*types.Basic); ok && bt.Kind() == types.Float32 {
							from32 = true
						}
					}
					prec, pok := call.Call.Args[2].(*ssa.Const)
					bits, bok := call.Call.Args[3].(*ssa.Const)
					if !pok || !bok || prec.Value == nil || bits.Value == nil {
						bad = append(bad, c.P.Pos(call.Pos())+": precision/bit size are not constants")
						continue
					}
					if prec.Int64() != -1 {
						bad = append(bad, fmt.Sprintf("%s: precision %d instead of -1 (shortest text that parses back to the same number)", c.P.Pos(call.Pos()), prec.Int64()))
					}
					want := int64(64)
					if from32 {
						want = 32
					}
					if bits.Int64() != want {
						bad = append(bad, fmt.Sprintf("%s: a %d-bit value is formatted with bit size %d: digits are lost (or invented), the number no longer equals the one in the document", c.P.Pos(call.Pos()), want, bits.Int64()))
					}
				}
			}
		}
	}
	c.R.Check(len(bad) == 0, rule, "number formatting in the loading pipeline", "every strconv.FormatFloat uses precision -1 and the bit size of its operand (64, or 32 for a widened float32): converting a document's number to text loses nothing", "-", fmt.Sprint(bad), nil, sites+1)
	c.R.Extra["C17.R7_formatfloat_sites"] = sites
}

// c17perCall (R8): the options of one Load call are per-call state (seed r3-C17-1: a package-level default
// struct customised in place made UseEnv() of one call stick for every later call).
func c17perCall(c *Ctx) {
	rule := "C17.R8"
	bad, sites := c.optionTargetsShared(confPkg, "core/mapping")
	c.R.Check(len(bad) == 0, rule, "option application in core/conf and core/mapping", "every option function customises a struct owned by the call (never a package-level variable): env expansion requested by one Load must not leak into later loads", "-", fmt.Sprint(bad), nil, sites)
	if sites < 2 {
		c.R.Undecided(rule, "option application sites", "the option idiom is recognised", fmt.Sprintf("%d sites", sites))
	}
}

// c17mapStored (R9): a map value that was accepted is stored — fillMap returns nil only after value.Set(result of
// generateMap). encoding/json decodes {} into an empty non-nil map; skipping the store for "nothing to fill" leaves nil.
func c17mapStored(c *Ctx) {
	rule := "C17.R9"
	f := c.fn(rule, "core/mapping", "(*Unmarshaler).fillMap")
	if f == nil {
		return
	}
	ps := c.paths(rule, f, px.Config{})
	c.forall(rule, "core/mapping.(*Unmarshaler).fillMap", "nil is returned only after the target was set to the map built by generateMap (an empty document map yields an empty map, as in encoding/json, not an untouched nil)", f, ps, func(p *px.Path) (bool, string) {
		if p.Exit != px.ExitReturn || len(p.Results) != 1 || p.Abs(p.Results[0]).K != px.Nil {
			return true, ""
		}
		gm := p.First(calleeIs("core/mapping.(*Unmarshaler).generateMap"))
		if gm == nil {
			return false, "success without building the map (generateMap not called): the target keeps its previous value (nil)"
		}
		for _, e := range p.All(calleeIs("reflect.(Value).Set")) {
			if e.Seq > gm.Seq && len(e.Call.Args) == 2 && e.Call.Args[1].Strip(false) == findExtract(p, gm.Res, 0) {
				return true, ""
			}
		}
		return false, "success without value.Set(generated map)"
	})
}
