package rules

import (
	"fmt"
	"go/ast"
	"go/constant"
	"go/token"
	"go/types"
	"os"
	"sort"
	"strings"

	"golang.org/x/tools/go/ssa"

	"gzverify/px"
)

// Round-4/5 additions to C20.

// c20errorsRecorded (R9): errors, not crashes — and not silence. Every error the scanner returns to the parser is
// appended to the parser's error list before the method gives up: `Parse()` returning nil with an empty error
// list makes format.Source dereference a nil AST (seed r4-C20-1 moved the comment loop of nextToken into a
// helper that returned false without recording the scanner's error).
func c20errorsRecorded(c *Ctx) {
	rule := "C20.R9"
	n := 0
	for _, f := range c.P.AllFuncs(goctlParser) {
		if f.Parent() != nil {
			continue
		}
		has := callsInBody(f, func(cc *ssa.CallCommon) bool {
			return strings.HasSuffix(calleeName(cc), "scanner.Scanner).NextToken")
		})
		if !has {
			continue
		}
		n++
		ps := c.paths(rule, f, px.Config{MaxVisits: 2, MaxPaths: 200000})
		next := func(e *px.Event) bool {
			return e.Kind == px.EvCall && !e.Inlined && e.Call.Obj() != nil && e.Call.Obj().Name() == "NextToken" && strings.HasSuffix(shortName(e.Call), "scanner.(*Scanner).NextToken")
		}
		c.forall(rule, goctlParser+"."+strings.TrimPrefix(funcDisplay(f), goctlParser+"."), "a scanner error is appended to the parser's error list on the path that gives up because of it", f, ps, func(p *px.Path) (bool, string) {
			if p.Exit != px.ExitReturn {
				return true, ""
			}
			for _, e := range p.All(next) {
				es := findExtract(p, e.Res, 1)
				if es == nil || p.Abs(es).K != px.NonNil {
					continue
				}
				recorded := false
				for _, st := range p.All(px.KindIs(px.EvStore)) {
					if st.Seq > e.Seq && px.FieldAddrIs(st.Addr, "errors", nil) && dependsOnOrElems(p, st.Val, es) {
						recorded = true
					}
				}
				// or handed to a method of the parser that records it / returned to a caller as an error value
				for _, r := range p.Results {
					if r.Strip(false) == es {
						recorded = true
					}
				}
				for _, cl := range p.All(px.KindIs(px.EvCall)) {
					if cl.Seq > e.Seq && !cl.Inlined && cl.Call.Static != nil && cl.Call.Static.Pkg == f.Pkg {
						for _, a := range cl.Call.Args {
							if a.Strip(false) == es {
								recorded = true
							}
						}
					}
				}
				if !recorded {
					return false, "the scanner reported an error and the method returns without appending it to p.errors (nor handing it on): Parse() yields nil with no error recorded, and format.Source dereferences the nil AST"
				}
			}
			return true, ""
		})
	}
	c.R.Min(rule, 1, "nextToken")
	_ = n
}

// dependsOnOrElems: dependsOn, also looking into the elements of an append.
func dependsOnOrElems(p *px.Path, s, target *px.Sym) bool {
	if dependsOn(p, s, target) {
		return true
	}
	s = s.Strip(false)
	if s != nil && s.Kind == px.KCall && s.Call != nil {
		for _, a := range s.Call.Args {
			for _, el := range p.SliceElems(a) {
				if dependsOn(p, el, target) {
					return true
				}
			}
		}
	}
	return false
}

// c20verbatim (R10): what the AST renders is what the caller gets. format.Source hands the caller's writer to
// AST.Format exactly once and writes nothing else to it; format.File writes the buffer Source filled. A
// post-processing pass over the rendered text (line-ending conversion, trimming) rewrites the inside of
// multi-line tokens as well — comments, raw strings — and is re-applied by the next pass (seed r4-C20-2).
func c20verbatim(c *Ctx) {
	rule := "C20.R10"
	f := c.fn(rule, goctlFormat, "Source")
	if f == nil {
		return
	}
	wP := paramOfType(f, "io.Writer")
	if wP == nil {
		c.R.Undecided(rule, goctlFormat+".Source", "the writer parameter resolves", "no io.Writer parameter")
		return
	}
	ps := c.paths(rule, f, px.Config{})
	c.forall(rule, goctlFormat+".Source", "on success the caller's writer is handed to AST.Format exactly once and receives nothing else (no rewriting pass between the rendering and the caller)", f, ps, func(p *px.Path) (bool, string) {
		if p.Exit != px.ExitReturn || len(p.Results) != 1 {
			return true, ""
		}
		nf, other := 0, ""
		for _, e := range p.All(px.KindIs(px.EvCall)) {
			if e.Inlined {
				continue
			}
			uses := false
			for _, a := range e.Call.Args {
				if isParam(a, wP) {
					uses = true
				}
			}
			if e.Call.Recv != nil && isParam(e.Call.Recv, wP) {
				uses = true
			}
			if !uses {
				continue
			}
			if e.Call.Obj() != nil && e.Call.Obj().Name() == "Format" && strings.HasSuffix(shortName(e.Call), "ast.(*AST).Format") {
				nf++
			} else {
				other = e.Call.Name()
			}
		}
		if p.Abs(p.Results[0]).K == px.Nil || px.IsNilConst(p.Results[0]) {
			if nf != 1 {
				return false, fmt.Sprintf("success after handing the caller's writer to AST.Format %d times", nf)
			}
		}
		if other != "" {
			return false, "the caller's writer is also written through " + other + ": the rendered text is post-processed outside the line-aware writer (a rewrite of line endings or blanks also rewrites the inside of comments and raw strings, and again on the next pass)"
		}
		return true, ""
	})
	// File: the bytes written back are the buffer Source filled
	if g := c.fn(rule, goctlFormat, "File"); g != nil {
		gps := c.paths(rule, g, px.Config{})
		c.forall(rule, goctlFormat+".File", "the file receives exactly the buffer that Source filled", g, gps, func(p *px.Path) (bool, string) {
			wr := p.First(calleeIs("os.WriteFile"))
			if wr == nil {
				return true, ""
			}
			src := p.First(calleeIs(goctlFormat + ".Source"))
			if src == nil || src.Seq > wr.Seq {
				return false, "the file is written without formatting"
			}
			d := wr.Call.Args[1].Strip(false)
			if d.Kind != px.KCall || d.Call == nil || d.Call.Obj() == nil || d.Call.Obj().Name() != "Bytes" || d.Call.Args[0].Strip(false) != src.Call.Args[1].Strip(false) {
				return false, "what is written back is not the Bytes() of the buffer handed to Source"
			}
			return true, ""
		})
	}
	c.R.Min(rule, 2, "Source, File")
}

// c20zero (R11): the predicate behind the "semantically empty construct" exemptions of R1 (an empty import, @doc "",
// empty info values are not printed) accepts exactly the two spellings of the empty string literal. Anything wider
// (blank-only strings, trimmed comparison) makes the formatter drop constructs that carry a value (seed r4-C20-3).
func c20zero(c *Ctx) {
	rule := "C20.R11"
	f := c.fn(rule, goctlAst, "(*TokenNode).IsZeroString")
	if f == nil {
		return
	}
	ps := c.paths(rule, f, px.Config{})
	allowed := map[string]bool{`""`: true, "``": true}
	c.forall(rule, goctlAst+".(*TokenNode).IsZeroString", "true only after the token's text was found equal to \"\\\"\\\"\" or \"``\" (the empty string literals), by exact comparison", f, ps, func(p *px.Path) (bool, string) {
		if p.Exit != px.ExitReturn || len(p.Results) != 1 {
			return true, ""
		}
		if k := p.Abs(p.Results[0]).K; k == px.False {
			return true, ""
		}
		// a true (or undetermined) result must be the verdict of an exact comparison with one of the two literals
		ok := false
		for _, e := range p.All(px.KindIs(px.EvCall)) {
			if e.Call.Obj() == nil || e.Call.Obj().Name() != "Equal" || len(e.Call.Args) < 2 {
				continue
			}
			a := p.Abs(e.Call.Args[len(e.Call.Args)-1])
			if a.K == px.ConstV && a.C.Kind() == constant.String && allowed[constant.StringVal(a.C)] {
				if p.Results[0].Strip(false) == e.Res.Strip(false) || p.Abs(e.Res).K == px.True {
					ok = true
				}
			}
		}
		for _, b := range p.All(px.KindIs(px.EvBranch)) {
			cnd := b.Cond.Strip(false)
			if cnd.Kind == px.KBinOp {
				for _, side := range []*px.Sym{cnd.X, cnd.Y} {
					if a := p.Abs(side); a.K == px.ConstV && a.C.Kind() == constant.String && allowed[constant.StringVal(a.C)] && b.Taken {
						ok = true
					}
				}
			}
		}
		if !ok {
			return false, "the node is called a zero string without its text having been compared with \"\" / `` exactly (a predicate that trims or ignores blanks also drops `import \" \"`, `@doc \"   \"` and groups whose values are blank)"
		}
		return true, ""
	})
}

// c20formats (R8): text is data, never a format. Every call of a Printf-family function in the ast and format
// packages has a constant format string: token text and comments contain '%' legitimately (`@doc "100% sure"`,
// `// 50%`), and fmt.Fprintf(w, text) turns "% s" into "%!s(MISSING)" — the formatted description differs from the
// source, and differs again after the next pass.
func c20formats(c *Ctx) {
	rule := "C20.R8"
	var bad []string
	sites := 0
	pkgs := []string{goctlAst, goctlFormat, goctlParser, goctlScan}
	// printf-like functions: fmt's, and wrappers that forward their own format parameter and variadic arguments
	fmtIdx := func(f *ssa.Function) int {
		if f == nil || f.Pkg == nil || f.Pkg.Pkg.Path() != "fmt" {
			return -1
		}
		switch f.Name() {
		case "Printf", "Sprintf", "Errorf":
			return 0
		case "Fprintf":
			return 1
		}
		return -1
	}
	wrappers := map[*ssa.Function]int{}
	idxOf := func(f *ssa.Function) int {
		if i := fmtIdx(f); i >= 0 {
			return i
		}
		if i, ok := wrappers[f]; ok {
			return i
		}
		return -1
	}
	for changed := true; changed; {
		changed = false
		for _, pkg := range pkgs {
			for _, f := range c.P.AllFuncs(pkg) {
				if _, done := wrappers[f]; done || f.Parent() != nil || !f.Signature.Variadic() {
					continue
				}
				for _, b := range f.Blocks {
					for _, ins := range b.Instrs {
						call, ok := ins.(ssa.CallInstruction)
						if !ok {
							continue
						}
						i := idxOf(call.Common().StaticCallee())
						if i < 0 || i >= len(call.Common().Args) {
							continue
						}
						for pi, p := range f.Params {
							if call.Common().Args[i] == ssa.Value(p) && call.Common().Args[len(call.Common().Args)-1] == ssa.Value(f.Params[len(f.Params)-1]) {
								if _, done := wrappers[f]; !done {
									wrappers[f] = pi
									changed = true
								}
							}
						}
					}
				}
			}
		}
	}
	// only what the formatter executes: functions reachable (static calls) from format.Source/File, the Format methods
	// of package ast and the methods of the line-aware Writer (the debug AST printer and `goctl api` analysis are not)
	reach := map[*ssa.Function]bool{}
	var work []*ssa.Function
	for _, pkg := range pkgs {
		for _, f := range c.P.AllFuncs(pkg) {
			root := f
			for root.Parent() != nil {
				root = root.Parent()
			}
			if (pkg == goctlFormat && (root.Name() == "Source" || root.Name() == "File")) || (pkg == goctlAst && (root.Name() == "Format" || recvName(root) == "Writer")) {
				work = append(work, f)
			}
		}
	}
	for len(work) > 0 {
		f := work[len(work)-1]
		work = work[:len(work)-1]
		if reach[f] {
			continue
		}
		reach[f] = true
		for _, a := range f.AnonFuncs {
			work = append(work, a)
		}
		for _, b := range f.Blocks {
			for _, ins := range b.Instrs {
				if call, ok := ins.(ssa.CallInstruction); ok {
					if sc := call.Common().StaticCallee(); sc != nil && sc.Blocks != nil {
						work = append(work, sc)
					}
				}
			}
		}
	}
	for _, pkg := range pkgs {
		for _, f := range c.P.AllFuncs(pkg) {
			if !reach[f] {
				continue
			}
			for _, b := range f.Blocks {
				for _, ins := range b.Instrs {
					call, ok := ins.(ssa.CallInstruction)
					if !ok {
						continue
					}
					sc := call.Common().StaticCallee()
					idx := idxOf(sc)
					if idx < 0 || idx >= len(call.Common().Args) {
						continue
					}
					sites++
					a := call.Common().Args[idx]
					if _, isConst := a.(*ssa.Const); isConst {
						continue
					}
					if wi, isW := wrappers[f]; isW && a == ssa.Value(f.Params[wi]) {
						continue // the wrapper forwards its own format parameter; its call sites are checked
					}
					bad = append(bad, fmt.Sprintf("%s: %s calls %s with a format string that is not a constant (source text used as a format: every '%%' in a doc string or comment is mangled)", c.P.Pos(ins.Pos()), funcDisplay(f), sc.Name()))
				}
			}
		}
	}
	sort.Strings(bad)
	c.R.Check(len(bad) == 0 && sites >= 1, rule, goctlAst+"#format-strings", "every Printf-family call of the formatter, parser and scanner (wrappers included) has a constant format string: source text is written as data", "-", strings.Join(bad, "; "), bad, sites)
}

// c20requiredChildren (R12, round 5): "the scanner and parser report errors for invalid sources rather than crashing" —
// and what they accept, the formatter can print. For every ast node type T, the pointer-typed child fields that
// T.Format (or End/Pos, which the writer calls) dereferences on a path where the field was not found non-nil are
// *required*. Every parse method of the parser that returns a non-nil *T has stored a non-nil value into each
// required field on that path. A parse method that hands back a half-built node (only its @doc) for malformed input
// makes Parse() succeed and Format dereference nil.
func c20requiredChildren(c *Ctx) {
	rule := "C20.R12"
	pk := c.P.Pkg(goctlAst)
	if pk == nil {
		return
	}
	// (1) required fields per node type
	required := map[string]map[string]bool{} // type name → field → true
	for _, f := range c.P.AllFuncs(goctlAst) {
		if f.Parent() != nil || f.Signature.Recv() == nil || (f.Name() != "Format" && f.Name() != "End" && f.Name() != "Pos") {
			continue
		}
		tname := namedStructOf(f.Signature.Recv().Type())
		if tname == "" || tname == "AST" || tname == "TokenNode" {
			continue
		}
		ps, _, err := px.Run(px.Config{Prog: c.P.SSA, MaxVisits: 2, MaxPaths: 20000}, f)
		if err != nil {
			continue
		}
		recvP := f.Params[0]
		for _, p := range ps {
			for i := range p.Events {
				e := &p.Events[i]
				if e.Kind != px.EvCall || e.Call == nil || e.Depth != 0 {
					continue
				}
				cands := append([]*px.Sym{e.Call.Recv}, e.Call.Args...)
				for _, r := range cands {
					if r == nil {
						continue
					}
					r = r.Strip(false)
					// a method called on the value of field F of the receiver
					if r.Kind != px.KLoad || r.X == nil || r.X.Kind != px.KFieldAddr || !isParam(r.X.X, recvP) {
						continue
					}
					if e.Call.Recv == nil || e.Call.Recv.Strip(false) != r {
						continue
					}
					fv := r.X.FieldVar()
					if fv == nil {
						continue
					}
					fpt, isPtr := fv.Type().Underlying().(*types.Pointer)
					if !isPtr {
						continue
					}
					// token nodes are taken from the parser's table of scanned tokens (registered when scanned): the rule is about
					// child *nodes*, which exist only if their own parse method succeeded
					if namedStructOf(fpt) == "TokenNode" {
						continue
					}
					if p.Abs(r).K == px.NonNil {
						continue
					}
					// interface-typed or value-receiver methods that tolerate nil? node methods here have pointer receivers that read fields
					if required[tname] == nil {
						required[tname] = map[string]bool{}
					}
					required[tname][fv.Name()] = true
				}
			}
		}
	}
	// (2) the parser's constructors
	n := 0
	for _, f := range c.P.AllFuncs(goctlParser) {
		if f.Parent() != nil || recvName(f) != "Parser" || !strings.HasPrefix(f.Name(), "parse") || f.Signature.Results().Len() != 1 {
			continue
		}
		pt, ok := f.Signature.Results().At(0).Type().(*types.Pointer)
		if !ok {
			continue
		}
		tname := namedStructOf(pt)
		req := required[tname]
		if len(req) == 0 {
			continue
		}
		n++
		ps := c.paths(rule, f, px.Config{MaxVisits: 2, MaxPaths: 200000})
		var reqNames []string
		for k := range req {
			reqNames = append(reqNames, k)
		}
		sort.Strings(reqNames)
		c.forall(rule, goctlParser+".(*Parser)."+f.Name(), fmt.Sprintf("a non-nil *%s is returned only with the children its Format/End/Pos dereference unconditionally (%s) set to non-nil values", tname, strings.Join(reqNames, ", ")), f, ps, func(p *px.Path) (bool, string) {
			if p.Exit != px.ExitReturn || len(p.Results) != 1 {
				return true, ""
			}
			r := p.Results[0].Strip(false)
			if r.Kind != px.KAlloc {
				return true, "" // nil, or a node built elsewhere (checked where it is built)
			}
			for _, fld := range reqNames {
				set := false
				for _, st := range p.All(px.KindIs(px.EvStore)) {
					if px.FieldAddrIs(st.Addr, fld, func(b *px.Sym) bool { return b == r }) {
						v := st.Val.Strip(false)
						set = p.Abs(v).K == px.NonNil || v.Kind == px.KAlloc ||
							(v.Kind == px.KCall && v.Call != nil && v.Call.Static != nil && returnsFreshAlloc(v.Call.Static))
					}
				}
				if !set {
					return false, fmt.Sprintf("a *%s is returned with %s still nil (or not known non-nil): %s.Format/End/Pos call a method on it without a nil test — the parser accepts the input and the formatter crashes", tname, fld, tname)
				}
			}
			return true, ""
		})
	}
	c.R.Extra["C20.R12_required"] = required
	if n < 2 {
		c.R.Undecided(rule, goctlParser+"#constructors", "the parse methods building nodes with required children are recognised", fmt.Sprintf("%d found", n))
	}
}

// returnsFreshAlloc: every return of f hands back the address of an object it allocated (never nil).
func returnsFreshAlloc(f *ssa.Function) bool {
	if f == nil || f.Blocks == nil {
		return false
	}
	n := 0
	for _, b := range f.Blocks {
		for _, ins := range b.Instrs {
			if r, ok := ins.(*ssa.Return); ok {
				if len(r.Results) != 1 {
					return false
				}
				if _, ok := r.Results[0].(*ssa.Alloc); !ok {
					return false
				}
				n++
			}
		}
	}
	return n > 0
}

// c20blockComment (R13, round 5): a block comment ends at the first "*/", not at a '*' … '/' with other runes in between.
// scanDocument is a small state machine over the current rune; on every path (loop unrolled up to 6 runes) that returns
// a DOCUMENT token, the rune examined in the iteration before the closing '/' was '*'. A machine that stays in its
// "saw '*'" state across other runes ends `/* a * b / c */` at the first later '/', and the rest of the comment is
// scanned as source (a valid file is rejected, or worse, accepted with different tokens).
func c20blockComment(c *Ctx) {
	rule := "C20.R13"
	f := c.fn(rule, goctlScan, "(*Scanner).scanDocument")
	if f == nil {
		return
	}
	ps := c.paths(rule, f, px.Config{MaxVisits: 6, MaxPaths: 400000, MaxSteps: 400000, Inline: inlineNamed("readRune")})
	// the current rune: the scanner's ch field, or — once readRune is analysed in place — whatever rune it stored there
	isCh := func(s *px.Sym) bool {
		if px.IsFieldLoad(s, "ch", nil) {
			return true
		}
		s = s.Strip(false)
		if s == nil || s.Typ == nil {
			return false
		}
		b, ok := s.Typ.Underlying().(*types.Basic)
		return ok && b.Kind() == types.Int32
	}
	closed := 0
	if os.Getenv("GZV_DEBUG_R13") != "" {
		ex := map[string]int{}
		for _, p := range ps {
			ex[p.Exit.String()]++
		}
		fmt.Println("R13 paths", len(ps), ex)
		for i, p := range ps {
			if i < 3 || p.Exit == px.ExitReturn {
				for _, l := range p.Trace(c.P.Pos, 40) {
					fmt.Println("   ", l)
				}
				fmt.Println("---")
			}
		}
	}
	held := c.forall(rule, goctlScan+".(*Scanner).scanDocument", "a DOCUMENT token is returned only when the rune before the closing '/' was '*' (the \"saw '*'\" state does not survive other runes)", f, ps, func(p *px.Path) (bool, string) {
		if p.Exit != px.ExitReturn || len(p.Results) != 2 || !(px.IsNilConst(p.Results[1]) || p.Abs(p.Results[1]).K == px.Nil) {
			return true, ""
		}
		// split the path into iterations at the readRune calls; classify the rune of each iteration by the comparisons made on s.ch
		type iter struct{ star, slash, other bool }
		var its []iter
		cur := iter{}
		seen := false
		flush := func() {
			if seen {
				if !cur.star && !cur.slash {
					cur.other = true
				}
				its = append(its, cur)
			}
			cur, seen = iter{}, false
		}
		for i := range p.Events {
			e := &p.Events[i]
			switch {
			case e.Kind == px.EvBranch:
				cnd := e.Cond.Strip(true)
				if cnd.Kind == px.KBinOp && cnd.Op == token.EQL && isCh(cnd.X) {
					if k, ok := constInt(p, cnd.Y); ok {
						seen = true
						if e.Taken && k == '*' {
							cur.star = true
						}
						if e.Taken && k == '/' {
							cur.slash = true
						}
						if e.Taken && k != '*' && k != '/' {
							cur.other = true
						}
					}
				}
			case e.Kind == px.EvCall && e.Call.Static != nil && e.Call.Static.Name() == "readRune":
				flush()
			}
		}
		flush()
		// the closing iteration is the last one that saw '/'
		last := -1
		for i, it := range its {
			if it.slash {
				last = i
			}
		}
		if last < 1 {
			return true, ""
		}
		closed++
		if !its[last-1].star {
			return false, "the comment is closed by a '/' although the rune before it was not '*' (e.g. `/* a * b / c */` ends at `b /`): the \"saw '*'\" state is kept across other runes"
		}
		return true, ""
	})
	if held && closed == 0 {
		c.R.Undecided(rule, goctlScan+".(*Scanner).scanDocument#closing", "paths that close a block comment are recognised", "no path returns a DOCUMENT token after two or more runes")
	}
}

// c20positions (R14, round 6): where a construct stood in the source decides layout in one confirmed place only.
// Idempotence needs every layout decision to be a function of something the formatter preserves. The line/column of a
// token is not preserved in general: the formatter itself changes how many lines a construct takes (`type E {` newline
// `}` is printed as `type E {}`; a struct written on one line is printed over several). The one comparison the tree
// makes — (*Writer).write: "this node starts on a later line than the previous node of the same list ended" — is
// stable because the writer reproduces exactly that relation. Any other function of the ast/format packages that
// branches on a Position's Line or Column (e.g. Pos().Line == End().Line, "is this declaration one line long?") makes
// the output of the second pass depend on the layout the first pass produced.
func c20positions(c *Ctx) {
	rule := "C20.R14"
	confirmed := map[string]bool{"(*Writer).write": true}
	var bad []string
	reads, inConfirmed := 0, 0
	for _, pkg := range []string{goctlAst, goctlFormat} {
		for _, f := range c.P.AllFuncs(pkg) {
			for _, b := range f.Blocks {
				for _, ins := range b.Instrs {
					var v ssa.Value
					var st types.Type
					var idx int
					switch x := ins.(type) {
					case *ssa.Field:
						v, st, idx = x, x.X.Type(), x.Field
					case *ssa.FieldAddr:
						v, idx = x, x.Field
						if pt, ok := x.X.Type().Underlying().(*types.Pointer); ok {
							st = pt.Elem()
						}
					default:
						continue
					}
					if st == nil || !strings.HasSuffix(typeString(st), "parser/api/token.Position") {
						continue
					}
					s, ok := st.Underlying().(*types.Struct)
					if !ok {
						continue
					}
					fname := s.Field(idx).Name()
					if fname != "Line" && fname != "Column" {
						continue
					}
					// does it decide a branch? (follow loads, phis, conversions and local stores to a comparison)
					decides := false
					seen := map[ssa.Value]bool{}
					var follow func(x ssa.Value)
					follow = func(x ssa.Value) {
						if x == nil || seen[x] || x.Referrers() == nil {
							return
						}
						seen[x] = true
						for _, r := range *x.Referrers() {
							switch y := r.(type) {
							case *ssa.BinOp:
								switch y.Op {
								case token.EQL, token.NEQ, token.LSS, token.LEQ, token.GTR, token.GEQ:
									decides = true
								default:
									follow(y)
								}
							case *ssa.UnOp:
								follow(y)
							case *ssa.Phi:
								follow(y)
							case *ssa.Convert:
								follow(y)
							case *ssa.ChangeType:
								follow(y)
							case *ssa.Store:
								if al, ok := y.Addr.(*ssa.Alloc); ok && y.Val == x {
									follow(al)
								}
							}
						}
					}
					follow(v)
					if !decides {
						continue
					}
					reads++
					root := f
					for root.Parent() != nil {
						root = root.Parent()
					}
					if confirmed[root.RelString(root.Pkg.Pkg)] && pkg == goctlAst {
						inConfirmed++
						continue
					}
					bad = append(bad, fmt.Sprintf("%s: %s branches on a source %s: the formatter does not preserve how many lines a construct takes, so the second pass can decide differently from the first", c.P.Pos(ins.Pos()), funcDisplay(f), strings.ToLower(fname)))
				}
			}
		}
	}
	sort.Strings(bad)
	c.R.Check(len(bad) == 0 && inConfirmed >= 2, rule, goctlAst+"#position-dependent-layout", "source line/column numbers decide layout only in (*Writer).write's consecutive-node comparison (confirmed stable); no other function of the ast/format packages branches on them", "-", fmt.Sprintf("%d deciding reads, %d in the confirmed site; %s", reads, inConfirmed, strings.Join(bad, "; ")), bad, reads)
}

// c20scannerErrors (R15, round 6): the parser builds its scanner through MustNewScanner, which turns every error of
// NewScanner into log.Fatalln (known finding F6 records the one class that exists: an empty source). This rule freezes
// the classes: NewScanner returns a non-nil error only (a) as readData's own error or (b) under `len(data) == 0`;
// readData fails only (a) as os.ReadFile's error or (b) after every supported source type ([]byte, *bytes.Buffer,
// string) was tried. A further rejected class (an encoding check, a size limit …) terminates every process that
// formats or parses such a source instead of giving it an error.
func c20scannerErrors(c *Ctx) {
	rule := "C20.R15"
	ns := c.fn(rule, goctlScan, "NewScanner")
	rd := c.fn(rule, goctlScan, "readData")
	if ns == nil || rd == nil {
		return
	}
	// every value a function can return as its error, with the block that produced it
	type src struct {
		v ssa.Value
		b *ssa.BasicBlock
	}
	errSources := func(f *ssa.Function) []src {
		var out []src
		seen := map[ssa.Value]bool{}
		var walk func(v ssa.Value, b *ssa.BasicBlock)
		walk = func(v ssa.Value, b *ssa.BasicBlock) {
			if seen[v] {
				return
			}
			seen[v] = true
			switch x := v.(type) {
			case *ssa.Phi:
				for i, e := range x.Edges {
					walk(e, x.Block().Preds[i])
				}
			case *ssa.Const:
				if !x.IsNil() {
					out = append(out, src{v, b})
				}
			case *ssa.MakeInterface:
				out = append(out, src{v, x.Block()})
			case *ssa.Call:
				out = append(out, src{v, x.Block()})
			case *ssa.Extract:
				out = append(out, src{v, x.Block()})
			case *ssa.UnOp:
				if al, ok := x.X.(*ssa.Alloc); ok {
					for _, r := range *al.Referrers() {
						if st, ok := r.(*ssa.Store); ok && st.Addr == al {
							walk(st.Val, st.Block())
						}
					}
					return
				}
				out = append(out, src{v, x.Block()})
			default:
				out = append(out, src{v, b})
			}
		}
		for _, b := range f.Blocks {
			for _, ins := range b.Instrs {
				if r, ok := ins.(*ssa.Return); ok && len(r.Results) > 0 {
					walk(r.Results[len(r.Results)-1], b)
				}
			}
		}
		return out
	}
	extractOf := func(v ssa.Value, callee string) bool {
		ex, ok := v.(*ssa.Extract)
		if !ok {
			return false
		}
		call, ok := ex.Tuple.(*ssa.Call)
		return ok && calleeName(call.Common()) == callee
	}
	// NewScanner
	var bad []string
	classes := 0
	var data ssa.Value
	for _, b := range ns.Blocks {
		for _, ins := range b.Instrs {
			if ex, ok := ins.(*ssa.Extract); ok && ex.Index == 0 && extractOf(ex, mod+goctlScan+".readData") {
				data = ex
			}
		}
	}
	for _, s := range errSources(ns) {
		if extractOf(s.v, mod+goctlScan+".readData") {
			classes++
			continue
		}
		// under len(data) == 0
		ok := false
		for d := s.b; d != nil && !ok; d = d.Idom() {
			id := d.Idom()
			if id == nil || len(id.Instrs) == 0 {
				continue
			}
			br, isIf := id.Instrs[len(id.Instrs)-1].(*ssa.If)
			if !isIf || !(id.Succs[0] == d || id.Succs[0].Dominates(s.b)) || len(id.Succs[0].Preds) != 1 {
				continue
			}
			for _, cj := range conjuncts(br.Cond) {
				cmp, isCmp := cj.(*ssa.BinOp)
				if !isCmp || cmp.Op != token.EQL {
					continue
				}
				if k, isK := cmp.Y.(*ssa.Const); isK && k.Value != nil && k.Int64() == 0 {
					if l, isL := cmp.X.(*ssa.Call); isL {
						if bi, isB := l.Call.Value.(*ssa.Builtin); isB && bi.Name() == "len" && data != nil && l.Call.Args[0] == data {
							ok = true
						}
					}
				}
			}
		}
		if ok {
			classes++
			continue
		}
		bad = append(bad, fmt.Sprintf("%s: NewScanner fails for a further class of sources (%s): parser.New obtains its scanner through MustNewScanner, so format.Source / Parser.Parse end the process (log.Fatalln) for such a source instead of reporting an error", c.P.Pos(s.v.Pos()), strings.SplitN(s.v.String(), "\n", 2)[0]))
	}
	sort.Strings(bad)
	c.R.Check(len(bad) == 0 && classes == 2, rule, goctlScan+".NewScanner#error-classes", "NewScanner returns an error only as readData's error or for an empty source (the class recorded as F6)", posOf(c, ns), fmt.Sprintf("%d confirmed classes; %s", classes, strings.Join(bad, "; ")), bad, classes)
	// readData
	var rbad []string
	rclasses := 0
	for _, s := range errSources(rd) {
		if extractOf(s.v, "os.ReadFile") {
			rclasses++
			continue
		}
		// after every supported type was tried: the block is dominated by the failing outcome of three type tests on src
		failed := map[string]bool{}
		for d := s.b; d != nil; d = d.Idom() {
			id := d.Idom()
			if id == nil || len(id.Instrs) == 0 {
				continue
			}
			br, isIf := id.Instrs[len(id.Instrs)-1].(*ssa.If)
			if !isIf || !(id.Succs[1] == d || id.Succs[1].Dominates(s.b)) {
				continue
			}
			if ex, isEx := br.Cond.(*ssa.Extract); isEx && ex.Index == 1 {
				if ta, isTA := ex.Tuple.(*ssa.TypeAssert); isTA && ta.CommaOk {
					if _, isP := ta.X.(*ssa.Parameter); isP {
						failed[typeString(ta.AssertedType)] = true
					}
				}
			}
		}
		if failed["[]byte"] && failed["string"] && failed["*bytes.Buffer"] {
			rclasses++
			continue
		}
		rbad = append(rbad, fmt.Sprintf("%s: readData fails for a further class of sources (%s)", c.P.Pos(s.v.Pos()), strings.SplitN(s.v.String(), "\n", 2)[0]))
	}
	sort.Strings(rbad)
	c.R.Check(len(rbad) == 0 && rclasses == 2, rule, goctlScan+".readData#error-classes", "readData returns an error only as os.ReadFile's error or for a source that is none of []byte, *bytes.Buffer, string (format.Source passes []byte)", posOf(c, rd), fmt.Sprintf("%d confirmed classes; %s", rclasses, strings.Join(rbad, "; ")), rbad, rclasses)
}

// c20commentReject (R16, round 6): "got a comment where T… was expected" is only ever said where nothing but T… is
// accepted. For every call notExpectPeekTokenGotComment(c, E…) in the parser: on the paths where it does not reject,
// every acceptance test on the same (not yet consumed) peek token — peekTokenIs(S…) found true, before the next call
// that advances — accepts only members of E. A comment check placed in front of a test that would have accepted
// another token rejects valid sources (a route path ending in '/' followed by a comment: `get / // root`), because the
// comment is judged against an expectation the grammar does not have at that point.
func c20commentReject(c *Ctx) {
	rule := "C20.R16"
	sites := 0
	for _, f := range c.P.AllFuncs(goctlParser) {
		has := false
		for _, b := range f.Blocks {
			for _, ins := range b.Instrs {
				if call, ok := ins.(*ssa.Call); ok && strings.HasSuffix(calleeName(call.Common()), ".notExpectPeekTokenGotComment") {
					has = true
					sites++
				}
			}
		}
		if !has {
			continue
		}
		name := func(e *px.Event) string {
			if e.Kind != px.EvCall || e.Call == nil || e.Call.Static == nil {
				return ""
			}
			return e.Call.Static.Name()
		}
		set := func(p *px.Path, s *px.Sym) (map[string]bool, bool) {
			out := map[string]bool{}
			els := p.SliceElems(s)
			if els == nil {
				return nil, false
			}
			for _, el := range els {
				a := p.Abs(el.Strip(true))
				if a.K != px.ConstV {
					return nil, false
				}
				out[a.C.ExactString()] = true
			}
			return out, true
		}
		ps := c.paths(rule, f, px.Config{MaxVisits: 2, MaxPaths: 4000})
		c.forall(rule, funcDisplay(f)+"#comment-expectation", "after a comment check with expectation E passed, the peek token is accepted (peekTokenIs true) only as a member of E until the parser advances", f, ps, func(p *px.Path) (bool, string) {
			var exp map[string]bool
			for i := range p.Events {
				e := &p.Events[i]
				switch n := name(e); n {
				case "notExpectPeekTokenGotComment":
					if p.Abs(e.Res).K == px.True {
						return true, "" // rejected: the path ends
					}
					s, ok := set(p, e.Call.Args[len(e.Call.Args)-1])
					if !ok {
						return false, "the expectation of the comment check at " + c.P.Pos(e.Pos) + " is not a list of constants"
					}
					exp = s
				case "nextToken", "advanceIfPeekTokenIs", "parsePathItem":
					exp = nil
				case "peekTokenIs":
					if exp == nil || p.Abs(e.Res).K != px.True {
						continue
					}
					s, ok := set(p, e.Call.Args[len(e.Call.Args)-1])
					if !ok {
						return false, "the accepted set at " + c.P.Pos(e.Pos) + " is not a list of constants"
					}
					for k := range s {
						if !exp[k] {
							return false, fmt.Sprintf("the peek token is accepted at %s as a token the preceding comment check did not expect: a comment in front of it is rejected although the construct is complete (e.g. a path ending in '/' followed by a comment)", c.P.Pos(e.Pos))
						}
					}
				default:
					if n != "" && strings.HasPrefix(n, "parse") {
						exp = nil
					}
				}
			}
			return true, ""
		})
	}
	c.R.Min(rule, 1, "parsePathExpr")
	if sites < 1 {
		c.R.Undecided(rule, goctlParser+"#comment-checks", "the comment checks of the parser are recognised", fmt.Sprintf("%d found", sites))
	}
}

// c20writtenListDecides (R17, round 7): layout by position is decided among the statements that are written.
// (*AST).Format skips every statement that formats to nothing (`import ""`, `type ()`, an info block of empty
// values …), so after one pass the raw statement list is a different list: a decision taken from a raw neighbour
// (a.Stmts[idx+1]), from the raw length or from the raw index ("is this the last statement?") is taken differently
// by the second pass, and formatting is not idempotent. In Format — and the literals it contains — the field Stmts
// is only ranged over without using the key: no index expression on it, no len() of it inside a comparison, no use
// of the key of a range over it. (Positions in a local list that holds exactly the written statements are fine.)
func c20writtenListDecides(c *Ctx) {
	rule := "C20.R17"
	pk := c.P.Pkg(goctlAst)
	f := c.fn(rule, goctlAst, "(*AST).Format")
	if pk == nil || f == nil {
		return
	}
	fd := c.P.FuncDecl(f)
	if fd == nil || fd.Body == nil {
		c.R.Undecided(rule, goctlAst+".(*AST).Format", "the declaration is found", "no syntax")
		return
	}
	info := pk.TypesInfo
	isStmts := func(e ast.Expr) bool {
		e = ast.Unparen(e)
		sel, ok := e.(*ast.SelectorExpr)
		if !ok {
			return false
		}
		if s := info.Selections[sel]; s != nil && s.Kind() == types.FieldVal {
			if v, ok := s.Obj().(*types.Var); ok && v.Name() == "Stmts" && strings.HasSuffix(typeString(s.Recv()), "ast.AST") {
				return true
			}
		}
		return false
	}
	var bad []string
	ranges := 0
	var inCmp func(n ast.Node, cmp bool)
	inCmp = func(n ast.Node, cmp bool) {
		ast.Inspect(n, func(x ast.Node) bool {
			switch y := x.(type) {
			case *ast.BinaryExpr:
				switch y.Op {
				case token.EQL, token.NEQ, token.LSS, token.LEQ, token.GTR, token.GEQ:
					inCmp(y.X, true)
					inCmp(y.Y, true)
					return false
				}
			case *ast.IndexExpr:
				if isStmts(y.X) {
					bad = append(bad, c.P.Pos(y.Pos())+": a raw neighbour a.Stmts[…] is consulted (it may be a statement that is not written)")
				}
			case *ast.CallExpr:
				if id, ok := ast.Unparen(y.Fun).(*ast.Ident); ok && id.Name == "len" && len(y.Args) == 1 && isStmts(y.Args[0]) && cmp {
					if _, isBuiltin := info.Uses[id].(*types.Builtin); isBuiltin {
						bad = append(bad, c.P.Pos(y.Pos())+": the raw length len(a.Stmts) is compared (it counts statements that are not written)")
					}
				}
			case *ast.RangeStmt:
				if isStmts(y.X) {
					ranges++
					if k, ok := y.Key.(*ast.Ident); ok && k.Name != "_" {
						ko := info.Defs[k]
						used := false
						ast.Inspect(y.Body, func(z ast.Node) bool {
							if id, ok := z.(*ast.Ident); ok && ko != nil && info.Uses[id] == ko {
								used = true
							}
							return true
						})
						if used {
							bad = append(bad, c.P.Pos(k.Pos())+": the raw index "+k.Name+" of the statement list is used (positions shift once the statements that format to nothing are gone)")
						}
					}
				}
			}
			return true
		})
	}
	inCmp(fd.Body, false)
	if ranges == 0 {
		c.R.Undecided(rule, goctlAst+".(*AST).Format#written-list", "Format walks the statement list", "no range over the field Stmts found")
		return
	}
	sort.Strings(bad)
	c.R.Check(len(bad) == 0, rule, goctlAst+".(*AST).Format#written-list", "layout by position is decided among the statements that are written: the raw statement list is only ranged over (no a.Stmts[i], no compared len(a.Stmts), no use of the raw index)", c.P.Pos(f.Pos()), strings.Join(bad, "; "), bad, ranges)
}

// c20emptyChildLines (R18, round 7): a child that formats to nothing takes no line. Several Format methods return ""
// for a node whose values are all empty (`@doc ""`, an info block of empty strings …); after one pass such a node is
// gone. A parent that writes the child's text and then its own line terminator without looking at the text leaves an
// empty line that the second pass cannot reproduce. For every Format method of the ast package: when the text handed
// to WriteText is the result of a Format that can return the empty constant, the method compares that text with ""
// (any comparison of the very value — typically the guard around the write and its NewLine).
func c20emptyChildLines(c *Ctx) {
	rule := "C20.R18"
	sp := c.P.SSAPkg(goctlAst)
	if sp == nil {
		c.R.Undecided(rule, goctlAst, "anchor resolves", "package not loaded")
		return
	}
	isEmptyConst := func(v ssa.Value) bool {
		k, ok := v.(*ssa.Const)
		return ok && k.Value != nil && k.Value.Kind() == constant.String && constant.StringVal(k.Value) == ""
	}
	// E: Format methods with a return of the empty constant
	canBeEmpty := map[*ssa.Function]bool{}
	var formats []*ssa.Function
	for _, f := range c.P.AllFuncs(goctlAst) {
		if f.Name() != "Format" || f.Signature.Recv() == nil || f.Signature.Results().Len() != 1 {
			continue
		}
		formats = append(formats, f)
		for _, b := range f.Blocks {
			if len(b.Instrs) == 0 {
				continue
			}
			if r, ok := b.Instrs[len(b.Instrs)-1].(*ssa.Return); ok && len(r.Results) == 1 && isEmptyConst(r.Results[0]) {
				canBeEmpty[f] = true
			}
		}
	}
	implsEmpty := func(call *ssa.Call) bool {
		if cal := call.Call.StaticCallee(); cal != nil {
			return canBeEmpty[cal]
		}
		if !call.Call.IsInvoke() || call.Call.Method.Name() != "Format" {
			return false
		}
		it, ok := call.Call.Value.Type().Underlying().(*types.Interface)
		if !ok {
			return false
		}
		for f := range canBeEmpty {
			if types.Implements(f.Signature.Recv().Type(), it) {
				return true
			}
		}
		return false
	}
	var bad []string
	sites := 0
	for _, f := range formats {
		for _, b := range f.Blocks {
			for _, ins := range b.Instrs {
				wt, ok := ins.(*ssa.Call)
				if !ok {
					continue
				}
				cal := wt.Call.StaticCallee()
				if cal == nil || cal.Name() != "WriteText" || len(wt.Call.Args) != 2 {
					continue
				}
				src, ok := wt.Call.Args[1].(*ssa.Call)
				if !ok || !implsEmpty(src) {
					continue
				}
				sites++
				compared := false
				for _, r := range *src.Referrers() {
					if bo, ok := r.(*ssa.BinOp); ok && (bo.Op == token.EQL || bo.Op == token.NEQ) && (isEmptyConst(bo.X) || isEmptyConst(bo.Y)) {
						compared = true
					}
					if lc, ok := r.(*ssa.Call); ok {
						if bi, ok := lc.Call.Value.(*ssa.Builtin); ok && bi.Name() == "len" {
							compared = true
						}
					}
				}
				if !compared {
					bad = append(bad, fmt.Sprintf("%s: %s writes the text of a child whose Format can be empty without comparing it with \"\": the line written for it is empty on the first pass and absent on the second", c.P.Pos(wt.Pos()), funcDisplay(f)))
				}
			}
		}
	}
	sort.Strings(bad)
	if len(canBeEmpty) < 3 {
		c.R.Undecided(rule, goctlAst+"#can-be-empty", "the Format methods that can return the empty text are recognised", fmt.Sprintf("%d found", len(canBeEmpty)))
		return
	}
	c.R.Check(len(bad) == 0, rule, goctlAst+".Format#empty-child-lines", "the text of a child whose Format can be empty is compared with \"\" by the method that writes it (a child that formats to nothing takes no line)", "-", strings.Join(bad, "; "), bad, sites+len(canBeEmpty))
}

// c20closingTokenOwnLine (R19, round 8): a closing token never shares its line with a line comment. The `}` / `)` of a
// block may carry head comments (the comments written inside an otherwise empty block); a `//` comment printed on the
// line of the opening token swallows everything after it on the next pass — `service foo {// c` + `}` is re-read as
// `service foo { // c}` and no longer parses. On every path of a Format method, between writing a node that contains
// the opening token of the node's own L…/R… pair and writing the closing one, a NewLine was written, or the closing
// token was transferred with ignoreHeadComment() (as the struct and group siblings do for their empty form).
func c20closingTokenOwnLine(c *Ctx) {
	rule := "C20.R19"
	pk := c.P.Pkg(goctlAst)
	if pk == nil {
		return
	}
	pairs := map[string]string{"LBrace": "RBrace", "LParen": "RParen", "LBrack": "RBrack"}
	n, checked := 0, 0
	for _, fn := range c.P.AllFuncs(goctlAst) {
		if fn.Name() != "Format" || fn.Signature.Recv() == nil || fn.Parent() != nil {
			continue
		}
		// only nodes that own such a pair
		rt := fn.Signature.Recv().Type()
		if p, ok := rt.(*types.Pointer); ok {
			rt = p.Elem()
		}
		st, ok := rt.Underlying().(*types.Struct)
		if !ok {
			continue
		}
		var open, closeF string
		for i := 0; i < st.NumFields(); i++ {
			if r, ok := pairs[st.Field(i).Name()]; ok {
				for j := 0; j < st.NumFields(); j++ {
					if st.Field(j).Name() == r {
						open, closeF = st.Field(i).Name(), r
					}
				}
			}
		}
		if open == "" {
			continue
		}
		// block nodes only: the pair encloses a list of children (an inline pair — `(Req)`, `[]T`, `map[K]V` — is one line by
		// nature and the grammar admits no line comment in front of its closing token)
		block := false
		for i := 0; i < st.NumFields(); i++ {
			if _, isSl := st.Field(i).Type().Underlying().(*types.Slice); isSl {
				block = true
			}
		}
		if !block {
			continue
		}
		n++
		ps := c.paths(rule, fn, px.Config{MaxVisits: 2, MaxPaths: 200000})
		isWrite := func(e *px.Event) bool {
			return e.Kind == px.EvCall && e.Call.Static != nil && (e.Call.Static.Name() == "Write" || e.Call.Static.Name() == "WriteText") && strings.Contains(e.Call.Static.String(), "Writer")
		}
		isNewLine := func(e *px.Event) bool {
			return e.Kind == px.EvCall && e.Call.Static != nil && e.Call.Static.Name() == "NewLine" && strings.Contains(e.Call.Static.String(), "Writer")
		}
		name := strings.TrimPrefix(fn.RelString(nil), mod)
		c.forall(rule, name+"#closing-token", "between the write of the opening token and the write of the closing token of the node's own pair a NewLine is written, or the closing token is stripped of its head comments (a line comment on the opening token's line swallows the closing token on the next pass)", fn, ps, func(p *px.Path) (bool, string) {
			pending, newline := false, false
			for i := range p.Events {
				e := &p.Events[i]
				switch {
				case isNewLine(e):
					newline = true
				case isWrite(e):
					hasOpen, hasClose := false, false
					ci, _ := e.Instr.(ssa.CallInstruction)
					if ci == nil {
						continue
					}
					loadOf := func(field string) func(ssa.Value) bool {
						return func(v ssa.Value) bool {
							u, ok := v.(*ssa.UnOp)
							if !ok {
								return false
							}
							fa, ok := u.X.(*ssa.FieldAddr)
							return ok && fieldNameAt(fa.X.Type(), fa.Field) == field
						}
					}
					for _, a := range ci.Common().Args {
						if ssaReaches(a, loadOf(open), map[ssa.Value]bool{}, 0) {
							hasOpen = true
						}
						if ssaReaches(a, loadOf(closeF), map[ssa.Value]bool{}, 0) {
							hasClose = true
						}
					}
					if hasClose && (pending || hasOpen) && !(pending && newline) {
						checked++
						stripped := false
						for _, a := range ci.Common().Args {
							if ssaReaches(a, func(v ssa.Value) bool {
								call, ok := v.(*ssa.Call)
								if !ok {
									return false
								}
								cal := call.Call.StaticCallee()
								if cal == nil || cal.Name() != "transferTokenNode" || len(call.Call.Args) == 0 {
									return false
								}
								if !ssaReaches(call.Call.Args[0], loadOf(closeF), map[ssa.Value]bool{}, 0) {
									return false
								}
								for _, o := range call.Call.Args[1:] {
									if ssaReaches(o, func(w ssa.Value) bool {
										c2, ok := w.(*ssa.Call)
										if !ok {
											return false
										}
										k := c2.Call.StaticCallee()
										return k != nil && k.Name() == "ignoreHeadComment"
									}, map[ssa.Value]bool{}, 0) {
										return true
									}
								}
								return false
							}, map[ssa.Value]bool{}, 0) {
								stripped = true
							}
						}
						if !stripped {
							// or the path established that the closing token carries no head comment
							for _, b := range p.All(px.KindIs(px.EvBranch)) {
								cn := b.Cond.Strip(false)
								if b.Seq < e.Seq && !b.Taken && cn != nil && cn.Kind == px.KCall && cn.Call != nil && cn.Call.Static != nil && cn.Call.Static.Name() == "HasHeadCommentGroup" && cn.Call.Recv != nil && px.IsFieldLoad(cn.Call.Recv, closeF, nil) {
									stripped = true
								}
							}
						}
						if !stripped {
							return false, "the closing " + closeF + " is written at " + c.P.Pos(e.Pos) + " on the line of the opening " + open + " with its head comments: `{// c` + `}` is re-read as `{ // c}` (the comment swallows the closing token) and the formatted text no longer parses"
						}
					}
					if hasOpen {
						pending, newline = true, false
					}
					if hasClose {
						pending = false
					}
				}
			}
			return true, ""
		})
	}
	if n < 5 {
		c.R.Undecided(rule, goctlAst+"#paired-nodes", "the nodes that own an opening/closing token pair are recognised", fmt.Sprintf("%d found", n))
	}
}

// ssaReaches: some value the expression is built from (call arguments, variadic packs, boxed and converted values,
// closure bindings, φ edges) satisfies pred.
func ssaReaches(v ssa.Value, pred func(ssa.Value) bool, seen map[ssa.Value]bool, d int) bool {
	if v == nil || seen[v] || d > 16 {
		return false
	}
	seen[v] = true
	if pred(v) {
		return true
	}
	switch x := v.(type) {
	case *ssa.Call:
		for _, a := range x.Call.Args {
			if ssaReaches(a, pred, seen, d+1) {
				return true
			}
		}
	case *ssa.Slice:
		return ssaReaches(x.X, pred, seen, d+1)
	case *ssa.Alloc:
		for _, r := range *x.Referrers() {
			switch y := r.(type) {
			case *ssa.IndexAddr:
				for _, r2 := range *y.Referrers() {
					if st, ok := r2.(*ssa.Store); ok && ssaReaches(st.Val, pred, seen, d+1) {
						return true
					}
				}
			case *ssa.Store:
				if y.Addr == ssa.Value(x) && ssaReaches(y.Val, pred, seen, d+1) {
					return true
				}
			}
		}
	case *ssa.MakeInterface:
		return ssaReaches(x.X, pred, seen, d+1)
	case *ssa.ChangeType:
		return ssaReaches(x.X, pred, seen, d+1)
	case *ssa.ChangeInterface:
		return ssaReaches(x.X, pred, seen, d+1)
	case *ssa.Convert:
		return ssaReaches(x.X, pred, seen, d+1)
	case *ssa.UnOp:
		return ssaReaches(x.X, pred, seen, d+1)
	case *ssa.Phi:
		for _, e := range x.Edges {
			if ssaReaches(e, pred, seen, d+1) {
				return true
			}
		}
	case *ssa.MakeClosure:
		for _, b := range x.Bindings {
			if ssaReaches(b, pred, seen, d+1) {
				return true
			}
		}
	}
	return false
}

// c20noCrossLineRewrites (R20, round 8): what a token says is not edited. A strings.Replace(All) whose pattern
// contains a line break rewrites the rendered text ACROSS lines — the inside of multi-line tokens (raw strings, block
// comments) included: the token text of the formatted source differs from the original (a raw string value loses
// leading blanks of its continuation lines) and every pass rewrites it once more. No function of the ast and format
// packages applies such a replacement.
func c20noCrossLineRewrites(c *Ctx) {
	rule := "C20.R20"
	sites := 0
	byFn := map[string][]string{}
	for _, pkg := range []string{goctlAst, goctlFormat} {
		for _, fn := range c.P.AllFuncs(pkg) {
			for _, b := range fn.Blocks {
				for _, ins := range b.Instrs {
					call, ok := ins.(*ssa.Call)
					if !ok {
						continue
					}
					cal := call.Call.StaticCallee()
					if cal == nil || cal.Pkg == nil || cal.Pkg.Pkg.Path() != "strings" {
						continue
					}
					sites++
					if cal.Name() != "ReplaceAll" && cal.Name() != "Replace" || len(call.Call.Args) < 3 {
						continue
					}
					if k, ok := call.Call.Args[1].(*ssa.Const); ok && k.Value != nil && k.Value.Kind() == constant.String && strings.Contains(constant.StringVal(k.Value), "\n") {
						root := fn
						for root.Parent() != nil {
							root = root.Parent()
						}
						name := strings.TrimPrefix(root.RelString(nil), mod)
						byFn[name] = append(byFn[name], fmt.Sprintf("%s: strings.%s with the pattern %q", c.P.Pos(call.Pos()), cal.Name(), constant.StringVal(k.Value)))
					}
				}
			}
		}
	}
	if len(byFn) == 0 {
		c.R.Check(sites >= 5, rule, goctlAst+"#cross-line-rewrites", "no function of the ast and format packages replaces a pattern containing a line break in rendered text", "-", fmt.Sprintf("%d calls into package strings", sites), nil, sites)
		return
	}
	var names []string
	for n := range byFn {
		names = append(names, n)
	}
	sort.Strings(names)
	for _, n := range names {
		sort.Strings(byFn[n])
		c.R.Fail(rule, n+"#rewrites-rendered-text", "no function of the ast and format packages replaces a pattern containing a line break in rendered text (the inside of multi-line tokens would be edited)", "-", strings.Join(byFn[n], "; "), byFn[n])
	}
}
