package rules

import (
	"fmt"
	"go/types"
	"strings"

	"golang.org/x/tools/go/ssa"

	"gzverify/px"
)

// funcDisplay renders a function for reports: "pkg.(*T).m", "pkg.f", "pkg.f$1".
func funcDisplay(f *ssa.Function) string {
	if o, ok := f.Object().(*types.Func); ok && o != nil {
		return shortFuncName(o)
	}
	pkg := ""
	if f.Pkg != nil {
		pkg = strings.TrimPrefix(f.Pkg.Pkg.Path(), mod) + "."
	}
	if par := f.Parent(); par != nil {
		root := par
		for root.Parent() != nil {
			root = root.Parent()
		}
		return funcDisplay(root) + strings.TrimPrefix(f.Name(), root.Name())
	}
	return pkg + f.Name()
}

// boundTarget: for a method value (x.m used as a function value, compiled to a "$bound" wrapper) the method itself.
func boundTarget(v ssa.Value) *ssa.Function {
	mc, ok := v.(*ssa.MakeClosure)
	if !ok {
		if f, ok := v.(*ssa.Function); ok {
			return f
		}
		return nil
	}
	fn, _ := mc.Fn.(*ssa.Function)
	if fn == nil {
		return nil
	}
	if fn.Synthetic == "" {
		return fn
	}
	for _, b := range fn.Blocks {
		for _, ins := range b.Instrs {
			if call, ok := ins.(ssa.CallInstruction); ok {
				if sc := call.Common().StaticCallee(); sc != nil {
					return sc
				}
			}
		}
	}
	return nil
}

// c16deleters (R9, round 4): data map and recency list of Cache stay in step on *every* way an entry leaves.
// Each function of the package that deletes from Cache.data either also removes the key from the recency list
// on that path (lruCache.remove with the same key), or is the eviction callback the list itself calls after it
// has unlinked the key. An expiry path that only drops the data entry leaves a dead key occupying one of the
// `limit` recency slots: later insertions evict live entries although fewer than `limit` are held
// (seed r4-C16-3: the timing-wheel callback bypassed Del).
func c16deleters(c *Ctx) {
	rule := "C16.R9"
	// the eviction callback, by role: the function value handed to the LRU constructor
	callbacks := map[*ssa.Function]bool{}
	for _, f := range c.P.AllFuncs(colPkg) {
		for _, b := range f.Blocks {
			for _, ins := range b.Instrs {
				call, ok := ins.(ssa.CallInstruction)
				if !ok {
					continue
				}
				sc := call.Common().StaticCallee()
				if sc == nil || sc.Name() != "newKeyLru" {
					continue
				}
				for _, a := range call.Common().Args {
					if t := boundTarget(a); t != nil {
						callbacks[t] = true
						if t.Parent() != nil {
							// a function literal that forwards to a method (func(k string) { cache.onEvict(k) }): the method plays the role
							for _, tb := range t.Blocks {
								for _, ti := range tb.Instrs {
									if tc, ok := ti.(ssa.CallInstruction); ok {
										if callee := tc.Common().StaticCallee(); callee != nil && callee.Pkg == t.Pkg {
											callbacks[callee] = true
										}
									}
								}
							}
						}
					}
				}
			}
		}
	}
	isDataDelete := func(e *px.Event) bool {
		return e.Kind == px.EvCall && e.Call.Builtin == "delete" && len(e.Call.Args) == 2 && px.IsFieldLoad(e.Call.Args[0], "data", func(b *px.Sym) bool {
			return b != nil && b.Typ != nil && strings.HasSuffix(typeString(b.Typ), colPkg+".Cache")
		})
	}
	n := 0
	for _, f := range c.P.AllFuncs(colPkg) {
		has := false
		for _, b := range f.Blocks {
			for _, ins := range b.Instrs {
				if call, ok := ins.(ssa.CallInstruction); ok {
					if bi, ok := call.Common().Value.(*ssa.Builtin); ok && bi.Name() == "delete" {
						if u, ok := call.Common().Args[0].(*ssa.UnOp); ok {
							if fa, ok := u.X.(*ssa.FieldAddr); ok && fieldNameOf(fa) == "data" && strings.HasSuffix(typeString(fa.X.Type()), colPkg+".Cache") {
								has = true
							}
						}
					}
				}
			}
		}
		if !has {
			continue
		}
		n++
		name := funcDisplay(f)
		if callbacks[f] {
			c.R.Hold(rule, name, "the list's own eviction callback: called by the recency list after it unlinked the key", 1)
			continue
		}
		ps := c.paths(rule, f, px.Config{MaxVisits: 2})
		c.forall(rule, name, "an entry dropped from Cache.data is dropped from the recency list on the same path (lruCache.remove with the same key), unless this is the list's own eviction callback", f, ps, func(p *px.Path) (bool, string) {
			for _, d := range p.All(isDataDelete) {
				ok := false
				for _, e := range p.All(px.KindIs(px.EvCall)) {
					if e.Call.Method != nil && e.Call.Method.Name() == "remove" && e.Call.Recv != nil && px.IsFieldLoad(e.Call.Recv, "lruCache", nil) &&
						len(e.Call.Args) >= 1 && e.Call.Args[len(e.Call.Args)-1].Strip(false) == d.Call.Args[1].Strip(false) {
						ok = true
					}
				}
				if !ok {
					return false, "the data entry is deleted but the key stays in the recency list: with a limit, the dead key keeps occupying a slot and a later insertion evicts a live entry while fewer than `limit` entries are held"
				}
			}
			return true, ""
		})
	}
	if len(callbacks) == 0 {
		c.R.Undecided(rule, colPkg+".newKeyLru#callback", "the eviction callback handed to the recency list is recognised", "no function value passed to newKeyLru")
	}
	c.R.Min(rule, 2, fmt.Sprintf("Del, onEvict (found %d deleters)", n))
}
