package rules

import (
	"fmt"
	"go/constant"
	"go/token"
	"go/types"
	"os"
	"strings"

	"golang.org/x/tools/go/ssa"

	"gzverify/px"
)

// C08 — declarative validation (core/mapping).
func init() { register("C08", "other", c08) }

func c08(c *Ctx) {
	c.R.RuleText = "option-set copy completeness by value flow, validate-before-store on every inlined path from the two field entry points to a primitive store, required-field path table, exhaustive decision tables of the range test / bracket parsers / optional-dependency resolution"
	c.R.Explain = "Structural necessary conditions of C08: the options value produced by toOptionsWithContext agrees with the declared options in every field except the resolved Optional flag (so range/options/default/string/inherit survive optional=dep re-resolution); on every path from processNamedFieldWithValue / processFieldWithEnvValue to a primitive store of a supplied value a range validator applied to the field's own options and an options-membership check on those options have succeeded first, on the value that is stored; an absent scalar field that is neither defaulted nor optional yields the 'is not set' error and a nil supplied value is accepted only for optional fields; validateNumberRange equals the inside-the-interval predicate for all 36 orderings x bracket kinds and for a NaN; bracket parsers and the optional-dependency resolution equal their tables. NOT decided: no-panic (reflection), value fidelity, completeness (valid input accepted) beyond these tables."
	c.R.Assume = append(c.R.Assume, "reflect.Value setters store their argument", "slice/map elements carry no per-element options (they are validated with nil options by design)")
	pkg := "core/mapping"
	c08r1(c, pkg)
	c08r2(c, pkg)
	c08r3(c, pkg)
	c08r4(c, pkg)
	c08asserts(c, pkg)
	c08embedded(c, pkg)
	c08funnels(c)
	c.memoKeysDetermine("C08.R9", pkg, 4)
	c08adapters(c)
	c08rangeFunnel(c, pkg)
	c08nullElements(c, pkg)
	c08noBypass(c, pkg)
	c08inheritOnly(c, pkg)
	c08noSharedContainers(c, pkg)
	c08memoValuesStayPrivate(c, pkg)
	c08kindEstablished(c, pkg)
	c08contentLengthReadOnly(c)
	c17yamlNotStrict(c, "C08.R18")
	// R19 (round 9): a YAML null must stay null on its way to the validating unmarshaller (C17.R10: the decoder-output model)
	runShared(c, "C17.R10", "C08.R19", c17decoderModel)
	c08validBeforeUse(c, pkg)
	c08durationByType(c, pkg)
	if os.Getenv("GZV_MEMO_SCAN") != "" {
		for _, pk := range c.P.Pkgs {
			c.memoKeysDetermine("SCAN", strings.TrimPrefix(pk.PkgPath, mod), 0)
		}
	}
	if n := c.freshPerIteration("C08.R7", "core/mapping"); n < 2 {
		c.R.Undecided("C08.R7", "core/mapping#fresh", "per-iteration stores of reflect.New targets are recognised", fmt.Sprintf("%d found", n))
	}
}

// R6: no unchecked single-value type assertion on a supplied value.
func c08asserts(c *Ctx, pkg string) {
	rule := "C08.R6"
	exempt := map[string]string{
		"setMatchedPrimitiveValue": "its argument is the result of convertTypeFromString for the same kind; the kind → Go type agreement is checked by the C08.R4 width tables",
	}
	sites := 0
	for _, fn := range c.P.AllFuncs(pkg) {
		has := false
		for _, b := range fn.Blocks {
			for _, ins := range b.Instrs {
				if ta, ok := ins.(*ssa.TypeAssert); ok && !ta.CommaOk {
					has = true
				}
			}
		}
		if !has || fn.Parent() != nil {
			continue
		}
		name := strings.Replace(fn.String(), mod, "", -1)
		if _, ok := exempt[fn.Name()]; ok {
			sites++
			c.R.Hold(rule, name, "exempt: "+exempt[fn.Name()], 1)
			continue
		}
		ps := c.paths(rule, fn, px.Config{MaxPaths: 100000})
		n := 0
		c.forall(rule, name, "every single-value type assertion x.(T) is preceded on its path by a successful comma-ok assertion / type-switch case of x to T (a reflect.Kind test does not establish the Go type: json.Number has kind String)", fn, ps, func(p *px.Path) (bool, string) {
			for i := range p.Events {
				e := &p.Events[i]
				if e.Kind != px.EvAssert {
					continue
				}
				n++
				ta := e.Instr.(*ssa.TypeAssert)
				x := e.Val.Strip(false)
				ok := false
				if e.Val.Kind == px.KMkIface && e.Val.X != nil && e.Val.X.Typ != nil && types.Identical(e.Val.X.Typ, ta.AssertedType) {
					ok = true
				}
				for j := 0; j < i && !ok; j++ {
					b := &p.Events[j]
					if b.Kind != px.EvBranch || !b.Taken {
						continue
					}
					cnd := b.Cond.Strip(false)
					if cnd.Kind != px.KExtract || cnd.Index != 1 || cnd.X == nil || cnd.X.Kind != px.KTypeAssert || !cnd.X.CommaOk {
						continue
					}
					prev, isTA := cnd.X.V.(*ssa.TypeAssert)
					if isTA && cnd.X.X.Strip(false) == x && types.Identical(prev.AssertedType, ta.AssertedType) {
						ok = true
					}
				}
				if !ok {
					return false, fmt.Sprintf("%s.(%s) at %s is not guarded by a type check of the same value: a supplied value of another dynamic type (e.g. a JSON number, whose kind is String) panics here", e.Val.Describe(), typeString(ta.AssertedType), c.P.Pos(ta.Pos()))
				}
			}
			return true, ""
		})
		sites += n
	}
	c.R.Extra["C08.R6_assert_events"] = sites
	nf := len(c.P.AllFuncs(pkg))
	o := c.R.Check(nf >= 100, rule, pkg+"#scan", "all functions of the package were scanned for single-value type assertions", "-", fmt.Sprintf("only %d functions found", nf), nil, 0)
	o.Sites = nf
	c.R.Min(rule, 2, "package scan + setMatchedPrimitiveValue")
}

func inlineNamed(names ...string) func(ci *px.CallInfo, d int) bool {
	return func(ci *px.CallInfo, d int) bool { return ci.Static != nil && nameIn(ci.Static.Name(), names) }
}

// R1: toOptionsWithContext returns options equal to the declared ones except Optional.
func c08r1(c *Ctx, pkg string) {
	rule := "C08.R1"
	f := c.fn(rule, pkg, "(*fieldOptions).toOptionsWithContext")
	if f == nil {
		return
	}
	ps := c.paths(rule, f, px.Config{})
	oP := f.Params[0]
	// the embedded declared options: &o.fieldOptionsWithContext
	isDeclared := func(s *px.Sym) bool {
		return s != nil && s.Kind == px.KFieldAddr && isParam(s.X, oP) && s.FieldVar() != nil && s.FieldVar().Name() == "fieldOptionsWithContext"
	}
	var stype *types.Struct
	if pk := c.P.Pkg(pkg); pk != nil {
		if tn, ok := pk.Types.Scope().Lookup("fieldOptionsWithContext").(*types.TypeName); ok {
			stype, _ = tn.Type().Underlying().(*types.Struct)
		}
	}
	if stype == nil {
		c.R.Undecided(rule, pkg+".fieldOptionsWithContext", "anchor resolves", "type not found")
		return
	}
	c.forall(rule, pkg+".(*fieldOptions).toOptionsWithContext", "the resolved options equal the declared options in every field except Optional (nothing declared in the tag is lost when optional=dep is re-resolved)", f, ps, func(p *px.Path) (bool, string) {
		if p.Exit != px.ExitReturn || len(p.Results) != 2 {
			return true, ""
		}
		r := p.Results[0].Strip(false)
		if px.IsNilConst(r) {
			return true, ""
		}
		if isDeclared(r) {
			return true, ""
		}
		if r.Kind != px.KAlloc {
			return false, "returned options are neither the declared ones nor a fresh copy: " + r.Describe()
		}
		// whole-struct copy?
		whole := false
		if v := p.CellValue(r); v != nil {
			if v.Kind == px.KLoad && isDeclared(v.X) {
				whole = true
			}
		}
		var missing []string
		for i := 0; i < stype.NumFields(); i++ {
			fld := stype.Field(i)
			if fld.Name() == "Optional" {
				continue
			}
			ok := whole
			for _, e := range p.All(px.KindIs(px.EvStore)) {
				if e.Addr.Kind == px.KFieldAddr && e.Addr.X == r && e.Addr.Index == i {
					v := e.Val.Strip(false)
					ok = v.Kind == px.KLoad && v.X != nil && v.X.Kind == px.KFieldAddr && v.X.Index == i && isDeclared(v.X.X)
				}
			}
			if !ok {
				missing = append(missing, fld.Name())
			}
		}
		if len(missing) > 0 {
			return false, fmt.Sprintf("declared option field(s) %v are not carried into the re-resolved options (a field with optional=dep loses them, e.g. its range is no longer enforced)", missing)
		}
		return true, ""
	})
	c.R.Min(rule, 1, "toOptionsWithContext")
	c08copies(c, pkg, stype)
}

// R1b: every struct literal in the package that copies an option set field by
// field copies all of it (sibling sites of toOptionsWithContext).
func c08copies(c *Ctx, pkg string, stype *types.Struct) {
	rule := "C08.R1b"
	want := map[string]bool{}
	for i := 0; i < stype.NumFields(); i++ {
		want[stype.Field(i).Name()] = true
	}
	isOptsStruct := func(t types.Type) bool {
		n := namedStructOf(t)
		return n == "fieldOptionsWithContext" || n == "fieldOptions"
	}
	sites := 0
	for _, fn := range c.P.AllFuncs(pkg) {
		// alloc → field name → stored value
		type rec struct {
			stored map[string]ssa.Value
			pos    ssa.Instruction
		}
		allocs := map[*ssa.Alloc]*rec{}
		for _, b := range fn.Blocks {
			for _, ins := range b.Instrs {
				st, ok := ins.(*ssa.Store)
				if !ok {
					continue
				}
				fa, ok := st.Addr.(*ssa.FieldAddr)
				if !ok {
					continue
				}
				base := fa.X
				if inner, ok := base.(*ssa.FieldAddr); ok && fieldNameOf(inner) == "fieldOptionsWithContext" {
					base = inner.X
				}
				al, ok := base.(*ssa.Alloc)
				if !ok || !isOptsStruct(al.Type()) || !want[fieldNameOf(fa)] {
					continue
				}
				if allocs[al] == nil {
					allocs[al] = &rec{stored: map[string]ssa.Value{}, pos: st}
				}
				allocs[al].stored[fieldNameOf(fa)] = st.Val
			}
		}
		for al, r := range allocs {
			copied := 0
			for name, v := range r.stored {
				if u, ok := v.(*ssa.UnOp); ok {
					if src, ok := u.X.(*ssa.FieldAddr); ok && fieldNameOf(src) == name {
						copied++
					}
				}
			}
			if copied < 2 {
				continue // not a copy of another option set
			}
			sites++
			var missing []string
			for name := range want {
				if _, ok := r.stored[name]; !ok {
					missing = append(missing, name)
				}
			}
			sortStrings(missing)
			cons := fmt.Sprintf("%s#literal(%s)", fn.String(), namedStructOf(al.Type()))
			cons = strings.Replace(cons, mod, "", -1)
			c.R.Check(len(missing) == 0, rule, cons, "a struct literal that copies an option set field by field copies every declared option (nothing declared in the tag is silently dropped on this code path)", c.P.Pos(al.Pos()),
				fmt.Sprintf("fields %v are not copied: constraints declared in the tag are lost when this copy is used", missing), nil, 1)
		}
	}
	c.R.Min(rule, 2, "the rebuilt literals in toOptionsWithContext and parseOptionsWithContext")
}

var c08Chain = []string{"processFieldNotFromString", "processFieldPrimitive", "processFieldPrimitiveWithJSONNumber",
	"processNamedFieldWithValueFromString", "fillPrimitive", "fillWithSameType", "validateAndSetValue"}

// R2: validate before store.
func c08r2(c *Ctx, pkg string) {
	rule := "C08.R2"
	storeNames := []string{"core/mapping.setValueFromString", "core/mapping.setMatchedPrimitiveValue", "core/mapping.setSameKindValue",
		"reflect.(Value).SetFloat", "reflect.(Value).SetInt", "reflect.(Value).SetUint"}
	nonNumericStores := []string{"reflect.(Value).SetBool", "reflect.(Value).SetString"}
	rangeValidators := []string{"core/mapping.validateJsonNumberRange", "core/mapping.validateValueRange"}
	totalStores := 0
	for _, root := range []string{"(*Unmarshaler).processNamedFieldWithValue", "(*Unmarshaler).processFieldWithEnvValue"} {
		f := c.fn(rule, pkg, root)
		if f == nil {
			continue
		}
		optsP := paramOfType(f, "*core/mapping.fieldOptionsWithContext")
		if optsP == nil {
			c.R.Undecided(rule, pkg+"."+root, "anchor resolves", "opts parameter not found")
			continue
		}
		ps := c.paths(rule, f, px.Config{MaxDepth: 8, MaxPaths: 200000, Inline: inlineNamed(c08Chain...)})
		isOpts := func(s *px.Sym) bool { return isParam(s, optsP) }
		isOptions := func(s *px.Sym) bool {
			s = s.Strip(false)
			return s != nil && s.Kind == px.KCall && s.Call != nil && shortName(s.Call) == "core/mapping.(*fieldOptionsWithContext).options" && isOpts(s.Call.Recv)
		}
		stores := 0
		c.forall(rule, pkg+"."+root, "every primitive store of a supplied value is preceded, on its path, by a successful range validation against the field's own options and a successful options-membership check on those options, applied to the value that is stored", f, ps, func(p *px.Path) (bool, string) {
			for i := range p.Events {
				e := &p.Events[i]
				if e.Kind != px.EvCall || e.Inlined {
					continue
				}
				n := shortName(e.Call)
				numeric := nameIn(n, storeNames)
				if !numeric && !nameIn(n, nonNumericStores) {
					continue
				}
				stores++
				stored := e.Call.Args[len(e.Call.Args)-1]
				// (a) range validation
				if numeric {
					ok := false
					for j := 0; j < i; j++ {
						v := &p.Events[j]
						if v.Kind != px.EvCall || v.Inlined {
							continue
						}
						vn := shortName(v.Call)
						switch {
						case nameIn(vn, rangeValidators):
							if len(v.Call.Args) == 2 && isOpts(v.Call.Args[1]) && p.Abs(v.Res).K == px.Nil &&
								(dependsOn(p, stored, v.Call.Args[0]) || dependsOn(p, v.Call.Args[0], stored)) {
								ok = true
							}
						case vn == "core/mapping.validateNumberRange":
							if len(v.Call.Args) == 2 && px.IsFieldLoad(v.Call.Args[1], "Range", isOpts) && p.Abs(v.Res).K == px.Nil &&
								(dependsOn(p, stored, v.Call.Args[0]) || dependsOn(p, v.Call.Args[0], stored)) {
								ok = true
							}
						}
					}
					if !ok {
						return false, fmt.Sprintf("%s at %s stores a supplied number that was not range-validated against the field's options on this path", n, c.P.Pos(e.Pos))
					}
				}
				// (b) options membership
				ok := false
				for j := 0; j < i; j++ {
					v := &p.Events[j]
					switch v.Kind {
					case px.EvCall:
						if v.Inlined {
							continue
						}
						switch shortName(v.Call) {
						case "core/mapping.validateValueInOptions":
							if len(v.Call.Args) == 2 && isOptions(v.Call.Args[1]) && p.Abs(v.Res).K == px.Nil {
								ok = true
							}
						case "core/stringx.Contains":
							if len(v.Call.Args) == 2 && isOptions(v.Call.Args[0]) && p.Abs(v.Res).K == px.True {
								ok = true
								// the text tested is the text supplied: a normalised copy (trimmed, lower-cased …) passing the
								// test says nothing about the raw value that is stored afterwards
								if why := notVerbatim(p, v.Call.Args[1], 0); why != "" {
									return false, fmt.Sprintf("the options-membership test at %s is applied to a transformed copy of the supplied value (%s) while the supplied value itself is stored: a value that is not one of the declared options can pass", c.P.Pos(v.Pos), why)
								}
							}
						}
					case px.EvBranch:
						// "no options declared" branch: len(options) > 0 is false
						cnd := v.Cond.Strip(true)
						if cnd.Kind == px.KBinOp && isLenOf(cnd.X, isOptions) {
							if z, isz := constInt(p, cnd.Y); isz && z == 0 {
								if (cnd.Op == token.GTR && !v.Taken) || (cnd.Op == token.EQL && v.Taken) || (cnd.Op == token.NEQ && !v.Taken) || (cnd.Op == token.LEQ && v.Taken) {
									ok = true
								}
							}
						}
					}
				}
				if !ok {
					return false, fmt.Sprintf("%s at %s stores a supplied value without a successful options-membership check against the field's options on this path", n, c.P.Pos(e.Pos))
				}
			}
			return true, ""
		})
		totalStores += stores
	}
	c.R.Extra["C08.R2_store_events"] = totalStores
	if totalStores < 5 {
		c.R.Undecided(rule, "store sites", "primitive stores are reached", fmt.Sprintf("only %d primitive store events on all paths (expected ≥5): the store helpers were renamed or the chain changed", totalStores))
	}
	c.R.Min(rule, 2, "processNamedFieldWithValue, processFieldWithEnvValue")
}

// notVerbatim: "" when s is the supplied value as it came (a parameter seen through type assertions, comma-ok
// extraction, boxing, conversions and the String() of a Stringer such as json.Number); otherwise what transformed it.
func notVerbatim(p *px.Path, s *px.Sym, d int) string {
	s = s.Strip(true)
	if s == nil || d > 8 {
		return "unknown derivation"
	}
	switch s.Kind {
	case px.KParam, px.KConst:
		return ""
	case px.KTypeAssert, px.KExtract:
		return notVerbatim(p, s.X, d+1)
	case px.KLoad:
		if s.X != nil && s.X.Kind == px.KAlloc {
			if v := p.CellValue(s.X); v != nil {
				return notVerbatim(p, v, d+1)
			}
		}
		return ""
	case px.KCall:
		if s.Call != nil && s.Call.Obj() != nil && s.Call.Obj().Name() == "String" && len(s.Call.Args) <= 1 {
			if s.Call.Recv != nil {
				return notVerbatim(p, s.Call.Recv, d+1)
			}
			if len(s.Call.Args) == 1 {
				return notVerbatim(p, s.Call.Args[0], d+1)
			}
		}
		if s.Call != nil {
			return "result of " + s.Call.Name()
		}
	case px.KPhi:
		return ""
	}
	return s.Describe()
}

// R3: required fields / nil values.
func c08r3(c *Ctx, pkg string) {
	rule := "C08.R3"
	if f := c.fn(rule, pkg, "(*Unmarshaler).processNamedFieldWithoutValue"); f != nil {
		optsP := paramOfType(f, "*core/mapping.fieldOptionsWithContext")
		ps := c.paths(rule, f, px.Config{})
		optional := func(e *px.Event) bool {
			return e.Kind == px.EvCall && shortName(e.Call) == "core/mapping.(*fieldOptionsWithContext).optional" && isParam(e.Call.Recv, optsP)
		}
		getDefault := calleeIs("core/mapping.(*fieldOptionsWithContext).getDefault")
		c.forall(rule, pkg+".(*Unmarshaler).processNamedFieldWithoutValue", "an absent field returns nil only if it has a default that was stored, or fill-default mode is on, or it is optional; the scalar non-optional case returns the 'is not set' error", f, ps, func(p *px.Path) (bool, string) {
			if p.Exit != px.ExitReturn {
				return true, ""
			}
			r := p.Results[0]
			gd := p.First(getDefault)
			if gd == nil || !isParam(gd.Call.Recv, optsP) {
				return false, "the declared default of the field's own options is not consulted"
			}
			hasDef := findExtract(p, gd.Res, 1)
			if hasDef != nil && p.Abs(hasDef).K == px.True {
				// must return the result of a filling call
				rs := r.Strip(false)
				if rs.Kind != px.KCall || !nameIn(shortName(rs.Call), []string{"core/mapping.fillDurationValue", "core/mapping.(*Unmarshaler).fillSliceWithDefault", "core/mapping.setValueFromString"}) {
					return false, "a declared default is not stored through a filling helper whose error is returned"
				}
				if !dependsOn(p, rs, findExtract(p, gd.Res, 0)) {
					return false, "the stored default is not the declared one"
				}
				return true, ""
			}
			if !px.IsNilConst(r) {
				return true, "" // an error or the result of a nested unmarshal
			}
			fillDefault := false
			for _, e := range p.All(px.KindIs(px.EvBranch)) {
				if px.IsFieldLoad(e.Cond, "fillDefault", nil) && e.Taken {
					fillDefault = true
				}
			}
			if fillDefault {
				return true, ""
			}
			for _, e := range p.All(optional) {
				if p.Abs(e.Res).K == px.True {
					return true, ""
				}
			}
			return false, "an absent field without default is accepted (nil) although it is not optional"
		})
		// the scalar branch specifically returns newInitError
		c.forall(rule, pkg+".(*Unmarshaler).processNamedFieldWithoutValue#scalar", "no default, not fill-default, not optional, and no nested unmarshal attempted ⇒ the non-nil result of newInitError is returned", f, ps, func(p *px.Path) (bool, string) {
			if p.Exit != px.ExitReturn {
				return true, ""
			}
			opt := p.All(optional)
			if len(opt) == 0 || p.Abs(opt[len(opt)-1].Res).K != px.False {
				return true, ""
			}
			if p.Has(calleeIs("core/mapping.(*Unmarshaler).processFieldNotFromString", "core/mapping.structValueRequired")) {
				return true, ""
			}
			rs := p.Results[0].Strip(false)
			if rs.Kind != px.KCall || shortName(rs.Call) != "core/mapping.newInitError" {
				return false, "a required scalar field that is absent does not produce the 'is not set' error"
			}
			return true, ""
		})
	}
	if f := c.fn(rule, pkg, "newInitError"); f != nil {
		ps := c.paths(rule, f, px.Config{})
		c.forall(rule, pkg+".newInitError", "always returns a non-nil error", f, ps, func(p *px.Path) (bool, string) {
			if p.Exit == px.ExitReturn && p.Abs(p.Results[0]).K != px.NonNil {
				return false, "may return nil"
			}
			return true, ""
		})
	}
	if f := c.fn(rule, pkg, "(*Unmarshaler).processNamedFieldWithValue"); f != nil {
		optsP := paramOfType(f, "*core/mapping.fieldOptionsWithContext")
		ps := c.paths(rule, f, px.Config{})
		c.forall(rule, pkg+".(*Unmarshaler).processNamedFieldWithValue#nil", "a supplied null is accepted only for an optional field", f, ps, func(p *px.Path) (bool, string) {
			if p.Exit != px.ExitReturn {
				return true, ""
			}
			// the path on which mapValue == nil was taken
			isNilPath := false
			for _, e := range p.All(px.KindIs(px.EvBranch)) {
				cnd := e.Cond.Strip(true)
				if cnd.Kind == px.KBinOp && (cnd.Op == token.EQL || cnd.Op == token.NEQ) && (px.IsNilConst(cnd.Y) || px.IsNilConst(cnd.X)) {
					other := cnd.X
					if px.IsNilConst(cnd.X) {
						other = cnd.Y
					}
					if o := other.Strip(false); o.Kind == px.KField || o.Kind == px.KLoad {
						if (cnd.Op == token.EQL) == e.Taken {
							isNilPath = true
						}
					}
				}
				break
			}
			if !isNilPath {
				return true, ""
			}
			if px.IsNilConst(p.Results[0]) {
				for _, e := range p.All(calleeIs("core/mapping.(*fieldOptionsWithContext).optional")) {
					if isParam(e.Call.Recv, optsP) && p.Abs(e.Res).K == px.True {
						return true, ""
					}
				}
				return false, "a null value is accepted for a field that is not optional"
			}
			return true, ""
		})
	}
	if f := c.fn(rule, pkg, "(*Unmarshaler).processNamedField"); f != nil {
		ps := c.paths(rule, f, px.Config{})
		without := calleeIs("core/mapping.(*Unmarshaler).processNamedFieldWithoutValue")
		with := calleeIs("core/mapping.(*Unmarshaler).processNamedFieldWithValue")
		env := calleeIs("core/mapping.(*Unmarshaler).processFieldWithEnvValue")
		parse := calleeIs("core/mapping.(*Unmarshaler).parseOptionsWithContext")
		c.forall(rule, pkg+".(*Unmarshaler).processNamedField", "an exported, non-ignored field is always handed to exactly one of the with-value / without-value / env handlers with the options parsed for it, and the handler's error is returned", f, ps, func(p *px.Path) (bool, string) {
			if p.Exit != px.ExitReturn {
				return true, ""
			}
			pe := p.First(parse)
			hs := p.All(px.Or(without, with, env))
			if pe == nil {
				if len(hs) != 0 {
					return false, "a handler runs without parsed options"
				}
				return true, ""
			}
			if e := findExtract(p, pe.Res, 2); e != nil && p.Abs(e).K == px.NonNil {
				if p.Results[0].Strip(false) != e {
					return false, "the option-parsing error is not returned"
				}
				return true, ""
			}
			if len(hs) == 0 {
				// only the ignore-key and fill-default non-zero exits may skip the handlers
				if px.IsNilConst(p.Results[0]) {
					for _, e := range p.All(px.KindIs(px.EvBranch)) {
						cnd := e.Cond.Strip(true)
						if cnd.Kind == px.KBinOp && cnd.Op == token.EQL && e.Taken && (dependsOn(p, cnd.X, findExtract(p, pe.Res, 0)) || dependsOn(p, cnd.Y, findExtract(p, pe.Res, 0))) {
							return true, "" // key == ignoreKey
						}
					}
					return false, "the field is skipped (nil) without being handled"
				}
				return true, ""
			}
			if len(hs) != 1 {
				return false, fmt.Sprintf("%d handlers run", len(hs))
			}
			h := hs[0]
			opts := findExtract(p, pe.Res, 1)
			found := false
			for _, a := range h.Call.Args {
				if a.Strip(false) == opts {
					found = true
				}
			}
			if !found {
				return false, "the handler does not receive the options parsed for this field"
			}
			if p.Results[0].Strip(false) != h.Res {
				return false, "the handler's error is not returned"
			}
			return true, ""
		})
	}
	c.R.Min(rule, 5, "processNamedFieldWithoutValue (2), newInitError, processNamedFieldWithValue#nil, processNamedField")
}

// R4: decision tables.
func c08r4(c *Ctx, pkg string) {
	rule := "C08.R4"
	// validateNumberRange
	if f := c.fn(rule, pkg, "validateNumberRange"); f != nil {
		ps := c.paths(rule, f, px.Config{ParamAbs: map[string]px.Abs{"nr": {K: px.NonNil}}})
		fvP, nrP := f.Params[0], f.Params[1]
		isFld := func(s *px.Sym, name string) bool {
			return px.IsFieldLoad(s, name, func(b *px.Sym) bool { return isParam(b, nrP) })
		}
		var rows []tableRow
		names := map[int]string{-1: "<", 0: "=", 1: ">"}
		for _, li := range []bool{true, false} {
			for _, ri := range []bool{true, false} {
				for ol := -1; ol <= 1; ol++ {
					for or := -1; or <= 1; or++ {
						li, ri, ol, or := li, ri, ol, or
						inside := (ol > 0 || (ol == 0 && li)) && (or < 0 || (or == 0 && ri))
						exp := "error"
						if inside {
							exp = "nil"
						}
						atom := ordAtom(func(x, y *px.Sym) (int, bool) {
							if isParam(x, fvP) && isFld(y, "left") {
								return ol, true
							}
							if isParam(x, fvP) && isFld(y, "right") {
								return or, true
							}
							return 0, false
						}, func(s *px.Sym) (bool, bool) {
							if isFld(s, "leftInclude") {
								return li, true
							}
							if isFld(s, "rightInclude") {
								return ri, true
							}
							if s.Kind == px.KCall && s.Call != nil && shortName(s.Call) == "math.IsNaN" && len(s.Call.Args) == 1 && isParam(s.Call.Args[0], fvP) {
								return false, true
							}
							if s.Kind == px.KBinOp && (s.Op == token.NEQ || s.Op == token.EQL) && isParam(s.X.Strip(true), fvP) && isParam(s.Y.Strip(true), fvP) {
								return s.Op == token.EQL, true // fv != fv is the NaN test
							}
							return false, false
						})
						rows = append(rows, tableRow{name: fmt.Sprintf("leftIncl=%v rightIncl=%v fv%sleft fv%sright", li, ri, names[ol], names[or]), atom: atom, expect: exp})
					}
				}
				// the value is not a number (NaN — reachable through `,string` fields and form/path/header values: "NaN"
				// parses as a float): it is unordered against both bounds, lies in no interval, and must be rejected
				li, ri := li, ri
				nanAtom := ordAtom(func(x, y *px.Sym) (int, bool) {
					if isParam(x, fvP) && (isFld(y, "left") || isFld(y, "right") || isParam(y, fvP)) {
						return ordUnordered, true
					}
					return 0, false
				}, func(s *px.Sym) (bool, bool) {
					if isFld(s, "leftInclude") {
						return li, true
					}
					if isFld(s, "rightInclude") {
						return ri, true
					}
					if s.Kind == px.KCall && s.Call != nil && shortName(s.Call) == "math.IsNaN" && len(s.Call.Args) == 1 && isParam(s.Call.Args[0], fvP) {
						return true, true
					}
					return false, false
				})
				rows = append(rows, tableRow{name: fmt.Sprintf("leftIncl=%v rightIncl=%v fv is NaN", li, ri), atom: nanAtom, expect: "error"})
			}
		}
		c.checkTable(rule, pkg+".validateNumberRange", "for all bracket kinds and all orderings of the value against both bounds: nil iff the value lies inside the declared interval (closed end includes the bound, open end excludes it)", posOf(c, f), ps, rows, func(p *px.Path, atom atomFn) string {
			if p.Exit != px.ExitReturn {
				return "exit:" + p.Exit.String()
			}
			if px.IsNilConst(p.Results[0]) {
				return "nil"
			}
			if px.IsGlobalLoad(p.Results[0], mod+pkg, "errNumberRange") {
				return "error"
			}
			return "?" + p.Results[0].Describe()
		})
	}
	// bracket parsers
	for _, b := range []struct {
		fn         string
		incl, excl byte
	}{{"isLeftInclude", '[', '('}, {"isRightInclude", ']', ')'}} {
		f := c.fn(rule, pkg, b.fn)
		if f == nil {
			continue
		}
		ps := c.paths(rule, f, px.Config{})
		bP := f.Params[0]
		var rows []tableRow
		for _, ch := range []byte{'[', ']', '(', ')', 'x'} {
			ch := ch
			exp := "error"
			if ch == b.incl {
				exp = "true"
			} else if ch == b.excl {
				exp = "false"
			}
			rows = append(rows, tableRow{name: fmt.Sprintf("%q", ch), expect: exp, atom: byteEqAtom(bP, ch)})
		}
		c.checkTable(rule, pkg+"."+b.fn, fmt.Sprintf("%q ⇒ inclusive, %q ⇒ exclusive, anything else ⇒ error", b.incl, b.excl), posOf(c, f), ps, rows, func(p *px.Path, atom atomFn) string {
			if p.Exit != px.ExitReturn || len(p.Results) != 2 {
				return "exit"
			}
			if !px.IsNilConst(p.Results[1]) {
				return "error"
			}
			switch p.Abs(p.Results[0]).K {
			case px.True:
				return "true"
			case px.False:
				return "false"
			}
			return "?"
		})
	}
	// toOptionsWithContext
	if f := c.fn(rule, pkg, "(*fieldOptions).toOptionsWithContext"); f != nil {
		ps := c.paths(rule, f, px.Config{ParamAbs: map[string]px.Abs{"o": {K: px.NonNil}}, Inline: inlineNamed("optional", "optionalDep")})
		oP := f.Params[0]
		keyP := f.Params[1]
		isDep := func(s *px.Sym) bool {
			s = s.Strip(false)
			return s != nil && px.IsFieldLoad(s, "OptionalDep", func(b *px.Sym) bool { return isParam(b, oP) })
		}
		isRest := func(s *px.Sym) bool { s = s.Strip(false); return s != nil && s.Kind == px.KSlice && isDep(s.X) }
		isOn := func(s *px.Sym, self bool) bool {
			s = s.Strip(false)
			if s == nil || s.Kind != px.KExtract || s.Index != 1 || s.X.Kind != px.KCall || s.X.Call.Method == nil || s.X.Call.Method.Name() != "Value" {
				return false
			}
			return isParam(s.X.Call.Args[0], keyP) == self
		}
		isOptFlag := func(s *px.Sym) bool {
			if !px.IsFieldLoad(s, "Optional", nil) {
				return false
			}
			return true
		}
		var rows []tableRow
		for _, opt := range []bool{false, true} {
			for _, form := range []string{"", "!", "!x", "x"} {
				for _, base := range []bool{false, true} {
					for _, self := range []bool{false, true} {
						opt, form, base, self := opt, form, base, self
						exp := ""
						switch {
						case !opt:
							exp = "optional=false"
						case form == "":
							exp = "optional=true"
						case form == "!":
							exp = "error"
						case form == "!x":
							if base == self {
								exp = "error"
							} else {
								exp = fmt.Sprintf("optional=%v", base)
							}
						default:
							if base != self {
								exp = "error"
							} else {
								exp = fmt.Sprintf("optional=%v", !base)
							}
						}
						atom := func(s *px.Sym) (bool, bool) {
							switch {
							case isOptFlag(s):
								return opt, true
							case isOn(s, true):
								return self, true
							case isOn(s, false):
								return base, true
							}
							// dep == "" / dep[1:] == "" (same tests written on the string instead of its length)
							if s.Kind == px.KBinOp && (s.Op == token.EQL || s.Op == token.NEQ) {
								x, y := s.X, s.Y
								if cs, ok := x.Strip(true).V.(*ssa.Const); ok && cs.Value != nil && cs.Value.Kind() == constant.String {
									x, y = y, x
								}
								if cs, ok := y.Strip(true).V.(*ssa.Const); ok && y.Strip(true).Kind == px.KConst && cs.Value != nil && cs.Value.Kind() == constant.String && constant.StringVal(cs.Value) == "" {
									switch {
									case isDep(x):
										return (form == "") == (s.Op == token.EQL), true
									case isRest(x):
										return (form == "!") == (s.Op == token.EQL), true
									}
								}
							}
							if s.Kind == px.KBinOp && (s.Op == token.EQL || s.Op == token.NEQ || s.Op == token.GTR) {
								eq := s.Op == token.EQL
								switch {
								case isLenOf(s.X, isDep):
									v := form == ""
									if s.Op == token.GTR {
										return !v, true
									}
									return v == eq, true
								case isLenOf(s.X, isRest):
									v := form == "!"
									if s.Op == token.GTR {
										return !v, true
									}
									return v == eq, true
								}
								// dep[0] == '!'
								if x := s.X.Strip(true); x.Kind == px.KOther && x.X != nil && isDep(x.X) {
									if _, isIdx := x.V.(*ssa.Index); isIdx {
										return strings.HasPrefix(form, "!") == eq, true
									}
								}
							}
							return false, false
						}
						rows = append(rows, tableRow{name: fmt.Sprintf("optional=%v dep=%q depSupplied=%v selfSupplied=%v", opt, form, base, self), atom: atom, expect: exp})
					}
				}
			}
		}
		c.checkTable(rule, pkg+".(*fieldOptions).toOptionsWithContext#table", "optional resolution: plain optional ⇒ optional; optional=dep ⇒ both-or-neither supplied, optional iff dep absent; optional=!dep ⇒ exactly one supplied, optional iff dep present; '!' alone ⇒ error", posOf(c, f), ps, rows, func(p *px.Path, atom atomFn) string {
			if p.Exit != px.ExitReturn || len(p.Results) != 2 {
				return "exit"
			}
			if p.Abs(p.Results[1]).K == px.NonNil {
				return "error"
			}
			r := p.Results[0].Strip(false)
			if r.Kind == px.KFieldAddr && isParam(r.X, oP) {
				// declared options returned unchanged: Optional = declared flag
				if b, ok := evalBool(p, optFlagProbe(p, oP), atom, 0); ok {
					return fmt.Sprintf("optional=%v", b)
				}
				return "optional=declared"
			}
			if r.Kind == px.KAlloc {
				for _, e := range p.All(px.KindIs(px.EvStore)) {
					if e.Addr.Kind == px.KFieldAddr && e.Addr.X == r && e.Addr.FieldVar() != nil && e.Addr.FieldVar().Name() == "Optional" {
						if b, ok := evalBool(p, e.Val, atom, 0); ok {
							return fmt.Sprintf("optional=%v", b)
						}
						return "optional=?" + e.Val.Describe()
					}
				}
				if v := p.CellValue(r); v != nil {
					return "optional=copied"
				}
			}
			return "?"
		})
	}
	c08widths(c, pkg, rule)
	c.R.Min(rule, 6, "validateNumberRange, isLeftInclude, isRightInclude, toOptionsWithContext, convertTypeFromString, setMatchedPrimitiveValue")
}

// optFlagProbe finds a load of o.fieldOptionsWithContext.Optional on the path
// (the declared flag), nil if the path never read it.
func optFlagProbe(p *px.Path, oP *ssa.Parameter) *px.Sym {
	for i := range p.Events {
		e := &p.Events[i]
		if e.Kind == px.EvLoad && px.IsFieldLoad(e.Val, "Optional", nil) {
			return e.Val
		}
	}
	return nil
}

// byteEqAtom: comparisons of parameter prm with byte constants under prm == ch.
func byteEqAtom(prm *ssa.Parameter, ch byte) atomFn {
	return func(s *px.Sym) (bool, bool) {
		if s.Kind != px.KBinOp || (s.Op != token.EQL && s.Op != token.NEQ) {
			return false, false
		}
		x, y := s.X.Strip(true), s.Y.Strip(true)
		if !isParam(x, prm) {
			x, y = y, x
		}
		if !isParam(x, prm) || y.Kind != px.KConst {
			return false, false
		}
		cv, ok := y.V.(*ssa.Const)
		if !ok || cv.Value == nil {
			return false, false
		}
		n, ok := constInt64(cv)
		if !ok {
			return false, false
		}
		return (int64(ch) == n) == (s.Op == token.EQL), true
	}
}

func constantInt(v int64) constant.Value { return constant.MakeInt64(v) }

func constInt64(cv *ssa.Const) (int64, bool) {
	if cv == nil || cv.Value == nil {
		return 0, false
	}
	return cv.Int64(), true
}

// kind tables: the parser width and the reflect setter must match the target kind
// (a wider parse is silently truncated by SetInt/SetUint after validation).
func c08widths(c *Ctx, pkg, rule string) {
	intBits := int64(64)
	if pk := c.P.Pkg(pkg); pk != nil && pk.TypesSizes != nil {
		intBits = pk.TypesSizes.Sizeof(types.Typ[types.Int]) * 8
	}
	type row struct {
		kind   string
		val    int64
		parser string
		bits   int64
		setter string
	}
	// reflect.Kind values are part of reflect's API (iota order)
	rows := []row{
		{"Int", 2, "strconv.ParseInt", intBits, "SetInt"}, {"Int8", 3, "strconv.ParseInt", 8, "SetInt"}, {"Int16", 4, "strconv.ParseInt", 16, "SetInt"},
		{"Int32", 5, "strconv.ParseInt", 32, "SetInt"}, {"Int64", 6, "strconv.ParseInt", 64, "SetInt"},
		{"Uint", 7, "strconv.ParseUint", intBits, "SetUint"}, {"Uint8", 8, "strconv.ParseUint", 8, "SetUint"}, {"Uint16", 9, "strconv.ParseUint", 16, "SetUint"},
		{"Uint32", 10, "strconv.ParseUint", 32, "SetUint"}, {"Uint64", 11, "strconv.ParseUint", 64, "SetUint"},
		{"Float32", 13, "strconv.ParseFloat", 32, "SetFloat"}, {"Float64", 14, "strconv.ParseFloat", 64, "SetFloat"},
	}
	if f := c.fn(rule, pkg, "convertTypeFromString"); f != nil {
		var bad []string
		n := 0
		for _, r := range rows {
			ps := c.paths(rule, f, px.Config{ParamAbs: map[string]px.Abs{"kind": {K: px.ConstV, C: constantInt(r.val)}}})
			for _, p := range ps {
				if p.Exit != px.ExitReturn {
					continue
				}
				n++
				calls := p.All(calleeIs("strconv.ParseInt", "strconv.ParseUint", "strconv.ParseFloat"))
				if len(calls) != 1 || shortName(calls[0].Call) != r.parser {
					bad = append(bad, fmt.Sprintf("kind %s: parsed by %d calls (want %s)", r.kind, len(calls), r.parser))
					continue
				}
				a := calls[0].Call.Args
				bits, ok := constInt(p, a[len(a)-1])
				if !ok || bits != r.bits {
					bad = append(bad, fmt.Sprintf("kind %s: parsed with bit size %d, want %d (a wider value passes validation and is truncated when stored)", r.kind, bits, r.bits))
				}
				if !isParam(a[0], f.Params[1]) {
					bad = append(bad, fmt.Sprintf("kind %s: parses something other than the supplied string", r.kind))
				}
			}
		}
		o := c.R.Check(len(bad) == 0 && n >= len(rows), rule, pkg+".convertTypeFromString", "for every numeric kind the string is parsed by the parser of that kind's signedness with exactly that kind's bit size", posOf(c, f), strings.Join(bad, "; "), bad, len(rows))
		_ = o
	}
	if f := c.fn(rule, pkg, "setMatchedPrimitiveValue"); f != nil {
		var bad []string
		n := 0
		all := append([]row{{"Bool", 1, "", 0, "SetBool"}, {"String", 24, "", 0, "SetString"}}, rows...)
		for _, r := range all {
			ps := c.paths(rule, f, px.Config{ParamAbs: map[string]px.Abs{"kind": {K: px.ConstV, C: constantInt(r.val)}}})
			for _, p := range ps {
				if p.Exit != px.ExitReturn {
					continue
				}
				n++
				sets := p.All(func(e *px.Event) bool {
					return e.Kind == px.EvCall && e.Call.Obj() != nil && strings.HasPrefix(e.Call.Obj().Name(), "Set") && strings.HasPrefix(shortName(e.Call), "reflect.(Value).")
				})
				if len(sets) != 1 || sets[0].Call.Obj().Name() != r.setter {
					bad = append(bad, fmt.Sprintf("kind %s: stored by %d setters (want %s)", r.kind, len(sets), r.setter))
					continue
				}
				if !dependsOn(p, sets[0].Call.Args[len(sets[0].Call.Args)-1], p.ParamSym(f.Params[2])) {
					bad = append(bad, fmt.Sprintf("kind %s: the stored value is not the supplied one", r.kind))
				}
				if !px.IsNilConst(p.Results[0]) {
					bad = append(bad, fmt.Sprintf("kind %s: reports an error after storing", r.kind))
				}
			}
		}
		c.R.Check(len(bad) == 0 && n >= len(all), rule, pkg+".setMatchedPrimitiveValue", "every primitive kind is stored through the reflect setter of its own class with the supplied value", posOf(c, f), strings.Join(bad, "; "), bad, len(all))
	}
}

// c08embedded: an optional embedded struct that is partially supplied must have every non-optional member
// supplied (members are only processed when they have a value, so nothing else fills or rejects them).
func c08embedded(c *Ctx, pkg string) {
	rule := "C08.R8"
	if f := c.fn(rule, pkg, "(*Unmarshaler).processAnonymousStructFieldOptional"); f != nil {
		ps := c.paths(rule, f, px.Config{MaxVisits: 2, MaxPaths: 100000})
		addDepth := func(p *px.Path, s *px.Sym) int {
			n := 0
			for d := 0; d < 8 && s != nil; d++ {
				s = s.Strip(true)
				if s.Kind == px.KBinOp && s.Op == token.ADD {
					if k, ok := constInt(p, s.Y); ok && k == 1 {
						n++
						s = s.X
						continue
					}
				}
				break
			}
			return n
		}
		checked := 0
		held := c.forall(rule, pkg+".(*Unmarshaler).processAnonymousStructFieldOptional", "every member that is not optional counts as required — whether or not it has a default — and counts as filled iff it has a value; a partially filled embedded struct is rejected unless required == filled (absent members are not processed here, so a default would otherwise be neither filled nor rejected)", f, ps, func(p *px.Path) (bool, string) {
			// the final comparison
			var cmp *px.Sym
			for _, b := range p.All(px.KindIs(px.EvBranch)) {
				cnd := b.Cond.Strip(true)
				if cnd.Kind == px.KBinOp && (cnd.Op == token.NEQ || cnd.Op == token.EQL) && cnd.X.Typ != nil && cnd.Y.Typ != nil {
					bx, okx := cnd.X.Typ.Underlying().(*types.Basic)
					by, oky := cnd.Y.Typ.Underlying().(*types.Basic)
					if okx && oky && bx.Kind() == types.Int && by.Kind() == types.Int {
						cmp = cnd
					}
				}
			}
			if cmp == nil {
				return true, ""
			}
			nonOpt, nonOptFilled := 0, 0
			var hasValue *px.Sym
			for i := range p.Events {
				e := &p.Events[i]
				if e.Kind != px.EvCall {
					continue
				}
				switch shortName(e.Call) {
				case pkg + ".getValue":
					hasValue = findExtract(p, e.Res, 1)
				case pkg + ".(*fieldOptionsWithContext).optional":
					if p.Abs(e.Res).K == px.False {
						nonOpt++
						if hasValue != nil && p.Abs(hasValue).K == px.True {
							nonOptFilled++
						}
					}
				}
			}
			checked++
			a, b := addDepth(p, cmp.X), addDepth(p, cmp.Y)
			if !((a == nonOpt && b == nonOptFilled) || (b == nonOpt && a == nonOptFilled)) {
				return false, fmt.Sprintf("%d non-optional members (%d of them supplied) were seen on this path but the counters compared are %d and %d: some non-optional member is not counted as required (e.g. one with a default), so an absent member of a partially supplied embedded struct is neither filled nor rejected", nonOpt, nonOptFilled, a, b)
			}
			return true, ""
		})
		if held && checked == 0 {
			c.R.Undecided(rule, pkg+".processAnonymousStructFieldOptional#cmp", "the required/filled comparison is recognised", "no comparison of two counters found")
		}
	}
	if f := c.fn(rule, pkg, "readKeys"); f != nil {
		ps := c.paths(rule, f, px.Config{})
		c.forall(rule, pkg+".readKeys", "the split-key cache (keyed by the key text only) is neither read nor written for opaque keys: `a.b` means [a b] to the json/conf unmarshallers and [a.b] to the form/path ones, and one must not poison the other", f, ps, func(p *px.Path) (bool, string) {
			opaque := 0
			for _, b := range p.All(px.KindIs(px.EvBranch)) {
				if isParam(b.Cond, f.Params[1]) {
					opaque = triOf(b.Taken)
				}
			}
			touch := false
			for i := range p.Events {
				e := &p.Events[i]
				if (e.Kind == px.EvLookup || e.Kind == px.EvMapUpdate) && px.IsGlobalLoad(e.Addr, mod+pkg, "cacheKeys") {
					touch = true
					if opaque == 0 {
						return false, "the cache is used before the opaque flag was examined"
					}
				}
			}
			if opaque == 1 && touch {
				return false, "an opaque key goes through the shared cache"
			}
			if opaque == 1 && p.Exit == px.ExitReturn {
				els := p.SliceElems(p.Results[0])
				if len(els) != 1 || !isParam(els[0], f.Params[0]) {
					return false, "an opaque key is not returned as the single element [key]"
				}
			}
			return true, ""
		})
	}
	c.R.Min(rule, 2, "processAnonymousStructFieldOptional, readKeys")
}

// c08funnels: every public decoding entry point funnels into the one validating unmarshaller.
func c08funnels(c *Ctx) {
	rule := "C08.R5"
	target := c.P.Func("core/mapping", "(*Unmarshaler).unmarshalWithFullName")
	if target == nil {
		c.R.Undecided(rule, "core/mapping.(*Unmarshaler).unmarshalWithFullName", "anchor resolves", "not found")
		return
	}
	reaches := func(root *ssa.Function) bool {
		seen := map[*ssa.Function]bool{}
		stack := []*ssa.Function{root}
		for len(stack) > 0 {
			f := stack[len(stack)-1]
			stack = stack[:len(stack)-1]
			if f == nil || seen[f] || f.Blocks == nil {
				continue
			}
			seen[f] = true
			if f == target {
				return true
			}
			for _, a := range f.AnonFuncs {
				stack = append(stack, a)
			}
			for _, b := range f.Blocks {
				for _, ins := range b.Instrs {
					if ci, ok := ins.(ssa.CallInstruction); ok {
						if sc := ci.Common().StaticCallee(); sc != nil {
							stack = append(stack, sc)
						}
					}
				}
			}
		}
		return false
	}
	entries := []struct{ pkg, fn string }{
		{"rest/httpx", "Parse"}, {"rest/httpx", "ParseForm"}, {"rest/httpx", "ParseHeaders"}, {"rest/httpx", "ParseJsonBody"}, {"rest/httpx", "ParsePath"},
		{"core/conf", "LoadFromJsonBytes"}, {"core/conf", "LoadFromYamlBytes"}, {"core/conf", "LoadFromTomlBytes"},
		{"core/mapping", "UnmarshalJsonBytes"}, {"core/mapping", "UnmarshalJsonMap"}, {"core/mapping", "UnmarshalJsonReader"}, {"core/mapping", "UnmarshalKey"},
		{"core/mapping", "UnmarshalYamlBytes"}, {"core/mapping", "UnmarshalTomlBytes"},
	}
	for _, en := range entries {
		f := c.fn(rule, en.pkg, en.fn)
		if f == nil {
			continue
		}
		c.R.Check(reaches(f), rule, en.pkg+"."+en.fn, "the entry point decodes through (*Unmarshaler).unmarshalWithFullName — the one place where tags are validated (no second, unvalidated decoding path)", posOf(c, f), "the validating unmarshaller is not reachable from this entry point over static calls", nil, 1)
	}
	c.R.Min(rule, 12, "httpx parsers, conf loaders, mapping entry points")
	// R5b must-pass: the thin request-side wrappers do not answer "ok" on their own. On every path the
	// error they return is the validating unmarshaller's verdict (the result of a call that reaches it)
	// or the non-nil error of an earlier step. A shortcut such as "no path variables, nothing to do"
	// skips the required-field, default, range and options handling for that source (seed r3-C08-2).
	rule = "C08.R5b"
	for _, en := range []struct{ pkg, fn string }{
		{"rest/httpx", "ParseForm"}, {"rest/httpx", "ParseHeaders"}, {"rest/httpx", "ParseJsonBody"}, {"rest/httpx", "ParsePath"},
		{"rest/internal/encoding", "ParseHeaders"},
	} {
		f := c.fn(rule, en.pkg, en.fn)
		if f == nil {
			continue
		}
		ps := c.paths(rule, f, px.Config{MaxVisits: 2})
		c.forall(rule, en.pkg+"."+en.fn, "every return hands back the verdict of the validating unmarshaller, or the error of a step that failed before it", f, ps, func(p *px.Path) (bool, string) {
			if p.Exit != px.ExitReturn || len(p.Results) == 0 {
				return true, ""
			}
			r := p.Results[len(p.Results)-1].Strip(false)
			if r.Kind == px.KExtract && r.X != nil {
				r = r.X.Strip(false)
			}
			if r.Kind == px.KCall && r.Call != nil {
				if r.Call.Static != nil && reaches(r.Call.Static) {
					return true, ""
				}
			}
			if p.Abs(p.Results[len(p.Results)-1]).K == px.NonNil {
				return true, ""
			}
			return false, "returns " + p.Results[len(p.Results)-1].Describe() + " without having asked the validating unmarshaller: required fields, defaults, ranges and options of this source are not enforced on this path"
		})
	}
	c.R.Min(rule, 5, "httpx.ParseForm/ParseHeaders/ParseJsonBody/ParsePath, encoding.ParseHeaders")
	// Parse: a request that is accepted went through the body parser, and through all three of
	// path, form and headers unless the target is a list
	if f := c.fn(rule, "rest/httpx", "Parse"); f != nil {
		ps := c.paths(rule, f, px.Config{})
		c.forall(rule, "rest/httpx.Parse", "an accepted request was parsed from the body and — unless the target is an array/slice — from path, form and headers", f, ps, func(p *px.Path) (bool, string) {
			if p.Exit != px.ExitReturn {
				return true, ""
			}
			n := map[string]int{}
			var last *px.Event
			for _, e := range p.All(px.KindIs(px.EvCall)) {
				if e.Call.Static != nil && e.Call.Static.Pkg == f.Pkg && strings.HasPrefix(e.Call.Static.Name(), "Parse") {
					n[e.Call.Static.Name()]++
					last = e
				}
			}
			// a path that returns the error of the sub-parser it called last is a failure path
			if last != nil && p.Results[0].Strip(false) == last.Res.Strip(false) && p.Abs(last.Res).K != px.Nil {
				return true, ""
			}
			if n["ParseJsonBody"] != 1 {
				return false, fmt.Sprintf("accepts without parsing the body (ParseJsonBody ×%d)", n["ParseJsonBody"])
			}
			if !(n["ParsePath"] == n["ParseForm"] && n["ParseForm"] == n["ParseHeaders"] && n["ParsePath"] <= 1) {
				return false, fmt.Sprintf("path/form/headers are not parsed alike (ParsePath ×%d, ParseForm ×%d, ParseHeaders ×%d)", n["ParsePath"], n["ParseForm"], n["ParseHeaders"])
			}
			return true, ""
		})
	}
}
