package rules

import (
	"fmt"
	"go/constant"
	"go/token"
	"go/types"
	"sort"
	"strings"

	"golang.org/x/tools/go/ssa"

	"gzverify/px"
)

// C09 — HTTP router.
func init() { register("C09", "other", c09) }

const routerPkg = "rest/router"
const searchPkg = "core/search"

func c09(c *Ctx) {
	c.R.RuleText = "registration gates and method table, never-replace rule of the route tree, cleaning symmetry by value flow, literal/variable routing tables, bind-after-success rule of the search, dispatch path table of ServeHTTP and methodsAllowed"
	c.R.Explain = "Structural necessary conditions of C09: Handle rejects invalid methods (exactly the 7 standard ones are valid) and non-rooted paths before touching a tree; the tree stores an item only where none was, never replaces an existing child node, and descends into the found child with the rest of the route; the same path.Clean result is what is registered, searched and used for the 405 computation; colon-prefixed segments go to the variable map, others to the literal map, and the literal map is visited first; a literal pattern matches only an equal token, a variable pattern binds its name (without the colon) to the token; a variable is bound only after the search below it succeeded (so a failed branch leaves no binding), and a leaf matches only when it carries an item; ServeHTTP runs the found handler exactly once with the bound variables, otherwise 404 iff no other method's tree matches, else 405 with the Allow header listing exactly the other methods whose trees match, set before the status is written. NOT decided: correctness of matching/backtracking for all route sets × paths."
	c.R.Assume = append(c.R.Assume, "path.Clean semantics", "Go ranges over an array in index order")
	c09register(c)
	c09tree(c)
	c09search(c)
	c09dispatch(c)
	c09options(c)
	c09untouchedPath(c)
	c09ownedVars(c)
	c09defaultNotAllowed(c)
	// R13 (round 8): the variables reach the handler's struct through httpx.ParsePath — the adapters' pass-through rule (C08.R10)
	runShared(c, "C08.R10", "C09.R13", c08adapters)
}

func strConst(p *px.Path, s *px.Sym) (string, bool) {
	a := p.Abs(s.Strip(true))
	if a.K == px.ConstV && a.C.Kind() == constant.String {
		return constant.StringVal(a.C), true
	}
	return "", false
}

func c09register(c *Ctx) {
	rule := "C09.R1"
	if f := c.fn(rule, routerPkg, "validMethod"); f != nil {
		ps := c.paths(rule, f, px.Config{})
		mP := f.Params[0]
		var rows []tableRow
		valid := []string{"DELETE", "GET", "HEAD", "OPTIONS", "PATCH", "POST", "PUT"}
		for _, m := range append(append([]string{}, valid...), "TRACE", "CONNECT", "get", "") {
			m := m
			exp := "false"
			if nameIn(m, valid) {
				exp = "true"
			}
			rows = append(rows, tableRow{name: fmt.Sprintf("%q", m), expect: exp, atom: func(s *px.Sym) (bool, bool) {
				if s.Kind != px.KBinOp || (s.Op != token.EQL && s.Op != token.NEQ) {
					return false, false
				}
				x, y := s.X, s.Y
				if !isParam(x, mP) {
					x, y = y, x
				}
				if !isParam(x, mP) {
					return false, false
				}
				cs, ok := y.Strip(true).V.(*ssa.Const)
				if !ok || cs.Value == nil || cs.Value.Kind() != constant.String {
					return false, false
				}
				return (constant.StringVal(cs.Value) == m) == (s.Op == token.EQL), true
			}})
		}
		c.checkTable(rule, routerPkg+".validMethod", "exactly DELETE, GET, HEAD, OPTIONS, PATCH, POST, PUT are valid methods", posOf(c, f), ps, rows, func(p *px.Path, atom atomFn) string {
			if p.Exit != px.ExitReturn {
				return "exit"
			}
			r := p.Results[0]
			if b, ok := evalBool(p, r, atom, 0); ok {
				return fmt.Sprint(b)
			}
			switch p.Abs(r).K {
			case px.True:
				return "true"
			case px.False:
				return "false"
			}
			return "?" + r.Describe()
		})
	}
	if f := c.fn(rule, routerPkg, "(*patRouter).Handle"); f != nil {
		ps := c.paths(rule, f, px.Config{})
		add := calleeIs(searchPkg + ".(*Tree).Add")
		clean := calleeIs("path.Clean")
		vm := calleeIs(routerPkg + ".validMethod")
		c.forall(rule, routerPkg+".(*patRouter).Handle", "invalid method ⇒ ErrInvalidMethod, empty or non-rooted path ⇒ ErrInvalidPath, both before any tree is touched; otherwise the handler is added under path.Clean(path) to the tree of exactly that method (created on first use) and Add's error is returned", f, ps, func(p *px.Path) (bool, string) {
			if p.Exit != px.ExitReturn {
				return true, ""
			}
			v := p.First(vm)
			if v == nil || !isParam(v.Call.Args[0], f.Params[1]) {
				return false, "the method is not validated first"
			}
			adds := p.All(add)
			touched := len(adds) > 0 || p.Has(px.KindIs(px.EvMapUpdate)) || p.Has(px.KindIs(px.EvLookup))
			if p.Abs(v.Res).K == px.False {
				if touched || !px.IsGlobalLoad(p.Results[0], mod+routerPkg, "ErrInvalidMethod") {
					return false, "an invalid method is not rejected with ErrInvalidMethod before touching the trees"
				}
				return true, ""
			}
			if px.IsGlobalLoad(p.Results[0], mod+routerPkg, "ErrInvalidPath") {
				if touched {
					return false, "an invalid path touches the trees"
				}
				return true, ""
			}
			if len(adds) != 1 {
				return false, "the route is not added exactly once"
			}
			// path validity established: reqPath[0] == '/' on the path
			okRoot := false
			for _, b := range p.All(px.KindIs(px.EvBranch)) {
				cnd := b.Cond.Strip(true)
				if cnd.Kind == px.KBinOp && (cnd.Op == token.NEQ || cnd.Op == token.EQL) {
					if k, ok := constInt(p, cnd.Y); ok && k == '/' && (cnd.Op == token.EQL) == b.Taken {
						okRoot = true
					}
				}
			}
			if !okRoot {
				return false, "a path not starting with '/' is not rejected"
			}
			cl := p.All(clean)
			if len(cl) != 1 || !isParam(cl[0].Call.Args[0], f.Params[2]) || adds[0].Call.Args[1].Strip(false) != cl[0].Res {
				return false, "the registered route is not path.Clean(path)"
			}
			if !isParam(adds[0].Call.Args[2], f.Params[3]) {
				return false, "the registered item is not the caller's handler"
			}
			if p.Results[0].Strip(false) != adds[0].Res {
				return false, "Add's error is not returned"
			}
			// tree identity: looked up / stored under the caller's method
			tree := adds[0].Call.Args[0].Strip(false)
			lk := p.First(px.KindIs(px.EvLookup))
			if lk == nil || !isParam(lk.Key, f.Params[1]) || !px.IsFieldLoad(lk.Addr, "trees", nil) {
				return false, "trees[method] not consulted"
			}
			found := findExtract(p, lk.Res, 1)
			if p.Abs(found).K == px.True {
				if tree != findExtract(p, lk.Res, 0).Strip(false) {
					return false, "added to a tree other than trees[method]"
				}
			} else {
				mu := p.First(px.KindIs(px.EvMapUpdate))
				if mu == nil || !isParam(mu.Key, f.Params[1]) || mu.Val.Strip(false) != tree {
					return false, "a new tree is not stored under the method before use"
				}
			}
			return true, ""
		})
	}
	c.R.Min(rule, 2, "validMethod, Handle")
}

func c09tree(c *Ctx) {
	rule := "C09.R1b"
	if f := c.fn(rule, searchPkg, "add"); f != nil {
		ps := c.paths(rule, f, px.Config{MaxVisits: 2})
		itemP := f.Params[2]
		self := px.CallsFn(f)
		c.forall(rule, searchPkg+".add", "an item is stored only where none was (else errDupItem); an existing child node is never replaced: children[token] is assigned only when the lookup missed; the recursion descends into exactly the found-or-created child with the caller's item", f, ps, func(p *px.Path) (bool, string) {
			if p.Exit == px.ExitCut {
				return true, ""
			}
			// item stores
			for _, e := range p.All(px.KindIs(px.EvStore)) {
				b, n, ok := e.Addr.FieldAddrOf()
				if !ok || n != "item" {
					continue
				}
				if !isParam(e.Val, itemP) {
					return false, "something other than the caller's item is stored"
				}
				// preceded by a nil test of the same field
				okNil := false
				for _, br := range p.All(px.KindIs(px.EvBranch)) {
					cnd := br.Cond.Strip(true)
					if br.Seq < e.Seq && cnd.Kind == px.KBinOp && px.IsNilConst(cnd.Y) && px.IsFieldLoad(cnd.X, "item", func(bb *px.Sym) bool { return bb.Strip(false) == b.Strip(false) }) {
						if (cnd.Op == token.NEQ && !br.Taken) || (cnd.Op == token.EQL && br.Taken) {
							okNil = true
						}
					}
				}
				if !okNil {
					return false, "an item is stored without having established that the slot was empty (a duplicate route silently replaces the earlier handler)"
				}
			}
			// map updates only after a miss of the same key
			for _, mu := range p.All(px.KindIs(px.EvMapUpdate)) {
				miss := false
				for _, lk := range p.All(px.KindIs(px.EvLookup)) {
					if lk.Seq < mu.Seq && lk.Addr.Strip(false) == mu.Addr.Strip(false) && lk.Key.Strip(false) == mu.Key.Strip(false) {
						if okS := findExtract(p, lk.Res, 1); okS != nil && p.Abs(okS).K == px.False {
							miss = true
						}
					}
				}
				if !miss {
					return false, "children[segment] is assigned although the segment may already have a node: the existing node and every route below it are dropped"
				}
			}
			// recursion target
			for _, r := range p.All(self) {
				if !isParam(r.Call.Args[2], itemP) {
					return false, "the recursion does not carry the caller's item"
				}
				child := r.Call.Args[0].Strip(false)
				ok := false
				for _, lk := range p.All(px.KindIs(px.EvLookup)) {
					if v := findExtract(p, lk.Res, 0); v != nil && v.Strip(false) == child {
						ok = true
					}
				}
				for _, mu := range p.All(px.KindIs(px.EvMapUpdate)) {
					if mu.Val.Strip(false) == child {
						ok = true
					}
				}
				if !ok {
					return false, "the recursion descends into a node that is neither the found nor the created child"
				}
				if p.Exit == px.ExitReturn && p.Results[0].Strip(false) != r.Res {
					return false, "the recursion's error is dropped"
				}
			}
			return true, ""
		})
	}
	if f := c.fn(rule, searchPkg, "(*Tree).Add"); f != nil {
		ps := c.paths(rule, f, px.Config{})
		c.forall(rule, searchPkg+".(*Tree).Add", "a route not starting with '/' and a nil item are rejected before the tree is touched; a duplicate is reported as an error", f, ps, func(p *px.Path) (bool, string) {
			if p.Exit != px.ExitReturn {
				return true, ""
			}
			a := p.All(calleeIs(searchPkg + ".add"))
			if len(a) == 0 {
				if px.IsNilConst(p.Results[0]) {
					return false, "a rejected registration returns nil"
				}
				return true, ""
			}
			if !isParam(a[0].Call.Args[2], f.Params[2]) {
				return false, "another item is added"
			}
			if px.IsNilConst(p.Results[0]) {
				return false, "add's error is replaced by nil"
			}
			return true, ""
		})
	}
	c.R.Min(rule, 2, "add, Tree.Add")
}

func c09search(c *Ctx) {
	rule := "C09.R3"
	if f := c.fn(rule, searchPkg, "(*node).getChildren"); f != nil {
		ps := c.paths(rule, f, px.Config{})
		c.forall(rule, searchPkg+".(*node).getChildren", "segments starting with ':' live in children[1] (variables), all others in children[0] (literals)", f, ps, func(p *px.Path) (bool, string) {
			if p.Exit != px.ExitReturn {
				return true, ""
			}
			colon := 0
			for _, b := range p.All(px.KindIs(px.EvBranch)) {
				cnd := b.Cond.Strip(true)
				if cnd.Kind == px.KBinOp && (cnd.Op == token.EQL || cnd.Op == token.NEQ) {
					if k, ok := constInt(p, cnd.Y); ok && k == ':' {
						colon = triOf((cnd.Op == token.EQL) == b.Taken)
					}
				}
			}
			r := p.Results[0].Strip(false)
			if r.Kind != px.KLoad || r.X.Kind != px.KIndexAddr || !px.FieldAddrIs(r.X.X, "children", nil) {
				return false, "result is not one of nd.children"
			}
			want := 0
			if colon == 1 {
				want = 1
			}
			if r.X.Index != want {
				return false, fmt.Sprintf("colon-prefixed=%v is routed to children[%d]", colon == 1, r.X.Index)
			}
			return true, ""
		})
	}
	if f := c.fn(rule, searchPkg, "(*node).forEach"); f != nil {
		// literal map (index 0) before variable map (index 1): the outer loop ranges over the array nd.children
		ok := false
		for _, b := range f.Blocks {
			for _, ins := range b.Instrs {
				switch ia := ins.(type) {
				case *ssa.IndexAddr:
					if _, isConst := ia.Index.(*ssa.Const); !isConst && viaField(ia.X, "children") && strings.HasPrefix(b.Comment, "rangeindex") {
						ok = true
					}
				case *ssa.Index:
					if _, isConst := ia.Index.(*ssa.Const); !isConst && viaField(ia.X, "children") && strings.HasPrefix(b.Comment, "rangeindex") {
						ok = true
					}
				}
			}
		}
		ee := earlyExitLoops(f)
		c.R.Check(ok && len(ee) == 0, rule, searchPkg+".(*node).forEach", "children are visited by ranging over the array nd.children — index 0 (literals) before index 1 (variables) — and the only early exit is the callback's success", posOf(c, f), fmt.Sprintf("array range found=%v, early exits=%v", ok, ee), nil, 1)
		ps := c.paths(rule, f, px.Config{MaxVisits: 2})
		c.forall(rule, searchPkg+".(*node).forEach#result", "true iff some callback returned true (and iteration stops there)", f, ps, func(p *px.Path) (bool, string) {
			if p.Exit != px.ExitReturn {
				return true, ""
			}
			last := p.Last(func(e *px.Event) bool { return e.Kind == px.EvCall && e.Call.IsDyn() })
			got := p.Abs(p.Results[0]).K
			if last != nil && p.Abs(last.Res).K == px.True {
				if got != px.True {
					return false, "a successful callback is not reported"
				}
				return true, ""
			}
			if got != px.False {
				return false, "success reported although no callback succeeded"
			}
			return true, ""
		})
	}
	if f := c.fn(rule, searchPkg, "match"); f != nil {
		ps := c.paths(rule, f, px.Config{})
		patP, tokP := f.Params[0], f.Params[1]
		c.forall(rule, searchPkg+".match", "a ':'-pattern matches any token and binds pattern-without-colon ↦ token; a literal pattern is found iff it equals the token and binds nothing", f, ps, func(p *px.Path) (bool, string) {
			if p.Exit != px.ExitReturn {
				return true, ""
			}
			colon := 0
			for _, b := range p.All(px.KindIs(px.EvBranch)) {
				cnd := b.Cond.Strip(true)
				if cnd.Kind == px.KBinOp && (cnd.Op == token.EQL || cnd.Op == token.NEQ) {
					if k, ok := constInt(p, cnd.Y); ok && k == ':' {
						colon = triOf((cnd.Op == token.EQL) == b.Taken)
					}
				}
			}
			fields := map[string]*px.Sym{}
			for _, e := range p.All(px.KindIs(px.EvStore)) {
				if _, n, ok := e.Addr.FieldAddrOf(); ok {
					fields[n] = e.Val
				}
			}
			switch colon {
			case 1:
				if fields["found"] == nil || p.Abs(fields["found"]).K != px.True || fields["named"] == nil || p.Abs(fields["named"]).K != px.True {
					return false, "a variable pattern is not reported found+named"
				}
				k := fields["key"].Strip(false)
				if k == nil || k.Kind != px.KSlice || !isParam(k.X, patP) {
					return false, "the variable name is not the pattern without its colon"
				}
				if sl, ok := k.V.(*ssa.Slice); !ok || sl.Low == nil || sl.High != nil {
					return false, "the variable name is not pattern[1:]"
				} else if lc, ok := sl.Low.(*ssa.Const); !ok || lc.Int64() != 1 {
					return false, "the variable name is not pattern[1:]"
				}
				if !isParam(fields["value"], tokP) {
					return false, "the bound value is not the token"
				}
			case -1:
				fd := fields["found"]
				if fd == nil {
					return false, "found not set"
				}
				fs := fd.Strip(true)
				if fs.Kind != px.KBinOp || fs.Op != token.EQL || !((isParam(fs.X, patP) && isParam(fs.Y, tokP)) || (isParam(fs.X, tokP) && isParam(fs.Y, patP))) {
					return false, "a literal pattern is not matched by equality with the token"
				}
				if n := fields["named"]; n != nil && p.Abs(n).K != px.False {
					return false, "a literal pattern binds a variable"
				}
			default:
				return false, "the pattern's first byte is not tested for ':'"
			}
			return true, ""
		})
	}
	c.R.Min(rule, 4, "getChildren, forEach (2), match")

	// R4 bind after success
	rule = "C09.R4"
	if f := c.fn(rule, searchPkg, "(*Tree).next"); f != nil {
		if len(f.AnonFuncs) != 2 {
			c.R.Undecided(rule, searchPkg+".(*Tree).next", "anchor resolves", fmt.Sprintf("expected the inner-segment and the last-segment closures, found %d closures", len(f.AnonFuncs)))
		}
		for _, cl := range f.AnonFuncs {
			cps := c.paths(rule, cl, px.Config{})
			rec := px.CallsFn(f)
			ap := calleeIs(searchPkg + ".addParam")
			mt := calleeIs(searchPkg + ".match")
			recursive := callsInBody(cl, func(cc *ssa.CallCommon) bool { return cc.StaticCallee() == f })
			role := "last-segment"
			if recursive {
				role = "inner-segment"
			}
			c.forall(rule, searchPkg+".(*Tree).next$"+role, "a variable is bound (addParam with the match's key/value) only after the match was found and — for an inner segment — the search below it succeeded, for the last segment the node carries an item which becomes the result; true is returned exactly then", cl, cps, func(p *px.Path) (bool, string) {
				if p.Exit != px.ExitReturn {
					return true, ""
				}
				m := p.First(mt)
				if m == nil {
					return false, "match not consulted"
				}
				success := false
				foundT := false
				for _, b := range p.All(px.KindIs(px.EvBranch)) {
					if px.IsFieldLoad(b.Cond, "found", nil) || (b.Cond.Kind == px.KField && b.Cond.FieldVar().Name() == "found") {
						foundT = b.Taken
					}
				}
				if recursive {
					r := p.First(rec)
					success = foundT && r != nil && p.Abs(r.Res).K == px.True
					if r != nil && !foundT {
						return false, "the subtree is searched although the segment did not match"
					}
					if r != nil {
						// searches the child handed to the callback with the rest of the route and the same result
						if !isParam(r.Call.Args[1], cl.Params[1]) {
							return false, "the recursion does not search the visited child"
						}
					}
				} else {
					itemOK := false
					for _, b := range p.All(px.KindIs(px.EvBranch)) {
						cnd := b.Cond.Strip(true)
						if cnd.Kind == px.KBinOp && px.IsNilConst(cnd.Y) && px.IsFieldLoad(cnd.X, "item", func(bb *px.Sym) bool { return isParam(bb, cl.Params[1]) }) {
							itemOK = (cnd.Op == token.NEQ) == b.Taken
						}
					}
					success = foundT && itemOK
					stored := false
					for _, e := range p.All(px.KindIs(px.EvStore)) {
						if _, n, ok := e.Addr.FieldAddrOf(); ok && n == "Item" {
							stored = px.IsFieldLoad(e.Val, "item", func(bb *px.Sym) bool { return isParam(bb, cl.Params[1]) })
							if !success {
								return false, "a result item is recorded for a node that did not match or carries no item"
							}
						}
					}
					if success && !stored {
						return false, "the matching leaf's item is not recorded as the result"
					}
				}
				aps := p.All(ap)
				if !success && len(aps) > 0 {
					return false, "a path variable is bound although this branch of the search did not succeed: after backtracking the handler receives a variable of a route that was not chosen"
				}
				got := p.Abs(p.Results[0]).K
				if success != (got == px.True) {
					return false, fmt.Sprintf("returns %v although success=%v", got == px.True, success)
				}
				if success {
					named := 0
					for _, b := range p.All(px.KindIs(px.EvBranch)) {
						if px.IsFieldLoad(b.Cond, "named", nil) {
							named = triOf(b.Taken)
						}
					}
					if named == 1 && len(aps) != 1 {
						return false, "a matched variable segment is not bound"
					}
					if named == -1 && len(aps) != 0 {
						return false, "a literal segment binds a variable"
					}
					for _, a := range aps {
						if !px.IsFieldLoad(a.Call.Args[1], "key", nil) || !px.IsFieldLoad(a.Call.Args[2], "value", nil) {
							return false, "addParam does not get the match's key and value"
						}
					}
				}
				return true, ""
			})
		}
		ps := c.paths(rule, f, px.Config{MaxVisits: 2})
		c.forall(rule, searchPkg+".(*Tree).next", "an exhausted route matches a node only if it carries an item (which becomes the result)", f, ps, func(p *px.Path) (bool, string) {
			if p.Exit != px.ExitReturn {
				return true, ""
			}
			if p.Has(calleeIs(searchPkg + ".(*node).forEach")) {
				fe := p.Last(calleeIs(searchPkg + ".(*node).forEach"))
				if p.Results[0].Strip(false) != fe.Res {
					return false, "forEach's verdict is not returned"
				}
				return true, ""
			}
			// no child was visited: this is only allowed for the exhausted route at a node that carries an item
			if p.Abs(p.Results[0]).K != px.True {
				return false, "the search gives up without visiting the node's children: an exhausted route at a node without an item must still try the children with the empty segment (a `/:id` route matches `/` with id=\"\")"
			}
			ok := false
			for _, e := range p.All(px.KindIs(px.EvStore)) {
				if _, n, isF := e.Addr.FieldAddrOf(); isF && n == "Item" && px.IsFieldLoad(e.Val, "item", nil) {
					ok = true
				}
			}
			if !ok {
				return false, "true without recording the node's item"
			}
			itemSeen := false
			for _, b := range p.All(px.KindIs(px.EvBranch)) {
				cnd := b.Cond.Strip(true)
				if cnd.Kind == px.KBinOp && px.IsNilConst(cnd.Y) && px.IsFieldLoad(cnd.X, "item", nil) && (cnd.Op == token.NEQ) == b.Taken {
					itemSeen = true
				}
			}
			if !itemSeen {
				return false, "a node is reported as the match without having established that it carries an item"
			}
			return true, ""
		})
	}
	if f := c.fn(rule, searchPkg, "addParam"); f != nil {
		ps := c.paths(rule, f, px.Config{})
		c.forall(rule, searchPkg+".addParam", "Params[k] = v (map created on first use)", f, ps, func(p *px.Path) (bool, string) {
			mu := p.All(px.KindIs(px.EvMapUpdate))
			if len(mu) != 1 || !isParam(mu[0].Key, f.Params[1]) || !isParam(mu[0].Val, f.Params[2]) {
				return false, "the variable is not stored as Params[k] = v"
			}
			return true, ""
		})
	}
	c.R.Min(rule, 4, "two next closures, next, addParam")
}

func c09dispatch(c *Ctx) { c09dispatchAs(c, "C09.R2", "C09.R5") }

// c09dispatchAs runs the dispatch rules under other rule ids too (C18: which methods reach a handler behind a gate).
func c09dispatchAs(c *Ctx, r2, r5 string) {
	rule := r2
	f := c.fn(rule, routerPkg, "(*patRouter).ServeHTTP")
	if f == nil {
		return
	}
	ps := c.paths(rule, f, px.Config{})
	clean := calleeIs("path.Clean")
	search := calleeIs(searchPkg + ".(*Tree).Search")
	ma := calleeIs(routerPkg + ".(*patRouter).methodsAllowed")
	rP := f.Params[2]
	c.forall(rule, routerPkg+".(*patRouter).ServeHTTP#clean", "the path that is searched and the path used for the 405 computation are both path.Clean(r.URL.Path) — the same normal form under which routes are registered", f, ps, func(p *px.Path) (bool, string) {
		cl := p.All(clean)
		if len(cl) != 1 {
			return false, "the request path is not cleaned exactly once"
		}
		if !fieldLoadDeep(cl[0].Call.Args[0], "Path", nil) || !dependsOn(p, cl[0].Call.Args[0], p.ParamSym(rP)) {
			return false, "the cleaned value is not r.URL.Path"
		}
		for _, s := range p.All(search) {
			if s.Call.Args[1].Strip(false) != cl[0].Res {
				return false, "the tree is searched with an uncleaned path"
			}
		}
		for _, m := range p.All(ma) {
			if m.Call.Args[2].Strip(false) != cl[0].Res {
				return false, "the 405/Allow computation uses the raw request path while routes are registered and searched in cleaned form: paths needing cleaning get 404 instead of 405 (and vice versa)"
			}
			if !fieldLoadDeep(m.Call.Args[1], "Method", nil) {
				return false, "methodsAllowed is not given the request's method"
			}
		}
		return true, ""
	})
	rule = r5
	isServe := func(e *px.Event) bool {
		return e.Kind == px.EvCall && e.Call.Method != nil && e.Call.Method.Name() == "ServeHTTP"
	}
	c.forall(rule, routerPkg+".(*patRouter).ServeHTTP", "found ⇒ the route's handler runs exactly once (with the bound variables attached when there are any) and nothing else is written; not found ⇒ 404 handler iff no other method matches, else the 405 handler or Allow header followed by status 405", f, ps, func(p *px.Path) (bool, string) {
		if p.Exit != px.ExitReturn {
			return true, ""
		}
		ss := p.All(search)
		found := len(ss) == 1 && func() bool { o := findExtract(p, ss[0].Res, 1); return o != nil && p.Abs(o).K == px.True }()
		serves := p.All(isServe)
		if len(ss) == 1 {
			lk := p.First(px.KindIs(px.EvLookup))
			if lk == nil || !fieldLoadDeep(lk.Key, "Method", nil) {
				return false, "the searched tree is not trees[r.Method]"
			}
		}
		if found {
			if len(serves) != 1 || p.Has(ma) {
				return false, "a matched request does not run exactly its handler"
			}
			h := serves[0].Call.Recv.Strip(false)
			if h.Kind != px.KTypeAssert || !dependsOn(p, h, ss[0].Res) {
				return false, "the handler that runs is not the search result's item"
			}
			wv := p.All(calleeIs("rest/pathvar.WithVars"))
			// (round 6) exactly the bound segments: nothing rewrites a map between the search and the hand-over (the
			// server already decoded the path once; decoding the values again turns a literal %25 into '%', %252F into '/')
			if mu := p.First(px.KindIs(px.EvMapUpdate)); mu != nil {
				return false, "a map is rewritten at " + c.P.Pos(mu.Pos) + " between the search and the handler: the delivered variables are no longer the segments the route bound"
			}
			// variables attached iff non-empty
			nonEmpty := 0
			for _, b := range p.All(px.KindIs(px.EvBranch)) {
				cnd := b.Cond.Strip(true)
				if cnd.Kind == px.KBinOp && isLenOf(cnd.X, func(x *px.Sym) bool { return true }) {
					if z, ok := constInt(p, cnd.Y); ok && z == 0 {
						nonEmpty = triOf((cnd.Op == token.GTR) == b.Taken)
					}
				}
			}
			if nonEmpty == 1 {
				if len(wv) != 1 || serves[0].Call.Args[1].Strip(false) != wv[0].Res {
					return false, "bound variables are not attached to the request handed to the handler"
				}
				if !dependsOn(p, wv[0].Call.Args[1], ss[0].Res) {
					return false, "attached variables are not the search result's"
				}
			}
			return true, ""
		}
		mas := p.All(ma)
		if len(mas) != 1 {
			return false, "unmatched request: methodsAllowed not consulted exactly once"
		}
		okS := findExtract(p, mas[0].Res, 1)
		nf := p.All(calleeIs(routerPkg + ".(*patRouter).handleNotFound"))
		wh := p.All(px.Iface("WriteHeader", nil))
		switch p.Abs(okS).K {
		case px.False:
			if len(nf) != 1 || len(serves) != 0 || len(wh) != 0 {
				return false, "no other method matches but the request is not answered by the not-found handler"
			}
		case px.True:
			if len(nf) != 0 {
				return false, "another method matches but 404 is answered"
			}
			if len(serves) == 1 {
				if !px.IsFieldLoad(serves[0].Call.Recv, "notAllowed", nil) {
					return false, "405 is delegated to something other than the configured handler"
				}
				return true, ""
			}
			if len(wh) != 1 {
				return false, "status not written exactly once"
			}
			if a := p.Abs(wh[0].Call.Args[0]); a.K != px.ConstV || !numEq(a.C, constantInt(405)) {
				return false, "status is not 405"
			}
			set := p.All(calleeIs("net/http.(Header).Set"))
			if len(set) != 1 || set[0].Seq > wh[0].Seq {
				return false, "the Allow header is not set before the status is written"
			}
			if n, ok := strConst(p, set[0].Call.Args[1]); !ok || n != "Allow" {
				return false, "header name is not Allow"
			}
			if set[0].Call.Args[2].Strip(false) != findExtract(p, mas[0].Res, 0) {
				return false, "the Allow value is not the computed method list"
			}
		default:
			return false, "methodsAllowed's verdict is not tested"
		}
		return true, ""
	})
	if g := c.fn(rule, routerPkg, "(*patRouter).methodsAllowed"); g != nil {
		gps := c.paths(rule, g, px.Config{MaxVisits: 2})
		methodP, pathP := g.Params[1], g.Params[2]
		c.forall(rule, routerPkg+".(*patRouter).methodsAllowed", "the request's own method is skipped; another method is listed iff its tree matches the same path; (list, true) iff the list is non-empty", g, gps, func(p *px.Path) (bool, string) {
			// per iteration: segment by Next events? use branch on treeMethod == method and Search calls
			var pendingSkip *bool
			searched := false
			for i := range p.Events {
				e := &p.Events[i]
				switch {
				case e.Kind == px.EvBranch:
					cnd := e.Cond.Strip(true)
					if cnd.Kind == px.KBinOp && (cnd.Op == token.EQL || cnd.Op == token.NEQ) && (isParam(cnd.X, methodP) || isParam(cnd.Y, methodP)) {
						same := (cnd.Op == token.EQL) == e.Taken
						pendingSkip = &same
						searched = false
					}
				case e.Kind == px.EvCall && e.Call.Builtin == "append" && !e.Inlined:
					// "matches" in the 405/Allow computation must be the dispatcher's notion of a match: the very function
					// ServeHTTP dispatches with (Tree.Search). A second matcher (an existence-only walk, a cache of
					// registered patterns) cannot be shown to agree with it on every route table and path.
					if !searched {
						return false, "a method is listed in Allow without consulting Tree.Search — the matcher the dispatcher uses — for this method's tree (a different matcher may disagree with dispatching, e.g. when a literal child is a dead end and the variable sibling matches)"
					}
				case search(e):
					searched = true
					if pendingSkip == nil {
						return false, "a tree is searched without comparing its method with the request's"
					}
					if *pendingSkip {
						return false, "the request's own method is searched again (it would be listed in Allow)"
					}
					if !isParam(e.Call.Args[1], pathP) {
						return false, "another path is searched"
					}
					pendingSkip = nil
					// listed iff ok
					okS := findExtract(p, e.Res, 1)
					appended := false
					for j := i + 1; j < len(p.Events); j++ {
						x := &p.Events[j]
						if search(x) || x.Kind == px.EvReturn {
							break
						}
						if x.Kind == px.EvBranch && isBranchOnMethod(x, methodP) {
							break
						}
						if x.Kind == px.EvCall && x.Call.Builtin == "append" {
							appended = true
						}
					}
					if okS != nil && p.Abs(okS).K == px.True && !appended && p.Exit != px.ExitCut {
						return false, "a matching method is not listed"
					}
					if okS != nil && p.Abs(okS).K == px.False && appended {
						return false, "a non-matching method is listed"
					}
				}
			}
			if p.Exit == px.ExitReturn {
				any := p.Has(func(e *px.Event) bool { return e.Kind == px.EvCall && e.Call.Builtin == "append" })
				got := p.Abs(p.Results[1]).K
				if any && got != px.True {
					// the only way there is the (infeasible) branch len(appended list) <= 0
					infeasible := false
					for _, b := range p.All(px.KindIs(px.EvBranch)) {
						cnd := b.Cond.Strip(true)
						if cnd.Kind == px.KBinOp && isLenOf(cnd.X, func(x *px.Sym) bool {
							x = x.Strip(false)
							return x.Kind == px.KCall && x.Call.Builtin == "append"
						}) {
							if z, ok := constInt(p, cnd.Y); ok && z == 0 && (cnd.Op == token.GTR) != b.Taken {
								infeasible = true
							}
						}
					}
					if !infeasible {
						return false, "a non-empty list is reported as not allowed"
					}
				}
				if !any && got == px.True {
					return false, "an empty list is reported as allowed"
				}
			}
			return true, ""
		})
	}
	c.R.Min(r2, 1, "ServeHTTP#clean")
	c.R.Min(r5, 2, "ServeHTTP, methodsAllowed")
}

func isBranchOnMethod(e *px.Event, methodP *ssa.Parameter) bool {
	cnd := e.Cond.Strip(true)
	return cnd.Kind == px.KBinOp && (isParam(cnd.X, methodP) || isParam(cnd.Y, methodP))
}

// c09options: route options rebuild the route list instead of editing the caller's routes in place.
func c09options(c *Ctx) {
	rule := "C09.R6"
	f := c.fn(rule, "rest", "WithPrefix")
	if f == nil {
		return
	}
	cl := c.closure(rule, f, "route option closure", func(a *ssa.Function) bool { return a.Parent() == f })
	if cl == nil {
		return
	}
	ps := c.paths(rule, cl, px.Config{MaxVisits: 2})
	rP := cl.Params[0]
	c.forall(rule, "rest.WithPrefix$option", "the prefixed routes are built into a new slice (path = path.Join(prefix, route path), method and handler kept) that replaces r.routes; the caller's own Route values are not modified (the same route slice may be mounted again)", cl, ps, func(p *px.Path) (bool, string) {
		if p.Exit == px.ExitCut {
			return true, ""
		}
		for _, e := range p.All(px.KindIs(px.EvStore)) {
			a := e.Addr
			for d := 0; d < 4 && a != nil; d++ {
				if a.Kind == px.KIndexAddr && px.IsFieldLoad(a.X, "routes", func(b *px.Sym) bool { return isParam(b, rP) }) {
					return false, "a route of the incoming slice is modified in place: the prefix is written into the caller's own routes, so mounting the same slice again (another prefix, or no prefix) registers wrong, duplicated paths"
				}
				a = a.X
			}
		}
		if p.Exit == px.ExitReturn {
			var repl *px.Event
			for _, e := range p.All(px.KindIs(px.EvStore)) {
				if px.FieldAddrIs(e.Addr, "routes", func(b *px.Sym) bool { return isParam(b, rP) }) {
					repl = e
				}
			}
			if repl == nil {
				return false, "r.routes is not replaced"
			}
			for _, j := range p.All(calleeIs("path.Join")) {
				els := p.SliceElems(j.Call.Args[0])
				if len(els) != 2 || !fieldLoadDeep(els[1], "Path", nil) {
					return false, "the new path is not path.Join(prefix, route.Path)"
				}
				if g := els[0].Strip(false); !(g.Kind == px.KFreeVar || (g.Kind == px.KLoad && g.X != nil && g.X.Kind == px.KFreeVar)) {
					return false, "the first component is not the configured prefix"
				}
			}
		}
		return true, ""
	})
}

// c09untouchedPath (C09.R7): what reaches the router is the client's path. A middleware in front of
// the router (file serving, …) that rewrites r.URL.Path may do so only on paths where it answers the
// request itself; on every path that passes the request on to the wrapped handler (`next`, a
// parameter of an enclosing function) no field of r.URL has been stored — otherwise the router
// matches a shortened path: wrong route, wrong variables, or a 404 for a registered route
// (seed r3-C09-1).
func c09untouchedPath(c *Ctx) {
	rule := "C09.R7"
	n := 0
	for _, pkg := range []string{"rest/internal/fileserver", "rest/handler", "rest", "rest/internal/cors", "rest/chain"} {
		for _, f := range c.P.AllFuncs(pkg) {
			// handler-shaped functions that store into a url.URL
			if f.Signature.Params().Len() != 2 || typeString(f.Signature.Params().At(1).Type()) != "*net/http.Request" {
				continue
			}
			writes := false
			for _, b := range f.Blocks {
				for _, ins := range b.Instrs {
					if st, ok := ins.(*ssa.Store); ok {
						if fa, ok := st.Addr.(*ssa.FieldAddr); ok {
							if pt, ok := fa.X.Type().Underlying().(*types.Pointer); ok && typeString(pt.Elem()) == "net/url.URL" {
								writes = true
							}
						}
					}
				}
			}
			if !writes {
				continue
			}
			n++
			ps := c.paths(rule, f, px.Config{MaxVisits: 2})
			name := pkg + "." + f.Name()
			if f.Parent() != nil {
				name = pkg + "." + f.Parent().Name() + "$handler"
				if f.Parent().Parent() != nil {
					name = pkg + "." + f.Parent().Parent().Name() + "$handler"
				}
			}
			c.forall(rule, name, "on every path that hands the request to the wrapped handler, r.URL has not been modified", f, ps, func(p *px.Path) (bool, string) {
				touched := ""
				for i := range p.Events {
					e := &p.Events[i]
					if e.Kind == px.EvStore && e.Addr != nil && e.Addr.Kind == px.KFieldAddr && e.Addr.X != nil {
						if pt, ok := e.Addr.X.Typ.Underlying().(*types.Pointer); ok && typeString(pt.Elem()) == "net/url.URL" {
							touched = c.P.Pos(e.Instr.Pos())
						}
					}
					if e.Kind == px.EvCall && touched != "" {
						// the wrapped handler: a function value / receiver that is a parameter of an enclosing function
						var fv *px.Sym
						if e.Call.IsDyn() {
							fv = e.Call.FnSym
						} else if e.Call.Method != nil && e.Call.Method.Name() == "ServeHTTP" {
							fv = e.Call.Recv
						}
						if fv != nil && fromOuterParam(fv, f) {
							return false, fmt.Sprintf("r.URL is rewritten at %s and the request is then passed on to the wrapped handler at %s: the router sees the rewritten path", touched, c.P.Pos(e.Instr.Pos()))
						}
					}
				}
				return true, ""
			})
		}
	}
	c.R.Min(rule, 1, "request-rewriting middlewares (file server)")
}

// fromOuterParam: s is a parameter of a function enclosing f (captured directly or through the cell
// the compiler spills a captured parameter to).
func fromOuterParam(s *px.Sym, f *ssa.Function) bool {
	s = s.Strip(false)
	if s == nil || s.V == nil {
		return false
	}
	in := f
	if ins, ok := s.V.(ssa.Instruction); ok && ins.Parent() != nil {
		in = ins.Parent()
	} else if fv, ok := s.V.(*ssa.FreeVar); ok {
		in = fv.Parent()
	}
	for _, v := range reachingDefs(s.V, in, 0) {
		if prm, ok := v.(*ssa.Parameter); ok && prm.Parent() != f {
			return true
		}
	}
	return false
}

// c09ownedVars (R8, round 5): the variables delivered to a handler belong to that request for as long as the handler
// (or anything it started) may look at them. Every map stored into search.Result.Params anywhere in the module is a
// map made by that search (make(map…)) or nil — not one taken from a pool or a package-level variable — so nothing
// can clear or refill it once the router has returned (a handler still running after a timeout, a goroutine holding
// the request, would read another request's variables: seed r5-C09-1).
func c09ownedVars(c *Ctx) {
	rule := "C09.R8"
	var bad []string
	sites := 0
	for _, pk := range c.P.Pkgs {
		rel := strings.TrimPrefix(pk.PkgPath, mod)
		for _, f := range c.P.AllFuncs(rel) {
			for _, b := range f.Blocks {
				for _, ins := range b.Instrs {
					st, ok := ins.(*ssa.Store)
					if !ok {
						continue
					}
					fa, ok := st.Addr.(*ssa.FieldAddr)
					if !ok || fieldNameOf(fa) != "Params" || !strings.HasSuffix(typeString(fa.X.Type()), searchPkg+".Result") {
						continue
					}
					sites++
					for _, d := range reachingDefs(st.Val, f, 0) {
						switch x := d.(type) {
						case *ssa.MakeMap:
						case *ssa.Const:
						default:
							_ = x
							bad = append(bad, fmt.Sprintf("%s: %s stores into Result.Params a map that is not made by this search (%s): it can be recycled or shared while a handler still reads it", c.P.Pos(st.Pos()), funcDisplay(f), describeDef(c, d)))
						}
					}
				}
			}
		}
	}
	sort.Strings(bad)
	c.R.Check(len(bad) == 0 && sites >= 1, rule, searchPkg+".Result.Params#owned", "the path-variable map of a search result is a map made by that search (or nil), never a pooled or shared one", "-", fmt.Sprintf("%d stores; %s", sites, strings.Join(bad, "; ")), bad, sites)
}

// c09defaultNotAllowed (R12, round 6): the router writes the Allow header itself only while no custom not-allowed
// handler is installed (patRouter.ServeHTTP, checked by R5). A server built with default options must therefore leave
// that handler unset: the functions of package rest that (through the option they return) call SetNotAllowedHandler —
// WithNotAllowedHandler and the CORS options — are called by no function of the module; they are reached only through
// options the application passes. A "405s should be traced like 404s" default wrapper installed by NewServer makes
// every server answer 405 without Allow.
func c09defaultNotAllowed(c *Ctx) {
	rule := "C09.R12"
	const restPkg = "rest"
	setters := map[*ssa.Function]bool{}
	for _, f := range c.P.AllFuncs(restPkg) {
		for _, b := range f.Blocks {
			for _, ins := range b.Instrs {
				ci, ok := ins.(ssa.CallInstruction)
				if !ok {
					continue
				}
				cc := ci.Common()
				name := ""
				if cc.IsInvoke() {
					name = cc.Method.Name()
				} else if sc := cc.StaticCallee(); sc != nil {
					name = sc.Name()
				}
				if name != "SetNotAllowedHandler" {
					continue
				}
				root := f
				for root.Parent() != nil {
					root = root.Parent()
				}
				setters[root] = true
			}
		}
	}
	if len(setters) < 2 {
		c.R.Undecided(rule, restPkg+"#setters", "the options that install a not-allowed handler are recognised", fmt.Sprintf("%d found", len(setters)))
		return
	}
	var bad []string
	scanned := 0
	for _, pk := range c.P.Pkgs {
		if !strings.HasPrefix(pk.PkgPath, strings.TrimSuffix(mod, "/")) {
			continue
		}
		for _, f := range c.P.AllFuncs(strings.TrimPrefix(pk.PkgPath, mod)) {
			scanned++
			root := f
			for root.Parent() != nil {
				root = root.Parent()
			}
			for _, b := range f.Blocks {
				for _, ins := range b.Instrs {
					for _, op := range ins.Operands(nil) {
						if fv, ok := (*op).(*ssa.Function); ok && setters[fv] && !setters[root] {
							bad = append(bad, fmt.Sprintf("%s: %s uses %s, which installs a not-allowed handler: with one installed the router no longer writes the Allow header of a 405", c.P.Pos(ins.Pos()), funcDisplay(f), fv.Name()))
						}
					}
				}
			}
		}
	}
	sort.Strings(bad)
	var names []string
	for f := range setters {
		names = append(names, f.Name())
	}
	sort.Strings(names)
	c.R.Check(len(bad) == 0, rule, restPkg+"#default-not-allowed", "no function of the module installs a not-allowed handler on its own; only options passed by the application do ("+strings.Join(names, ", ")+")", "-", fmt.Sprintf("%d functions scanned; %s", scanned, strings.Join(bad, "; ")), bad, len(setters))
}
