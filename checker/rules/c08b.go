package rules

import (
	"fmt"
	"go/constant"
	"go/token"
	"go/types"
	"sort"
	"strings"

	"golang.org/x/tools/go/ssa"

	"gzverify/px"
)

// c08adapters (R10, round 4): the request-side adapters build the untyped parameter map from the request's own
// collections *without* rewriting the values: what the typed unmarshaller validates and stores is what the client
// supplied. Between a value taken out of the ranged collection (header values, form values, path variables) and
// the map store there is no call that receives that value (or the slice holding it): splitting, trimming or
// re-joining before the member's type is known changes the input for members that need it raw — a scalar string
// header containing a comma arrives as a slice and is rejected (seed r4-C08-3).
func c08adapters(c *Ctx) {
	rule := "C08.R10"
	for _, a := range []struct{ pkg, fn string }{
		{"rest/internal/encoding", "ParseHeaders"},
		{"rest/httpx", "GetFormValues"},
		{"rest/httpx", "ParsePath"},
	} {
		f := c.fn(rule, a.pkg, a.fn)
		if f == nil {
			continue
		}
		// element values: whatever comes out of a range/index over a collection
		isElem := func(v ssa.Value) bool {
			switch x := v.(type) {
			case *ssa.Next:
				return true
			case *ssa.Extract:
				_, ok := x.Tuple.(*ssa.Next)
				return ok
			case *ssa.Index, *ssa.IndexAddr, *ssa.Lookup:
				return true
			}
			return false
		}
		var dependsOnElem func(v ssa.Value, seen map[ssa.Value]bool) bool
		dependsOnElem = func(v ssa.Value, seen map[ssa.Value]bool) bool {
			if v == nil || seen[v] {
				return false
			}
			seen[v] = true
			if isElem(v) {
				return true
			}
			switch x := v.(type) {
			case *ssa.Phi:
				for _, e := range x.Edges {
					if dependsOnElem(e, seen) {
						return true
					}
				}
			case *ssa.UnOp:
				if al, ok := x.X.(*ssa.Alloc); ok {
					for _, r := range *al.Referrers() {
						if st, ok := r.(*ssa.Store); ok && st.Addr == al && dependsOnElem(st.Val, seen) {
							return true
						}
					}
					return false
				}
				return dependsOnElem(x.X, seen)
			case *ssa.Slice:
				return dependsOnElem(x.X, seen)
			case *ssa.MakeInterface:
				return dependsOnElem(x.X, seen)
			case *ssa.ChangeType:
				return dependsOnElem(x.X, seen)
			case *ssa.Convert:
				return dependsOnElem(x.X, seen)
			case *ssa.Call:
				for _, a := range x.Call.Args {
					if dependsOnElem(a, seen) {
						return true
					}
				}
			}
			return false
		}
		var bad []string
		stores := 0
		seen := map[ssa.Value]bool{}
		var slice func(v ssa.Value)
		slice = func(v ssa.Value) {
			if v == nil || seen[v] {
				return
			}
			seen[v] = true
			switch x := v.(type) {
			case *ssa.Call:
				if b, ok := x.Call.Value.(*ssa.Builtin); ok {
					switch b.Name() {
					case "append", "make", "len", "cap", "copy", "new":
						for _, a := range x.Call.Args {
							slice(a)
						}
						return
					}
				}
				if dependsOnElem(x, map[ssa.Value]bool{}) {
					bad = append(bad, fmt.Sprintf("%s: a supplied value passes through %s before the typed unmarshaller sees it", c.P.Pos(x.Pos()), calleeName(x.Common())))
				}
				return
			case *ssa.Phi:
				for _, e := range x.Edges {
					slice(e)
				}
			case *ssa.UnOp:
				if al, ok := x.X.(*ssa.Alloc); ok {
					for _, r := range *al.Referrers() {
						if st, ok := r.(*ssa.Store); ok && st.Addr == al {
							slice(st.Val)
						}
					}
					return
				}
				slice(x.X)
			case *ssa.Slice:
				slice(x.X)
			case *ssa.Alloc:
				// the array behind a variadic pack (append(list, v)): what was stored into its cells
				for _, r := range *x.Referrers() {
					if ia, ok := r.(*ssa.IndexAddr); ok {
						for _, r2 := range *ia.Referrers() {
							if st, ok := r2.(*ssa.Store); ok && st.Addr == ssa.Value(ia) {
								slice(st.Val)
							}
						}
					}
				}
			case *ssa.MakeInterface:
				slice(x.X)
			case *ssa.ChangeType:
				slice(x.X)
			case *ssa.Convert:
				slice(x.X)
			case *ssa.Extract:
				slice(x.Tuple)
			case *ssa.IndexAddr:
				slice(x.X)
			case *ssa.Index:
				slice(x.X)
			case *ssa.BinOp:
				// string concatenation / arithmetic on a supplied value is a rewrite as well
				if dependsOnElem(x.X, map[ssa.Value]bool{}) || dependsOnElem(x.Y, map[ssa.Value]bool{}) {
					bad = append(bad, fmt.Sprintf("%s: a supplied value is combined by %s before the typed unmarshaller sees it", c.P.Pos(x.Pos()), x.Op))
				}
			}
		}
		for _, b := range f.Blocks {
			for _, ins := range b.Instrs {
				if mu, ok := ins.(*ssa.MapUpdate); ok {
					stores++
					slice(mu.Value)
				}
			}
		}
		sort.Strings(bad)
		if stores == 0 {
			c.R.Undecided(rule, a.pkg+"."+a.fn, "the parameter map is filled here", "no map store found")
			continue
		}
		// (round 6) the adapter reads the request and does not write it: every append and every element store goes
		// into storage the adapter made itself. `filtered := values[:0]` over a ranged request collection compacts
		// the survivors over the request's own backing array — the first parse is right, every later reading of the
		// same request (a middleware, then the handler) sees values nobody supplied.
		var owned func(v ssa.Value, seen map[ssa.Value]bool) string
		owned = func(v ssa.Value, seen map[ssa.Value]bool) string {
			if v == nil || seen[v] {
				return ""
			}
			seen[v] = true
			switch x := v.(type) {
			case *ssa.MakeSlice, *ssa.Alloc, *ssa.MakeMap:
				return ""
			case *ssa.Const:
				return ""
			case *ssa.Phi:
				for _, e := range x.Edges {
					if r := owned(e, seen); r != "" {
						return r
					}
				}
				return ""
			case *ssa.Slice:
				return owned(x.X, seen)
			case *ssa.ChangeType:
				return owned(x.X, seen)
			case *ssa.UnOp:
				if al, ok := x.X.(*ssa.Alloc); ok && x.Op == token.MUL {
					for _, r := range *al.Referrers() {
						if st, ok := r.(*ssa.Store); ok && st.Addr == al {
							if r := owned(st.Val, seen); r != "" {
								return r
							}
						}
					}
					return ""
				}
			case *ssa.Call:
				if b, ok := x.Call.Value.(*ssa.Builtin); ok && b.Name() == "append" {
					return owned(x.Call.Args[0], seen)
				}
				if returnsFreshAlloc(x.Call.StaticCallee()) {
					return ""
				}
			}
			return fmt.Sprintf("%s (%T)", v.Name(), v)
		}
		writes := 0
		var wbad []string
		for _, b := range f.Blocks {
			for _, ins := range b.Instrs {
				switch x := ins.(type) {
				case *ssa.Call:
					if bi, ok := x.Call.Value.(*ssa.Builtin); ok && bi.Name() == "append" {
						writes++
						if r := owned(x.Call.Args[0], map[ssa.Value]bool{}); r != "" {
							wbad = append(wbad, fmt.Sprintf("%s: append writes into storage the adapter did not allocate (%s): the request's own collection is rewritten in place", c.P.Pos(x.Pos()), r))
						}
					}
				case *ssa.Store:
					if ia, ok := x.Addr.(*ssa.IndexAddr); ok {
						writes++
						if r := owned(ia.X, map[ssa.Value]bool{}); r != "" {
							wbad = append(wbad, fmt.Sprintf("%s: element store into storage the adapter did not allocate (%s)", c.P.Pos(x.Pos()), r))
						}
					}
				case *ssa.MapUpdate:
					writes++
					if r := owned(x.Map, map[ssa.Value]bool{}); r != "" {
						wbad = append(wbad, fmt.Sprintf("%s: map store into a map the adapter did not make (%s)", c.P.Pos(x.Pos()), r))
					}
				}
			}
		}
		sort.Strings(wbad)
		c.R.Check(len(wbad) == 0, rule, a.pkg+"."+a.fn+"#request-untouched", "every append, element store and map store in the adapter targets storage the adapter allocated (make, literal, nil): the request's own collections are read, never rewritten", posOf(c, f), fmt.Sprintf("%d writes; %s", writes, strings.Join(wbad, "; ")), wbad, writes)
		c.R.Check(len(bad) == 0, rule, a.pkg+"."+a.fn, "values go from the request's collection into the parameter map unchanged (range, index, slice and append only — no call or operator rewrites a supplied value before its member's type is known)", posOf(c, f), strings.Join(bad, "; "), bad, stores)
	}
	c.R.Min(rule, 6, "ParseHeaders, GetFormValues, ParsePath (values unchanged + request untouched)")
}

// c08rangeFunnel (R4b, round 5): one comparator decides "inside the declared range", the one whose 36-row table
// R4 verifies. Both range validators return, on every path, nil for an absent range, the error of a failed
// conversion, or the verdict of validateNumberRange(value, opts.Range) — never the verdict of a second comparator
// whose table nobody checked (seed r5-C08-2: an int64 fast path that truncates fractional range ends).
func c08rangeFunnel(c *Ctx, pkg string) {
	rule := "C08.R4"
	for _, name := range []string{"validateJsonNumberRange", "validateValueRange"} {
		f := c.fn(rule, pkg, name)
		if f == nil {
			continue
		}
		optsP := paramOfType(f, "*core/mapping.fieldOptionsWithContext")
		ps := c.paths(rule, f, px.Config{})
		vnr := calleeIs(pkg + ".validateNumberRange")
		c.forall(rule, pkg+"."+name+"#funnel", "a supplied number is accepted only by validateNumberRange(value, opts.Range) — the comparator whose decision table is verified — or because no range is declared; failures are conversion errors or its verdict", f, ps, func(p *px.Path) (bool, string) {
			if p.Exit != px.ExitReturn || len(p.Results) != 1 {
				return true, ""
			}
			r := p.Results[0].Strip(false)
			if r.Kind == px.KCall && r.Call != nil {
				if shortName(r.Call) != pkg+".validateNumberRange" {
					// a returned call result: only conversion errors may come from elsewhere, and they are non-nil
					if p.Abs(r).K == px.NonNil {
						return true, ""
					}
					return false, "the verdict comes from " + r.Call.Name() + ", not from validateNumberRange (a second comparator can disagree with the verified one, e.g. on fractional range ends)"
				}
				if optsP != nil && (len(r.Call.Args) != 2 || !px.IsFieldLoad(r.Call.Args[1], "Range", func(b *px.Sym) bool { return isParam(b, optsP) })) {
					return false, "validateNumberRange is not given the field's own range"
				}
				return true, ""
			}
			if p.Abs(r).K == px.Nil || px.IsNilConst(r) {
				// accepted without the comparator: only when no range is declared
				if p.Has(vnr) {
					return true, ""
				}
				for _, b := range p.All(px.KindIs(px.EvBranch)) {
					cnd := b.Cond.Strip(false)
					if cnd.Kind == px.KBinOp && (cnd.Op == token.EQL || cnd.Op == token.NEQ) {
						isNilTest := (cnd.Op == token.EQL) == b.Taken
						if isNilTest && (px.IsFieldLoad(cnd.X, "Range", nil) || (optsP != nil && isParam(cnd.X, optsP))) {
							return true, ""
						}
					}
				}
				return false, "a number is accepted (nil) although a range may be declared and validateNumberRange was not asked"
			}
			return true, "" // a non-nil error (conversion failure, errNumberRange)
		})
	}
}

// c08nullElements (R6b, round 5): "no input panics". A value taken out of a decoded document container — the element
// of a map or slice obtained through reflect's Interface() — is nil for a JSON/YAML null. reflect.TypeOf(nil) is a nil
// Type, so calling a method on reflect.TypeOf(elem) (…String(), …Kind()) panics unless elem was found non-nil on the
// way there: a nil comparison or a successful type assertion on that very value dominates the call
// (seed r5-C08-1: a "type mismatch" hint built from reflect.TypeOf(entry).String() after the assertion had FAILED).
func c08nullElements(c *Ctx, pkg string) {
	rule := "C08.R6"
	var bad []string
	sites := 0
	fromInterface := func(v ssa.Value) bool {
		seen := map[ssa.Value]bool{}
		var rec func(v ssa.Value) bool
		rec = func(v ssa.Value) bool {
			if v == nil || seen[v] {
				return false
			}
			seen[v] = true
			switch x := v.(type) {
			case *ssa.Call:
				return calleeName(x.Common()) == "(reflect.Value).Interface"
			case *ssa.Phi:
				for _, e := range x.Edges {
					if rec(e) {
						return true
					}
				}
			case *ssa.ChangeInterface:
				return rec(x.X)
			case *ssa.Lookup, *ssa.Index:
				return true // element of a decoded map / slice
			case *ssa.UnOp:
				if _, ok := x.X.(*ssa.IndexAddr); ok {
					return true
				}
			case *ssa.Extract:
				if _, ok := x.Tuple.(*ssa.Next); ok {
					return true
				}
			}
			return false
		}
		return rec(v)
	}
	for _, f := range c.P.AllFuncs(pkg) {
		for _, b := range f.Blocks {
			for _, ins := range b.Instrs {
				call, ok := ins.(*ssa.Call)
				if !ok || calleeName(call.Common()) != "reflect.TypeOf" || len(call.Call.Args) != 1 {
					continue
				}
				x := call.Call.Args[0]
				if _, isIface := x.Type().Underlying().(*types.Interface); !isIface || !fromInterface(x) {
					continue
				}
				// is the resulting Type dereferenced?
				var derefs []ssa.Instruction
				for _, r := range *call.Referrers() {
					if ci, ok := r.(ssa.CallInstruction); ok && ci.Common().IsInvoke() && ci.Common().Value == ssa.Value(call) {
						derefs = append(derefs, r)
					}
				}
				if len(derefs) == 0 {
					continue
				}
				sites++
				// blocks in which x is known non-nil: successors of nil tests / successful assertions on x
				var safe []*ssa.BasicBlock
				for _, r := range *x.Referrers() {
					switch u := r.(type) {
					case *ssa.BinOp:
						k, isK := u.Y.(*ssa.Const)
						if !isK || k.Value != nil || u.X != x {
							continue
						}
						for _, br := range *u.Referrers() {
							if iff, ok := br.(*ssa.If); ok {
								if u.Op == token.NEQ {
									safe = append(safe, iff.Block().Succs[0])
								} else if u.Op == token.EQL {
									safe = append(safe, iff.Block().Succs[1])
								}
							}
						}
					case *ssa.TypeAssert:
						if !u.CommaOk {
							safe = append(safe, u.Block()) // a single-value assertion that did not panic
							continue
						}
						for _, er := range *u.Referrers() {
							if ex, ok := er.(*ssa.Extract); ok && ex.Index == 1 {
								for _, br := range *ex.Referrers() {
									if iff, ok := br.(*ssa.If); ok {
										safe = append(safe, iff.Block().Succs[0])
									}
								}
							}
						}
					}
				}
				for _, d := range derefs {
					ok := false
					for _, s := range safe {
						if s.Dominates(d.Block()) && len(s.Preds) == 1 {
							ok = true
						}
					}
					if !ok {
						bad = append(bad, fmt.Sprintf("%s: %s calls a method on reflect.TypeOf(elem) where elem comes out of a decoded container and was not found non-nil on the way: a null element makes it a nil Type and the call panics", c.P.Pos(d.Pos()), funcDisplay(f)))
					}
				}
			}
		}
	}
	sort.Strings(bad)
	c.R.Check(len(bad) == 0, rule, pkg+"#null-elements", "a method is called on reflect.TypeOf(element of a decoded map/slice) only where the element was found non-nil (nil test or successful type assertion dominating the call)", "-", fmt.Sprintf("%d sites; %s", sites, strings.Join(bad, "; ")), bad, sites+1)
}

// c08noBypass (R11, round 5): nothing decodes straight into the typed target. Inside core/mapping a JSON text found in
// the input (a map or slice given as a string) is decoded into a generic container (*[]any, *map[string]any, *any) and
// then filled through the validating unmarshaller, like every other value. A decode whose target is the field itself
// (reflect.Value.Addr().Interface()) lets encoding/json fill nested structs directly: their range/options/required/
// default declarations are never looked at (`M map[string]Inner` given as a JSON string accepted {"a":100} for
// `a range=[1:5]` and an absent required member).
func c08noBypass(c *Ctx, pkg string) {
	rule := "C08.R11"
	sites := 0
	for _, f := range c.P.AllFuncs(pkg) {
		var bad []string
		n := 0
		for _, b := range f.Blocks {
			for _, ins := range b.Instrs {
				call, ok := ins.(ssa.CallInstruction)
				if !ok {
					continue
				}
				nm := calleeName(call.Common())
				if !(strings.HasPrefix(nm, mod+"core/jsonx.Unmarshal") || nm == "encoding/json.Unmarshal" || nm == "(*encoding/json.Decoder).Decode") {
					continue
				}
				n++
				args := call.Common().Args
				tgt := args[len(args)-1]
				for _, d := range reachingDefs(tgt, f, 0) {
					if dc, ok := d.(*ssa.Call); ok && calleeName(dc.Common()) == "(reflect.Value).Interface" {
						bad = append(bad, fmt.Sprintf("%s: a JSON text is decoded straight into the typed target (reflect.Value.…Interface()): nested members are filled by encoding/json, their declared constraints are never checked", c.P.Pos(ins.Pos())))
					}
				}
			}
		}
		if n == 0 {
			continue
		}
		sites += n
		sort.Strings(bad)
		c.R.Check(len(bad) == 0, rule, funcDisplay(f)+"#decode-target", "a JSON decode inside the unmarshaller targets a generic container that is then filled through the validating path, never the typed field itself", posOf(c, f), strings.Join(bad, "; "), bad, n)
	}
	if sites < 3 {
		c.R.Undecided(rule, pkg+"#decode-sites", "the decode sites of the package are recognised", fmt.Sprintf("%d found", sites))
	}
}

// c08inheritOnly (R12, round 6): a value is looked up in an ancestor only for a member that says so. The ancestor
// search is recursiveValuer.Value; the unmarshaller hands a recursiveValuer to a member's lookup in exactly one place,
// createValuer on the branch where the member's options say `inherit`. The walk along a dotted key is not such a place
// (round 7, F42: each remaining part is looked up in the object the previous part named, and there only). Any function wrapping a map in a
// recursiveValuer (a slice element filled "with its parent", say) makes every absent member of that subtree — optional,
// defaulted or required — silently take a same-named value from an enclosing object.
func c08inheritOnly(c *Ctx, pkg string) {
	rule := "C08.R12"
	n := 0
	var bad []string
	gated := false
	for _, f := range c.P.AllFuncs(pkg) {
		for _, b := range f.Blocks {
			for _, ins := range b.Instrs {
				mi, ok := ins.(*ssa.MakeInterface)
				if !ok || !strings.HasSuffix(typeString(mi.X.Type()), "core/mapping.recursiveValuer") {
					continue
				}
				n++
				at := c.P.Pos(mi.Pos())
				if !mi.Pos().IsValid() {
					at = posOf(c, f)
				}
				root := f
				for root.Parent() != nil {
					root = root.Parent()
				}
				name := root.RelString(root.Pkg.Pkg)
				switch name {
				case "simpleValuer.Parent", "recursiveValuer.Parent", "(simpleValuer).Parent", "(recursiveValuer).Parent":
					continue
				case "getValueWithChainedKeys":
					// (round 7) the walk along a dotted key looks each remaining part up in the object the previous part
					// named — in that object only: with the ancestor search a required `a.b` that is absent is "found" as a
					// same-named key of an enclosing object
					bad = append(bad, fmt.Sprintf("%s: the dotted-key walk wraps a step in recursiveValuer: a member `a.b` that was not supplied is satisfied by a key `b` of an enclosing object", at))
				case "createValuer":
					// the construction lies on the true outcome of opts.inherit()
					ok := false
					for d := b; d != nil; d = d.Idom() {
						id := d.Idom()
						if id == nil || len(id.Instrs) == 0 {
							continue
						}
						br, isIf := id.Instrs[len(id.Instrs)-1].(*ssa.If)
						if !isIf {
							continue
						}
						for _, cj := range conjuncts(br.Cond) {
							call, isCall := cj.(*ssa.Call)
							if isCall && strings.HasSuffix(calleeName(call.Common()), "fieldOptionsWithContext).inherit") && id.Succs[0].Dominates(b) && len(id.Succs[0].Preds) == 1 {
								ok = true
							}
						}
					}
					if ok {
						gated = true
						continue
					}
					bad = append(bad, fmt.Sprintf("%s: createValuer builds the ancestor-searching valuer outside the `opts.inherit()` outcome: members that do not declare inherit take values from enclosing objects", at))
				default:
					bad = append(bad, fmt.Sprintf("%s: %s wraps a value in recursiveValuer: every member looked up through it falls back to same-named values of the enclosing objects, whether or not it declares `inherit`", at, name))
				}
			}
		}
	}
	sort.Strings(bad)
	c.R.Check(len(bad) == 0 && gated, rule, pkg+"#ancestor-lookup", "the ancestor-searching valuer is built only by createValuer under opts.inherit() and by the valuers' own Parent methods (not by the dotted-key walk)", "-", fmt.Sprintf("%d constructions; inherit-gated construction found=%v; %s", n, gated, strings.Join(bad, "; ")), bad, n)
	if n < 3 {
		c.R.Undecided(rule, pkg+"#ancestor-sites", "the constructions of recursiveValuer are recognised", fmt.Sprintf("%d found", n))
	}
}

// c08noSharedContainers (R13, round 6): nothing the package keeps for itself becomes part of a target. A package-level
// map or slice of core/mapping may be read (lookup, range, len) but never flows anywhere else — into an interface,
// a struct, a call or a result: the same-type shortcut of generateMap stores a map value it is given in the target as
// it is, so a shared "empty map" handed to the filling path for an absent member is the target's map afterwards, for
// every caller at once (one caller's `v.M["k"] = 1` shows up in the next caller's result, and in the absent nested
// structs filled from it).
func c08noSharedContainers(c *Ctx, pkg string) {
	rule := "C08.R13"
	var bad []string
	loads := 0
	for _, f := range c.P.AllFuncs(pkg) {
		if f.Name() == "init" || strings.HasPrefix(f.Name(), "init#") {
			continue
		}
		for _, b := range f.Blocks {
			for _, ins := range b.Instrs {
				ld, ok := ins.(*ssa.UnOp)
				if !ok || ld.Op != token.MUL {
					continue
				}
				g, ok := ld.X.(*ssa.Global)
				if !ok || g.Pkg != f.Pkg {
					continue
				}
				switch ld.Type().Underlying().(type) {
				case *types.Map, *types.Slice:
				default:
					continue
				}
				loads++
				for _, r := range *ld.Referrers() {
					switch x := r.(type) {
					case *ssa.Lookup, *ssa.Range, *ssa.DebugRef, *ssa.Index:
						continue
					case *ssa.IndexAddr:
						// element read (a store through it is a write to package state, not our concern here)
						continue
					case *ssa.MapUpdate:
						if x.Map == ld {
							continue // the package maintains its own table
						}
					case *ssa.Call:
						if bi, ok := x.Call.Value.(*ssa.Builtin); ok && (bi.Name() == "len" || bi.Name() == "cap") {
							continue
						}
					case *ssa.BinOp:
						continue // nil comparison
					}
					bad = append(bad, fmt.Sprintf("%s: %s lets the package-level %s escape (%s): once it is stored in a target it is shared by every caller", c.P.Pos(ld.Pos()), funcDisplay(f), g.Name(), strings.SplitN(r.String(), "\n", 2)[0]))
				}
			}
		}
	}
	sort.Strings(bad)
	c.R.Check(len(bad) == 0, rule, pkg+"#shared-containers", "package-level maps and slices of the package are only read in place (lookup, range, len): none is handed to the filling path, stored or returned", "-", fmt.Sprintf("%d loads of package-level containers; %s", loads, strings.Join(bad, "; ")), bad, loads+1)
}

// c08validBeforeUse (R6c, round 6): reflect.ValueOf(nil) is the zero Value, and every method except Kind, IsValid and
// String panics on it. Inside core/mapping, a method call on reflect.ValueOf(v) — v an `any` that comes from the
// document (a parameter or a container element) — is dominated by a test that implies the Value is valid: the true
// outcome of rv.Kind() == K / a switch case on rv.Kind(), rv.IsValid(), or v != nil. Decided where the function itself
// shows that the value may be of another kind (the call lies on the failing side of a kind test on the same Value) —
// the contradiction form of the rule; elsewhere callers may guarantee validity. The classic slip is the error
// hint on the *failing* side of the kind test: `if rv.Kind() != reflect.Slice { …rv.Type().String()… }` panics for
// a null (`{"m":{"k":null}}` into map[string][]string).
func c08validBeforeUse(c *Ctx, pkg string) {
	rule := "C08.R6"
	var bad []string
	sites := 0
	safe := map[string]bool{"Kind": true, "IsValid": true, "String": true}
	for _, f := range c.P.AllFuncs(pkg) {
		for _, b := range f.Blocks {
			for _, ins := range b.Instrs {
				call, ok := ins.(*ssa.Call)
				if !ok || call.Call.IsInvoke() {
					continue
				}
				sc := call.Call.StaticCallee()
				if sc == nil || sc.Signature.Recv() == nil || typeString(sc.Signature.Recv().Type()) != "reflect.Value" || safe[sc.Name()] {
					continue
				}
				rv, ok := call.Call.Args[0].(*ssa.Call)
				if !ok || calleeName(rv.Common()) != "reflect.ValueOf" {
					continue
				}
				src := rv.Call.Args[0]
				if mi, ok := src.(*ssa.MakeInterface); ok {
					_ = mi
					continue // a concrete value boxed here is never nil-interface
				}
				if _, isParam := src.(*ssa.Parameter); !isParam {
					continue
				}
				// a dominating validity test / a dominating failed kind test
				valid, failedKind := false, false
				for d := b; d != nil && !valid; d = d.Idom() {
					id := d.Idom()
					if id == nil || len(id.Instrs) == 0 {
						continue
					}
					br, isIf := id.Instrs[len(id.Instrs)-1].(*ssa.If)
					if !isIf {
						continue
					}
					onTrue := (id.Succs[0] == d || id.Succs[0].Dominates(b)) && len(id.Succs[0].Preds) == 1
					onFalse := (id.Succs[1] == d || id.Succs[1].Dominates(b)) && len(id.Succs[1].Preds) == 1
					switch cnd := br.Cond.(type) {
					case *ssa.BinOp:
						isKindOf := func(v ssa.Value) bool {
							kc, ok := v.(*ssa.Call)
							return ok && calleeName(kc.Common()) == "(reflect.Value).Kind" && kc.Call.Args[0] == rv
						}
						nonInvalid := func(v ssa.Value) bool {
							k, ok := v.(*ssa.Const)
							return ok && k.Value != nil && k.Int64() != 0
						}
						isNil := func(v ssa.Value) bool { k, ok := v.(*ssa.Const); return ok && k.IsNil() }
						if (isKindOf(cnd.X) && nonInvalid(cnd.Y)) || (isKindOf(cnd.Y) && nonInvalid(cnd.X)) {
							if (cnd.Op == token.EQL && onTrue) || (cnd.Op == token.NEQ && onFalse) {
								valid = true
							}
							if (cnd.Op == token.EQL && onFalse) || (cnd.Op == token.NEQ && onTrue) {
								failedKind = true
							}
						}
						if (cnd.X == src && isNil(cnd.Y)) || (cnd.Y == src && isNil(cnd.X)) {
							if (cnd.Op == token.NEQ && onTrue) || (cnd.Op == token.EQL && onFalse) {
								valid = true
							}
						}
					case *ssa.Call:
						if calleeName(cnd.Common()) == "(reflect.Value).IsValid" && cnd.Call.Args[0] == rv && onTrue {
							valid = true
						}
					}
				}
				if !failedKind {
					continue // decided only where the function itself shows the value may be of another kind
				}
				sites++
				if !valid {
					bad = append(bad, fmt.Sprintf("%s: %s calls (reflect.Value).%s on reflect.ValueOf(%s) on the failing side of its kind test, where the value may be the zero Value (a null in the document): reflect panics", c.P.Pos(call.Pos()), funcDisplay(f), sc.Name(), src.Name()))
				}
			}
		}
	}
	sort.Strings(bad)
	c.R.Check(len(bad) == 0, rule, pkg+"#valid-before-use", "a method that panics on the zero reflect.Value is called on reflect.ValueOf(document value) only under an outcome that implies validity", "-", fmt.Sprintf("%d sites; %s", sites, strings.Join(bad, "; ")), bad, sites+1)
}

// c08durationByType (R14, round 6): a member is treated as a duration because of its *type*. Every call of
// fillDurationValue (which stores a time.Duration with reflect.Set) lies on the true outcome of a comparison of a
// reflect.Type with durationType. A test on the kind (`case durationType.Kind():` — that is reflect.Int64) sends every
// int64 member down the duration path: a plain number is rejected ("missing unit in duration") and a duration text
// makes reflect.Set panic.
func c08durationByType(c *Ctx, pkg string) {
	rule := "C08.R14"
	var bad []string
	sites := 0
	for _, f := range c.P.AllFuncs(pkg) {
		for _, b := range f.Blocks {
			for _, ins := range b.Instrs {
				call, ok := ins.(*ssa.Call)
				if !ok || calleeName(call.Common()) != mod+pkg+".fillDurationValue" {
					continue
				}
				sites++
				ok = false
				for d := b; d != nil && !ok; d = d.Idom() {
					id := d.Idom()
					if id == nil || len(id.Instrs) == 0 {
						continue
					}
					br, isIf := id.Instrs[len(id.Instrs)-1].(*ssa.If)
					if !isIf || !((id.Succs[0] == d || id.Succs[0].Dominates(b)) && len(id.Succs[0].Preds) == 1) {
						continue
					}
					isDur := func(v ssa.Value) bool {
						u, ok := v.(*ssa.UnOp)
						if !ok {
							return false
						}
						g, ok := u.X.(*ssa.Global)
						return ok && g.Name() == "durationType"
					}
					for _, cj := range conjuncts(br.Cond) {
						if cmp, isCmp := cj.(*ssa.BinOp); isCmp && cmp.Op == token.EQL && (isDur(cmp.X) || isDur(cmp.Y)) {
							ok = true
						}
					}
				}
				if !ok {
					bad = append(bad, fmt.Sprintf("%s: %s fills a duration without having compared the member's type with durationType (a kind test also matches every int64 member)", c.P.Pos(call.Pos()), funcDisplay(f)))
				}
			}
		}
	}
	sort.Strings(bad)
	c.R.Check(len(bad) == 0 && sites >= 3, rule, pkg+".fillDurationValue#callers", "every call of fillDurationValue is on the true outcome of `type == durationType`", "-", fmt.Sprintf("%d call sites; %s", sites, strings.Join(bad, "; ")), bad, sites)
}

// conjuncts: the conditions that all hold when v is true — v itself, or for a short-circuit `a && b` (a phi whose
// other edges are the constant false) its operands, recursively.
func conjuncts(v ssa.Value) []ssa.Value {
	phi, ok := v.(*ssa.Phi)
	if !ok {
		return []ssa.Value{v}
	}
	var out []ssa.Value
	for _, e := range phi.Edges {
		if k, isK := e.(*ssa.Const); isK {
			if k.Value != nil && !constant.BoolVal(k.Value) {
				continue
			}
			return []ssa.Value{v}
		}
		// the edge's value holds; so does whatever guarded reaching that edge, which we do not need here
		out = append(out, conjuncts(e)...)
	}
	return out
}
