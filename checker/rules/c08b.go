package rules

import (
	"fmt"
	"sort"
	"strings"

	"golang.org/x/tools/go/ssa"
)

// c08adapters (R10, round 4): the request-side adapters build the untyped parameter map from the request's own
// collections *without* rewriting the values: what the typed unmarshaller validates and stores is what the client
// supplied. Between a value taken out of the ranged collection (header values, form values, path variables) and
// the map store there is no call that receives that value (or the slice holding it): splitting, trimming or
// re-joining before the member's type is known changes the input for members that need it raw — a scalar string
// header containing a comma arrives as a slice and is rejected (seed r4-C08-3).
func c08adapters(c *Ctx) {
	rule := "C08.R10"
	for _, a := range []struct{ pkg, fn string }{
		{"rest/internal/encoding", "ParseHeaders"},
		{"rest/httpx", "GetFormValues"},
		{"rest/httpx", "ParsePath"},
	} {
		f := c.fn(rule, a.pkg, a.fn)
		if f == nil {
			continue
		}
		// element values: whatever comes out of a range/index over a collection
		isElem := func(v ssa.Value) bool {
			switch x := v.(type) {
			case *ssa.Next:
				return true
			case *ssa.Extract:
				_, ok := x.Tuple.(*ssa.Next)
				return ok
			case *ssa.Index, *ssa.IndexAddr, *ssa.Lookup:
				return true
			}
			return false
		}
		var dependsOnElem func(v ssa.Value, seen map[ssa.Value]bool) bool
		dependsOnElem = func(v ssa.Value, seen map[ssa.Value]bool) bool {
			if v == nil || seen[v] {
				return false
			}
			seen[v] = true
			if isElem(v) {
				return true
			}
			switch x := v.(type) {
			case *ssa.Phi:
				for _, e := range x.Edges {
					if dependsOnElem(e, seen) {
						return true
					}
				}
			case *ssa.UnOp:
				if al, ok := x.X.(*ssa.Alloc); ok {
					for _, r := range *al.Referrers() {
						if st, ok := r.(*ssa.Store); ok && st.Addr == al && dependsOnElem(st.Val, seen) {
							return true
						}
					}
					return false
				}
				return dependsOnElem(x.X, seen)
			case *ssa.Slice:
				return dependsOnElem(x.X, seen)
			case *ssa.MakeInterface:
				return dependsOnElem(x.X, seen)
			case *ssa.ChangeType:
				return dependsOnElem(x.X, seen)
			case *ssa.Convert:
				return dependsOnElem(x.X, seen)
			case *ssa.Call:
				for _, a := range x.Call.Args {
					if dependsOnElem(a, seen) {
						return true
					}
				}
			}
			return false
		}
		var bad []string
		stores := 0
		seen := map[ssa.Value]bool{}
		var slice func(v ssa.Value)
		slice = func(v ssa.Value) {
			if v == nil || seen[v] {
				return
			}
			seen[v] = true
			switch x := v.(type) {
			case *ssa.Call:
				if b, ok := x.Call.Value.(*ssa.Builtin); ok {
					switch b.Name() {
					case "append", "make", "len", "cap", "copy", "new":
						for _, a := range x.Call.Args {
							slice(a)
						}
						return
					}
				}
				if dependsOnElem(x, map[ssa.Value]bool{}) {
					bad = append(bad, fmt.Sprintf("%s: a supplied value passes through %s before the typed unmarshaller sees it", c.P.Pos(x.Pos()), calleeName(x.Common())))
				}
				return
			case *ssa.Phi:
				for _, e := range x.Edges {
					slice(e)
				}
			case *ssa.UnOp:
				if al, ok := x.X.(*ssa.Alloc); ok {
					for _, r := range *al.Referrers() {
						if st, ok := r.(*ssa.Store); ok && st.Addr == al {
							slice(st.Val)
						}
					}
					return
				}
				slice(x.X)
			case *ssa.Slice:
				slice(x.X)
			case *ssa.MakeInterface:
				slice(x.X)
			case *ssa.ChangeType:
				slice(x.X)
			case *ssa.Convert:
				slice(x.X)
			case *ssa.Extract:
				slice(x.Tuple)
			case *ssa.IndexAddr:
				slice(x.X)
			case *ssa.Index:
				slice(x.X)
			case *ssa.BinOp:
				// string concatenation / arithmetic on a supplied value is a rewrite as well
				if dependsOnElem(x.X, map[ssa.Value]bool{}) || dependsOnElem(x.Y, map[ssa.Value]bool{}) {
					bad = append(bad, fmt.Sprintf("%s: a supplied value is combined by %s before the typed unmarshaller sees it", c.P.Pos(x.Pos()), x.Op))
				}
			}
		}
		for _, b := range f.Blocks {
			for _, ins := range b.Instrs {
				if mu, ok := ins.(*ssa.MapUpdate); ok {
					stores++
					slice(mu.Value)
				}
			}
		}
		sort.Strings(bad)
		if stores == 0 {
			c.R.Undecided(rule, a.pkg+"."+a.fn, "the parameter map is filled here", "no map store found")
			continue
		}
		c.R.Check(len(bad) == 0, rule, a.pkg+"."+a.fn, "values go from the request's collection into the parameter map unchanged (range, index, slice and append only — no call or operator rewrites a supplied value before its member's type is known)", posOf(c, f), strings.Join(bad, "; "), bad, stores)
	}
	c.R.Min(rule, 3, "ParseHeaders, GetFormValues, ParsePath")
}
