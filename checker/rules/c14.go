package rules

import (
	"fmt"
	"go/types"

	"golang.org/x/tools/go/ssa"

	"gzverify/px"
)

// C14 — SQL transactions end exactly once: commit iff the body succeeded.
// Decided on every CFG path (incl. the panic exits at the begin and body calls)
// of transactOnConn and of its wrappers.
func init() { register("C14", "proof", c14) }

func c14(c *Ctx) {
	c.R.RuleText = "path enumeration of transactOnConn × {begin ok/fail} × {body nil/non-nil/panic} × {commit ok/fail} × {rollback ok/fail}; wrappers forward once"
	c.R.Explain = "every entry→exit path of sqlx.transactOnConn (defers and panic exits modelled) satisfies: begin fails ⇒ body/commit/rollback not run; begin ok ⇒ body once and exactly one of commit|rollback; commit iff body returned nil without panic; nil returned only when commit returned nil; rollback/commit errors reach the caller. Wrappers (transact, TransactCtx, Transact, sqlc.CachedConn) forward the body once and return the result unchanged."
	c.R.Assume = append(c.R.Assume, "database/sql Begin/Commit/Rollback behave as documented", "panics originate at the begin and body calls (user code); runtime panics inside go-zero's own straight-line code are not modelled")

	f := c.fn("C14.R1", "core/stores/sqlx", "transactOnConn")
	if f != nil {
		c14core(c, f)
	}
	c14wrappers(c)
	c14txMethods(c)
	// R7 (round 8): "rolls back when the k-th statement fails" needs the statement's failure to reach the body: the row
	// readers report a stream that broke (C06.R11)
	runShared(c, "C06.R11", "C14.R7", c06notFoundIsNotAnError)
}

// c14txMethods (R6, round 5): the Commit and Rollback that transactOnConn calls through the `trans` interface are
// database/sql's own. Every type of the package that can stand behind that interface (it has Commit and Rollback
// methods) gets them by embedding *sql.Tx — the promoted (*sql.Tx).Commit / Rollback — and does not define its own:
// a session type that grows a Commit of its own (rolling back "aborted" transactions, mapping sql.ErrTxDone to nil)
// makes "commit iff the body returned nil" and "nil only when the commit succeeded" depend on that method instead
// (seeds r5-C14-2, r5-C14-3).
func c14txMethods(c *Ctx) {
	rule := "C14.R6"
	pk := c.P.Pkg("core/stores/sqlx")
	if pk == nil || pk.Types == nil {
		c.R.Undecided(rule, "core/stores/sqlx", "package loads", "not loaded")
		return
	}
	n := 0
	var bad []string
	scope := pk.Types.Scope()
	for _, name := range scope.Names() {
		tn, ok := scope.Lookup(name).(*types.TypeName)
		if !ok {
			continue
		}
		if _, isIface := tn.Type().Underlying().(*types.Interface); isIface {
			continue
		}
		for _, t := range []types.Type{tn.Type(), types.NewPointer(tn.Type())} {
			ms := types.NewMethodSet(t)
			cm, rb := ms.Lookup(pk.Types, "Commit"), ms.Lookup(pk.Types, "Rollback")
			if cm == nil || rb == nil {
				continue
			}
			n++
			for _, sel := range []*types.Selection{cm, rb} {
				fn := sel.Obj().(*types.Func)
				if fn.Pkg() == nil || fn.Pkg().Path() != "database/sql" {
					bad = append(bad, fmt.Sprintf("%s.%s is defined by %s, not promoted from *sql.Tx", typeString(t), fn.Name(), fn.Pkg().Path()))
				}
			}
			break
		}
	}
	sortStrings(bad)
	c.R.Check(len(bad) == 0 && n >= 1, rule, "core/stores/sqlx#tx-methods", "every type of the package with Commit and Rollback methods has database/sql's (*sql.Tx).Commit / Rollback (promoted through embedding), not methods of its own", "-", fmt.Sprintf("%d types; %v", n, bad), bad, n)
}

func c14core(c *Ctx, f *ssa.Function) {
	// anchors by type, not by parameter name
	var bodyP, beginP *ssa.Parameter
	for _, p := range f.Params {
		switch typeString(p.Type()) {
		case "core/stores/sqlx.beginnable":
			beginP = p
		case "func(context.Context, core/stores/sqlx.Session) error":
			bodyP = p
		}
	}
	if bodyP == nil || beginP == nil {
		c.R.Undecided("C14.R1", "core/stores/sqlx.transactOnConn", "anchor resolves", "parameters of type beginnable and func(context.Context, Session) error not found")
		return
	}
	isBegin := px.DynWhere(func(s *px.Sym) bool { return isParam(s, beginP) })
	isBody := px.DynWhere(func(s *px.Sym) bool { return isParam(s, bodyP) })
	commit := methodNamed("Commit")
	rollback := methodNamed("Rollback")
	// the body has three ways out: it returns, it panics, or it ends the goroutine (runtime.Goexit — what
	// t.FailNow/t.Fatal do inside a body): on the last one the deferred calls run and recover() sees nil
	ps := c.paths("C14.R1", f, px.Config{MayPanic: func(ci *px.CallInfo) bool { return ci.IsDyn() },
		MayGoexit: func(ci *px.CallInfo) bool {
			return ci.IsDyn() && ci.FnSym != nil && isParam(ci.FnSym, bodyP)
		}})
	if ps == nil {
		return
	}
	name := "core/stores/sqlx.transactOnConn"
	beginErr := func(p *px.Path) (*px.Sym, px.AbsK, bool) {
		b := p.First(isBegin)
		if b == nil || b.Res == nil {
			return nil, px.Unknown, false
		}
		if b.PanicsHere {
			return nil, px.Unknown, true
		}
		// the error component: the tuple element of interface type error
		for _, e := range p.Events {
			_ = e
		}
		var errSym *px.Sym
		tup, _ := b.Res.Typ.(*types.Tuple)
		if tup != nil {
			for i := 0; i < tup.Len(); i++ {
				if types.Identical(tup.At(i).Type(), types.Universe.Lookup("error").Type()) {
					errSym = findExtract(p, b.Res, i)
				}
			}
		}
		if errSym == nil {
			return nil, px.Unknown, true
		}
		return errSym, p.Abs(errSym).K, true
	}

	c.forall("C14.R1", name, "begin fails ⇒ body, Commit and Rollback are not run and the begin error is returned", f, ps, func(p *px.Path) (bool, string) {
		es, k, ok := beginErr(p)
		if !ok {
			return false, "no call of the begin function on this path"
		}
		if p.Count(isBegin) != 1 {
			return false, fmt.Sprintf("begin function called %d times", p.Count(isBegin))
		}
		if es == nil { // begin panicked
			if p.Count(isBody)+p.Count(commit)+p.Count(rollback) > 0 {
				return false, "begin panicked but body/commit/rollback ran"
			}
			return true, ""
		}
		if k == px.Nil {
			return true, ""
		}
		// begin error non-nil or unchecked
		if n := p.Count(isBody); n > 0 {
			return false, "the body runs on a path where the begin error was not established nil"
		}
		if p.Count(commit)+p.Count(rollback) > 0 {
			return false, "Commit/Rollback on a path where begin failed"
		}
		if p.Exit == px.ExitReturn && (len(p.Results) != 1 || p.Results[0].Strip(false) != es) {
			return false, "begin failed but the returned value is not the begin error"
		}
		return true, ""
	})

	c.forall("C14.R2", name, "begin ok ⇒ body ×1 and, on every exit incl. the panic exit, exactly one of Commit|Rollback, ×1", f, ps, func(p *px.Path) (bool, string) {
		es, k, _ := beginErr(p)
		if es == nil || k != px.Nil {
			return true, ""
		}
		if n := p.Count(isBody); n != 1 {
			return false, fmt.Sprintf("body called %d times after a successful begin", n)
		}
		nc, nr := p.Count(commit), p.Count(rollback)
		if nc+nr != 1 {
			return false, fmt.Sprintf("Commit ×%d and Rollback ×%d on one path (want exactly one call in total)", nc, nr)
		}
		if !p.Precedes(isBody, px.Or(commit, rollback)) {
			return false, "Commit/Rollback precedes the body"
		}
		return true, ""
	})

	c.forall("C14.R3", name, "Commit ⇔ body returned nil and did not panic; Rollback otherwise", f, ps, func(p *px.Path) (bool, string) {
		b := p.First(isBody)
		if b == nil {
			return true, ""
		}
		nc, nr := p.Count(commit), p.Count(rollback)
		if b.GoexitHere {
			if nc > 0 {
				return false, "Commit although the body never returned: it ended its goroutine (runtime.Goexit, e.g. t.FailNow inside the body); the deferred finisher sees neither a panic nor an error and takes that for success"
			}
			if nr != 1 {
				return false, "no Rollback on the path where the body ended its goroutine"
			}
			return true, ""
		}
		if b.PanicsHere {
			if nc > 0 {
				return false, "Commit on the path where the body panicked"
			}
			if nr != 1 {
				return false, "no Rollback on the path where the body panicked"
			}
			return true, ""
		}
		switch p.Abs(b.Res).K {
		case px.Nil:
			if nc != 1 || nr != 0 {
				return false, "body returned nil but the transaction is not committed exactly once"
			}
		case px.NonNil:
			if nr != 1 || nc != 0 {
				return false, "body returned an error but the transaction is not rolled back exactly once"
			}
		default:
			return false, fmt.Sprintf("Commit×%d/Rollback×%d decided without testing the body's error", nc, nr)
		}
		return true, ""
	})

	c.forall("C14.R4", name, "nil is returned only when Commit returned nil; commit and rollback errors and panics are reported to the caller", f, ps, func(p *px.Path) (bool, string) {
		b := p.First(isBody)
		if b == nil {
			return true, ""
		}
		if p.Exit == px.ExitPanic {
			// the statement: "the panic is reported as an error" — a body that panicked makes Transact *return* a
			// non-nil error; a finisher that re-raises (for every panic value or only for some, e.g. runtime.Error)
			// loses the error assembled from the rollback and takes down callers that have no recover of their own
			if b.PanicsHere {
				return false, "the body's panic leaves Transact as a panic instead of being reported as the returned error (re-raised in the deferred finisher; a rollback failure recorded just before is lost with it)"
			}
			return false, "path panics although the body did not"
		}
		if p.Exit == px.ExitGoexit {
			return true, "" // nobody receives a result: the goroutine is gone (commit/rollback is decided by R2/R3)
		}
		if p.Exit != px.ExitReturn || len(p.Results) != 1 {
			return false, "unexpected exit " + p.Exit.String()
		}
		ret := p.Results[0].Strip(false)
		cm := p.First(commit)
		if cm != nil && cm.Res != nil {
			if ret != cm.Res.Strip(false) && !(p.Abs(cm.Res).K == px.NonNil && dependsOn(p, ret, cm.Res)) {
				return false, "the result of Commit is not what the caller receives (returned: " + ret.Describe() + ")"
			}
			return true, ""
		}
		// not committed: the caller must see a non-nil error
		if p.Abs(ret).K != px.NonNil {
			return false, "the transaction was not committed but the returned error is not established non-nil (returned: " + ret.Describe() + ", " + p.Abs(ret).String() + ")"
		}
		if rb := p.First(rollback); rb != nil && rb.Res != nil && p.Abs(rb.Res).K == px.NonNil {
			if !dependsOn(p, ret, rb.Res) {
				return false, "Rollback failed but its error does not reach the caller"
			}
		}
		if !b.PanicsHere && !dependsOn(p, ret, b.Res) {
			return false, "the body's error does not reach the caller"
		}
		return true, ""
	})
}

// findExtract returns the sym of component i of a call result tuple on this path.
func findExtract(p *px.Path, tuple *px.Sym, i int) *px.Sym {
	if x := p.Extract(tuple, i); x != nil {
		return x
	}
	for k := range p.Events {
		e := &p.Events[k]
		for _, s := range []*px.Sym{e.Val, e.Cond, e.Res} {
			if x := findExtractIn(s, tuple, i, 0); x != nil {
				return x
			}
		}
		for _, s := range e.Results {
			if x := findExtractIn(s, tuple, i, 0); x != nil {
				return x
			}
		}
	}
	return nil
}

func findExtractIn(s, tuple *px.Sym, i, d int) *px.Sym {
	if s == nil || d > 6 {
		return nil
	}
	if s.Kind == px.KExtract && s.X == tuple && s.Index == i {
		return s
	}
	if x := findExtractIn(s.X, tuple, i, d+1); x != nil {
		return x
	}
	return findExtractIn(s.Y, tuple, i, d+1)
}

func c14wrappers(c *Ctx) {
	// transact: provider error ⇒ returned, transactOnConn not called; else forwards once, result unchanged.
	core := c.P.Func("core/stores/sqlx", "transactOnConn")
	if f := c.fn("C14.R5", "core/stores/sqlx", "transact"); f != nil && core != nil {
		ps := c.paths("C14.R5", f, px.Config{})
		toc := px.CallsFn(core)
		c.forall("C14.R5", "core/stores/sqlx.transact", "connection-provider error ⇒ returned without starting a transaction; otherwise transactOnConn ×1 with the caller's fn and its result returned unchanged", f, ps, func(p *px.Path) (bool, string) {
			prov := p.First(px.DynWhere(func(s *px.Sym) bool { return px.IsFieldLoad(s, "connProv", nil) }))
			if prov == nil {
				return false, "connection provider not consulted"
			}
			es := findExtract(p, prov.Res, 1)
			n := p.Count(toc)
			if es == nil || p.Abs(es).K != px.Nil {
				if n != 0 {
					return false, "transactOnConn called although the provider error was not established nil"
				}
				if len(p.Results) != 1 || es == nil || p.Results[0].Strip(false) != es {
					return false, "provider error is not what is returned"
				}
				return true, ""
			}
			if n != 1 {
				return false, fmt.Sprintf("transactOnConn called %d times", n)
			}
			call := p.First(toc)
			if len(p.Results) != 1 || p.Results[0].Strip(false) != call.Res {
				return false, "result of transactOnConn is not returned unchanged"
			}
			fnP := paramOfType(f, "func(context.Context, core/stores/sqlx.Session) error")
			ok := false
			for _, a := range call.Call.Args {
				if fnP != nil && isParam(a, fnP) {
					ok = true
				}
			}
			if !ok {
				return false, "the caller's fn is not what is passed to transactOnConn"
			}
			return true, ""
		})
	}

	// commonSqlConn.TransactCtx: through the breaker; the closure forwards to transact once with the caller's fn; the breaker's result is returned.
	tr := c.P.Func("core/stores/sqlx", "transact")
	if f := c.fn("C14.R5", "core/stores/sqlx", "(*commonSqlConn).TransactCtx"); f != nil && tr != nil {
		fnP := paramOfType(f, "func(context.Context, core/stores/sqlx.Session) error")
		ps := c.paths("C14.R5", f, px.Config{Model: func(in *px.Interp, st *px.State, ci *px.CallInfo) *px.Model {
			// the breaker runs the request at most once (C01.R1/R4): model both outcomes
			if ci.Method != nil && ci.Method.Pkg() != nil && ci.Method.Pkg().Path() == mod+"core/breaker" && len(ci.Args) >= 2 {
				return &px.Model{Invoke: []*px.Sym{ci.Args[1]}, Maybe: true}
			}
			return nil
		}})
		brk := func(e *px.Event) bool {
			return e.Kind == px.EvCall && e.Call.Method != nil && e.Call.Method.Pkg() != nil && e.Call.Method.Pkg().Path() == mod+"core/breaker"
		}
		c.forall("C14.R5", "core/stores/sqlx.(*commonSqlConn).TransactCtx", "goes through the breaker once; the request closure calls transact ×1 with the caller's fn and returns its result; the breaker's error is returned unchanged", f, ps, func(p *px.Path) (bool, string) {
			if p.Count(brk) != 1 {
				return false, fmt.Sprintf("breaker consulted %d times", p.Count(brk))
			}
			b := p.First(brk)
			if len(p.Results) != 1 || p.Results[0].Strip(false) != b.Res {
				return false, "the breaker's result is not what is returned (returned " + p.Results[0].Describe() + ")"
			}
			n := p.Count(px.CallsFn(tr))
			if n > 1 {
				return false, "transact called more than once"
			}
			if n == 1 {
				call := p.First(px.CallsFn(tr))
				ok := false
				for _, a := range call.Call.Args {
					if fnP != nil && isParam(a, fnP) {
						ok = true
					}
				}
				if !ok {
					return false, "the caller's fn is not what is passed to transact"
				}
				// the closure returns transact's result
				var closRet *px.Event
				for i := range p.Events {
					e := &p.Events[i]
					if e.Kind == px.EvReturn && e.Depth > 0 && e.Via != nil {
						closRet = e
					}
				}
				if closRet == nil || len(closRet.Results) != 1 || closRet.Results[0].Strip(false) != call.Res {
					return false, "the request closure does not return transact's result"
				}
			}
			return true, ""
		})
		// on the path where the request closure runs, transact must be called (no silent skip)
		ran := false
		for _, p := range ps {
			if p.Count(px.CallsFn(tr)) == 1 {
				ran = true
			}
		}
		c.R.Check(ran, "C14.R5", "core/stores/sqlx.(*commonSqlConn).TransactCtx#reaches", "the request closure reaches transact", posOf(c, f), "no path on which the request closure calls transact", nil, len(ps))
	}

	// Transact (no ctx) and the sqlc.CachedConn pair forward once and return unchanged.
	type fw struct{ pkg, name, target string }
	for _, w := range []fw{
		{"core/stores/sqlx", "(*commonSqlConn).Transact", "core/stores/sqlx.(*commonSqlConn).TransactCtx"},
		{"core/stores/sqlc", "(CachedConn).Transact", "core/stores/sqlc.(CachedConn).TransactCtx"},
		{"core/stores/sqlc", "(CachedConn).TransactCtx", "core/stores/sqlx.(SqlConn).TransactCtx"},
	} {
		f := c.fn("C14.R5", w.pkg, w.name)
		if f == nil {
			continue
		}
		ps := c.paths("C14.R5", f, px.Config{})
		tgt := calleeIs(w.target)
		var fnP *ssa.Parameter
		for _, p := range f.Params {
			if _, ok := p.Type().Underlying().(*types.Signature); ok {
				fnP = p
			}
		}
		c.forall("C14.R5", w.pkg+"."+w.name, "forwards to "+w.target+" ×1 with the caller's fn (or a closure calling it once) and returns the result unchanged", f, ps, func(p *px.Path) (bool, string) {
			if n := p.Count(tgt); n != 1 {
				return false, fmt.Sprintf("%s called %d times", w.target, n)
			}
			call := p.First(tgt)
			if len(p.Results) != 1 || p.Results[0].Strip(false) != call.Res {
				return false, "result not returned unchanged"
			}
			ok := false
			for _, a := range call.Call.Args {
				a = a.Strip(false)
				if fnP != nil && isParam(a, fnP) {
					ok = true
				}
				if a.Kind == px.KClosure && fnP != nil {
					if closureForwardsOnce(c, a.Fn, fnP) {
						ok = true
					}
				}
			}
			if !ok {
				return false, "the caller's fn does not reach the transaction"
			}
			return true, ""
		})
	}

	// nested transactions are refused
	for _, n := range []string{"(txConn).Transact", "(txConn).TransactCtx"} {
		f := c.fn("C14.R5", "core/stores/sqlx", n)
		if f == nil {
			continue
		}
		ps := c.paths("C14.R5", f, px.Config{})
		c.forall("C14.R5", "core/stores/sqlx."+n, "a transaction session refuses nested transactions with errCantNestTx", f, ps, func(p *px.Path) (bool, string) {
			if len(p.Results) != 1 || !px.IsGlobalLoad(p.Results[0], mod+"core/stores/sqlx", "errCantNestTx") {
				return false, "does not return errCantNestTx"
			}
			if p.Has(px.KindIs(px.EvCall)) {
				return false, "calls something"
			}
			return true, ""
		})
	}
	c.R.Min("C14.R5", 8, "transact, TransactCtx(+reaches), Transact, CachedConn.Transact/TransactCtx, txConn.Transact/TransactCtx")
}

// closureForwardsOnce: closure cl (capturing the parent's parameter fnP) calls it
// exactly once on every path and returns its result.
func closureForwardsOnce(c *Ctx, cl *ssa.Function, fnP *ssa.Parameter) bool {
	ps, _, err := px.Run(px.Config{Prog: c.P.SSA, MayPanic: userPanics, Model: stdModel}, cl)
	if err != nil || len(ps) == 0 {
		return false
	}
	for _, p := range ps {
		// a panic of the body must reach transactOnConn (which rolls back and reports it): a wrapper that
		// recovers it turns the panic into a nil return, i.e. into a commit
		panicked := false
		for i := range p.Events {
			if p.Events[i].PanicsHere {
				panicked = true
			}
		}
		if panicked {
			if p.Exit != px.ExitPanic {
				return false
			}
			continue
		}
		calls := p.All(px.DynWhere(func(s *px.Sym) bool {
			// captured variable: load of the free-variable cell, or the free var itself
			s = s.Strip(false)
			if s.Kind == px.KFreeVar && s.V.Name() == fnP.Name() {
				return true
			}
			return s.Kind == px.KLoad && s.X != nil && s.X.Kind == px.KFreeVar && s.X.V.Name() == fnP.Name()
		}))
		if len(calls) != 1 {
			return false
		}
		if len(p.Results) != 1 || p.Results[0].Strip(false) != calls[0].Res {
			return false
		}
	}
	return true
}
