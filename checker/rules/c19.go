package rules

import (
	"fmt"
	"go/constant"
	"go/token"
	"go/types"
	"sort"
	"strings"

	"golang.org/x/tools/go/ssa"

	"gzverify/luax"
	"gzverify/px"
)

// C19 — Redis lock.
func init() { register("C19", "other", c19) }

const redisPkg = "core/stores/redis"

func c19(c *Ctx) {
	c.R.RuleText = "path enumeration of the lock and release Lua scripts (guards and flags of every SET/DEL), value flow of the owner id and the lease into ARGV, reply mapping on all paths of AcquireCtx/ReleaseCtx, who-writes the id"
	c.R.Explain = "Structural necessary conditions of C19: in the lock script every SET on KEYS[1] stores ARGV[1] with PX ARGV[2]; the SET that is not guarded by GET KEYS[1] == ARGV[1] carries NX; the owner branch re-SETs (refreshing the lease) and returns OK; the release script deletes KEYS[1] only under GET KEYS[1] == ARGV[1] and otherwise returns 0 without effects; Go runs exactly these scripts (one EVAL each — atomic), passing the lock's key, its id (written only by the constructor from a 16-character random string) and the lease seconds·1000+500 computed in a 64-bit integer type (not the 32-bit field type, nor int, which is 32 bits on 32-bit platforms); AcquireCtx reports true only for reply OK with a nil error, ReleaseCtx only for reply 1. NOT decided: mutual exclusion over histories with expiry (Redis time), uniqueness of random ids."
	c.R.Assume = append(c.R.Assume, "Redis EVAL is atomic", "SET NX PX / GET / DEL semantics")
	c19lock(c)
	c19release(c)
	c19go(c)
	c19idsource(c)
	c19storeUse(c)
	scriptDispatch(c, "C19.R6")
	c19wrappers(c)
	c19synchronous(c)
	c19seed(c)
	c19setExpire(c)
}

// c19storeUse (R5): the lock touches its store only through the two scripts. Any other command issued on
// rl.store (EXPIRE, DEL, SET …) acts on the key without the owner test the scripts perform atomically
// (seed r3-C19-3: SetExpire re-armed the live key for whoever called it).
func c19storeUse(c *Ctx) {
	rule := "C19.R5"
	m, ok := c.methodsVia("core/stores/redis", "RedisLock", "store", "core/stores/redis")
	if !ok {
		c.R.Undecided(rule, "core/stores/redis.RedisLock.store", "anchor resolves", "field RedisLock.store not found")
		return
	}
	var bad []string
	n := 0
	for name, sites := range m {
		n += len(sites)
		if name != "ScriptRunCtx" && name != "ScriptRun" {
			bad = append(bad, fmt.Sprintf("%s at %v", name, sites))
		}
	}
	sort.Strings(bad)
	if n < 2 {
		c.R.Undecided(rule, "core/stores/redis.RedisLock.store", "the script runs are recognised", fmt.Sprintf("%d calls through rl.store", n))
		return
	}
	c.R.Check(len(bad) == 0, rule, "core/stores/redis.RedisLock.store", "every command the lock sends to its store is a run of the lock or release script (which test the owner atomically); no method of RedisLock issues a bare command on the key", "-", "commands outside the scripts: "+fmt.Sprint(bad), nil, n)
}

func ownerTest(f luax.Fact) (isOwnerTest bool, owner bool) {
	cnd := f.Cond
	if cnd.Kind != "op" || (cnd.S != "==" && cnd.S != "~=") || len(cnd.Args) != 2 {
		return false, false
	}
	isGet := func(v *luax.V) bool {
		v = v.Strip()
		return v.Kind == "redis" && v.S == "GET" && len(v.Args) == 2 && luaIsKeys(v.Args[1], 1)
	}
	a, b := cnd.Args[0], cnd.Args[1]
	if !(isGet(a) && luaIsArgv(b, 1)) && !(isGet(b) && luaIsArgv(a, 1)) {
		return false, false
	}
	return true, (cnd.S == "==") == f.Truth
}

func c19lock(c *Ctx) {
	rule := "C19.R1"
	sc, name := c.scriptOf(rule, redisPkg, "lockScript")
	if sc == nil {
		return
	}
	c.R.Extra["lockscript"] = fmtPaths(sc)
	owners, others := 0, 0
	held := c.luaForall(rule, name, "every path SETs KEYS[1] = ARGV[1] exactly once with PX ARGV[2]; unless GET KEYS[1] == ARGV[1] was established the SET carries NX and its reply is returned; the owner's re-acquire refreshes the lease and returns \"OK\"", sc, func(p *luax.Path) (bool, string) {
		owner := false
		for _, f := range p.Facts {
			if is, o := ownerTest(f); is && o {
				owner = true
			}
		}
		sets := p.EffectsOf("SET")
		for _, e := range p.Effects {
			if e.Cmd != "SET" && e.Cmd != "GET" {
				return false, "unexpected command " + e.Cmd
			}
		}
		if len(sets) != 1 {
			if owner {
				return false, fmt.Sprintf("the owner's re-acquire executes SET ×%d: it reports success without refreshing the lease, so the lock expires while its holder believes it holds it", len(sets))
			}
			return false, fmt.Sprintf("SET ×%d on a path", len(sets))
		}
		s := sets[0]
		if len(s.Args) < 4 || !luaIsKeys(s.Args[0], 1) || !luaIsArgv(s.Args[1], 1) {
			return false, "SET does not store the caller's id (ARGV[1]) under KEYS[1]"
		}
		hasNX, hasPX := false, false
		for i := 2; i < len(s.Args); i++ {
			switch {
			case luaIsStr(s.Args[i], "NX"):
				hasNX = true
			case luaIsStr(s.Args[i], "PX"):
				if i+1 < len(s.Args) && luaIsArgv(s.Args[i+1], 2) {
					hasPX = true
				}
			case luaIsStr(s.Args[i], "XX") || luaIsStr(s.Args[i], "KEEPTTL") || luaIsStr(s.Args[i], "EX"):
				return false, "unexpected SET flag " + s.Args[i].String()
			}
		}
		if !hasPX {
			return false, "SET without PX ARGV[2]: the lock would never expire (or not with the requested lease)"
		}
		if owner {
			owners++
			if p.Ret == nil || !luaIsStr(p.Ret, "OK") && p.Ret != s.Res {
				return false, "the owner's re-acquire does not return OK"
			}
		} else {
			others++
			if !hasNX {
				return false, "a caller that is not established to be the owner SETs without NX: it overwrites another holder's lock"
			}
			if p.Ret != s.Res {
				return false, "the reply of SET NX is not what the script returns"
			}
		}
		return true, ""
	})
	if held && (owners == 0 || others == 0) {
		c.R.Undecided(rule, name+"#branches", "both the owner and the non-owner branch are recognised", fmt.Sprintf("owner paths %d, other paths %d", owners, others))
	}
	c.R.Min(rule, 1, "lock script")
}

func c19release(c *Ctx) {
	rule := "C19.R2"
	sc, name := c.scriptOf(rule, redisPkg, "delScript")
	if sc == nil {
		return
	}
	c.R.Extra["delscript"] = fmtPaths(sc)
	dels := 0
	held := c.luaForall(rule, name, "DEL KEYS[1] is executed only when GET KEYS[1] == ARGV[1] was established, and its reply is returned; otherwise nothing is modified and 0 is returned", sc, func(p *luax.Path) (bool, string) {
		owner := false
		for _, f := range p.Facts {
			if is, o := ownerTest(f); is && o {
				owner = true
			}
		}
		for _, e := range p.Effects {
			switch e.Cmd {
			case "GET":
			case "DEL":
				dels++
				if !owner {
					return false, "DEL is reachable without having established that the stored id is the caller's: a late release frees someone else's lock"
				}
				if len(e.Args) != 1 || !luaIsKeys(e.Args[0], 1) {
					return false, "DEL targets something other than KEYS[1]"
				}
				if p.Ret != e.Res {
					return false, "the reply of DEL is not returned"
				}
			default:
				return false, "unexpected command " + e.Cmd
			}
		}
		if !owner {
			if p.Ret == nil || !luaIsNum(p.Ret, "0") {
				return false, "a non-owner's release does not return 0"
			}
		} else if len(p.EffectsOf("DEL")) != 1 {
			return false, "the owner's release does not delete the key"
		}
		return true, ""
	})
	if held && dels == 0 {
		c.R.Undecided(rule, name+"#del", "the DEL branch is recognised", "no DEL on any path")
	}
	c.R.Min(rule, 1, "release script")
}

func c19go(c *Ctx) {
	rule := "C19.R3"
	run := calleeIs(redisPkg + ".(*Redis).ScriptRunCtx")
	lockSc, _ := c.scriptOf(rule, redisPkg, "lockScript")
	delSc, _ := c.scriptOf(rule, redisPkg, "delScript")
	storeCalls := func(p *px.Path) []*px.Event {
		return p.All(func(e *px.Event) bool {
			return e.Kind == px.EvCall && e.Call.Recv != nil && px.IsFieldLoad(e.Call.Recv, "store", nil)
		})
	}
	if f := c.fn(rule, redisPkg, "(*RedisLock).AcquireCtx"); f != nil {
		ps := c.paths(rule, f, px.Config{})
		c.forall(rule, redisPkg+".(*RedisLock).AcquireCtx", "the store is used only through one run of the lock script with keys [rl.key] and args [rl.id, lease ms]; lease = seconds·1000 + 500 computed in a 64-bit integer type; true only for reply \"OK\" with a nil error; a store error is returned", f, ps, func(p *px.Path) (bool, string) {
			// (round 6) acquiring never frees: an error from the store says nothing about who holds the key — the caller
			// may be the holder refreshing its lease, and "undoing" a failed acquire with the release script (which
			// passes the owner test for exactly that caller) deletes its own live lease
			for _, e := range p.All(px.KindIs(px.EvCall)) {
				if e.Call.Static != nil && (e.Call.Static.Name() == "ReleaseCtx" || e.Call.Static.Name() == "Release") && strings.Contains(funcDisplay(e.Call.Static), "RedisLock") {
					return false, "AcquireCtx releases the lock at " + c.P.Pos(e.Pos) + ": a holder whose refresh fails (timeout, cancelled context) deletes its own live lease, and the next contender acquires inside it"
				}
			}
			sc := storeCalls(p)
			if len(sc) != 1 || !run(sc[0]) {
				return false, "the store is used other than by a single script run (a non-atomic sequence of commands)"
			}
			r := sc[0]
			if !px.IsGlobalLoad(r.Call.Args[2], mod+redisPkg, "lockScript") {
				return false, "another script is run"
			}
			keys, args, ok := scriptRunArgs(p, r)
			if !ok || len(keys) != 1 || len(args) != 2 {
				return false, "keys/args are not the literal lists [key] / [id, lease]"
			}
			if lockSc != nil && (len(keys) < lockSc.MaxKeys || len(args) < lockSc.MaxArgv) {
				return false, "the script reads more KEYS/ARGV than Go passes"
			}
			if !px.IsFieldLoad(keys[0], "key", nil) || !px.IsFieldLoad(args[0], "id", nil) {
				return false, "KEYS[1]/ARGV[1] are not the lock's key and id"
			}
			l := args[1].Strip(false)
			if l.Kind != px.KCall || (shortName(l.Call) != "strconv.Itoa" && shortName(l.Call) != "strconv.FormatInt") {
				return false, "the lease is not rendered with strconv.Itoa / strconv.FormatInt"
			}
			sum := l.Call.Args[0]
			got := anf(p, sum, func(s *px.Sym) string {
				if s.Kind == px.KCall && shortName(s.Call) == "sync/atomic.LoadUint32" && px.FieldAddrIs(s.Call.Args[0], "seconds", nil) {
					return "seconds"
				}
				return ""
			})
			if !polyEq(got, polyOf(map[string]string{"seconds": "1000", "": "500"})) {
				return false, "the lease is not seconds·1000 + 500 ms: " + got.String()
			}
			// width: no arithmetic node may be computed in a type narrower than int
			var narrow func(s *px.Sym, d int) string
			narrow = func(s *px.Sym, d int) string {
				if s == nil || d > 8 {
					return ""
				}
				if s.Kind == px.KBinOp && s.Typ != nil {
					if b, ok := s.Typ.Underlying().(*types.Basic); ok {
						switch b.Kind() {
						case types.Int64, types.Uint64, types.UntypedInt:
						default:
							// `int` is 32 bits wide on 32-bit platforms (GOARCH=386/arm): 30 days · 1000 already overflows there
							return b.Name()
						}
					}
				}
				if s.Kind == px.KBinOp || s.Kind == px.KConvert {
					if n := narrow(s.X, d+1); n != "" {
						return n
					}
					if s.Y != nil {
						return narrow(s.Y, d+1)
					}
				}
				return ""
			}
			if n := narrow(sum, 0); n != "" {
				return false, "the lease is computed in " + n + ", which is (or may be, for int on 32-bit platforms) 32 bits wide: seconds·1000 wraps for long expiries (above ~24.8 days signed / ~49.7 days unsigned) — the lock expires early or the SET is refused"
			}
			if p.Exit != px.ExitReturn {
				return true, ""
			}
			errS := findExtract(p, r.Res, 1)
			if p.Abs(p.Results[0]).K != px.False {
				// possibly true
				if p.Abs(p.Results[0]).K != px.True {
					return false, "result is not a constant decision"
				}
				if errS == nil || p.Abs(errS).K != px.Nil {
					return false, "success reported although the store call did not succeed"
				}
				okReply := false
				for _, b := range p.All(px.KindIs(px.EvBranch)) {
					cnd := b.Cond.Strip(true)
					if cnd.Kind == px.KBinOp && cnd.Op == token.EQL && b.Taken {
						if a := p.Abs(cnd.Y); a.K == px.ConstV && a.C.Kind() == constant.String && constant.StringVal(a.C) == "OK" && dependsOn(p, cnd.X, r.Res) {
							okReply = true
						}
					}
				}
				if !okReply {
					return false, "success reported without the reply having been compared with \"OK\""
				}
			}
			return true, ""
		})
	}
	if f := c.fn(rule, redisPkg, "(*RedisLock).ReleaseCtx"); f != nil {
		ps := c.paths(rule, f, px.Config{})
		c.forall(rule, redisPkg+".(*RedisLock).ReleaseCtx", "the store is used only through one run of the release script with keys [rl.key] and args [rl.id] (compare-and-delete in one atomic EVAL); true iff the reply is 1; a store error is returned", f, ps, func(p *px.Path) (bool, string) {
			sc := storeCalls(p)
			if len(sc) != 1 || !run(sc[0]) {
				return false, "the store is used other than by a single script run: a GET followed by a DEL is not atomic — the lease can expire and another holder acquire in between, and the late DEL frees that holder's lock"
			}
			r := sc[0]
			if !px.IsGlobalLoad(r.Call.Args[2], mod+redisPkg, "delScript") {
				return false, "another script is run"
			}
			keys, args, ok := scriptRunArgs(p, r)
			if !ok || len(keys) != 1 || len(args) != 1 || !px.IsFieldLoad(keys[0], "key", nil) || !px.IsFieldLoad(args[0], "id", nil) {
				return false, "keys/args are not [rl.key] / [rl.id]"
			}
			if delSc != nil && (len(keys) < delSc.MaxKeys || len(args) < delSc.MaxArgv) {
				return false, "the script reads more KEYS/ARGV than Go passes"
			}
			if p.Exit != px.ExitReturn {
				return true, ""
			}
			errS := findExtract(p, r.Res, 1)
			if errS != nil && p.Abs(errS).K == px.NonNil {
				if p.Abs(p.Results[0]).K != px.False || p.Results[1].Strip(false) != errS {
					return false, "a store error is not returned as (false, err)"
				}
				return true, ""
			}
			res := p.Results[0].Strip(false)
			if p.Abs(res).K == px.False {
				return true, ""
			}
			if res.Kind != px.KBinOp || res.Op != token.EQL || !dependsOn(p, res.X, r.Res) {
				return false, "result is not `reply == 1`"
			}
			if k, ok := constInt(p, res.Y); !ok || k != 1 {
				return false, "released is reported for a reply other than 1"
			}
			return true, ""
		})
	}
	// id: written only by the constructor, from stringx.Randn(randomLen)
	var bad []string
	sites := 0
	for _, fn := range c.P.AllFuncs(redisPkg) {
		for _, b := range fn.Blocks {
			for _, ins := range b.Instrs {
				if st, ok := ins.(*ssa.Store); ok {
					if fa, ok := st.Addr.(*ssa.FieldAddr); ok && namedStructOf(fa.X.Type()) == "RedisLock" && (fieldNameOf(fa) == "id" || fieldNameOf(fa) == "key") {
						sites++
						if fn.Name() != "NewRedisLock" {
							bad = append(bad, fn.Name()+" writes "+fieldNameOf(fa))
						}
					}
				}
			}
		}
	}
	o := c.R.Check(len(bad) == 0 && sites >= 2, rule, redisPkg+".RedisLock.id/key", "the lock's id and key are written only by NewRedisLock", "-", fmt.Sprint(bad), nil, 0)
	o.Sites = sites
	if f := c.fn(rule, redisPkg, "NewRedisLock"); f != nil {
		ps := c.paths(rule, f, px.Config{})
		c.forall(rule, redisPkg+".NewRedisLock", "the id is stringx.Randn(randomLen) with randomLen >= 16; the key is the caller's", f, ps, func(p *px.Path) (bool, string) {
			okID, okKey := false, false
			for _, e := range p.All(px.KindIs(px.EvStore)) {
				_, n, ok := e.Addr.FieldAddrOf()
				if !ok {
					continue
				}
				switch n {
				case "id":
					v := e.Val.Strip(false)
					if v.Kind == px.KCall && shortName(v.Call) == "core/stringx.Randn" {
						if k, ok := constInt(p, v.Call.Args[0]); ok && k >= 16 {
							okID = true
						}
					}
				case "key":
					okKey = isParam(e.Val, f.Params[1])
				}
			}
			if !okID || !okKey {
				return false, "id is not a fresh random string of at least 16 characters, or key is not the argument"
			}
			return true, ""
		})
	}
	c.R.Min(rule, 4, "AcquireCtx, ReleaseCtx, writers, constructor")
}

// c19idsource: the lock's id comes from stringx.Randn, whose generator state is one shared math/rand.Source.
// A Source is a read-modify-write generator and not safe for concurrent use, so every call on it must be made
// under the owner's EXCLUSIVE lock — under a read lock two concurrent NewRedisLock calls can read the same state
// and obtain the same id, after which both "own" the key (the script's owner branch answers OK).
func c19idsource(c *Ctx) {
	rule := "C19.R4"
	const pkg = "core/stringx"
	sites := 0
	for _, fn := range c.P.AllFuncs(pkg) {
		uses := false
		for _, b := range fn.Blocks {
			for _, ins := range b.Instrs {
				if ci, ok := ins.(ssa.CallInstruction); ok && ci.Common().IsInvoke() && isRandSource(ci.Common().Value.Type()) {
					uses = true
				}
			}
		}
		if !uses {
			continue
		}
		name := fn.RelString(fn.Pkg.Pkg)
		c.R.Funcs[pkg+"."+name] = true
		ps := c.paths(rule, fn, px.Config{MaxVisits: 2, MaxPaths: 10000})
		c.forall(rule, pkg+"."+name, "every call on the shared math/rand.Source (a read-modify-write generator) is made while the owner's mutex is held exclusively", fn, ps, func(p *px.Path) (bool, string) {
			held := 0
			for i := range p.Events {
				e := &p.Events[i]
				switch {
				case lockOn("lock", "Lock")(e):
					held++
				case lockOn("lock", "Unlock")(e):
					held--
				case e.Kind == px.EvCall && e.Call.Method != nil && e.Call.Recv != nil && isRandSource(e.Call.Method.Type().(*types.Signature).Recv().Type()):
					sites++
					if held <= 0 {
						return false, "the generator is stepped (" + e.Call.Method.Name() + ") without the exclusive lock: concurrent callers can read the same state and draw the same id"
					}
				}
			}
			return true, ""
		})
	}
	if sites == 0 {
		c.R.Hold(rule, pkg+"#source", "no direct use of a math/rand.Source in the package (nothing to synchronise)", 0)
	}
}

func isRandSource(t types.Type) bool {
	n, ok := t.(*types.Named)
	if !ok || n.Obj().Pkg() == nil {
		return false
	}
	return n.Obj().Pkg().Path() == "math/rand" && (n.Obj().Name() == "Source" || n.Obj().Name() == "Source64")
}
