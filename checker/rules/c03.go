package rules

import (
	"fmt"
	"go/constant"
	"go/token"
	"strings"

	"golang.org/x/tools/go/ssa"

	"gzverify/luax"
	"gzverify/px"
)

// C03 — rate limiters.
func init() { register("C03", "other", c03) }

const limitPkg = "core/limit"

func c03(c *Ctx) {
	c.R.RuleText = "path enumeration of the two embedded Lua scripts (gopher-lua AST) with decision tables over the orderings they test, cross-language agreement of return codes and KEYS/ARGV roles with the Go callers (value flow), path rules of TakeCtx/reserveN/startMonitor/waitForRedis"
	c.R.Explain = "Structural necessary conditions of C03: the period script increments the key's counter by exactly 1 once per call, arms the TTL exactly when the counter is 1 (first request of a period) and answers by comparing the counter with ARGV[1]; composed with TakeCtx's mapping the answer is Allowed below the quota, HitQuota at it, OverQuota above it, and a store error or an unexpected reply is reported as (Unknown, error), never as a grant; Go passes one key and [quota, period seconds] in that order. The token script computes filled = min(capacity, last + max(0, now-last_ts)*rate), grants iff filled >= requested, stores filled-requested on a grant and filled otherwise, and always rewrites both keys with a TTL; Go passes [rate, burst, now.Unix(), n] in that order and both keys; reserveN grants only on reply 1 or through the local limiter (same rate/burst) with the caller's now and n; redis.Nil and context errors deny; redisAlive goes 0 only when a monitor is started (under rescueLock, once) and 1 only after a successful Ping. NOT decided: the joint bound across interleavings and outages (needs Redis' execution model and time), EVAL atomicity (assumed)."
	c.R.Assume = append(c.R.Assume, "Redis EVAL runs a script atomically", "Lua boolean false is returned as redis.Nil, true as integer 1", "x/time/rate limiter semantics")
	c03period(c)
	c03token(c)
	c03reserve(c)
	c03monitor(c)
	c03entryPoints(c)
	scriptDispatch(c, "C03.R8")
	// R9 (round 8): what the limiter takes for a store outage is the redis breaker's answer — the breaker's entry-point
	// rules (C01) are part of this check (an entry point that returns something other than the context's error, or a hook
	// that drops the context, sends a healthy store's requests to the private bucket)
	runShared(c, "C01.", "C03.R9·C01.", c01)
}

// luaOrdFeasible: facts of the path agree with the ordering ord(a,b) (-1,0,1) where isA/isB classify operands.
func luaOrdFeasible(p *luax.Path, isA, isB func(*luax.V) bool, ord int) bool {
	for _, f := range p.Facts {
		c := f.Cond
		if c.Kind != "op" || len(c.Args) != 2 {
			continue
		}
		var o int
		switch {
		case isA(c.Args[0]) && isB(c.Args[1]):
			o = ord
		case isB(c.Args[0]) && isA(c.Args[1]):
			o = -ord
		default:
			continue
		}
		var v bool
		switch c.S {
		case "<":
			v = o < 0
		case "<=":
			v = o <= 0
		case ">":
			v = o > 0
		case ">=":
			v = o >= 0
		case "==":
			v = o == 0
		case "~=":
			v = o != 0
		default:
			continue
		}
		if v != f.Truth {
			return false
		}
	}
	return true
}

func c03period(c *Ctx) {
	rule := "C03.R1"
	sc, name := c.scriptOf(rule, limitPkg, "periodScript")
	if sc == nil {
		return
	}
	c.R.Extra["periodscript"] = fmtPaths(sc)
	isCounter := func(v *luax.V) bool { v = v.Strip(); return v != nil && v.Kind == "redis" && v.S == "INCRBY" }
	isLimit := func(v *luax.V) bool { return luaIsArgv(v, 1) }
	c.luaForall(rule, name+"#counter", "every path increments KEYS[1] by exactly 1, exactly once; the TTL (ARGV[2]) is armed on KEYS[1] exactly when the incremented counter equals 1", sc, func(p *luax.Path) (bool, string) {
		inc := p.EffectsOf("INCRBY")
		if len(inc) != 1 || len(inc[0].Args) != 2 || !luaIsKeys(inc[0].Args[0], 1) || !luaIsNum(inc[0].Args[1], "1") {
			return false, "the counter is not incremented by exactly 1 on KEYS[1] exactly once"
		}
		for _, e := range p.Effects {
			if e.Cmd != "INCRBY" && e.Cmd != "EXPIRE" {
				return false, "unexpected command " + e.Cmd
			}
		}
		first := 0
		for _, f := range p.Facts {
			cnd := f.Cond
			if cnd.Kind == "op" && (cnd.S == "==" || cnd.S == "~=") && ((isCounter(cnd.Args[0]) && luaIsNum(cnd.Args[1], "1")) || (isCounter(cnd.Args[1]) && luaIsNum(cnd.Args[0], "1"))) {
				if (cnd.S == "==") == f.Truth {
					first = 1
				} else {
					first = -1
				}
			}
		}
		exp := p.EffectsOf("EXPIRE")
		switch first {
		case 1:
			if len(exp) != 1 || !luaIsKeys(exp[0].Args[0], 1) || !luaIsArgv(exp[0].Args[1], 2) {
				return false, "the first request of a period does not arm the TTL with ARGV[2] on KEYS[1]"
			}
		case -1:
			if len(exp) != 0 {
				return false, "the TTL is re-armed by a later request of the same period (the fixed window becomes a sliding one: rejected traffic keeps the key alive and later periods grant nothing)"
			}
		default:
			if len(exp) != 0 {
				return false, "EXPIRE is executed without testing that the counter is 1 (the window slides with every request)"
			}
			return false, "the script never tests whether this is the first request of the period: the key would never expire"
		}
		return true, ""
	})
	// Lua table composed with the Go mapping
	f := c.fn(rule, limitPkg, "(*PeriodLimit).TakeCtx")
	if f == nil {
		return
	}
	ps := c.paths(rule, f, px.Config{})
	goOutcome := func(code int64, known bool) string {
		// outcome of TakeCtx for a reply `code` (int64) without store error
		outs := map[string]bool{}
		for _, p := range ps {
			if p.Exit != px.ExitReturn {
				continue
			}
			run := p.First(calleeIs("core/stores/redis.(*Redis).ScriptRunCtx"))
			if run == nil {
				continue
			}
			errS := findExtract(p, run.Res, 1)
			if errS == nil || p.Abs(errS).K != px.Nil {
				continue
			}
			feas := true
			typed := false
			for _, b := range p.All(px.KindIs(px.EvBranch)) {
				cnd := b.Cond.Strip(true)
				if cnd.Kind == px.KExtract && cnd.Index == 1 && cnd.X.Kind == px.KTypeAssert {
					typed = true
					if !b.Taken {
						feas = false
					}
				}
				if cnd.Kind == px.KBinOp && cnd.Op == token.EQL {
					if k, ok := constInt(p, cnd.Y); ok {
						if (known && (code == k)) != b.Taken {
							feas = false
						}
					}
				}
			}
			if !feas || !typed {
				continue
			}
			r0, _ := constInt(p, p.Results[0])
			e := "err"
			if px.IsNilConst(p.Results[1]) {
				e = "nil"
			}
			outs[fmt.Sprintf("%d,%s", r0, e)] = true
		}
		var ks []string
		for k := range outs {
			ks = append(ks, k)
		}
		sortStrings(ks)
		return strings.Join(ks, "|")
	}
	cv := func(n string) int64 {
		v := constVal(c, limitPkg, n)
		if v == nil {
			return -999
		}
		i, _ := constant.Int64Val(v)
		return i
	}
	want := map[int]string{-1: fmt.Sprintf("%d,nil", cv("Allowed")), 0: fmt.Sprintf("%d,nil", cv("HitQuota")), 1: fmt.Sprintf("%d,nil", cv("OverQuota"))}
	names := map[int]string{-1: "counter < quota", 0: "counter == quota", 1: "counter > quota"}
	var bad []string
	for ord := -1; ord <= 1; ord++ {
		rets := map[string]bool{}
		for _, p := range sc.Paths {
			if !luaOrdFeasible(p, isCounter, isLimit, ord) {
				continue
			}
			if p.Ret == nil || p.Ret.Kind != "num" {
				rets["?"+p.Ret.String()] = true
				continue
			}
			rets[p.Ret.S] = true
		}
		if len(rets) != 1 {
			bad = append(bad, fmt.Sprintf("%s: script returns %v", names[ord], rets))
			continue
		}
		for r := range rets {
			var code int64
			fmt.Sscanf(r, "%d", &code)
			if got := goOutcome(code, true); got != want[ord] {
				bad = append(bad, fmt.Sprintf("%s: script returns %s which TakeCtx maps to (%s), want (%s)", names[ord], r, got, want[ord]))
			}
		}
	}
	if got := goOutcome(0, false); got != fmt.Sprintf("%d,err", cv("Unknown")) {
		bad = append(bad, "an unexpected reply code is mapped to ("+got+"), want (Unknown, ErrUnknownCode)")
	}
	c.R.Check(len(bad) == 0, rule, name+"∘TakeCtx", "composed decision table: counter below the quota ⇒ Allowed, equal ⇒ HitQuota, above ⇒ OverQuota; any other reply code ⇒ (Unknown, error)", posOf(c, f), strings.Join(bad, "; "), bad, 4)

	// R2 errors are never grants
	rule = "C03.R2"
	c.forall(rule, limitPkg+".(*PeriodLimit).TakeCtx", "a store error is returned as (Unknown, that error); a reply that is not an integer as (Unknown, ErrUnknownCode); a grant only with a nil store error", f, ps, func(p *px.Path) (bool, string) {
		if p.Exit != px.ExitReturn {
			return true, ""
		}
		run := p.All(calleeIs("core/stores/redis.(*Redis).ScriptRunCtx"))
		if len(run) != 1 {
			return false, "the script is not run exactly once"
		}
		errS := findExtract(p, run[0].Res, 1)
		r0, isC := constInt(p, p.Results[0])
		if errS != nil && p.Abs(errS).K == px.NonNil {
			if !isC || r0 != cv("Unknown") || p.Results[1].Strip(false) != errS {
				return false, "a store error is not reported as (Unknown, err)"
			}
			return true, ""
		}
		if isC && (r0 == cv("Allowed") || r0 == cv("HitQuota")) {
			if errS == nil || p.Abs(errS).K != px.Nil {
				return false, "a grant is returned without having established that the store call succeeded"
			}
		}
		return true, ""
	})

	// R3 arguments
	rule = "C03.R3"
	c.forall(rule, limitPkg+".(*PeriodLimit).TakeCtx#args", "one key (prefix+key) and exactly [quota, period seconds] are passed, in the order the script reads them (ARGV[1] is compared with the counter, ARGV[2] is the TTL)", f, ps, func(p *px.Path) (bool, string) {
		run := p.First(calleeIs("core/stores/redis.(*Redis).ScriptRunCtx"))
		if run == nil {
			return false, "no script run"
		}
		if !px.IsGlobalLoad(run.Call.Args[2], mod+limitPkg, "periodScript") {
			return false, "another script is run"
		}
		keys, args, ok := scriptRunArgs(p, run)
		if !ok {
			return false, "keys/args are not literal lists"
		}
		if len(keys) < sc.MaxKeys || len(args) < sc.MaxArgv {
			return false, fmt.Sprintf("the script reads KEYS[1..%d], ARGV[1..%d] but Go passes %d keys, %d args", sc.MaxKeys, sc.MaxArgv, len(keys), len(args))
		}
		if len(keys) != 1 || !dependsOn(p, keys[0], p.ParamSym(f.Params[2])) {
			return false, "the key is not derived from the caller's key"
		}
		q := args[0].Strip(false)
		if q.Kind != px.KCall || shortName(q.Call) != "strconv.Itoa" || !px.IsFieldLoad(q.Call.Args[0], "quota", nil) {
			return false, "ARGV[1] is not the configured quota"
		}
		w := args[1].Strip(false)
		if w.Kind != px.KCall || shortName(w.Call) != "strconv.Itoa" {
			return false, "ARGV[2] is not a number of seconds"
		}
		if s := w.Call.Args[0].Strip(false); s.Kind != px.KCall || shortName(s.Call) != limitPkg+".(*PeriodLimit).calcExpireSeconds" {
			return false, "ARGV[2] is not calcExpireSeconds()"
		}
		return true, ""
	})
	if g := c.fn(rule, limitPkg, "(*PeriodLimit).calcExpireSeconds"); g != nil {
		gps := c.paths(rule, g, px.Config{})
		c.forall(rule, limitPkg+".(*PeriodLimit).calcExpireSeconds", "not aligned ⇒ the configured period; aligned ⇒ period − (local unix time mod period)", g, gps, func(p *px.Path) (bool, string) {
			if p.Exit != px.ExitReturn {
				return true, ""
			}
			aligned := 0
			for _, b := range p.All(px.KindIs(px.EvBranch)) {
				if px.IsFieldLoad(b.Cond, "align", nil) {
					aligned = triOf(b.Taken)
				}
			}
			r := p.Results[0].Strip(true)
			switch aligned {
			case -1:
				if !px.IsFieldLoad(r, "period", nil) {
					return false, "the unaligned TTL is not the period"
				}
			case 1:
				if r.Kind != px.KBinOp || r.Op != token.SUB || !px.IsFieldLoad(r.X, "period", nil) {
					return false, "the aligned TTL is not period − remainder"
				}
				m := r.Y.Strip(true)
				if m.Kind != px.KBinOp || m.Op != token.REM || !px.IsFieldLoad(m.Y.Strip(true), "period", nil) {
					return false, "the aligned remainder is not taken modulo the period"
				}
				// the dividend is the LOCAL time in seconds: now.Unix() + zone offset
				got := anf(p, m.X, func(s *px.Sym) string {
					if s.Kind == px.KCall && shortName(s.Call) == "time.(Time).Unix" {
						return "unix"
					}
					if s.Kind == px.KExtract && s.Index == 1 && s.X.Kind == px.KCall && shortName(s.X.Call) == "time.(Time).Zone" {
						return "offset"
					}
					return ""
				}).String()
				if got != "1·offset + 1·unix" {
					return false, "the aligned window is not computed from local time (now.Unix() + zone offset): " + got + " — the period boundary moves away from local midnight and quota used before it is granted again"
				}
			default:
				return false, "align flag not tested"
			}
			return true, ""
		})
	}
	c.R.Min("C03.R1", 2, "period script counter/TTL, composed table")
	c.R.Min("C03.R3", 2, "TakeCtx args, calcExpireSeconds")
}

func c03token(c *Ctx) {
	rule := "C03.R4"
	sc, name := c.scriptOf(rule, limitPkg, "tokenScript")
	if sc == nil {
		return
	}
	c.R.Extra["tokenscript"] = fmtPaths(sc)
	// roles: ARGV[1] rate, ARGV[2] capacity, ARGV[3] now, ARGV[4] requested
	getOf := func(v *luax.V, key int) bool {
		v = v.Strip()
		return v != nil && v.Kind == "redis" && v.S == "GET" && len(v.Args) == 2 && luaIsKeys(v.Args[1], key)
	}
	c.luaForall(rule, name, "filled = min(capacity, last_tokens + max(0, now − last_refreshed)·rate) with last_tokens defaulting to capacity and last_refreshed to 0; granted iff filled >= requested; stored tokens = filled − requested on a grant, filled otherwise; both keys are rewritten with a TTL on every path; the grant decision is what is returned", sc, func(p *luax.Path) (bool, string) {
		// establish last_tokens / last_refreshed on this path
		var lastTok, lastTs string
		for _, f := range p.Facts {
			cnd := f.Cond
			if cnd.Kind == "op" && (cnd.S == "==" || cnd.S == "~=") && len(cnd.Args) == 2 && cnd.Args[1].Kind == "nil" {
				isNil := (cnd.S == "==") == f.Truth
				switch {
				case getOf(cnd.Args[0], 1):
					if isNil {
						lastTok = "ARGV[2]"
					} else {
						lastTok = cnd.Args[0].Canon()
					}
				case getOf(cnd.Args[0], 2):
					if isNil {
						lastTs = "0"
					} else {
						lastTs = cnd.Args[0].Canon()
					}
				}
			}
		}
		if lastTok == "" || lastTs == "" {
			return false, "missing-key defaults (tokens → capacity, timestamp → 0) are not established by nil tests"
		}
		se := p.EffectsOf("SETEX")
		if len(se) != 2 {
			return false, fmt.Sprintf("SETEX ×%d on this path: both the token count and the refresh timestamp must be rewritten on every path (skipping the timestamp after a denial credits the same elapsed seconds again)", len(se))
		}
		var tok, ts *luax.Effect
		for i := range se {
			switch {
			case luaIsKeys(se[i].Args[0], 1):
				tok = &se[i]
			case luaIsKeys(se[i].Args[0], 2):
				ts = &se[i]
			}
		}
		if tok == nil || ts == nil {
			return false, "SETEX does not target KEYS[1] and KEYS[2] once each"
		}
		if !luaIsArgv(ts.Args[2], 3) {
			return false, "the stored timestamp is not the caller's now (ARGV[3])"
		}
		for _, e := range se {
			// the keys must outlive the time a drained bucket needs to refill (capacity/rate) — an expired key reads
			// back as a full bucket — and the TTL must be a valid (positive) expiry for every positive rate and
			// capacity. Accepted: ceil(k·capacity/rate) with k ≥ 1, or max(1, floor(k·capacity/rate)) with k ≥ 2.
			scaled := func(v *luax.V) (float64, bool) { // v = (ARGV[2]/ARGV[1]) [* k]
				v = v.Strip()
				if v.Canon() == "(ARGV[2] / ARGV[1])" {
					return 1, true
				}
				if v.Kind == "op" && v.S == "*" {
					x, y := v.Args[0].Strip(), v.Args[1].Strip()
					if x.Kind == "num" {
						x, y = y, x
					}
					var k float64
					if y.Kind == "num" && x.Canon() == "(ARGV[2] / ARGV[1])" {
						fmt.Sscanf(y.S, "%g", &k)
						return k, true
					}
				}
				return 0, false
			}
			ttl := e.Args[1].Strip()
			okTTL := false
			why := ""
			switch {
			case ttl.Kind == "call" && ttl.S == "math.ceil" && len(ttl.Args) == 1:
				if k, ok := scaled(ttl.Args[0]); ok && k >= 1 {
					okTTL = true
				}
			case ttl.Kind == "call" && ttl.S == "math.max" && len(ttl.Args) == 2:
				x, y := ttl.Args[0].Strip(), ttl.Args[1].Strip()
				if x.Kind == "num" {
					x, y = y, x
				}
				var lo float64
				if y.Kind == "num" {
					fmt.Sscanf(y.S, "%g", &lo)
				}
				if x.Kind == "call" && (x.S == "math.floor" || x.S == "math.ceil") && len(x.Args) == 1 && lo >= 1 {
					if k, ok := scaled(x.Args[0]); ok && k >= 2 {
						okTTL = true
					}
				}
			case ttl.Kind == "call" && ttl.S == "math.floor" && len(ttl.Args) == 1:
				if _, ok := scaled(ttl.Args[0]); ok {
					why = " — floor(k·capacity/rate) is 0 whenever k·capacity < rate (e.g. rate 100, burst 10): SETEX then fails with 'invalid expire time', every request takes the outage path and each instance grants its own local burst although the store is reachable"
				}
			}
			if !okTTL {
				return false, "the keys' TTL is not a positive expiry that safely exceeds the refill time capacity/rate for every rate and capacity: " + e.Args[1].Canon() + why
			}
		}
		delta := fmt.Sprintf("math.max(%s, %s)", "(ARGV[3] - "+lastTs+")", "0")
		if delta2 := "math.max(0, (ARGV[3] - " + lastTs + "))"; delta2 < delta || true {
			delta = luaSortMinMax("math.max", "0", "(ARGV[3] - "+lastTs+")")
		}
		prod := luaCommut("*", delta, "ARGV[1]")
		sum := luaCommut("+", lastTok, prod)
		filled := luaSortMinMax("math.min", "ARGV[2]", sum)
		wantAllowed := "(ARGV[4] <= " + filled + ")"
		// grant decision
		granted := 0
		for _, f := range p.Facts {
			if f.Cond.Canon() == wantAllowed {
				granted = triOf(f.Truth)
			}
		}
		if p.Ret == nil || p.Ret.Canon() != wantAllowed {
			got := "<none>"
			if p.Ret != nil {
				got = p.Ret.Canon()
			}
			return false, "the script does not return (filled >= requested) with filled = min(capacity, last + max(0, now−ts)·rate): returns " + got + ", want " + wantAllowed
		}
		if granted == 0 {
			return false, "the stored token count does not depend on the grant decision"
		}
		newTok := tok.Args[2].Canon()
		if granted == 1 && newTok != "("+filled+" - ARGV[4])" {
			return false, "after a grant the stored count is not filled − requested: " + newTok
		}
		if granted == -1 && newTok != filled {
			return false, "after a denial the stored count is not the refilled count: " + newTok
		}
		return true, ""
	})
	c.R.Min(rule, 1, "token script")
}

func luaCommut(op, a, b string) string {
	if a > b {
		a, b = b, a
	}
	return "(" + a + " " + op + " " + b + ")"
}

func luaSortMinMax(fn, a, b string) string {
	if a > b {
		a, b = b, a
	}
	return fn + "(" + a + ", " + b + ")"
}

func c03reserve(c *Ctx) {
	rule := "C03.R5"
	f := c.fn(rule, limitPkg, "(*TokenLimiter).reserveN")
	if f == nil {
		return
	}
	sc, _ := c.scriptOf(rule, limitPkg, "tokenScript")
	nowP, nP := f.Params[2], f.Params[3]
	ps := c.paths(rule, f, px.Config{})
	run := calleeIs("core/stores/redis.(*Redis).ScriptRunCtx")
	rescue := func(e *px.Event) bool {
		return e.Kind == px.EvCall && shortName(e.Call) == "golang.org/x/time/rate.(*Limiter).AllowN" && px.IsFieldLoad(e.Call.Recv, "rescueLimiter", nil)
	}
	mon := calleeIs(limitPkg + ".(*TokenLimiter).startMonitor")
	c.forall(rule, limitPkg+".(*TokenLimiter).reserveN", "granted only when the script replied 1 with a nil error, or by the local limiter asked with the caller's own now and n; redis.Nil and context errors deny; any other store failure starts the monitor once and falls back to the local limiter; with redisAlive == 0 the store is not consulted", f, ps, func(p *px.Path) (bool, string) {
		if p.Exit != px.ExitReturn {
			return true, ""
		}
		r := p.Results[0].Strip(false)
		runs, resc, mons := p.All(run), p.All(rescue), p.All(mon)
		for _, e := range resc {
			if !isParam(e.Call.Args[1], nowP) || !isParam(e.Call.Args[2], nP) {
				return false, "the local limiter is not asked with the caller's now and n"
			}
		}
		if len(resc) > 1 || len(runs) > 1 {
			return false, "limiter consulted more than once"
		}
		if len(runs) == 0 {
			// fallback mode
			alive := p.First(calleeIs("sync/atomic.LoadUint32"))
			if alive == nil || len(resc) != 1 || r != resc[0].Res {
				return false, "without consulting the store the answer is not the local limiter's"
			}
			return true, ""
		}
		errS := findExtract(p, runs[0].Res, 1)
		if len(resc) == 1 {
			if r != resc[0].Res {
				return false, "the local limiter's answer is not what is returned"
			}
			if len(mons) != 1 || mons[0].Seq > resc[0].Seq {
				return false, "falling back to the local limiter without starting the monitor first"
			}
			return true, ""
		}
		if p.Abs(r).K == px.False {
			return true, ""
		}
		// possible grant from the store: must be code == 1 with nil error
		if errS == nil || p.Abs(errS).K != px.Nil {
			return false, "a grant is possible although the store call did not succeed"
		}
		if r.Kind != px.KBinOp || r.Op != token.EQL {
			return false, "the answer is not `reply == 1`: " + r.Describe()
		}
		if k, ok := constInt(p, r.Y); !ok || k != 1 {
			return false, "the granted reply code is not 1"
		}
		if x := r.X.Strip(true); x.Kind != px.KExtract || x.X.Kind != px.KTypeAssert || !dependsOn(p, x, runs[0].Res) {
			return false, "the compared value is not the script's reply"
		}
		return true, ""
	})
	c.forall(rule, limitPkg+".(*TokenLimiter).reserveN#errors", "redis.Nil (Lua false) and context deadline/cancel errors deny without touching the local limiter or the monitor", f, ps, func(p *px.Path) (bool, string) {
		for _, e := range p.All(calleeIs("errors.Is")) {
			if p.Abs(e.Res).K == px.True {
				if a := p.Abs(e.Call.Args[1].Strip(true)); a.K != px.ConstV || a.C.Kind() != constant.String || constant.StringVal(a.C) != "redis: nil" {
					return false, "errors.Is compared with something other than redis.Nil"
				}
				if p.Exit == px.ExitReturn && (p.Abs(p.Results[0]).K != px.False || p.Has(rescue) || p.Has(mon)) {
					return false, "a denial by the script (redis.Nil) is not answered with false"
				}
			}
		}
		for _, e := range p.All(calleeIs("core/errorx.In")) {
			if p.Abs(e.Res).K == px.True && p.Exit == px.ExitReturn {
				if p.Abs(p.Results[0]).K != px.False || p.Has(rescue) {
					return false, "a context error is not answered with false"
				}
			}
		}
		return true, ""
	})
	// argument roles
	c.forall("C03.R3", limitPkg+".(*TokenLimiter).reserveN#args", "the script gets both keys (tokens, timestamp) and [rate, burst, now.Unix(), n] in the order it reads them (ARGV[1] multiplies the elapsed seconds, ARGV[2] caps, ARGV[3] is now, ARGV[4] is requested)", f, ps, func(p *px.Path) (bool, string) {
		r := p.First(run)
		if r == nil {
			return true, ""
		}
		if !px.IsGlobalLoad(r.Call.Args[2], mod+limitPkg, "tokenScript") {
			return false, "another script is run"
		}
		keys, args, ok := scriptRunArgs(p, r)
		if !ok {
			return false, "keys/args are not literal lists"
		}
		if sc != nil && (len(keys) < sc.MaxKeys || len(args) < sc.MaxArgv) {
			return false, fmt.Sprintf("the script reads KEYS[1..%d], ARGV[1..%d] but Go passes %d keys, %d args", sc.MaxKeys, sc.MaxArgv, len(keys), len(args))
		}
		if len(keys) != 2 || !px.IsFieldLoad(keys[0], "tokenKey", nil) || !px.IsFieldLoad(keys[1], "timestampKey", nil) {
			return false, "keys are not [tokenKey, timestampKey]"
		}
		if len(args) != 4 {
			return false, "not four arguments"
		}
		itoaOf := func(s *px.Sym, pred func(x *px.Sym) bool) bool {
			s = s.Strip(false)
			return s.Kind == px.KCall && (shortName(s.Call) == "strconv.Itoa" || shortName(s.Call) == "strconv.FormatInt") && pred(s.Call.Args[0].Strip(true))
		}
		if !itoaOf(args[0], func(x *px.Sym) bool { return px.IsFieldLoad(x, "rate", nil) }) {
			return false, "ARGV[1] is not the rate"
		}
		if !itoaOf(args[1], func(x *px.Sym) bool { return px.IsFieldLoad(x, "burst", nil) }) {
			return false, "ARGV[2] is not the burst"
		}
		if !itoaOf(args[2], func(x *px.Sym) bool {
			return x.Kind == px.KCall && shortName(x.Call) == "time.(Time).Unix" && isParamOrCell(x.Call.Args[0], nowP)
		}) {
			return false, "ARGV[3] is not the caller's now in whole seconds"
		}
		if !itoaOf(args[3], func(x *px.Sym) bool { return isParam(x, nP) }) {
			return false, "ARGV[4] is not the requested n"
		}
		return true, ""
	})
	// R6 rescue limiter built from the same rate and burst
	rule = "C03.R6"
	if g := c.fn(rule, limitPkg, "NewTokenLimiter"); g != nil {
		gps := c.paths(rule, g, px.Config{})
		rateP, burstP := g.Params[0], g.Params[1]
		c.forall(rule, limitPkg+".NewTokenLimiter", "the local fallback limiter is rate.NewLimiter(rate.Every(time.Second/rate), burst) with the same rate and burst as the shared bucket; the limiter starts in store mode (redisAlive = 1)", g, gps, func(p *px.Path) (bool, string) {
			nl := p.First(calleeIs("golang.org/x/time/rate.NewLimiter"))
			if nl == nil {
				return false, "no local limiter built"
			}
			if !isParam(nl.Call.Args[1], burstP) {
				return false, "local burst differs from the shared burst"
			}
			ev := nl.Call.Args[0].Strip(false)
			if ev.Kind != px.KCall || shortName(ev.Call) != "golang.org/x/time/rate.Every" {
				return false, "local rate is not rate.Every(...)"
			}
			d := ev.Call.Args[0].Strip(true)
			if d.Kind != px.KBinOp || d.Op != token.QUO || !isParam(d.Y.Strip(true), rateP) {
				return false, "interval is not time.Second / rate"
			}
			if a := p.Abs(d.X); a.K != px.ConstV || !numEq(a.C, constantInt(1e9)) {
				return false, "interval numerator is not one second"
			}
			okAlive, okRate, okBurst := false, false, false
			for _, e := range p.All(px.KindIs(px.EvStore)) {
				if _, n, ok := e.Addr.FieldAddrOf(); ok {
					switch n {
					case "redisAlive":
						if k, isc := constInt(p, e.Val); isc && k == 1 {
							okAlive = true
						}
					case "rate":
						okRate = isParam(e.Val, rateP)
					case "burst":
						okBurst = isParam(e.Val, burstP)
					}
				}
			}
			if !okAlive || !okRate || !okBurst {
				return false, "rate/burst/redisAlive fields are not initialised from the arguments"
			}
			return true, ""
		})
	}
	c.R.Min("C03.R5", 2, "reserveN, reserveN#errors")
}

func c03monitor(c *Ctx) {
	rule := "C03.R7"
	isAliveStore := func(e *px.Event, v int64, p *px.Path) bool {
		if e.Kind != px.EvCall || shortName(e.Call) != "sync/atomic.StoreUint32" || !px.FieldAddrIs(e.Call.Args[0], "redisAlive", nil) {
			return false
		}
		k, ok := constInt(p, e.Call.Args[1])
		return ok && k == v
	}
	if f := c.fn(rule, limitPkg, "(*TokenLimiter).startMonitor"); f != nil {
		lockGuardFn(c, rule, limitPkg+".(*TokenLimiter).startMonitor#lock", f, "rescueLock", []string{"monitorStarted"}, false, true, nil, false)
		ps := c.paths(rule, f, px.Config{})
		c.forall(rule, limitPkg+".(*TokenLimiter).startMonitor", "a monitor already running ⇒ nothing changes (in particular redisAlive is not cleared again); otherwise monitorStarted ← true, redisAlive ← 0 and exactly one waitForRedis goroutine is started", f, ps, func(p *px.Path) (bool, string) {
			started := 0
			for _, b := range p.All(px.KindIs(px.EvBranch)) {
				if px.IsFieldLoad(b.Cond, "monitorStarted", nil) {
					started = triOf(b.Taken)
				}
			}
			var clears, gos, sets int
			for i := range p.Events {
				e := &p.Events[i]
				if isAliveStore(e, 0, p) {
					clears++
				}
				if e.Kind == px.EvGo {
					gos++
					if e.Call.Static == nil || e.Call.Static.Name() != "waitForRedis" {
						return false, "the goroutine is not waitForRedis"
					}
				}
				if e.Kind == px.EvStore && px.FieldAddrIs(e.Addr, "monitorStarted", nil) && p.Abs(e.Val).K == px.True {
					sets++
				}
			}
			switch started {
			case 1:
				if clears+gos+sets != 0 {
					return false, "with a monitor already running the limiter is switched to fallback mode again: a late failing request after recovery leaves it on its local bucket forever"
				}
			case -1:
				if clears != 1 || gos != 1 || sets != 1 {
					return false, fmt.Sprintf("monitor start: redisAlive←0 ×%d, monitorStarted←true ×%d, goroutine ×%d", clears, sets, gos)
				}
			default:
				return false, "monitorStarted is not tested"
			}
			return true, ""
		})
	}
	if f := c.fn(rule, limitPkg, "(*TokenLimiter).waitForRedis"); f != nil {
		ps := c.paths(rule, f, px.Config{MaxVisits: 2})
		c.forall(rule, limitPkg+".(*TokenLimiter).waitForRedis", "redisAlive ← 1 only after Ping() returned true; on exit monitorStarted is cleared under rescueLock", f, ps, func(p *px.Path) (bool, string) {
			for i := range p.Events {
				e := &p.Events[i]
				if isAliveStore(e, 1, p) {
					ok := false
					for j := i - 1; j >= 0; j-- {
						if calleeIs("core/stores/redis.(*Redis).Ping")(&p.Events[j]) {
							ok = p.Abs(p.Events[j].Res).K == px.True
							break
						}
					}
					if !ok {
						return false, "store mode is restored without a successful Ping"
					}
				}
				if isAliveStore(e, 0, p) {
					return false, "the monitor itself clears redisAlive"
				}
			}
			if p.Exit == px.ExitReturn {
				w, cleared := 0, false
				for i := range p.Events {
					e := &p.Events[i]
					switch {
					case lockOn("rescueLock", "Lock")(e):
						w++
					case lockOn("rescueLock", "Unlock")(e):
						w--
					case e.Kind == px.EvStore && px.FieldAddrIs(e.Addr, "monitorStarted", nil):
						if w <= 0 || p.Abs(e.Val).K != px.False {
							return false, "monitorStarted not cleared under the lock"
						}
						cleared = true
					}
				}
				if !cleared {
					return false, "monitorStarted stays set after the monitor exits (no later outage can start a monitor)"
				}
			}
			return true, ""
		})
	}
	// who writes redisAlive
	var bad []string
	sites := 0
	for _, fn := range c.P.AllFuncs(limitPkg) {
		for _, b := range fn.Blocks {
			for _, ins := range b.Instrs {
				call, ok := ins.(ssa.CallInstruction)
				if !ok {
					continue
				}
				n := calleeName(call.Common())
				if (n == "sync/atomic.StoreUint32" || n == "sync/atomic.CompareAndSwapUint32" || n == "sync/atomic.AddUint32" || n == "sync/atomic.SwapUint32") && viaField(call.Common().Args[0], "redisAlive") {
					sites++
					if !nameIn(fn.Name(), []string{"startMonitor", "waitForRedis"}) {
						bad = append(bad, fn.Name())
					}
				}
				if st, ok := ins.(*ssa.Store); ok {
					_ = st
				}
			}
		}
	}
	o := c.R.Check(len(bad) == 0 && sites >= 2, rule, limitPkg+".TokenLimiter.redisAlive", "redisAlive is written (after construction) only by startMonitor and waitForRedis", "-", fmt.Sprint(bad), nil, 0)
	o.Sites = sites
	c.R.Min(rule, 4, "startMonitor (2), waitForRedis, writers")
}

// c03entryPoints (C03.R10, round 8): "a request is granted iff the bucket holds n tokens" — the answer is the bucket's,
// for every request. Each exported Allow… method of TokenLimiter reaches reserveN exactly once on every path, for its own
// n (1 for the shorthands) and its own context, and returns that answer unchanged. A shortcut in an entry point — a
// remembered "exhausted in this second", a fast refusal for a done context — answers for the bucket without asking it.
func c03entryPoints(c *Ctx) {
	rule := "C03.R10"
	reserve := calleeIs(limitPkg + ".(*TokenLimiter).reserveN")
	n := 0
	for _, m := range []string{"Allow", "AllowCtx", "AllowN", "AllowNCtx"} {
		f := c.fn(rule, limitPkg, "(*TokenLimiter)."+m)
		if f == nil {
			continue
		}
		n++
		ps := c.paths(rule, f, px.Config{Inline: func(ci *px.CallInfo, d int) bool {
			if ci.Static == nil || ci.Static == f {
				return false
			}
			if strings.HasPrefix(ci.Static.Name(), "Allow") && strings.Contains(ci.Static.String(), "TokenLimiter") {
				return true
			}
			// helpers introduced after the pinned tree are analysed in place
			return ci.Static.Pkg == f.Pkg && !baselineFuncs[ci.Static.String()] && ci.Static.Blocks != nil
		}})
		var nP, ctxP *ssa.Parameter
		for _, p := range f.Params[1:] {
			switch typeString(p.Type()) {
			case "int":
				nP = p
			case "context.Context":
				ctxP = p
			}
		}
		c.forall(rule, limitPkg+".(*TokenLimiter)."+m, "reaches reserveN exactly once on every path with its own n (1 for the shorthands) and context, and returns its answer", f, ps, func(p *px.Path) (bool, string) {
			if p.Exit != px.ExitReturn {
				return true, ""
			}
			rs := p.All(reserve)
			if len(rs) != 1 {
				return false, fmt.Sprintf("reserveN ×%d on a returning path: the entry point answers without (or more than once) asking the bucket", len(rs))
			}
			if len(p.Results) != 1 || p.Results[0].Strip(false) != rs[0].Res {
				return false, "the returned answer is not reserveN's"
			}
			args := rs[0].Call.Args
			if len(args) < 4 {
				return false, "reserveN not called with (ctx, now, n)"
			}
			if nP != nil {
				if !isParam(args[3], nP) {
					return false, "the requested n is not handed on unchanged"
				}
			} else if k, ok := constInt(p, args[3]); !ok || k != 1 {
				return false, "the shorthand does not ask for 1 token"
			}
			if ctxP != nil && !isParam(args[1], ctxP) {
				return false, "the caller's context is not handed on"
			}
			return true, ""
		})
	}
	c.R.Min(rule, 4, "Allow, AllowCtx, AllowN, AllowNCtx")
}
