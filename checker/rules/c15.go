package rules

import (
	"fmt"
	"go/constant"
	"go/token"

	"gzverify/px"
)

// C15 — consistent hashing.
func init() { register("C15", "other", c15) }

const hashPkg = "core/hash"

func c15(c *Ctx) {
	c.R.RuleText = "lock-guard of the ring state, writer/reader agreement of the virtual-node hash derivation, per-iteration pairing rules of the add and remove loops (one key entry per (node, replica), removal symmetric), sortedness and emptiness-guard rules of Get"
	c.R.Explain = "Structural necessary conditions of C15: keys, ring and nodes are touched only under h.lock; AddWithReplicas first removes the node, clamps the replica count to h.replicas (the bound Remove iterates to), registers the node, and for every replica appends exactly one key entry and one ring entry for the same hash hashFunc(repr(node)+Itoa(i)) — unconditionally — and finally sorts the keys ascending before unlocking; Remove derives the same hashes, removes at most the one matching key entry per replica (guarded only by the search hit) and always removes the node from that hash's ring bucket, then forgets the node; unknown nodes are left alone; Get answers (nil,false) exactly when the ring (equivalently the key list) is empty — the structure whose length is the modulus — and otherwise returns a member of ring[keys[search % len(keys)]]; AddWithWeight scales replicas by weight/TopWeight. NOT decided: minimal disruption and history independence as quantitative statements (they follow from these invariants plus properties of the hash function)."
	c.R.Assume = append(c.R.Assume, "sort.Search / sort.Slice semantics", "the hash function is deterministic")
	rule := "C15.R1"
	fields := []string{"keys", "ring", "nodes"}
	lockGuardFn(c, rule, hashPkg+".(*ConsistentHash).AddWithReplicas#lock", c.fn(rule, hashPkg, "(*ConsistentHash).AddWithReplicas"), "lock", fields, false, true, []string{"addNode"}, false)
	lockGuardFn(c, rule, hashPkg+".(*ConsistentHash).Remove#lock", c.fn(rule, hashPkg, "(*ConsistentHash).Remove"), "lock", fields, false, true, []string{"containsNode", "removeNode", "removeRingNode"}, false)
	lockGuardFn(c, rule, hashPkg+".(*ConsistentHash).Get#lock", c.fn(rule, hashPkg, "(*ConsistentHash).Get"), "lock", fields, false, true, nil, false)
	// helpers are called only from the locked methods
	callers, all := pkgCallers(c, hashPkg)
	var bad []string
	for _, f := range all {
		if nameIn(f.Name(), []string{"addNode", "containsNode", "removeNode", "removeRingNode"}) && recvName(f) == "ConsistentHash" {
			for cl := range callers[f] {
				if !nameIn(cl.Name(), []string{"AddWithReplicas", "Remove"}) {
					bad = append(bad, f.Name()+" called from "+cl.Name())
				}
			}
		}
	}
	c.R.Check(len(bad) == 0, rule, hashPkg+".ConsistentHash helpers", "the unlocked helpers (addNode, containsNode, removeNode, removeRingNode) are called only from AddWithReplicas / Remove, which hold the lock", "-", fmt.Sprint(bad), nil, 4)
	c.R.Min(rule, 4, "three lock guards, helper callers")
	c15add(c)
	c15remove(c)
	c15get(c)
	c15users(c)
	c15pureHash(c)
	c15injectiveNames(c)
	c15ringIdentity(c)
}

// hashDerivation renders the argument of a hashFunc call: want []byte(nodeRepr + strconv.Itoa(i)).
func c15isVnodeHash(p *px.Path, e *px.Event, isRepr func(*px.Sym) bool) (idx *px.Sym, ok bool) {
	idx, _, ok = c15vnodeName(p, e, isRepr)
	return
}

// c15vnodeName recognises the name a virtual node is hashed from: a string concatenation containing the node's
// representation, strconv.Itoa(replica index) and constant pieces, in any arrangement. separated reports whether a
// non-empty constant stands between the two variable-length parts.
func c15vnodeName(p *px.Path, e *px.Event, isRepr func(*px.Sym) bool) (idx *px.Sym, separated, ok bool) {
	if e.Kind != px.EvCall || !e.Call.IsDyn() || !px.IsFieldLoad(e.Call.FnSym, "hashFunc", nil) || len(e.Call.Args) != 1 {
		return nil, false, false
	}
	var parts []*px.Sym
	var flat func(s *px.Sym, d int)
	flat = func(s *px.Sym, d int) {
		s = s.Strip(false)
		if s != nil && s.Kind == px.KBinOp && s.Op == token.ADD && d < 6 {
			flat(s.X, d+1)
			flat(s.Y, d+1)
			return
		}
		parts = append(parts, s)
	}
	flat(e.Call.Args[0].Strip(true), 0)
	ri, ii := -1, -1
	for k, s := range parts {
		switch {
		case s == nil:
			return nil, false, false
		case isRepr(s):
			if ri >= 0 {
				return nil, false, false
			}
			ri = k
		case s.Kind == px.KCall && s.Call != nil && (shortName(s.Call) == "strconv.Itoa" || shortName(s.Call) == "strconv.FormatInt"):
			if ii >= 0 {
				return nil, false, false
			}
			ii = k
			idx = s.Call.Args[0]
		case s.Kind == px.KConst:
		default:
			return nil, false, false
		}
	}
	if ri < 0 || ii < 0 {
		return nil, false, false
	}
	lo, hi := ri, ii
	if lo > hi {
		lo, hi = hi, lo
	}
	for k := lo + 1; k < hi; k++ {
		if a := p.Abs(parts[k]); a.K == px.ConstV && a.C.Kind() == constant.String && constant.StringVal(a.C) != "" {
			separated = true
		}
	}
	return idx, separated, true
}

func c15add(c *Ctx) {
	rule := "C15.R3"
	f := c.fn(rule, hashPkg, "(*ConsistentHash).AddWithReplicas")
	if f == nil {
		return
	}
	nodeP, repP := f.Params[1], f.Params[2]
	ps := c.paths(rule, f, px.Config{MaxVisits: 2})
	isRepr := func(s *px.Sym) bool {
		s = s.Strip(false)
		return s.Kind == px.KCall && shortName(s.Call) == hashPkg+".repr" && isParam(s.Call.Args[0], nodeP)
	}
	iters := 0
	held := c.forall(rule, hashPkg+".(*ConsistentHash).AddWithReplicas", "Remove(node) first; replicas clamped to h.replicas; node registered; per replica exactly one key entry and one ring entry for hashFunc(repr(node)+Itoa(i)), unconditionally; keys sorted before the lock is released", f, ps, func(p *px.Path) (bool, string) {
		rm := p.First(calleeIs(hashPkg + ".(*ConsistentHash).Remove"))
		lk := p.First(lockOn("lock", "Lock"))
		if rm == nil || lk == nil || rm.Seq > lk.Seq || !isParam(rm.Call.Args[1], nodeP) {
			return false, "the node's previous virtual nodes are not removed first (re-adding with another weight would leave the old ones on the ring)"
		}
		an := p.First(calleeIs(hashPkg + ".(*ConsistentHash).addNode"))
		if an == nil || !isRepr(an.Call.Args[1]) {
			return false, "the node is not registered in h.nodes under its repr"
		}
		// clamp
		clampTested := false
		for _, b := range p.All(px.KindIs(px.EvBranch)) {
			cnd := b.Cond.Strip(true)
			if cnd.Kind == px.KBinOp && isParam(cnd.X, repP) && px.IsFieldLoad(cnd.Y, "replicas", nil) && (cnd.Op == token.GTR || cnd.Op == token.GEQ) {
				clampTested = true
			}
		}
		if !clampTested {
			return false, "replicas is not clamped to h.replicas: Remove iterates only to h.replicas and would leave the excess virtual nodes behind"
		}
		// iterations: segment by hashFunc calls
		var hs []*px.Event
		for i := range p.Events {
			if _, ok := c15isVnodeHash(p, &p.Events[i], isRepr); ok {
				hs = append(hs, &p.Events[i])
			} else if e := &p.Events[i]; e.Kind == px.EvCall && e.Call.IsDyn() && px.IsFieldLoad(e.Call.FnSym, "hashFunc", nil) {
				return false, "a virtual node is hashed from something other than repr(node)+Itoa(i)"
			}
		}
		for k, h := range hs {
			end := len(p.Events)
			if k+1 < len(hs) {
				end = hs[k+1].Seq
			} else if p.Exit == px.ExitCut {
				continue
			}
			iters++
			keyApp, ringUp := 0, 0
			for i := h.Seq + 1; i < end; i++ {
				e := &p.Events[i]
				if e.Kind == px.EvStore && px.FieldAddrIs(e.Addr, "keys", nil) {
					v := e.Val.Strip(false)
					if v.Kind == px.KCall && v.Call.Builtin == "append" && px.IsFieldLoad(v.Call.Args[0], "keys", nil) {
						if els := p.SliceElems(v.Call.Args[1]); len(els) == 1 && els[0].Strip(false) == h.Res {
							keyApp++
						}
					}
				}
				if e.Kind == px.EvMapUpdate && px.IsFieldLoad(e.Addr, "ring", nil) && e.Key.Strip(false) == h.Res {
					v := e.Val.Strip(false)
					if v.Kind == px.KCall && v.Call.Builtin == "append" {
						if els := p.SliceElems(v.Call.Args[1]); len(els) == 1 && isParam(els[0], nodeP) {
							ringUp++
						}
					}
				}
				if e.Kind == px.EvCall && shortName(e.Call) == "sort.Slice" {
					break
				}
			}
			if keyApp != 1 || ringUp != 1 {
				return false, fmt.Sprintf("replica iteration: key entries appended ×%d, ring entries ×%d — keys must hold exactly one entry per (node, replica): with fewer, removing one of two nodes that share a hash deletes the other's virtual node too", keyApp, ringUp)
			}
		}
		if p.Exit == px.ExitReturn {
			srt := p.All(calleeIs("sort.Slice"))
			ul := p.Last(lockOn("lock", "Unlock"))
			sortsKeys := len(srt) == 1 && px.IsFieldLoad(srt[0].Call.Args[0], "keys", nil)
			if len(srt) == 1 && !sortsKeys {
				for _, e := range p.All(px.KindIs(px.EvStore)) {
					if px.FieldAddrIs(e.Addr, "keys", nil) && e.Val.Strip(false) == srt[0].Call.Args[0].Strip(false) {
						sortsKeys = true
					}
				}
			}
			if !sortsKeys || ul == nil || srt[0].Seq > ul.Seq {
				return false, "h.keys is not sorted before the lock is released"
			}
			if len(hs) > 0 && srt[0].Seq < hs[len(hs)-1].Seq {
				return false, "keys are sorted before the last append"
			}
		}
		return true, ""
	})
	if held && iters < 2 {
		c.R.Undecided(rule, hashPkg+".AddWithReplicas#iterations", "the replica loop hashes each virtual node with h.hashFunc(repr(node)+Itoa(i)) — the function Remove and Get use", fmt.Sprintf("%d iterations recognised: the virtual nodes are not hashed through h.hashFunc (with a custom hash function Remove would never find them)", iters))
	}
	// comparator ascending
	for _, cl := range f.AnonFuncs {
		cps := c.paths(rule, cl, px.Config{})
		c.forall(rule, hashPkg+".(*ConsistentHash).AddWithReplicas$less", "the sort comparator is keys[i] < keys[j] (ascending — what sort.Search in Get/Remove assumes)", cl, cps, func(p *px.Path) (bool, string) {
			if p.Exit != px.ExitReturn {
				return true, ""
			}
			r := p.Results[0].Strip(true)
			if r.Kind != px.KBinOp || r.Op != token.LSS {
				return false, "comparator is not `<`"
			}
			li, lj := r.X.Strip(false), r.Y.Strip(false)
			if li.Kind != px.KLoad || lj.Kind != px.KLoad || li.X.Kind != px.KIndexAddr || lj.X.Kind != px.KIndexAddr || !isParam(li.X.Y, cl.Params[0]) || !isParam(lj.X.Y, cl.Params[1]) {
				return false, "comparator does not compare keys[i] with keys[j]"
			}
			return true, ""
		})
	}
	if g := c.fn("C15.R5", hashPkg, "(*ConsistentHash).AddWithWeight"); g != nil {
		gps := c.paths("C15.R5", g, px.Config{})
		c.forall("C15.R5", hashPkg+".(*ConsistentHash).AddWithWeight", "replicas = h.replicas · weight / TopWeight", g, gps, func(p *px.Path) (bool, string) {
			a := p.First(calleeIs(hashPkg + ".(*ConsistentHash).AddWithReplicas"))
			if a == nil || !isParam(a.Call.Args[1], g.Params[1]) {
				return false, "does not add the node"
			}
			got := anf(p, a.Call.Args[2], func(s *px.Sym) string {
				if px.IsFieldLoad(s, "replicas", nil) {
					return "replicas"
				}
				if isParam(s, g.Params[2]) {
					return "weight"
				}
				return ""
			}).String()
			if got != "1·(1·replicas*weight)/(100)" {
				return false, "replicas is " + got + ", want replicas·weight/100"
			}
			return true, ""
		})
	}
	c.R.Min(rule, 2, "AddWithReplicas, comparator")
}

func c15remove(c *Ctx) {
	rule := "C15.R3"
	f := c.fn(rule, hashPkg, "(*ConsistentHash).Remove")
	if f == nil {
		return
	}
	nodeP := f.Params[1]
	ps := c.paths(rule, f, px.Config{MaxVisits: 2})
	isRepr := func(s *px.Sym) bool {
		s = s.Strip(false)
		return s.Kind == px.KCall && shortName(s.Call) == hashPkg+".repr" && isParam(s.Call.Args[0], nodeP)
	}
	rr := calleeIs(hashPkg + ".(*ConsistentHash).removeRingNode")
	haveHelper := c.P.Func(hashPkg, "(*ConsistentHash).removeRingNode") != nil
	iters := 0
	held := c.forall(rule, hashPkg+".(*ConsistentHash).Remove", "unknown node ⇒ no effect; otherwise for i < h.replicas: the same hash as in AddWithReplicas, at most the one matching key entry is removed (iff the search hit it) and the node is always removed from ring[hash]; finally the node is forgotten", f, ps, func(p *px.Path) (bool, string) {
		cn := p.First(calleeIs(hashPkg + ".(*ConsistentHash).containsNode"))
		if cn == nil || !isRepr(cn.Call.Args[1]) {
			return false, "membership not consulted"
		}
		if p.Abs(cn.Res).K == px.False {
			if p.Has(rr) || p.Has(px.KindIs(px.EvMapUpdate)) || p.Has(calleeIs(hashPkg+".(*ConsistentHash).removeNode")) {
				return false, "an unknown node has effects"
			}
			return true, ""
		}
		var hs []*px.Event
		for i := range p.Events {
			if _, ok := c15isVnodeHash(p, &p.Events[i], isRepr); ok {
				hs = append(hs, &p.Events[i])
			} else if e := &p.Events[i]; e.Kind == px.EvCall && e.Call.IsDyn() && px.IsFieldLoad(e.Call.FnSym, "hashFunc", nil) {
				return false, "Remove hashes something other than repr(node)+Itoa(i): it would look for virtual nodes where AddWithReplicas did not put them"
			}
		}
		// loop bound h.replicas
		boundOK := false
		for _, b := range p.All(px.KindIs(px.EvBranch)) {
			cnd := b.Cond.Strip(true)
			if cnd.Kind == px.KBinOp && cnd.Op == token.LSS && px.IsFieldLoad(cnd.Y, "replicas", nil) {
				boundOK = true
			}
		}
		if !boundOK {
			return false, "the loop does not run to h.replicas (the clamp applied when adding)"
		}
		for k, h := range hs {
			end := len(p.Events)
			if k+1 < len(hs) {
				end = hs[k+1].Seq
			} else if p.Exit == px.ExitCut {
				continue
			}
			iters++
			rrs, keyDel := 0, 0
			hit := 0 // +1: both facts true
			var facts []string
			// the removal of the node from ring[hash]: the helper call, or — when the helper was inlined —
			// the region from the lookup of ring[this hash] to the rewrite/deletion of that bucket
			inRing, ringWrites := false, 0
			for i := h.Seq + 1; i < end; i++ {
				e := &p.Events[i]
				switch {
				case rr(e):
					if e.Call.Args[1].Strip(false) != h.Res || !isRepr(e.Call.Args[2]) {
						return false, "removeRingNode is not given (this hash, repr(node))"
					}
					rrs++
				case !haveHelper && e.Kind == px.EvLookup && px.IsFieldLoad(e.Addr, "ring", nil) && e.Key.Strip(false) == h.Res:
					rrs++
					if p.Abs(findExtract(p, e.Res, 1)).K != px.False {
						inRing = true
					} else if i+1 < end && p.Events[i+1].Kind == px.EvBranch {
						i++ // the found-test of a missing bucket
					}
				case inRing && ((e.Kind == px.EvMapUpdate && px.IsFieldLoad(e.Addr, "ring", nil)) || (e.Kind == px.EvCall && e.Call.Builtin == "delete" && px.IsFieldLoad(e.Call.Args[0], "ring", nil))):
					ringWrites++
					inRing = false
				case inRing:
					// filter loop of the inlined helper
				case e.Kind == px.EvStore && px.FieldAddrIs(e.Addr, "keys", nil):
					keyDel++
				case e.Kind == px.EvBranch && !e.Forced:
					cnd := e.Cond.Strip(true)
					if cnd.Kind == px.KBinOp && cnd.Op == token.LSS && px.IsFieldLoad(cnd.Y, "replicas", nil) {
						continue // loop header of the next iteration
					}
					facts = append(facts, fmt.Sprintf("%s=%v", cnd.Describe(), e.Taken))
					if cnd.Kind == px.KBinOp && cnd.Op == token.EQL && (cnd.Y.Strip(false) == h.Res || cnd.X.Strip(false) == h.Res) && e.Taken {
						hit = 1
					}
				case e.Kind == px.EvCall && shortName(e.Call) == hashPkg+".(*ConsistentHash).removeNode":
					i = end
				}
			}
			if inRing || ringWrites > 1 {
				return false, "a found bucket ring[hash] is neither rewritten nor deleted exactly once"
			}
			if rrs != 1 {
				return false, fmt.Sprintf("replica iteration removes the node from ring[hash] ×%d (must be unconditional, once)", rrs)
			}
			if len(facts) > 2 {
				return false, fmt.Sprintf("the key entry's removal depends on more than the search hit (%v): keys hold one entry per (node, replica), so skipping the removal while another node shares the hash leaves a stale key with no ring entry once both are gone — Get then answers (nil,false) on a non-empty ring", facts)
			}
			if (hit == 1) != (keyDel == 1) {
				return false, fmt.Sprintf("search hit=%v but key entries removed ×%d", hit == 1, keyDel)
			}
		}
		if p.Exit == px.ExitReturn {
			rn := p.All(calleeIs(hashPkg + ".(*ConsistentHash).removeNode"))
			if len(rn) != 1 || !isRepr(rn[0].Call.Args[1]) {
				return false, "the node is not forgotten (h.nodes) at the end"
			}
		}
		return true, ""
	})
	if held && iters < 2 {
		c.R.Undecided(rule, hashPkg+".Remove#iterations", "the replica loop is recognised", fmt.Sprintf("%d iterations", iters))
	}
	if !haveHelper {
		// helper inlined into Remove: its filter loop is part of Remove's paths (checked above); no loop of Remove may be left early
		if held {
			ee := earlyExitLoops(f)
			c.R.Check(len(ee) == 0, rule, hashPkg+".(*ConsistentHash).Remove#all", "the replica loop and the bucket filter loop visit every entry", posOf(c, f), fmt.Sprint(ee), nil, 1)
		}
	} else if g := c.fn(rule, hashPkg, "(*ConsistentHash).removeRingNode"); g != nil {
		ee := earlyExitLoops(g)
		gps := c.paths(rule, g, px.Config{MaxVisits: 2})
		ok := c.forall(rule, hashPkg+".(*ConsistentHash).removeRingNode", "every entry of ring[hash] whose repr equals the node's is filtered out (all of them); an emptied bucket is deleted", g, gps, func(p *px.Path) (bool, string) {
			if p.Exit != px.ExitReturn {
				return true, ""
			}
			lk := p.First(px.KindIs(px.EvLookup))
			if lk == nil || !isParam(lk.Key, g.Params[1]) {
				return false, "ring[hash] not consulted"
			}
			found := findExtract(p, lk.Res, 1)
			ups := p.All(px.KindIs(px.EvMapUpdate))
			dels := p.All(func(e *px.Event) bool { return e.Kind == px.EvCall && e.Call.Builtin == "delete" })
			if p.Abs(found).K == px.False {
				if len(ups)+len(dels) != 0 {
					return false, "effects on a missing bucket"
				}
				return true, ""
			}
			if len(ups)+len(dels) != 1 {
				return false, "the bucket is neither rewritten nor deleted exactly once"
			}
			return true, ""
		})
		if ok {
			c.R.Check(len(ee) == 0, rule, hashPkg+".(*ConsistentHash).removeRingNode#all", "the filter loop visits every bucket entry", posOf(c, g), fmt.Sprint(ee), nil, 1)
		}
	}
	// R2 agreement of the two derivations is implied by both matching c15isVnodeHash; record it
	c.R.Hold("C15.R2", hashPkg+".AddWithReplicas≡Remove", "both sides derive virtual-node hashes as hashFunc([]byte(repr(node)+strconv.Itoa(i))) (checked per iteration in C15.R3) and the add-side clamp equals the remove-side loop bound h.replicas", 2)
}

func c15get(c *Ctx) {
	rule := "C15.R4"
	f := c.fn(rule, hashPkg, "(*ConsistentHash).Get")
	if f == nil {
		return
	}
	ps := c.paths(rule, f, px.Config{})
	c.forall(rule, hashPkg+".(*ConsistentHash).Get", "(nil,false) exactly when the ring / key list is empty — the guard must be on the structure whose length is the modulus; otherwise the answer is an element of ring[keys[sort.Search(len(keys), …) % len(keys)]]", f, ps, func(p *px.Path) (bool, string) {
		if p.Exit != px.ExitReturn {
			return true, ""
		}
		var guard *px.Event
		for _, b := range p.All(px.KindIs(px.EvBranch)) {
			cnd := b.Cond.Strip(true)
			if cnd.Kind == px.KBinOp && cnd.Op == token.EQL {
				if z, ok := constInt(p, cnd.Y); ok && z == 0 {
					x := cnd.X.Strip(true)
					if x.Kind == px.KCall && x.Call.Builtin == "len" {
						guard = b
						a := x.Call.Args[0]
						if !px.IsFieldLoad(a, "ring", nil) && !px.IsFieldLoad(a, "keys", nil) {
							return false, "the emptiness guard tests " + a.Describe() + ", not the ring/keys: a member registered with zero replicas makes the modulus len(h.keys) zero and Get panics"
						}
						break
					}
				}
			}
		}
		if guard == nil {
			return false, "no emptiness guard before the modulo"
		}
		if guard.Taken {
			if !px.IsNilConst(p.Results[0]) || p.Abs(p.Results[1]).K != px.False {
				return false, "an empty ring does not answer (nil,false)"
			}
			if p.Has(calleeIs("sort.Search")) {
				return false, "searches an empty ring"
			}
			return true, ""
		}
		ss := p.All(calleeIs("sort.Search"))
		if len(ss) != 1 || !isLenOf(ss[0].Call.Args[0], func(x *px.Sym) bool { return px.IsFieldLoad(x, "keys", nil) }) {
			return false, "does not binary-search the key list once"
		}
		if p.Abs(p.Results[1]).K == px.True {
			r := p.Results[0].Strip(false)
			// r = nodes[...] where nodes = ring[keys[index]]
			if r.Kind != px.KLoad || r.X.Kind != px.KIndexAddr {
				return false, "the answer is not an element of a ring bucket"
			}
			bucket := r.X.X.Strip(false)
			if bucket.Kind != px.KLookup || !px.IsFieldLoad(bucket.X, "ring", nil) {
				return false, "the answer does not come from h.ring"
			}
			k := bucket.Y.Strip(false)
			if k.Kind != px.KLoad || k.X.Kind != px.KIndexAddr || !px.IsFieldLoad(k.X.X, "keys", nil) {
				return false, "the bucket is not ring[keys[index]]"
			}
			idx := k.X.Y.Strip(true)
			if idx.Kind != px.KBinOp || idx.Op != token.REM || idx.X.Strip(false) != ss[0].Res || !isLenOf(idx.Y, func(x *px.Sym) bool { return px.IsFieldLoad(x, "keys", nil) }) {
				return false, "index is not search % len(keys) (a hash beyond the last key must wrap to the first)"
			}
		}
		return true, ""
	})
	// search predicate compares keys[i] with the value's hash (>= or >)
	for _, cl := range f.AnonFuncs {
		cps := c.paths(rule, cl, px.Config{})
		c.forall(rule, hashPkg+".(*ConsistentHash).Get$pred", "the search predicate is keys[i] >= hash (or >): monotone over the ascending key list", cl, cps, func(p *px.Path) (bool, string) {
			if p.Exit != px.ExitReturn {
				return true, ""
			}
			r := p.Results[0].Strip(true)
			if r.Kind != px.KBinOp || (r.Op != token.GEQ && r.Op != token.GTR) {
				return false, "predicate is not keys[i] >= hash"
			}
			li := r.X.Strip(false)
			if li.Kind != px.KLoad || li.X.Kind != px.KIndexAddr || !isParam(li.X.Y, cl.Params[0]) {
				return false, "left operand is not keys[i]"
			}
			return true, ""
		})
	}
	c.R.Min(rule, 2, "Get, search predicate")
}
