package rules

import (
	"fmt"
	"go/types"
	"os"
	"sort"
	"strings"

	"golang.org/x/tools/go/ssa"

	"gzverify/px"
)

// C11 — periodic / bulk / chunk executors.
func init() { register("C11", "other", c11) }

const execPkg = "core/executors"

func c11(c *Ctx) {
	c.R.RuleText = "lock-guard of the container, wait-group pairing and hand-off ordering on all paths (goroutine analysed in place), quit-gate path rule, sibling agreement of every TaskContainer implementation in the module (reset covers what AddTask mutates, no aliasing of the handed-out batch), forwarding agreement of the wrapper executors"
	c.R.Explain = "Structural necessary conditions of C11: the container and the guarded flag are touched only under pe.lock; every executeTasks is preceded by exactly one enterExecution and releases the wait group once on every exit, and the container's Execute runs only inside RunSafe; a threshold Add takes the whole batch out under the same lock hold that counted it in flight, hands it over on the commander channel and waits for the confirmation; the background loop decrements in-flight, enters execution, confirms and only then executes the received batch; it quits only after establishing, under the lock, that nothing is in flight (clearing guarded then), and flushes on exit; Flush removes under the lock and executes; Wait flushes and then waits behind the barrier; every TaskContainer in the module returns what it accumulated and resets every field AddTask mutates to a fresh value that does not alias the returned batch; the bulk/chunk/delay/less wrappers forward Add/Flush/Wait to the same-named operation. NOT decided: loss/duplication freedom of the producer/flusher protocol over all interleavings."
	c.R.Assume = append(c.R.Assume, "sync.WaitGroup / channel semantics", "threading.RunSafe recovers panics")
	c11locks(c)
	c11pairing(c)
	c11handoff(c)
	c11containers(c)
	c11wrappers(c)
	c11ticker(c)
	c11covered(c)
	if os.Getenv("GZV_LOCK_SCAN") != "" {
		for _, pk := range c.P.Pkgs {
			for _, f := range c.P.AllFuncs(strings.TrimPrefix(pk.PkgPath, mod)) {
				if f.Parent() != nil || len(f.Blocks) > 60 {
					continue
				}
				hasLock := callsInBody(f, func(cc *ssa.CallCommon) bool {
					n := calleeName(cc)
					return strings.HasSuffix(n, "Mutex).Lock") || strings.HasSuffix(n, "Mutex).RLock")
				})
				if !hasLock {
					continue
				}
				func() {
					defer func() { recover() }()
					ps, _, err := px.Run(px.Config{Prog: c.P.SSA, MaxVisits: 2, MayPanic: userPanics, MaxPaths: 20000}, f)
					if err != nil {
						return
					}
					for _, p := range ps {
						if p.Exit != px.ExitPanic {
							continue
						}
						held := map[string]int{}
						for i := range p.Events {
							e := &p.Events[i]
							if e.Kind != px.EvCall || e.Call == nil || e.Call.Obj() == nil || e.Call.Recv == nil || e.Call.Obj().Pkg() == nil || e.Call.Obj().Pkg().Path() != "sync" {
								continue
							}
							switch e.Call.Obj().Name() {
							case "Lock", "RLock":
								held[e.Call.Recv.Describe()]++
							case "Unlock", "RUnlock":
								held[e.Call.Recv.Describe()]--
							}
						}
						for k, n := range held {
							if n > 0 {
								fmt.Println("LOCK-SCAN", funcDisplay(f), k)
								return
							}
						}
					}
				}()
			}
		}
	}
}

// waitsForExecutions names a call that takes the Wait barrier or waits for registered executions.
func waitsForExecutions(e *px.Event) string {
	if e.Call == nil {
		return ""
	}
	if e.Call.Static != nil {
		switch e.Call.Static.Name() {
		case "enterExecution", "doneExecution", "executeTasks", "Flush", "Wait":
			if strings.HasSuffix(funcDisplay(e.Call.Static), "(*PeriodicalExecutor)."+e.Call.Static.Name()) {
				return "pe." + e.Call.Static.Name() + "()"
			}
		}
	}
	if o := e.Call.Obj(); o != nil && e.Call.Recv != nil {
		if (o.Name() == "Guard" && px.IsFieldLoad(e.Call.Recv, "wgBarrier", nil)) || px.FieldAddrIs(e.Call.Recv, "wgBarrier", nil) {
			return "wgBarrier." + o.Name()
		}
		if px.IsFieldLoad(e.Call.Recv, "waitGroup", nil) || px.FieldAddrIs(e.Call.Recv, "waitGroup", nil) {
			return "waitGroup." + o.Name()
		}
	}
	return ""
}

func c11locks(c *Ctx) {
	rule := "C11.R1"
	isContainerCall := func(e *px.Event, names ...string) bool {
		return e.Kind == px.EvCall && e.Call.Method != nil && nameIn(e.Call.Method.Name(), names) && px.IsFieldLoad(e.Call.Recv, "container", nil)
	}
	check := func(name string, f *ssa.Function, cfg px.Config) {
		if f == nil {
			return
		}
		ps := c.paths(rule, f, cfg)
		c.forall(rule, name, "container.AddTask/RemoveAll and the guarded flag are used only while pe.lock is held; the lock is released on every exit and is never held across a call that takes the Wait barrier or waits for executions", f, ps, func(p *px.Path) (bool, string) {
			w := 0
			for i := range p.Events {
				e := &p.Events[i]
				switch {
				case lockOn("lock", "Lock")(e):
					if w > 0 {
						return false, "Lock while already held"
					}
					w++
				case lockOn("lock", "Unlock")(e):
					w--
				case w > 0 && e.Kind == px.EvCall && (waitsForExecutions(e) != ""):
					// (round 6) lock order: Wait holds the barrier while it waits for registered executions, and a
					// registered Flush waits for pe.lock — taking the barrier (or waiting for executions) under pe.lock
					// closes the cycle: Wait, the producer and the flusher block each other for good
					return false, "pe.lock is held across " + waitsForExecutions(e) + " at " + c.P.Pos(e.Pos) + ": lock → barrier here, barrier → registered executions in Wait, registered execution → lock in Flush"
				case isContainerCall(e, "AddTask", "RemoveAll"):
					if w <= 0 {
						return false, "container." + e.Call.Method.Name() + " without pe.lock at " + c.P.Pos(e.Pos)
					}
				case (e.Kind == px.EvStore || e.Kind == px.EvLoad) && px.FieldAddrIs(e.Addr, "guarded", nil):
					if w <= 0 {
						return false, "guarded accessed without pe.lock at " + c.P.Pos(e.Pos)
					}
				}
			}
			if w != 0 && p.Exit != px.ExitCut {
				return false, "pe.lock not released on exit"
			}
			return true, ""
		})
	}
	check(execPkg+".(*PeriodicalExecutor).addAndCheck", c.fn(rule, execPkg, "(*PeriodicalExecutor).addAndCheck"), px.Config{MayPanic: func(ci *px.CallInfo) bool { return ci.Method != nil && ci.Method.Name() == "AddTask" }})
	check(execPkg+".(*PeriodicalExecutor).shallQuit", c.fn(rule, execPkg, "(*PeriodicalExecutor).shallQuit"), px.Config{})
	check(execPkg+".(*PeriodicalExecutor).Sync", c.fn(rule, execPkg, "(*PeriodicalExecutor).Sync"), px.Config{MayPanic: userPanics})
	if f := c.fn(rule, execPkg, "(*PeriodicalExecutor).Flush"); f != nil {
		check(execPkg+".(*PeriodicalExecutor).Flush", f, px.Config{})
	}
	c.R.Min(rule, 4, "addAndCheck, shallQuit, Sync, Flush")
}

func c11pairing(c *Ctx) {
	rule := "C11.R2"
	enter := calleeIs(execPkg + ".(*PeriodicalExecutor).enterExecution")
	exec := calleeIs(execPkg + ".(*PeriodicalExecutor).executeTasks")
	if f := c.fn(rule, execPkg, "(*PeriodicalExecutor).executeTasks"); f != nil {
		ps := c.paths(rule, f, px.Config{Model: stdModel, MayPanic: func(ci *px.CallInfo) bool { return ci.Method != nil && ci.Method.Name() == "Execute" }})
		done := calleeIs(execPkg + ".(*PeriodicalExecutor).doneExecution")
		c.forall(rule, execPkg+".(*PeriodicalExecutor).executeTasks", "the wait group is released exactly once on every exit; the container executes exactly the given batch, only when it is non-empty, and only inside threading.RunSafe", f, ps, func(p *px.Path) (bool, string) {
			if n := p.Count(done); n != 1 {
				return false, fmt.Sprintf("doneExecution ×%d on exit %s (Wait would hang or the counter go negative)", n, p.Exit)
			}
			for _, e := range p.All(func(e *px.Event) bool {
				return e.Kind == px.EvCall && e.Call.Method != nil && e.Call.Method.Name() == "Execute"
			}) {
				if e.Via == nil || shortName(e.Via) != "core/threading.RunSafe" {
					return false, "container.Execute runs outside threading.RunSafe: a panicking task kills the flusher"
				}
				a := e.Call.Args[0].Strip(false)
				if !(isParam(a, f.Params[1]) || (a.Kind == px.KLoad && a.X.Kind == px.KFreeVar) || a.Kind == px.KFreeVar || isParamOrCell(a, f.Params[1])) {
					return false, "another batch is executed"
				}
			}
			return true, ""
		})
	}
	if f := c.fn(rule, execPkg, "(*PeriodicalExecutor).doneExecution"); f != nil {
		ps := c.paths(rule, f, px.Config{})
		c.forall(rule, execPkg+".(*PeriodicalExecutor).doneExecution", "waitGroup.Done() exactly once", f, ps, func(p *px.Path) (bool, string) {
			if p.Count(calleeIs("sync.(*WaitGroup).Done")) != 1 {
				return false, "not exactly one Done"
			}
			return true, ""
		})
	}
	if f := c.fn(rule, execPkg, "(*PeriodicalExecutor).enterExecution"); f != nil {
		ps := c.paths(rule, f, px.Config{Model: func(in *px.Interp, st *px.State, ci *px.CallInfo) *px.Model {
			if ci.Static != nil && shortName(ci) == "core/syncx.(*Barrier).Guard" && len(ci.Args) == 2 {
				return &px.Model{Invoke: []*px.Sym{ci.Args[1]}}
			}
			return nil
		}})
		c.forall(rule, execPkg+".(*PeriodicalExecutor).enterExecution", "waitGroup.Add(1) exactly once, behind the barrier", f, ps, func(p *px.Path) (bool, string) {
			adds := p.All(calleeIs("sync.(*WaitGroup).Add"))
			if len(adds) != 1 || adds[0].Via == nil {
				return false, "not exactly one Add behind wgBarrier.Guard"
			}
			if k, ok := constInt(p, adds[0].Call.Args[1]); !ok || k != 1 {
				return false, "Add is not Add(1)"
			}
			return true, ""
		})
	}
	if f := c.fn(rule, execPkg, "(*PeriodicalExecutor).Flush"); f != nil {
		ps := c.paths(rule, f, px.Config{})
		c.forall(rule, execPkg+".(*PeriodicalExecutor).Flush", "enterExecution precedes the single executeTasks, whose argument is container.RemoveAll() and whose verdict is returned", f, ps, func(p *px.Path) (bool, string) {
			en, ex := p.All(enter), p.All(exec)
			if len(en) != 1 || len(ex) != 1 || en[0].Seq > ex[0].Seq {
				return false, fmt.Sprintf("enterExecution ×%d, executeTasks ×%d (or in the wrong order)", len(en), len(ex))
			}
			a := ex[0].Call.Args[1].Strip(false)
			if a.Kind != px.KCall || a.Call.Method == nil || a.Call.Method.Name() != "RemoveAll" {
				return false, "the flushed batch is not container.RemoveAll()"
			}
			if p.Exit == px.ExitReturn && p.Results[0].Strip(false) != ex[0].Res {
				return false, "executeTasks' verdict is not returned"
			}
			return true, ""
		})
	}
	if f := c.fn(rule, execPkg, "(*PeriodicalExecutor).Wait"); f != nil {
		ps := c.paths(rule, f, px.Config{Model: func(in *px.Interp, st *px.State, ci *px.CallInfo) *px.Model {
			if ci.Static != nil && shortName(ci) == "core/syncx.(*Barrier).Guard" && len(ci.Args) == 2 {
				return &px.Model{Invoke: []*px.Sym{ci.Args[1]}}
			}
			return nil
		}})
		c.forall(rule, execPkg+".(*PeriodicalExecutor).Wait", "Flush, then waitGroup.Wait() behind the barrier", f, ps, func(p *px.Path) (bool, string) {
			fl := p.All(calleeIs(execPkg + ".(*PeriodicalExecutor).Flush"))
			w := p.All(calleeIs("sync.(*WaitGroup).Wait"))
			if len(fl) != 1 || len(w) != 1 || fl[0].Seq > w[0].Seq || w[0].Via == nil {
				return false, "not Flush followed by a barrier-guarded waitGroup.Wait"
			}
			return true, ""
		})
	}
	c.R.Min(rule, 5, "executeTasks, doneExecution, enterExecution, Flush, Wait")
}

func c11handoff(c *Ctx) {
	rule := "C11.R3"
	enter := calleeIs(execPkg + ".(*PeriodicalExecutor).enterExecution")
	exec := calleeIs(execPkg + ".(*PeriodicalExecutor).executeTasks")
	isInflightAdd := func(e *px.Event, p *px.Path, delta int64) bool {
		if e.Kind != px.EvCall || shortName(e.Call) != "sync/atomic.AddInt32" || !px.FieldAddrIs(e.Call.Args[0], "inflight", nil) {
			return false
		}
		k, ok := constInt(p, e.Call.Args[1])
		return ok && k == delta
	}
	if f := c.fn(rule, execPkg, "(*PeriodicalExecutor).addAndCheck"); f != nil {
		ps := c.paths(rule, f, px.Config{})
		c.forall(rule, execPkg+".(*PeriodicalExecutor).addAndCheck", "threshold reached ⇒ in-flight +1 and the whole batch removed under the same lock hold, returned with true; otherwise (nil,false) and nothing removed; the first Add starts the background flusher once (guarded)", f, ps, func(p *px.Path) (bool, string) {
			if p.Exit != px.ExitReturn {
				return true, ""
			}
			at := p.First(func(e *px.Event) bool {
				return e.Kind == px.EvCall && e.Call.Method != nil && e.Call.Method.Name() == "AddTask"
			})
			if at == nil || !isParam(at.Call.Args[0], f.Params[1]) {
				return false, "the task is not added"
			}
			rm := p.All(func(e *px.Event) bool {
				return e.Kind == px.EvCall && e.Call.Method != nil && e.Call.Method.Name() == "RemoveAll"
			})
			var inc []*px.Event
			for i := range p.Events {
				if isInflightAdd(&p.Events[i], p, 1) {
					inc = append(inc, &p.Events[i])
				}
			}
			// lock held between AddTask and RemoveAll
			unlockBetween := false
			if len(rm) == 1 {
				for i := at.Seq; i < rm[0].Seq; i++ {
					if lockOn("lock", "Unlock")(&p.Events[i]) {
						unlockBetween = true
					}
				}
			}
			switch p.Abs(at.Res).K {
			case px.True:
				if len(rm) != 1 || len(inc) != 1 || unlockBetween {
					return false, fmt.Sprintf("full batch: RemoveAll ×%d, inflight+1 ×%d, lock released in between=%v", len(rm), len(inc), unlockBetween)
				}
				if p.Results[0].Strip(false) != rm[0].Res || p.Abs(p.Results[1]).K != px.True {
					return false, "the removed batch is not what is handed to the caller"
				}
			case px.False:
				if len(rm) != 0 || len(inc) != 0 || p.Abs(p.Results[1]).K != px.False {
					return false, "below the threshold but something is removed / counted / reported"
				}
			default:
				return false, "AddTask's verdict not tested"
			}
			// guarded start
			bf := p.All(calleeIs(execPkg + ".(*PeriodicalExecutor).backgroundFlush"))
			g := 0
			for _, b := range p.All(px.KindIs(px.EvBranch)) {
				if px.IsFieldLoad(b.Cond, "guarded", nil) {
					g = triOf(b.Taken)
				}
				if cn := b.Cond.Strip(true); cn.Kind == px.KUnOp && px.IsFieldLoad(cn.X, "guarded", nil) {
					g = triOf(!b.Taken)
				}
			}
			switch g {
			case 1:
				if len(bf) != 0 {
					return false, "a second background flusher is started"
				}
			case -1:
				if len(bf) != 1 {
					return false, "no background flusher is started for an unguarded executor"
				}
				set := false
				for _, s := range p.All(px.KindIs(px.EvStore)) {
					if px.FieldAddrIs(s.Addr, "guarded", nil) && p.Abs(s.Val).K == px.True {
						set = true
					}
				}
				if !set {
					return false, "guarded is not set when the flusher is started"
				}
			default:
				return false, "guarded not tested"
			}
			return true, ""
		})
	}
	// the hand-off is a rendezvous: confirmations come on ONE shared channel and name no batch, so a
	// producer may start waiting for "its" confirmation only once its batch has been received by the
	// flusher. With a buffered commander a producer whose batch still sits in the buffer can take the
	// confirmation of the batch in front of it and return from Add; a Wait that follows does not cover
	// its batch (enterExecution has not been called for it) — finding F13. A buffered confirmation
	// channel allows the same theft.
	for _, fn := range c.P.AllFuncs(execPkg) {
		for _, b := range fn.Blocks {
			for _, ins := range b.Instrs {
				st, ok := ins.(*ssa.Store)
				if !ok {
					continue
				}
				fa, ok := st.Addr.(*ssa.FieldAddr)
				if !ok || !nameIn(fieldNameOf(fa), []string{"commander", "confirmChan"}) {
					continue
				}
				if pt, ok := fa.X.Type().Underlying().(*types.Pointer); !ok || typeString(pt.Elem()) != execPkg+".PeriodicalExecutor" {
					continue
				}
				mc, isMake := st.Val.(*ssa.MakeChan)
				unbuffered := false
				if isMake {
					if k, ok := mc.Size.(*ssa.Const); ok && k.Value != nil && k.Int64() == 0 {
						unbuffered = true
					}
				}
				c.R.Check(unbuffered, rule, execPkg+".PeriodicalExecutor."+fieldNameOf(fa)+"#rendezvous", "the hand-off and confirmation channels are unbuffered: a producer waits for a confirmation only after its own batch was received", c.P.Pos(st.Pos()), "the channel is buffered (or not a make(chan) at all): a producer can take the confirmation of another producer's batch while its own is still queued, and a following Wait returns before that batch ran", nil, 1)
			}
		}
	}
	if f := c.fn(rule, execPkg, "(*PeriodicalExecutor).Add"); f != nil {
		ps := c.paths(rule, f, px.Config{})
		c.forall(rule, execPkg+".(*PeriodicalExecutor).Add", "a full batch is sent on the commander channel and the producer then waits for the confirmation; otherwise nothing is sent", f, ps, func(p *px.Path) (bool, string) {
			ac := p.First(calleeIs(execPkg + ".(*PeriodicalExecutor).addAndCheck"))
			if ac == nil {
				return false, "addAndCheck not called"
			}
			okS := findExtract(p, ac.Res, 1)
			sends, recvs := p.All(px.KindIs(px.EvSend)), p.All(px.KindIs(px.EvRecv))
			if p.Abs(okS).K == px.True {
				if len(sends) != 1 || len(recvs) != 1 || sends[0].Seq > recvs[0].Seq {
					return false, "the batch is not handed over and confirmed (send on commander, then receive from confirmChan)"
				}
				if !px.IsFieldLoad(sends[0].Addr, "commander", nil) || !px.IsFieldLoad(recvs[0].Addr, "confirmChan", nil) {
					return false, "wrong channels"
				}
				if sends[0].Val.Strip(false) != findExtract(p, ac.Res, 0).Strip(false) {
					return false, "something other than the removed batch is handed over"
				}
			} else if len(sends)+len(recvs) != 0 {
				return false, "channel traffic without a full batch"
			}
			return true, ""
		})
	}
	if f := c.fn(rule, execPkg, "(*PeriodicalExecutor).backgroundFlush"); f != nil {
		cl := c.closure(rule, f, "background goroutine", func(a *ssa.Function) bool { return a.Parent() == f })
		if cl != nil {
			ps := c.paths(rule, cl, px.Config{MaxVisits: 2, MaxPaths: 100000})
			seenCmd, seenQuit := 0, 0
			held := c.forall(rule, execPkg+".(*PeriodicalExecutor).backgroundFlush$loop", "per received batch: in-flight −1 → enterExecution → confirmation sent → executeTasks(that batch), in this order; the loop ends only when shallQuit said so; the first deferred action (last to run) is Flush", cl, ps, func(p *px.Path) (bool, string) {
				// first defer registered is Flush
				d := p.First(px.KindIs(px.EvDefer))
				if d == nil || shortName(d.Call) != execPkg+".(*PeriodicalExecutor).Flush" {
					return false, "the goroutine's outermost defer is not pe.Flush (tasks added while quitting would be lost)"
				}
				for i := range p.Events {
					e := &p.Events[i]
					if e.Kind == px.EvSelect && e.SelIndex >= 0 && px.IsFieldLoad(e.Addr, "commander", nil) {
						seenCmd++
						var dec, en, cf, ex *px.Event
						for j := i + 1; j < len(p.Events); j++ {
							x := &p.Events[j]
							if x.Kind == px.EvSelect {
								break
							}
							switch {
							case dec == nil && isInflightAdd(x, p, -1):
								dec = x
							case en == nil && enter(x):
								en = x
							case cf == nil && x.Kind == px.EvSend && px.IsFieldLoad(x.Addr, "confirmChan", nil):
								cf = x
							case ex == nil && exec(x):
								ex = x
							}
						}
						if p.Exit == px.ExitCut && (dec == nil || en == nil || cf == nil || ex == nil) {
							continue
						}
						if dec == nil || en == nil || cf == nil || ex == nil {
							return false, "a received batch is not (decremented, entered, confirmed, executed)"
						}
						if !(dec.Seq < en.Seq && en.Seq < cf.Seq && cf.Seq < ex.Seq) {
							return false, "order is not inflight−1 → enterExecution → confirm → executeTasks: confirming before entering lets Wait() return before the batch is counted"
						}
						if ex.Call.Args[1].Strip(false) != e.Res {
							return false, "the executed batch is not the received one"
						}
					}
				}
				if p.Exit == px.ExitReturn {
					sq := p.All(calleeIs(execPkg + ".(*PeriodicalExecutor).shallQuit"))
					if len(sq) == 0 || p.Abs(sq[len(sq)-1].Res).K != px.True {
						return false, "the background loop ends without shallQuit having said so"
					}
					seenQuit++
				}
				return true, ""
			})
			if held && (seenCmd == 0 || seenQuit == 0) {
				c.R.Undecided(rule, execPkg+".backgroundFlush#reach", "commander case and quit path recognised", fmt.Sprintf("cmd=%d quit=%d", seenCmd, seenQuit))
			}
		}
	}
	rule = "C11.R4"
	if f := c.fn(rule, execPkg, "(*PeriodicalExecutor).shallQuit"); f != nil {
		ps := c.paths(rule, f, px.Config{})
		c.forall(rule, execPkg+".(*PeriodicalExecutor).shallQuit", "true only after establishing, under the lock, that in-flight is 0 — and guarded is cleared exactly then (so the next Add restarts the flusher)", f, ps, func(p *px.Path) (bool, string) {
			if p.Exit != px.ExitReturn {
				return true, ""
			}
			zero := 0
			for _, b := range p.All(px.KindIs(px.EvBranch)) {
				cnd := b.Cond.Strip(true)
				if cnd.Kind == px.KBinOp {
					x := cnd.X.Strip(true)
					if x.Kind == px.KCall && shortName(x.Call) == "sync/atomic.LoadInt32" && px.FieldAddrIs(x.Call.Args[0], "inflight", nil) {
						if k, ok := constInt(p, cnd.Y); ok && k == 0 {
							zero = triOf(ordHolds(cnd.Op, 0) == b.Taken && ordHolds(cnd.Op, 1) != b.Taken || (ordHolds(cnd.Op, 0) && b.Taken && cnd.Op.String() == "=="))
						}
					}
				}
			}
			cleared := false
			for _, s := range p.All(px.KindIs(px.EvStore)) {
				if px.FieldAddrIs(s.Addr, "guarded", nil) {
					if p.Abs(s.Val).K != px.False {
						return false, "guarded set to true while quitting"
					}
					cleared = true
				}
			}
			stop := p.Abs(p.Results[0]).K == px.True
			if stop && zero != 1 {
				return false, "the flusher may quit while a batch is in flight: the producer blocks on the confirmation forever and the batch is never executed"
			}
			// (round 7) a result that is not a constant on this path — `return atomic.LoadInt32(&pe.inflight) == 0` — may be
			// true: the decision to quit and the clearing of guarded must then have happened on this path, in one lock hold
			mayStop := p.Abs(p.Results[0]).K != px.False
			if mayStop && !stop && !cleared {
				return false, "the result may be true on a path that did not clear guarded: deciding to quit and clearing guarded are two steps, and a threshold Add between them sees guarded == true, takes its batch and waits on a hand-off nobody receives any more"
			}
			if stop != cleared && !(mayStop && cleared) {
				return false, fmt.Sprintf("quit=%v but guarded cleared=%v (the two must go together)", stop, cleared)
			}
			if cleared {
				// the in-flight reading that justifies the quit and the store are in one critical section
				w, readHeld, split := 0, false, false
				for i := range p.Events {
					e := &p.Events[i]
					switch {
					case lockOn("lock", "Lock")(e):
						w++
					case lockOn("lock", "Unlock")(e):
						w--
						if readHeld {
							split = true
						}
					case e.Kind == px.EvCall && shortName(e.Call) == "sync/atomic.LoadInt32" && px.FieldAddrIs(e.Call.Args[0], "inflight", nil):
						readHeld = w > 0
						split = false
					case e.Kind == px.EvStore && px.FieldAddrIs(e.Addr, "guarded", nil):
						if !readHeld || split {
							return false, "guarded is cleared outside the lock hold in which in-flight was read as 0"
						}
					}
				}
			}
			return true, ""
		})
	}
	c.R.Min("C11.R3", 3, "addAndCheck, Add, background loop")
	c.R.Min("C11.R4", 1, "shallQuit")
}

func c11containers(c *Ctx) {
	rule := "C11.R5"
	ep := c.P.Pkg(execPkg)
	if ep == nil {
		c.R.Undecided(rule, execPkg, "anchor resolves", "package not loaded")
		return
	}
	tcObj, _ := ep.Types.Scope().Lookup("TaskContainer").(*types.TypeName)
	if tcObj == nil {
		c.R.Undecided(rule, execPkg+".TaskContainer", "anchor resolves", "interface not found")
		return
	}
	iface := tcObj.Type().Underlying().(*types.Interface)
	n := 0
	for _, pk := range c.P.Pkgs {
		names := pk.Types.Scope().Names()
		sort.Strings(names)
		for _, name := range names {
			tn, ok := pk.Types.Scope().Lookup(name).(*types.TypeName)
			if !ok || types.IsInterface(tn.Type()) {
				continue
			}
			pt := types.NewPointer(tn.Type())
			if !types.Implements(pt, iface) && !types.Implements(tn.Type(), iface) {
				continue
			}
			named, ok := tn.Type().(*types.Named)
			if !ok {
				continue
			}
			var add, rem *ssa.Function
			for i := 0; i < named.NumMethods(); i++ {
				m := named.Method(i)
				if m.Name() == "Execute" {
					// R13 (round 8): what Execute leaves behind. A container field that Execute writes (a statement buffer
					// kept between batches, a counter) outlives the batch; unless it is emptied by a deferred call — which
					// also runs when the callback panics — the next batch starts on the leftovers of a failed one
					if ex := c.P.SSA.FuncValue(m); ex != nil && ex.Blocks != nil && len(ex.Params) > 0 {
						recv := ex.Params[0]
						written := map[string]string{}
						deferred := map[string]bool{}
						fieldOf := func(v ssa.Value) string {
							fa, ok := v.(*ssa.FieldAddr)
							if !ok || fa.X != ssa.Value(recv) {
								return ""
							}
							return fieldNameAt(fa.X.Type(), fa.Field)
						}
						for _, eb := range ex.Blocks {
							for _, ei := range eb.Instrs {
								switch x := ei.(type) {
								case *ssa.Store:
									if fn := fieldOf(x.Addr); fn != "" {
										written[fn] = c.P.Pos(x.Pos())
									}
								case *ssa.Defer:
									if len(x.Call.Args) > 0 {
										if fn := fieldOf(x.Call.Args[0]); fn != "" {
											deferred[fn] = true
										}
									}
								case *ssa.Call:
									if cal := x.Call.StaticCallee(); cal != nil && cal.Signature.Recv() != nil && len(x.Call.Args) > 0 {
										if fn := fieldOf(x.Call.Args[0]); fn != "" {
											if _, isPtr := cal.Signature.Recv().Type().(*types.Pointer); isPtr && !strings.HasPrefix(cal.Name(), "Reset") && !strings.HasPrefix(cal.Name(), "Len") && !strings.HasPrefix(cal.Name(), "String") && cal.Pkg != nil && cal.Pkg.Pkg.Path() != "sync" {
												written[fn] = c.P.Pos(x.Pos())
											}
										}
									}
								}
							}
						}
						var left []string
						for fn, at := range written {
							if !deferred[fn] {
								left = append(left, fmt.Sprintf("field %s is written at %s and not emptied by a deferred call", fn, at))
							}
						}
						sort.Strings(left)
						c.R.Check(len(left) == 0, "C11.R13", strings.TrimPrefix(pk.PkgPath, mod)+"."+name+".Execute#carry-over", "Execute leaves nothing of one batch in the container for the next: a container field it writes is emptied by a deferred call (which also runs when the callback panics)", c.P.Pos(ex.Pos()), strings.Join(left, "; "), left, len(written)+1)
					}
					// R9 (round 5): "a panicking callback loses only its own batch" — whatever the container holds while the
					// callback runs is released when the callback panics
					if ex := c.P.SSA.FuncValue(m); ex != nil && ex.Blocks != nil {
						bad, np := c.locksReleasedOnAllExits("C11.R9", ex)
						c.R.Check(len(bad) == 0, "C11.R9", strings.TrimPrefix(pk.PkgPath, mod)+"."+name+".Execute", "no mutex taken around the user callback stays held when the callback panics", c.P.Pos(ex.Pos()), strings.Join(bad, "; "), bad, np)
						// R11 (round 6): nor does content survive in an object that goes back to a pool
						pbad, gets := c.pooledObjectsClean([]*ssa.Function{ex})
						c.R.Check(len(pbad) == 0, "C11.R11", strings.TrimPrefix(pk.PkgPath, mod)+"."+name+".Execute#pooled", "every sync.Pool object used on the way through the callback is emptied when taken, or on every way back into the pool (not only when the callback returns normally)", c.P.Pos(ex.Pos()), fmt.Sprintf("%d pool.Get sites reachable; %s", gets, strings.Join(pbad, "; ")), pbad, gets+1)
					}
				}
				switch m.Name() {
				case "AddTask":
					add = c.P.SSA.FuncValue(m)
				case "RemoveAll":
					rem = c.P.SSA.FuncValue(m)
				}
			}
			if add == nil || rem == nil || add.Blocks == nil || rem.Blocks == nil {
				continue
			}
			n++
			cname := strings.TrimPrefix(pk.PkgPath, mod) + "." + name
			mutated := map[string]bool{}
			for _, b := range add.Blocks {
				for _, ins := range b.Instrs {
					if st, ok := ins.(*ssa.Store); ok {
						if fa, ok := st.Addr.(*ssa.FieldAddr); ok {
							if _, isParam := fa.X.(*ssa.Parameter); isParam {
								mutated[fieldNameOf(fa)] = true
							}
						}
					}
				}
			}
			ps := c.paths(rule, rem, px.Config{})
			c.forall(rule, cname, "RemoveAll returns what was accumulated and resets every field that AddTask mutates to a fresh zero value that does not share storage with the returned batch", rem, ps, func(p *px.Path) (bool, string) {
				if p.Exit != px.ExitReturn {
					return true, ""
				}
				reset := map[string]*px.Sym{}
				for _, s := range p.All(px.KindIs(px.EvStore)) {
					if b, fname, ok := s.Addr.FieldAddrOf(); ok && isParam(b, rem.Params[0]) {
						reset[fname] = s.Val
					}
				}
				var fields []string
				for f := range mutated {
					fields = append(fields, f)
				}
				sort.Strings(fields)
				for _, f := range fields {
					v, ok := reset[f]
					if !ok {
						return false, "field " + f + " (mutated by AddTask) is not reset: the next batch starts with leftovers of the previous one"
					}
					vs := v.Strip(true)
					fresh := px.IsNilConst(vs) || isZeroSym(vs) || vs.Kind == px.KMakeSlice || vs.Kind == px.KMakeMap
					if k, isc := constInt(p, vs); isc && k == 0 {
						fresh = true
					}
					if a := p.Abs(vs); a.K == px.ConstV {
						fresh = true
					}
					if !fresh {
						return false, "field " + f + " is reset to " + vs.Describe() + ", which is not a fresh value: the batch handed to the flusher shares its backing array with the live buffer, so tasks added while it executes overwrite it (lost and duplicated tasks)"
					}
					// the returned value carries the old content of the (collection) field
					isColl := false
					if stt, ok := named.Underlying().(*types.Struct); ok {
						for i := 0; i < stt.NumFields(); i++ {
							if stt.Field(i).Name() == f {
								switch stt.Field(i).Type().Underlying().(type) {
								case *types.Slice, *types.Map:
									isColl = true
								}
							}
						}
					}
					if isColl && !dependsOnFieldLoad(p, p.Results[0], f, rem.Params[0]) {
						return false, "the returned batch does not contain the accumulated " + f
					}
				}
				return true, ""
			})
		}
	}
	c.R.Extra["C11.R5_containers"] = n
	c.R.Min(rule, 5, "bulk, chunk, sqlx and mon dbInserter, stat.metricsContainer")
	c.R.Min("C11.R11", 5, "Execute of the five in-tree containers + the positive example")
	// the expected number of pool objects in the callbacks is zero: keep the tree's own pooled-buffer accessor as the
	// example the lint must recognise on every run (one Get, emptied when taken)
	if g := c.fn("C11.R11", "core/iox", "(*BufferPool).Get"); g != nil {
		pbad, gets := c.pooledObjectsClean([]*ssa.Function{g})
		c.R.Check(len(pbad) == 0 && gets == 1, "C11.R11", "core/iox.(*BufferPool).Get#example", "the lint recognises the tree's own pooled buffer: one sync.Pool.Get, Reset before any other use", posOf(c, g), fmt.Sprintf("%d Get sites; %s", gets, strings.Join(pbad, "; ")), pbad, 1)
	}
}

// dependsOnFieldLoad: s derives from a load of recv.field taken before any store to it.
func dependsOnFieldLoad(p *px.Path, s *px.Sym, field string, recv *ssa.Parameter) bool {
	found := false
	seen := map[*px.Sym]bool{}
	var rec func(x *px.Sym, d int)
	rec = func(x *px.Sym, d int) {
		if x == nil || seen[x] || d > 10 || found {
			return
		}
		seen[x] = true
		if px.IsFieldLoad(x, field, func(b *px.Sym) bool { return isParam(b, recv) }) {
			found = true
			return
		}
		rec(x.X, d+1)
		rec(x.Y, d+1)
		for _, o := range x.Ops {
			rec(o, d+1)
		}
		for _, o := range x.Elems {
			rec(o, d+1)
		}
		if x.Kind == px.KAlloc {
			for _, e := range p.All(px.KindIs(px.EvStore)) {
				if e.Addr == x || (e.Addr.Kind == px.KFieldAddr && e.Addr.X == x) {
					rec(e.Val, d+1)
				}
			}
		}
	}
	rec(s, 0)
	return found
}

func c11wrappers(c *Ctx) {
	rule := "C11.R7"
	sp := c.P.SSAPkg(execPkg)
	if sp == nil {
		return
	}
	n := 0
	for _, mem := range sortedMembers(sp) {
		t, ok := mem.(*ssa.Type)
		if !ok {
			continue
		}
		named, ok := t.Type().(*types.Named)
		if !ok {
			continue
		}
		st, ok := named.Underlying().(*types.Struct)
		if !ok || named.Obj().Name() == "PeriodicalExecutor" {
			continue
		}
		hasExec := false
		for i := 0; i < st.NumFields(); i++ {
			if st.Field(i).Name() == "executor" && namedStructOf(st.Field(i).Type()) == "PeriodicalExecutor" {
				hasExec = true
			}
		}
		if !hasExec {
			continue
		}
		for i := 0; i < named.NumMethods(); i++ {
			m := named.Method(i)
			if !nameIn(m.Name(), []string{"Add", "Flush", "Wait"}) {
				continue
			}
			f := c.P.SSA.FuncValue(m)
			if f == nil || f.Blocks == nil {
				continue
			}
			n++
			ps := c.paths(rule, f, px.Config{})
			want := m.Name()
			c.forall(rule, execPkg+".(*"+named.Obj().Name()+")."+m.Name(), "the wrapper forwards to the periodical executor's operation of the same name, exactly once", f, ps, func(p *px.Path) (bool, string) {
				var calls []string
				for _, e := range p.All(px.KindIs(px.EvCall)) {
					if e.Call.Recv != nil && px.IsFieldLoad(e.Call.Recv, "executor", nil) && e.Call.Obj() != nil {
						calls = append(calls, e.Call.Obj().Name())
					}
				}
				if p.Exit != px.ExitReturn {
					return true, ""
				}
				if len(calls) != 1 || calls[0] != want {
					// Add of the chunk executor may return an error before adding
					if want == "Add" && len(calls) == 0 && len(p.Results) == 1 && !px.IsNilConst(p.Results[0]) {
						return true, ""
					}
					return false, fmt.Sprintf("%s forwards to %v instead of executor.%s: e.g. a Wait that only flushes returns while a threshold batch is still executing in the background", want, calls, want)
				}
				return true, ""
			})
		}
	}
	c.R.Extra["C11.R7_wrapper_methods"] = n
	c.R.Min(rule, 6, "Add/Flush/Wait of the bulk and chunk executors (+ others)")
	// wrappers outside the package (sqlx and mon BulkInserter, stat.Metrics — found by their field of
	// type *PeriodicalExecutor): a Flush method flushes the executor itself, once, on every path, and
	// no call of executor.Add/Flush/Wait is tucked into a closure that something else decides whether
	// to run (a flush coalesced through a single flight returns to late callers without having flushed
	// what they added — seed r3-C11-3).
	rule = "C11.R7b"
	m := 0
	var bad []string
	direct := 0
	for _, pk := range c.P.Pkgs {
		rel := strings.TrimPrefix(pk.PkgPath, mod)
		if rel == execPkg || pk.Types == nil {
			continue
		}
		names := pk.Types.Scope().Names()
		for _, tn := range names {
			obj, ok := pk.Types.Scope().Lookup(tn).(*types.TypeName)
			if !ok {
				continue
			}
			named, ok := obj.Type().(*types.Named)
			if !ok {
				continue
			}
			st, ok := named.Underlying().(*types.Struct)
			if !ok {
				continue
			}
			field := ""
			for i := 0; i < st.NumFields(); i++ {
				if typeString(st.Field(i).Type()) == "*"+execPkg+".PeriodicalExecutor" {
					field = st.Field(i).Name()
				}
			}
			if field == "" {
				continue
			}
			for i := 0; i < named.NumMethods(); i++ {
				meth := named.Method(i)
				f := c.P.SSA.FuncValue(meth)
				if f == nil || f.Blocks == nil {
					continue
				}
				// (ii) executor operations are called from the method body itself
				walkWithClosures(f, func(g *ssa.Function) {
					for _, b := range g.Blocks {
						for _, ins := range b.Instrs {
							call, ok := ins.(ssa.CallInstruction)
							if !ok {
								continue
							}
							sc := call.Common().StaticCallee()
							if sc == nil || sc.Signature.Recv() == nil || typeString(sc.Signature.Recv().Type()) != "*"+execPkg+".PeriodicalExecutor" || !nameIn(sc.Name(), []string{"Add", "Flush", "Wait"}) {
								continue
							}
							direct++
							if g != f {
								bad = append(bad, fmt.Sprintf("%s: %s.(%s).%s calls executor.%s from inside a closure: whether and when it runs is decided by whatever the closure is handed to", c.P.Pos(ins.Pos()), rel, named.Obj().Name(), meth.Name(), sc.Name()))
							}
						}
					}
				})
				if meth.Name() != "Flush" {
					continue
				}
				m++
				ps := c.paths(rule, f, px.Config{})
				fld := field
				c.forall(rule, rel+".(*"+named.Obj().Name()+").Flush", "Flush flushes the periodical executor itself, exactly once on every path", f, ps, func(p *px.Path) (bool, string) {
					if p.Exit != px.ExitReturn {
						return true, ""
					}
					k := 0
					for _, e := range p.All(px.KindIs(px.EvCall)) {
						if e.Call.Recv != nil && px.IsFieldLoad(e.Call.Recv, fld, nil) && e.Call.Obj() != nil && e.Call.Obj().Name() == "Flush" && e.Fn == f {
							k++
						}
					}
					if k != 1 {
						return false, fmt.Sprintf("executor.Flush is called %d times by the method itself: a caller can return from Flush while the records it added are still in the container", k)
					}
					return true, ""
				})
			}
		}
	}
	sortStrings(bad)
	o := c.R.Check(len(bad) == 0 && direct >= 5, rule, "executor wrappers outside "+execPkg+"#direct", "every executor.Add/Flush/Wait of a type that wraps a *PeriodicalExecutor is called from the method body, not from a closure", "-", strings.Join(bad, "; "), bad, direct)
	o.Sites = direct
	c.R.Min(rule, 3, "sqlx and mon BulkInserter.Flush + the direct-call inventory")
}

// c11ticker (C11.R8): each background flusher drives its periodic flush with a ticker of its own.
// The goroutine stops the ticker when it quits after the idle rounds; a stopped ticker never fires
// again, so a ticker kept across goroutines (cached in a field) leaves every later flusher without
// ticks: tasks below the threshold are never executed until somebody flushes by hand (seed
// r3-C11-1). The value whose Stop is deferred — and whose channel the loop selects on — must come
// from a ticker constructor called by this goroutine.
func c11ticker(c *Ctx) {
	rule := "C11.R8"
	f := c.fn(rule, execPkg, "(*PeriodicalExecutor).backgroundFlush")
	if f == nil {
		return
	}
	var fresh func(v ssa.Value, in *ssa.Function, d int) (bool, string)
	fresh = func(v ssa.Value, in *ssa.Function, d int) (bool, string) {
		for _, def := range reachingDefs(v, in, 0) {
			call, ok := def.(*ssa.Call)
			if !ok {
				return false, describeDef(c, def)
			}
			sc := call.Call.StaticCallee()
			if sc == nil || sc.Blocks == nil || sc.Pkg == nil || sc.Pkg.Pkg.Path() != mod+execPkg {
				continue // a constructor: the injected newTicker, timex.NewTicker
			}
			if d >= 2 {
				return false, "result of " + sc.Name()
			}
			for _, b := range sc.Blocks {
				for _, ins := range b.Instrs {
					if ret, ok := ins.(*ssa.Return); ok {
						for _, r := range ret.Results {
							if ok, why := fresh(r, sc, d+1); !ok {
								return false, sc.Name() + " returns " + why
							}
						}
					}
				}
			}
		}
		return true, ""
	}
	n := 0
	var bad []string
	walkWithClosures(f, func(g *ssa.Function) {
		if g == f {
			return
		}
		for _, b := range g.Blocks {
			for _, ins := range b.Instrs {
				df, ok := ins.(*ssa.Defer)
				if !ok || !df.Call.IsInvoke() || df.Call.Method.Name() != "Stop" || !strings.HasSuffix(typeString(df.Call.Value.Type()), "timex.Ticker") {
					continue
				}
				n++
				if ok, why := fresh(df.Call.Value, g, 0); !ok {
					bad = append(bad, fmt.Sprintf("%s: the ticker this flusher stops when it quits is not created by it (%s): the next flusher waits on a ticker that has been stopped and never flushes periodically", c.P.Pos(df.Pos()), why))
				}
			}
		}
	})
	c.R.Check(len(bad) == 0 && n == 1, rule, execPkg+".(*PeriodicalExecutor).backgroundFlush$ticker", "the ticker stopped by a quitting flusher was created by that flusher (one ticker per goroutine)", posOf(c, f), strings.Join(bad, "; ")+map[bool]string{true: "", false: fmt.Sprintf(" (%d deferred Stop of a ticker found)", n)}[n == 1], bad, n)
}

// c11covered (R12, round 7): what Wait can see. "Wait returns only after the callbacks for all tasks added before it have
// returned" rests on an invariant: outside pe.lock's critical sections every accepted task is either still in the
// container (Wait's own Flush takes it) or belongs to a batch registered with the wait group (Wait waits for it). A
// batch therefore leaves the container (container.RemoveAll) only when it is already registered — enterExecution
// earlier on the path, as Flush does — or is registered before pe.lock is released. (Registering under the lock is
// ruled out by R1's lock order, so pre-registration is the only shape left.) A batch that is taken out under the lock
// and registered later by whoever receives it is invisible in between: a Wait that starts then returns while tasks whose
// Add had returned are still waiting to be handed over.
func c11covered(c *Ctx) {
	rule := "C11.R12"
	pk := c.P.Pkg(execPkg)
	if pk == nil {
		return
	}
	tn, _ := pk.Types.Scope().Lookup("PeriodicalExecutor").(*types.TypeName)
	if tn == nil {
		c.R.Undecided(rule, execPkg+".PeriodicalExecutor", "anchor resolves", "type missing")
		return
	}
	ms := types.NewMethodSet(types.NewPointer(tn.Type()))
	n := 0
	for i := 0; i < ms.Len(); i++ {
		fo, _ := ms.At(i).Obj().(*types.Func)
		f := c.P.FuncOf(fo)
		if f == nil || f.Blocks == nil {
			continue
		}
		isRemove := func(cc *ssa.CallCommon) bool { return cc.IsInvoke() && cc.Method.Name() == "RemoveAll" }
		removes := callsInBodyDeep(f, func(cc *ssa.CallCommon) bool {
			if isRemove(cc) {
				return true
			}
			// through a helper that is analysed in place
			if cal := cc.StaticCallee(); cal != nil && cal.Pkg == f.Pkg && !baselineFuncs[cal.String()] && cal.Blocks != nil {
				return callsInBodyDeep(cal, isRemove)
			}
			return false
		})
		if !removes {
			continue
		}
		if !fo.Exported() && !baselineFuncs[f.String()] {
			// a helper introduced after the pinned tree (e.g. the removal extracted from Flush): analysed in place at its
			// call sites, where the registration around it is visible
			continue
		}
		n++
		ps := c.paths(rule, f, px.Config{MayPanic: func(ci *px.CallInfo) bool { return false }})
		name := execPkg + ".(*PeriodicalExecutor)." + fo.Name() + "#batch-registered"
		c.forall(rule, name, "a batch leaves the container only when it is already registered with the wait group (enterExecution earlier on the path) or is registered before pe.lock is released — otherwise a Wait in between sees neither the tasks nor their batch", f, ps, func(p *px.Path) (bool, string) {
			registered := false
			for i := range p.Events {
				e := &p.Events[i]
				if e.Kind != px.EvCall || e.Call == nil {
					continue
				}
				if w := waitsForExecutions(e); w == "pe.enterExecution()" || w == "waitGroup.Add" {
					registered = true
					continue
				}
				if !(e.Call.Method != nil && e.Call.Method.Name() == "RemoveAll" && px.IsFieldLoad(e.Call.Recv, "container", nil)) {
					continue
				}
				if registered {
					continue
				}
				ok := false
				for j := i + 1; j < len(p.Events); j++ {
					e2 := &p.Events[j]
					if lockOn("lock", "Unlock")(e2) {
						break
					}
					if e2.Kind == px.EvCall && e2.Call != nil {
						if w := waitsForExecutions(e2); w == "pe.enterExecution()" || w == "waitGroup.Add" {
							ok = true
							break
						}
					}
				}
				if !ok {
					return false, "the batch removed at " + c.P.Pos(e.Pos) + " is not registered with the wait group when pe.lock is released: until its receiver registers it, Wait covers neither the tasks nor the batch"
				}
			}
			return true, ""
		})
	}
	c.R.Min(rule, 2, "Flush and addAndCheck take batches out of the container")
}

// callsInBodyDeep: callsInBody over f and the closures it contains.
func callsInBodyDeep(f *ssa.Function, pr func(cc *ssa.CallCommon) bool) bool {
	if callsInBody(f, pr) {
		return true
	}
	for _, a := range f.AnonFuncs {
		if callsInBodyDeep(a, pr) {
			return true
		}
	}
	return false
}
