package rules

import (
	"fmt"
	"go/token"
	"strings"

	"golang.org/x/tools/go/ssa"

	"gzverify/px"
)

// c18bind (R9, round 4): the gate is in front of *every* route that declares it. In rest.(*engine).bindRoute, on
// each path that registers the route (router.Handle), either the route group's jwt.enabled flag was seen false,
// or handler.Authorize was built and appended before — whichever chain the server uses (the built-in one or a
// user-supplied chain); and the group's signature verifier (the content-security gate) is applied exactly once.
// Placing the JWT middleware inside the builder of the built-in chain leaves servers created with
// rest.WithChain(...) without it: WithJwt routes answer unauthenticated requests (seed r4-C18-2).
func c18bind(c *Ctx) {
	rule := "C18.R9"
	f := c.fn(rule, "rest", "(*engine).bindRoute")
	if f == nil {
		return
	}
	// helpers of package rest that (transitively) build the Authorize middleware are analysed in place
	calls := map[*ssa.Function][]*ssa.Function{}
	direct := map[*ssa.Function]bool{}
	for _, g := range c.P.AllFuncs("rest") {
		walkWithClosures(g, func(h *ssa.Function) {
			for _, b := range h.Blocks {
				for _, ins := range b.Instrs {
					if call, ok := ins.(ssa.CallInstruction); ok {
						if sc := call.Common().StaticCallee(); sc != nil {
							calls[g] = append(calls[g], sc)
							if calleeName(call.Common()) == mod+"rest/handler.Authorize" {
								direct[g] = true
							}
						}
					}
				}
			}
		})
	}
	auth := map[*ssa.Function]bool{}
	for g := range direct {
		auth[g] = true
	}
	for changed := true; changed; {
		changed = false
		for g, cs := range calls {
			if auth[g] {
				continue
			}
			for _, h := range cs {
				if auth[h] {
					auth[g] = true
					changed = true
				}
			}
		}
	}
	var verP *ssa.Parameter
	for _, p := range f.Params {
		if strings.HasPrefix(typeString(p.Type()), "func(rest/chain.Chain)") {
			verP = p
		}
	}
	ps := c.paths(rule, f, px.Config{MaxPaths: 400000, MaxVisits: 2, MaxDepth: 6, Inline: func(ci *px.CallInfo, d int) bool {
		return ci.Static != nil && ci.Static != f && auth[ci.Static] && ci.Static.Pkg == f.Pkg
	}})
	authorize := calleeIs("rest/handler.Authorize")
	handle := px.Iface("Handle", nil)
	n := 0
	held := c.forall(rule, "rest.(*engine).bindRoute", "on every path that registers a route, the group's JWT flag was seen false or handler.Authorize was appended before the registration — for the built-in and for a user-supplied chain alike — and the group's signature verifier is applied exactly once", f, ps, func(p *px.Path) (bool, string) {
		h := p.First(handle)
		if h == nil {
			return true, ""
		}
		n++
		disabled := false
		for _, b := range p.All(px.KindIs(px.EvBranch)) {
			if b.Seq > h.Seq {
				break
			}
			cnd := b.Cond.Strip(false)
			neg := false
			for cnd != nil && cnd.Kind == px.KUnOp && cnd.Op == token.NOT {
				neg = !neg
				cnd = cnd.X.Strip(false)
			}
			if px.IsFieldLoad(cnd, "enabled", nil) && b.Taken == neg {
				disabled = true
			}
		}
		var au *px.Event
		for _, e := range p.All(authorize) {
			if e.Seq < h.Seq {
				au = e
			}
		}
		if !disabled && au == nil {
			return false, "a route is registered on a path that neither saw jwt.enabled false nor appended handler.Authorize (e.g. the server uses a chain supplied with rest.WithChain, and the JWT middleware is only added while building the built-in chain): requests without a token reach the handler"
		}
		if au != nil {
			// the middleware built must end up in the chain that is registered: it is handed to Append
			used := false
			for _, e := range p.All(px.KindIs(px.EvCall)) {
				if e.Seq > au.Seq && e.Seq < h.Seq && e.Call.Obj() != nil && e.Call.Obj().Name() == "Append" {
					for _, a := range e.Call.Args {
						if dependsOn(p, a, au.Res) {
							used = true
						}
						for _, el := range p.SliceElems(a) {
							if dependsOn(p, el, au.Res) {
								used = true
							}
						}
					}
				}
			}
			if !used {
				return false, "handler.Authorize is built but not appended to the chain that is registered"
			}
		}
		if verP != nil {
			k := 0
			for _, e := range p.All(px.KindIs(px.EvCall)) {
				if e.Seq < h.Seq && e.Call.IsDyn() && e.Call.FnSym != nil && isParam(e.Call.FnSym, verP) {
					k++
				}
			}
			if k != 1 {
				return false, fmt.Sprintf("the group's signature verifier is applied %d times before the route is registered (want once)", k)
			}
		}
		return true, ""
	})
	if held && n == 0 {
		c.R.Undecided(rule, "rest.(*engine).bindRoute#handle", "the registration call router.Handle is recognised", "no path reaches it")
	}
	if verP == nil {
		c.R.Undecided(rule, "rest.(*engine).bindRoute#verifier", "the signature-verifier parameter resolves", "no parameter of type func(chain.Chain) chain.Chain")
	}
}

// c18fullBody (R10, round 4): an accepted encrypted body is decrypted whole. decryptBody is entered only with a
// known positive Content-Length (the caller's guard), has already rejected lengths above the configured limit,
// and on that path reads exactly Content-Length bytes — or through a limit that derives from the configured
// limit or the length itself. A LimitReader with an unrelated package constant cuts bodies between that constant
// and a larger configured limit: base64 and ECB still decode at a block boundary, and the handler gets 400 or a
// silently truncated plaintext although the signature covered the whole body (seed r4-C18-3).
func c18fullBody(c *Ctx) {
	rule := "C18.R10"
	f := c.fn(rule, "rest/handler", "decryptBody")
	if f == nil {
		return
	}
	var limitP, reqP *ssa.Parameter
	for _, p := range f.Params {
		switch typeString(p.Type()) {
		case "int64":
			limitP = p
		case "*net/http.Request":
			reqP = p
		}
	}
	if limitP == nil || reqP == nil {
		c.R.Undecided(rule, "rest/handler.decryptBody", "anchor resolves", "parameters (limit int64, r *http.Request) not found")
		return
	}
	isCL := func(s *px.Sym) bool {
		return px.IsFieldLoad(s, "ContentLength", func(b *px.Sym) bool { return isParam(b, reqP) })
	}
	ps := c.paths(rule, f, px.Config{})
	reads := 0
	c.forall(rule, "rest/handler.decryptBody", "with a positive Content-Length the body is read in full: io.ReadFull into Content-Length bytes, or through a limit derived from the configured limit / the length — never through an unrelated constant", f, ps, func(p *px.Path) (bool, string) {
		// the caller only enters with ContentLength > 0: paths that established ContentLength <= 0 are unreachable
		for _, b := range p.All(px.KindIs(px.EvBranch)) {
			cnd := b.Cond.Strip(true)
			if cnd.Kind == px.KBinOp && isCL(cnd.X) {
				if z, ok := constInt(p, cnd.Y); ok && z == 0 {
					if (cnd.Op == token.GTR && !b.Taken) || (cnd.Op == token.LEQ && b.Taken) {
						return true, ""
					}
				}
			}
		}
		for _, e := range p.All(calleeIs("io.LimitReader")) {
			reads++
			lim := e.Call.Args[1]
			if !dependsOn(p, lim, p.ParamSym(limitP)) && !isCL(lim.Strip(true)) {
				return false, "the request body is read through io.LimitReader with a limit (" + lim.Describe() + ") that derives neither from the configured limit nor from Content-Length: a body the admission check accepted is cut there when the configured limit is larger"
			}
		}
		for _, e := range p.All(calleeIs("io.ReadFull")) {
			reads++
			_ = e
		}
		return true, ""
	})
	// the caller's guard
	if g := c.fn(rule, "rest/handler", "LimitCryptionHandler"); g != nil {
		cl := c.closure(rule, g, "serving closure", func(a *ssa.Function) bool {
			return callsInBody(a, func(cc *ssa.CallCommon) bool { return calleeName(cc) == mod+"rest/handler.decryptBody" })
		})
		if cl != nil {
			cps := c.paths(rule, cl, px.Config{})
			c.forall(rule, "rest/handler.LimitCryptionHandler$serve#guard", "decryptBody is entered only when Content-Length is positive", cl, cps, func(p *px.Path) (bool, string) {
				d := p.First(calleeIs("rest/handler.decryptBody"))
				if d == nil {
					return true, ""
				}
				for _, b := range p.All(px.KindIs(px.EvBranch)) {
					if b.Seq > d.Seq {
						break
					}
					cnd := b.Cond.Strip(true)
					if cnd.Kind == px.KBinOp && px.IsFieldLoad(cnd.X, "ContentLength", nil) {
						if z, ok := constInt(p, cnd.Y); ok && z == 0 && ((cnd.Op == token.LEQ && !b.Taken) || (cnd.Op == token.GTR && b.Taken)) {
							return true, ""
						}
					}
				}
				return false, "decryptBody is reached without Content-Length having been found positive"
			})
		}
	}
	c.R.Min(rule, 2, "decryptBody, caller guard")
}

// c18cipherInput (R7b, round 5): an undecodable body is answered with an error, never with a crash or with garbage.
// (i) EcbDecrypt hands its buffer to pkcs5Unpadding only after it established that the ciphertext is a whole number
// of blocks (the BlockMode interface has no error result: CryptBlocks just logs and leaves the output zeroed, and the
// unpadding then accepts the zeros — the handler would read NUL bytes); (ii) pkcs5Unpadding reads src[len-1] only
// after it established that src is not empty (a body of "\n" decodes to zero bytes and indexes src[-1]: a panic
// instead of the 400).
func c18cipherInput(c *Ctx) {
	rule := "C18.R7"
	pkg := "core/codec"
	lenOf := func(f *ssa.Function, idx int) func(s *px.Sym) bool {
		return func(s *px.Sym) bool { return isLenOf(s, func(x *px.Sym) bool { return isParam(x, f.Params[idx]) }) }
	}
	mentions := func(s *px.Sym, pred func(*px.Sym) bool) bool {
		var rec func(s *px.Sym, d int) bool
		rec = func(s *px.Sym, d int) bool {
			if s == nil || d > 8 {
				return false
			}
			if pred(s) {
				return true
			}
			return rec(s.X, d+1) || rec(s.Y, d+1)
		}
		return rec(s, 0)
	}
	if f := c.fn(rule, pkg, "EcbDecrypt"); f != nil {
		ps := c.paths(rule, f, px.Config{})
		isLen := lenOf(f, 1)
		c.forall(rule, pkg+".EcbDecrypt#whole-blocks", "the ciphertext is unpadded only after its length was found to be a multiple of the block size (otherwise an error is returned)", f, ps, func(p *px.Path) (bool, string) {
			un := p.First(calleeIs(pkg + ".pkcs5Unpadding"))
			if un == nil {
				return true, ""
			}
			for _, b := range p.All(px.KindIs(px.EvBranch)) {
				if b.Seq > un.Seq {
					break
				}
				cnd := b.Cond.Strip(true)
				if cnd.Kind == px.KBinOp && mentions(cnd, func(s *px.Sym) bool {
					s = s.Strip(true)
					return s.Kind == px.KBinOp && s.Op == token.REM && isLen(s.X)
				}) {
					return true, ""
				}
			}
			return false, "EcbDecrypt unpads its buffer without having tested len(src) % blockSize: for a ciphertext that is not a whole number of blocks CryptBlocks only logs and leaves the buffer zeroed, the unpadding accepts the zeros, and the caller receives NUL bytes as the plaintext instead of an error"
		})
	}
	if f := c.fn(rule, pkg, "pkcs5Unpadding"); f != nil {
		ps := c.paths(rule, f, px.Config{})
		isLen := lenOf(f, 0)
		c.forall(rule, pkg+".pkcs5Unpadding#non-empty", "the last byte is read only after the input was found non-empty", f, ps, func(p *px.Path) (bool, string) {
			var rd *px.Event
			for i := range p.Events {
				e := &p.Events[i]
				if e.Kind == px.EvLoad && e.Addr != nil && e.Addr.Kind == px.KIndexAddr && isParam(e.Addr.X, f.Params[0]) {
					rd = e
					break
				}
			}
			if rd == nil {
				// the engine records loads lazily: fall back to any branch/return depending on an element of src
				for i := range p.Events {
					e := &p.Events[i]
					if e.Kind == px.EvBranch && mentions(e.Cond, func(s *px.Sym) bool {
						return s.Kind == px.KLoad && s.X != nil && s.X.Kind == px.KIndexAddr && isParam(s.X.X, f.Params[0])
					}) {
						rd = e
						break
					}
				}
			}
			if rd == nil {
				return true, ""
			}
			for _, b := range p.All(px.KindIs(px.EvBranch)) {
				if b.Seq >= rd.Seq {
					break
				}
				cnd := b.Cond.Strip(true)
				if cnd.Kind == px.KBinOp && (isLen(cnd.X) || isLen(cnd.Y)) {
					if _, ok := constInt(p, cnd.Y); ok {
						return true, ""
					}
					if _, ok := constInt(p, cnd.X); ok {
						return true, ""
					}
				}
			}
			return false, "src[len(src)-1] is read without len(src) having been compared with a constant first: an empty input (a body of \"\\n\" base64-decodes to zero bytes) indexes src[-1] and panics"
		})
	}
}
