package rules

import (
	"fmt"
	"go/types"
	"sort"
	"strings"

	"golang.org/x/tools/go/ssa"
)

// Memoisation soundness (round 4, shared lint).
//
// A package-level map used as a memo table is sound only if the key determines everything the memoised
// computation depends on: two calls that agree on the key but differ in another input of the computation
// would otherwise share one entry, and which of the two results is served depends on which call came first
// (a history-dependent verdict no single test sees). The lint finds, in each function that stores into such a
// map, the parameters the stored value depends on — by data flow, and by the branch conditions that select
// between alternative definitions of the value — and demands that the key depends on all of them.

type rootSet map[string]bool

func (r rootSet) list() []string {
	var out []string
	for k := range r {
		out = append(out, k)
	}
	sort.Strings(out)
	return out
}

type memoSlicer struct {
	f     *ssa.Function
	seen  map[ssa.Value]bool
	roots rootSet
	table *ssa.Global // loads of / lookups in the memo table itself are not inputs
}

func (m *memoSlicer) dominates(a, b *ssa.BasicBlock) bool { return a.Dominates(b) }

func reaches(from, to *ssa.BasicBlock) bool {
	seen := map[*ssa.BasicBlock]bool{}
	var rec func(b *ssa.BasicBlock) bool
	rec = func(b *ssa.BasicBlock) bool {
		if b == to {
			return true
		}
		if seen[b] {
			return false
		}
		seen[b] = true
		for _, s := range b.Succs {
			if rec(s) {
				return true
			}
		}
		return false
	}
	for _, s := range from.Succs {
		if rec(s) {
			return true
		}
	}
	return false
}

func commonDom(bs []*ssa.BasicBlock) *ssa.BasicBlock {
	if len(bs) == 0 {
		return nil
	}
	d := bs[0]
	for _, b := range bs[1:] {
		for d != nil && !d.Dominates(b) {
			d = d.Idom()
		}
	}
	return d
}

// selectors adds the conditions of the branches lying between the common dominator of the defining blocks and
// the merge block: they select which definition reaches the merge.
func (m *memoSlicer) selectors(defs []*ssa.BasicBlock, merge *ssa.BasicBlock) {
	d := commonDom(append(append([]*ssa.BasicBlock{}, defs...), merge))
	if d == nil {
		return
	}
	for _, x := range m.f.Blocks {
		if x == merge || !d.Dominates(x) || len(x.Instrs) == 0 {
			continue
		}
		iff, ok := x.Instrs[len(x.Instrs)-1].(*ssa.If)
		if !ok || !reaches(x, merge) {
			continue
		}
		// a branch one of whose arms cannot reach the merge does not select between definitions that arrive there
		if !(x.Succs[0] == merge || reaches(x.Succs[0], merge)) || !(x.Succs[1] == merge || reaches(x.Succs[1], merge)) {
			continue
		}
		m.walk(iff.Cond)
	}
}

func (m *memoSlicer) walk(v ssa.Value) {
	if v == nil || m.seen[v] {
		return
	}
	m.seen[v] = true
	switch x := v.(type) {
	case *ssa.Parameter:
		m.roots[x.Name()] = true
	case *ssa.FreeVar:
		m.roots["captured "+x.Name()] = true
	case *ssa.Const, *ssa.Function, *ssa.Builtin:
	case *ssa.Global:
	case *ssa.Phi:
		var defs []*ssa.BasicBlock
		for i, e := range x.Edges {
			m.walk(e)
			defs = append(defs, x.Block().Preds[i])
		}
		m.selectors(defs, x.Block())
	case *ssa.Alloc:
		// everything stored into the cell (or into its fields/elements), and every call the cell's address is handed to
		var defs []*ssa.BasicBlock
		var visit func(addr ssa.Value, d int)
		visit = func(addr ssa.Value, d int) {
			if d > 4 {
				return
			}
			for _, r := range *addr.Referrers() {
				switch u := r.(type) {
				case *ssa.Store:
					if u.Addr == addr {
						m.walk(u.Val)
						defs = append(defs, u.Block())
					}
				case *ssa.FieldAddr:
					visit(u, d+1)
				case *ssa.IndexAddr:
					visit(u, d+1)
				case ssa.CallInstruction:
					for _, a := range u.Common().Args {
						if a == addr {
							for _, o := range u.Common().Args {
								if o != addr {
									m.walk(o)
								}
							}
							if !u.Common().IsInvoke() {
								m.walk(u.Common().Value)
							}
							defs = append(defs, u.Block())
						}
					}
				}
			}
		}
		visit(x, 0)
		if len(defs) > 1 {
			// the merge is wherever the cell is read; use every reading block
			for _, r := range *x.Referrers() {
				if u, ok := r.(*ssa.UnOp); ok && m.seen[u] {
					m.selectors(defs, u.Block())
				}
			}
		}
	case *ssa.UnOp:
		m.walk(x.X)
	case *ssa.Lookup:
		if u, ok := x.X.(*ssa.UnOp); ok && u.X == m.table {
			m.walk(x.Index) // a hit in the table itself depends on the key it was looked up with
			return
		}
		m.walk(x.X)
		m.walk(x.Index)
	case ssa.CallInstruction:
		cc := x.Common()
		if !cc.IsInvoke() {
			m.walk(cc.Value)
		} else {
			m.walk(cc.Value)
		}
		for _, a := range cc.Args {
			m.walk(a)
		}
	case *ssa.MakeClosure:
		for _, b := range x.Bindings {
			m.walk(b)
		}
	default:
		if ins, ok := v.(ssa.Instruction); ok {
			for _, op := range ins.Operands(nil) {
				if *op != nil {
					m.walk(*op)
				}
			}
		}
	}
}

func paramRootsOf(f *ssa.Function, table *ssa.Global, v ssa.Value) rootSet {
	m := &memoSlicer{f: f, seen: map[ssa.Value]bool{}, roots: rootSet{}, table: table}
	m.walk(v)
	return m.roots
}

// memoKeysDetermine checks every package-level map of pkg that some function both reads and fills.
func (c *Ctx) memoKeysDetermine(rule, pkg string, minTables int) {
	sp := c.P.SSAPkg(pkg)
	if sp == nil {
		c.R.Undecided(rule, pkg, "package loads", "no SSA package")
		return
	}
	tables := 0
	for _, f := range c.P.AllFuncs(pkg) {
		if f.Parent() != nil {
			continue
		}
		type upd struct {
			g   *ssa.Global
			ins *ssa.MapUpdate
		}
		var ups []upd
		lookups := map[*ssa.Global][]*ssa.Lookup{}
		for _, b := range f.Blocks {
			for _, ins := range b.Instrs {
				switch x := ins.(type) {
				case *ssa.MapUpdate:
					if u, ok := x.Map.(*ssa.UnOp); ok {
						if g, ok := u.X.(*ssa.Global); ok && g.Pkg == sp {
							ups = append(ups, upd{g, x})
						}
					}
				case *ssa.Lookup:
					if u, ok := x.X.(*ssa.UnOp); ok {
						if g, ok := u.X.(*ssa.Global); ok && g.Pkg == sp {
							lookups[g] = append(lookups[g], x)
						}
					}
				}
			}
		}
		for _, u := range ups {
			if len(lookups[u.g]) == 0 {
				continue // filled here but read elsewhere: a registry, not a memo table of this function
			}
			if _, ok := u.g.Type().(*types.Pointer).Elem().Underlying().(*types.Map); !ok {
				continue
			}
			tables++
			keyRoots := paramRootsOf(f, u.g, u.ins.Key)
			valRoots := paramRootsOf(f, u.g, u.ins.Value)
			var missing []string
			for _, r := range valRoots.list() {
				if !keyRoots[r] {
					missing = append(missing, r)
				}
			}
			construct := funcDisplay(f) + "#" + u.g.Name()
			detail := ""
			if len(missing) > 0 {
				detail = fmt.Sprintf("the value stored in %s depends on %v, the key only on %v: two calls that differ in %s but agree on the key share one entry, and whichever ran first decides what the other gets", u.g.Name(), valRoots.list(), keyRoots.list(), strings.Join(missing, ", "))
			}
			// lookups use a key with the same dependencies
			for _, l := range lookups[u.g] {
				lr := paramRootsOf(f, u.g, l.Index)
				if strings.Join(lr.list(), ",") != strings.Join(keyRoots.list(), ",") {
					if detail != "" {
						detail += "; "
					}
					detail += fmt.Sprintf("the table is read with a key depending on %v but filled with one depending on %v", lr.list(), keyRoots.list())
					missing = append(missing, "lookup")
				}
			}
			c.R.Check(len(missing) == 0, rule, construct, "the key of a memo table determines every input of the memoised computation (data flow and the branch conditions that choose between alternative results)", c.P.Pos(u.ins.Pos()), detail, nil, 1+len(lookups[u.g]))
		}
	}
	if tables < minTables {
		c.R.Undecided(rule, pkg+"#memo-tables", "the package's memo tables are recognised", fmt.Sprintf("%d found, expected at least %d", tables, minTables))
	}
}
