package rules

import (
	"fmt"
	"go/ast"
	"path/filepath"
	"strings"

	"gzverify/luax"
	"gzverify/px"
)

// scriptOf resolves a package-level `X = redis.NewScript(Y)` with `//go:embed f.lua` on Y
// to the parsed script (the embed target is followed, so a renamed file is still found).
func (c *Ctx) scriptOf(rule, pkg, scriptVar string) (*luax.Script, string) {
	pk := c.P.Pkg(pkg)
	if pk == nil {
		c.R.Undecided(rule, pkg, "anchor resolves", "package not loaded")
		return nil, ""
	}
	srcVar := ""
	embeds := map[string]string{} // var → file
	for _, f := range pk.Syntax {
		for _, d := range f.Decls {
			gd, ok := d.(*ast.GenDecl)
			if !ok {
				continue
			}
			for _, sp := range gd.Specs {
				vs, ok := sp.(*ast.ValueSpec)
				if !ok {
					continue
				}
				doc := vs.Doc
				if doc == nil {
					doc = gd.Doc
				}
				if doc != nil {
					for _, cm := range doc.List {
						if strings.HasPrefix(cm.Text, "//go:embed ") && len(vs.Names) == 1 {
							embeds[vs.Names[0].Name] = strings.TrimSpace(strings.TrimPrefix(cm.Text, "//go:embed "))
						}
					}
				}
				for i, n := range vs.Names {
					if n.Name == scriptVar && i < len(vs.Values) {
						if call, ok := vs.Values[i].(*ast.CallExpr); ok && len(call.Args) == 1 {
							if id, ok := call.Args[0].(*ast.Ident); ok {
								srcVar = id.Name
							}
						}
					}
				}
			}
		}
	}
	file, ok := embeds[srcVar]
	if srcVar == "" || !ok {
		c.R.Undecided(rule, pkg+"."+scriptVar, "anchor resolves", "script variable or its //go:embed source not found")
		return nil, ""
	}
	if len(pk.GoFiles) == 0 {
		c.R.Undecided(rule, pkg+"."+scriptVar, "anchor resolves", "package has no files")
		return nil, ""
	}
	path := filepath.Join(filepath.Dir(pk.GoFiles[0]), file)
	b, err := c.P.ReadFile(path)
	if err != nil {
		c.R.Undecided(rule, pkg+"."+scriptVar, "anchor resolves", err.Error())
		return nil, ""
	}
	rel, _ := filepath.Rel(c.P.Dir, path)
	sc, err := luax.Parse(rel, string(b))
	if err != nil {
		c.R.Undecided(rule, rel, "the script parses and its paths are enumerable", err.Error())
		return nil, rel
	}
	c.R.Funcs[rel] = true
	return sc, rel
}

// luaForall checks pred on every path of the script.
func (c *Ctx) luaForall(rule, construct, text string, sc *luax.Script, pred func(p *luax.Path) (bool, string)) bool {
	if sc == nil {
		return false
	}
	for _, p := range sc.Paths {
		if ok, why := pred(p); !ok {
			o := c.R.Fail(rule, construct, text, sc.Name, why, p.Describe())
			o.Paths = len(sc.Paths)
			return false
		}
	}
	c.R.Hold(rule, construct, text, len(sc.Paths))
	return true
}

// scriptRunArgs extracts, from a ScriptRunCtx call event, the key syms and the argument syms
// (the variadic `args` may be one []string / []any literal or individual values).
func scriptRunArgs(p *px.Path, e *px.Event) (keys, args []*px.Sym, ok bool) {
	a := e.Call.Args
	if len(a) < 5 {
		return nil, nil, false
	}
	keys = p.SliceElems(a[3])
	va := p.SliceElems(a[4])
	if keys == nil || va == nil {
		return nil, nil, false
	}
	if len(va) == 1 {
		if inner := p.SliceElems(va[0]); inner != nil {
			return keys, inner, true
		}
	}
	return keys, va, true
}

func luaIsKeys(v *luax.V, i int) bool { v = v.Strip(); return v != nil && v.Kind == "keys" && v.N == i }
func luaIsArgv(v *luax.V, i int) bool { v = v.Strip(); return v != nil && v.Kind == "argv" && v.N == i }
func luaIsNum(v *luax.V, s string) bool {
	v = v.Strip()
	return v != nil && v.Kind == "num" && v.S == s
}
func luaIsStr(v *luax.V, s string) bool {
	return v != nil && v.Kind == "str" && strings.EqualFold(v.S, s)
}

func fmtPaths(sc *luax.Script) string {
	return fmt.Sprintf("%d paths, %d redis.call sites, KEYS[1..%d], ARGV[1..%d]", len(sc.Paths), sc.Calls, sc.MaxKeys, sc.MaxArgv)
}
