package rules

import (
	"fmt"
	"go/token"
	"go/types"
	"strings"

	"golang.org/x/tools/go/ssa"

	"gzverify/px"
)

// c16ring (C16.R8): "Ring keeps the last n elements in order".
//
//	Add:  the element is stored at elements[index % len(elements)] and index advances by one; if the
//	      method also rebases index (overflow guard) it subtracts exactly len(elements) — same residue —
//	      and only when index has reached 2·len(elements), so index stays ≥ len(elements) ("wrapped").
//	Take: size/start are chosen together: index > len ⇒ (len, index % len), else (index, 0); the copy
//	      loop counts i from 0 to size−1 and reads elements[(start+i) % len]: oldest first.
//
// What is not decided: that these closed forms implement "last n in order" — that is the reading of
// the code the rule encodes (oldest element sits at index % len once wrapped).
func c16ring(c *Ctx) {
	rule := "C16.R8"
	isElems := func(v ssa.Value) bool {
		u, ok := v.(*ssa.UnOp)
		if !ok || u.Op != token.MUL {
			return false
		}
		fa, ok := u.X.(*ssa.FieldAddr)
		return ok && fieldNameOf(fa) == "elements"
	}
	isIndexLoad := func(v ssa.Value) bool {
		u, ok := v.(*ssa.UnOp)
		if !ok || u.Op != token.MUL {
			return false
		}
		fa, ok := u.X.(*ssa.FieldAddr)
		return ok && fieldNameOf(fa) == "index"
	}
	isCap := func(v ssa.Value) bool {
		call, ok := v.(*ssa.Call)
		if !ok {
			return false
		}
		b, ok := call.Call.Value.(*ssa.Builtin)
		return ok && b.Name() == "len" && len(call.Call.Args) == 1 && isElems(call.Call.Args[0])
	}
	isZero := func(v ssa.Value) bool {
		k, ok := v.(*ssa.Const)
		return ok && k.Value != nil && k.Int64() == 0
	}
	// ---- Add
	if f := c.fn(rule, colPkg, "(*Ring).Add"); f != nil {
		leaf := func(s *px.Sym) string {
			s = s.Strip(true)
			if isLenOf(s, func(x *px.Sym) bool { return px.IsFieldLoad(x, "elements", nil) }) {
				return "cap"
			}
			if px.IsFieldLoad(s, "index", nil) {
				return "index"
			}
			return ""
		}
		ps := c.paths(rule, f, px.Config{})
		c.forall(rule, colPkg+".(*Ring).Add", "the element is stored at elements[index % len(elements)], index advances by one, and an overflow rebase subtracts exactly len(elements) once index ≥ 2·len(elements)", f, ps, func(p *px.Path) (bool, string) {
			if p.Exit != px.ExitReturn {
				return true, ""
			}
			var idxStores []*px.Event
			stored := false
			for i := range p.Events {
				e := &p.Events[i]
				if e.Kind != px.EvStore {
					continue
				}
				if px.FieldAddrIs(e.Addr, "index", nil) {
					idxStores = append(idxStores, e)
					continue
				}
				if e.Addr.Kind == px.KIndexAddr && e.Addr.X != nil && px.IsFieldLoad(e.Addr.X, "elements", nil) {
					if len(idxStores) > 0 {
						return false, "the element is stored after the index was advanced"
					}
					if !isParam(e.Val.Strip(false), f.Params[1]) {
						return false, "something other than the added value is stored"
					}
					if e.Addr.Y == nil {
						return false, "the element is stored at a constant position"
					}
					if got := anf(p, e.Addr.Y, leaf).String(); got != "1·(1·index)%(1·cap)" {
						return false, "the element is stored at " + got + ", want index % len(elements)"
					}
					stored = true
				}
			}
			if !stored {
				return false, "no element is stored"
			}
			if len(idxStores) == 0 {
				return false, "the index does not advance"
			}
			if got := anf(p, idxStores[0].Val, leaf).String(); got != "1 + 1·index" {
				return false, "index becomes " + got + ", want index + 1"
			}
			if len(idxStores) > 2 {
				return false, "index is rewritten more than once after advancing"
			}
			if len(idxStores) == 2 {
				if got := anf(p, idxStores[1].Val, leaf).String(); got != "1 + -1·cap + 1·index" {
					return false, "the overflow rebase sets index to " + got + ", want index − len(elements) (same position, still ≥ len)"
				}
				// guarded by index ≥ 2·cap
				ok := false
				for _, b := range p.All(px.KindIs(px.EvBranch)) {
					cnd := b.Cond.Strip(true)
					if cnd.Kind != px.KBinOp || !b.Taken {
						continue
					}
					if cnd.Op != token.GEQ && cnd.Op != token.GTR {
						continue
					}
					thr := cnd.Y.Strip(true)
					twoCap := false
					if thr.Kind == px.KBinOp && thr.Op == token.SHL && leaf(thr.X) == "cap" {
						if k, ok2 := constInt(p, thr.Y); ok2 && k >= 1 {
							twoCap = true
						}
					} else if s := anf(p, thr, leaf).String(); s == "2·cap" {
						twoCap = true
					}
					if twoCap && anf(p, cnd.X, leaf).String() == "1 + 1·index" {
						ok = true
					}
				}
				if !ok {
					return false, "the overflow rebase is not guarded by index ≥ 2·len(elements): a rebase below that makes a wrapped ring look unwrapped to Take"
				}
			}
			return true, ""
		})
		lockGuardFn(c, rule, colPkg+".(*Ring).Add#lock", f, "lock", []string{"elements", "index"}, false, true, nil, false)
	}
	// ---- Take (SSA shape)
	f := c.fn(rule, colPkg, "(*Ring).Take")
	if f == nil {
		return
	}
	lockGuardFn(c, rule, colPkg+".(*Ring).Take#lock", f, "lock", []string{"elements", "index"}, false, false, nil, false)
	var bad []string
	reads := 0
	for _, b := range f.Blocks {
		for _, ins := range b.Instrs {
			ia, ok := ins.(*ssa.IndexAddr)
			if !ok || !isElems(ia.X) {
				continue
			}
			reads++
			rem, ok := ia.Index.(*ssa.BinOp)
			if !ok || rem.Op != token.REM || !isCap(rem.Y) {
				bad = append(bad, c.P.Pos(ia.Pos())+": the ring is not read at (start+i) % len(elements)")
				continue
			}
			add, ok := rem.X.(*ssa.BinOp)
			if !ok || add.Op != token.ADD {
				bad = append(bad, c.P.Pos(ia.Pos())+": the read position is not start + i")
				continue
			}
			// which operand is the loop counter
			var sizeV ssa.Value
			isBound := func(v ssa.Value) bool {
				if isCap(v) {
					return true
				}
				if ph, ok := v.(*ssa.Phi); ok && len(ph.Edges) == 2 {
					sizeV = ph
					return true
				}
				return false
			}
			var start ssa.Value
			if ok1, _ := fullRangeIndex(add.Y, isBound); ok1 {
				start = add.X
			} else if ok2, why := fullRangeIndex(add.X, isBound); ok2 {
				start = add.Y
			} else {
				bad = append(bad, c.P.Pos(ia.Pos())+": the copy loop does not count i from 0 to size−1: "+why)
				continue
			}
			sp, ok1 := start.(*ssa.Phi)
			zp, ok2 := sizeV.(*ssa.Phi)
			if !ok1 || !ok2 || len(sp.Edges) != 2 || sp.Block() != zp.Block() {
				bad = append(bad, c.P.Pos(ia.Pos())+": start and size are not chosen together by one two-way decision")
				continue
			}
			// per predecessor: (start, size) = (index % cap, cap) or (0, index)
			wrappedPred := -1
			for k := 0; k < 2; k++ {
				se, ze := sp.Edges[k], zp.Edges[k]
				if r2, ok := se.(*ssa.BinOp); ok && r2.Op == token.REM && isIndexLoad(r2.X) && isCap(r2.Y) && isCap(ze) {
					wrappedPred = k
				} else if isZero(se) && isIndexLoad(ze) {
					// unwrapped
				} else {
					bad = append(bad, fmt.Sprintf("%s: on one branch (start, size) = (%s, %s); want (index %% len, len) when wrapped and (0, index) otherwise", c.P.Pos(ia.Pos()), se, ze))
				}
			}
			if wrappedPred < 0 {
				if len(bad) == 0 {
					bad = append(bad, c.P.Pos(ia.Pos())+": no branch takes the wrapped ring from its oldest element index % len")
				}
				continue
			}
			// the decision: index > cap (or cap < index) leads to the wrapped predecessor
			dec := sp.Block().Preds[wrappedPred]
			var ifb *ssa.BasicBlock
			var onTrue bool
			for d := dec; d != nil; d = d.Idom() {
				idom := d.Idom()
				if idom == nil {
					break
				}
				if ifi, ok := idom.Instrs[len(idom.Instrs)-1].(*ssa.If); ok && len(d.Preds) == 1 {
					_ = ifi
					ifb, onTrue = idom, idom.Succs[0] == d
					break
				}
			}
			// the wrapped predecessor may be the if block's successor itself
			if ifb == nil {
				bad = append(bad, c.P.Pos(ia.Pos())+": the wrapped/unwrapped decision is not recognised")
				continue
			}
			cmp, ok := ifb.Instrs[len(ifb.Instrs)-1].(*ssa.If).Cond.(*ssa.BinOp)
			if !ok {
				bad = append(bad, c.P.Pos(ia.Pos())+": the wrapped/unwrapped decision is not a comparison")
				continue
			}
			op := cmp.Op
			x, y := cmp.X, cmp.Y
			if isCap(x) && isIndexLoad(y) {
				x, y = y, x
				op = map[token.Token]token.Token{token.LSS: token.GTR, token.GTR: token.LSS, token.LEQ: token.GEQ, token.GEQ: token.LEQ}[op]
			}
			if !isIndexLoad(x) || !isCap(y) {
				bad = append(bad, c.P.Pos(cmp.Pos())+": the wrapped/unwrapped decision does not compare index with len(elements)")
				continue
			}
			// wrapped ⇔ index > cap; index ≥ cap is equivalent for the result (index == cap: start 0, size cap either way)
			okDec := (onTrue && (op == token.GTR || op == token.GEQ)) || (!onTrue && (op == token.LEQ || op == token.LSS))
			if !okDec {
				bad = append(bad, fmt.Sprintf("%s: the ring is treated as wrapped when `index %s len(elements)` is %v", c.P.Pos(cmp.Pos()), op, onTrue))
			}
			// the result has `size` elements
			okLen := false
			for _, b2 := range f.Blocks {
				for _, i2 := range b2.Instrs {
					if ms, ok := i2.(*ssa.MakeSlice); ok && ms.Len == ssa.Value(zp) {
						okLen = true
					}
				}
			}
			if !okLen {
				bad = append(bad, c.P.Pos(ia.Pos())+": the result slice is not made with `size` elements")
			}
		}
	}
	c.R.Check(len(bad) == 0 && reads == 1, rule, colPkg+".(*Ring).Take", "Take returns index (unwrapped) or len(elements) (wrapped) elements, reading elements[(start+i) % len] for i = 0…size−1 with start = index % len when wrapped and 0 otherwise — oldest first", posOf(c, f), strings.Join(bad, "; ")+map[bool]string{true: "", false: fmt.Sprintf(" (%d reads of the ring found)", reads)}[reads == 1], bad, reads)
	_ = types.Typ
}
